#!/bin/bash
# Build the framework from files on disk only (offline).
set -e
cd "$(dirname "$0")"
export GOFLAGS=-mod=mod GOPROXY=off GOSUMDB=off GOTOOLCHAIN=local
mkdir -p build evidence
(cd extract && go run . -repo /repo -out ../lean/Esc/Gen)
(cd lean && lake build Esc escmodel EscProofs)
cp /repo/go.sum harness/go.sum
(cd harness && go build -tags verif -o ../build/harness .)
echo setup done
