#!/bin/bash
# Build the framework from files on disk only (offline). Every check rebuilds what it needs from /repo's working tree and deals
# with a tree on which a regenerated definition, a proof module or the harness no longer builds (that is a verdict, not a set-up
# failure): this script therefore only fails when the tools themselves are missing.
cd "$(dirname "$0")"
export GOFLAGS=-mod=mod GOPROXY=off GOSUMDB=off GOTOOLCHAIN=local
REPO=${VERIF_REPO:-/repo}
mkdir -p build evidence
(cd extract && go run . -repo $REPO -out ../lean/Esc/Gen) || echo "setup: the extractor stopped on this tree (the checks report it)"
if ! (cd lean && lake build Esc escmodel); then
  # the model imports the translated validator and key table: fall back to the translation of the pinned tree, as the checks do
  cp extract/baseline/Validate.lean lean/Esc/Gen/Validate.lean
  (cd lean && lake build Esc escmodel) || { echo "setup: the model does not build"; exit 1; }
fi
(cd lean && lake build EscProofs) || echo "setup: some proof modules do not check against the definitions regenerated from this tree (the checks report it)"
cp $REPO/go.sum build/harness.sum
sed "s|=> /repo|=> $REPO|" harness/go.mod > build/harness.mod
(cd harness && go build -modfile ../build/harness.mod -tags verif -o ../build/harness .) || echo "setup: the harness does not build against this tree (the checks report it)"
echo setup done
