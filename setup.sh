#!/bin/bash
# Build the framework from files on disk only (offline).
set -e
cd "$(dirname "$0")"
export GOFLAGS=-mod=mod GOPROXY=off GOSUMDB=off GOTOOLCHAIN=local
mkdir -p build evidence
(cd extract && go run . -repo ${VERIF_REPO:-/repo} -out ../lean/Esc/Gen)
(cd lean && lake build Esc escmodel EscProofs)
cp ${VERIF_REPO:-/repo}/go.sum build/harness.sum
sed "s|=> /repo|=> ${VERIF_REPO:-/repo}|" harness/go.mod > build/harness.mod
(cd harness && go build -modfile ../build/harness.mod -tags verif -o ../build/harness .)
echo setup done
