#!/bin/bash
# try17.sh <Axx>: import the eighteenth-batch seed, confirm it, run the property's own check against it
a=$1
id=$(cat /tmp/mut18/$a.prop)
/verif/tools/import_seed18.sh $a 2>&1 | grep -v "^ok\|^PASS" | tail -2
${VERIF_ROOT:-/verif}/tools/tryseed.sh $id-r $id 2>&1 | grep -v "^\[.*\] *$"
