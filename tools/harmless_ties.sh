#!/bin/bash
# harmless_ties.sh: run, for every behaviour-preserving rewrite that touches a file with a regenerated tie (Gen/*.lean), the
# checks whose proof modules depend on that tie. Every check is expected to stay quiet (a broken tie falls back to the
# translation of the pinned tree + correspondence; see DESIGN.md 2.3).
V=${VERIF_ROOT:-/verif}
cd $V/harmless
for d in */; do
  n=${d%/}
  [ -f $n/patch.diff ] || continue
  cs=""
  grep -q "+++ b/.*scale_up.go" $n/patch.diff && cs="$cs C04 C07"
  grep -q "+++ b/.*scale_down.go" $n/patch.diff && cs="$cs C01 C03 C10"
  grep -q "+++ b/pkg/controller/controller.go" $n/patch.diff && cs="$cs C06 C09 C20"
  grep -q "+++ b/cmd/main.go" $n/patch.diff && cs="$cs C11 C12 C16 C17"
  grep -q "+++ b/pkg/controller/util.go" $n/patch.diff && cs="$cs C05 C13"
  grep -q "+++ b/pkg/k8s/taint.go" $n/patch.diff && cs="$cs C15 C01"
  grep -q "+++ b/pkg/controller/scale_lock.go" $n/patch.diff && cs="$cs C02"
  grep -q "+++ b/pkg/cloudprovider/aws/aws.go" $n/patch.diff && cs="$cs C17 C19"
  grep -q "+++ b/pkg/controller/node_group.go" $n/patch.diff && cs="$cs C14"
  [ -n "$cs" ] && echo "$n $cs"
done | xargs -P ${1:-3} -L 1 $V/tools/tryharmless.sh
