#!/bin/bash
# verify_seed.sh <id>: confirm a seeded change in a scratch worktree of /repo:
#  (1) patch applies, builds, vets; (2) the existing suite passes with it; (3) the demo fails with it; (4) the demo passes without it.
set -u
id=$1
S=/verif/seeded/$id
W=/tmp/seedcheck/$id
export GOFLAGS=-mod=mod GOPROXY=off GOSUMDB=off GOTOOLCHAIN=local
rm -rf $W; mkdir -p /tmp/seedcheck
git -C /repo worktree add -q --detach $W HEAD || exit 2
cd $W
res() { echo "$id $1"; git -C /repo worktree remove --force $W; exit 0; }
git apply $S/patch.diff || res "FAIL patch-does-not-apply"
go build ./... >/dev/null 2>&1 || res "FAIL build"
go build -tags verif ./... >/dev/null 2>&1 || res "FAIL build-verif"
go vet ./pkg/... >/dev/null 2>&1 || res "FAIL vet"
go test -vet=off -count=1 ./... > $W.suite.log 2>&1 || res "FAIL suite-not-green-with-change"
demo=$(cat $S/demo_path.txt | tr -d '\n ')
cp $S/$(basename $demo) $demo
pkg=./$(dirname $demo)
if go test -vet=off -count=1 -run 'Seeded' $pkg > $W.demo1.log 2>&1; then res "FAIL demo-passes-with-change"; fi
grep -q -- '--- FAIL\|panic' $W.demo1.log || res "FAIL demo-did-not-run-$(tail -1 $W.demo1.log | tr ' ' _)"
git apply -R $S/patch.diff
go test -vet=off -count=1 -run 'Seeded' $pkg > $W.demo2.log 2>&1 || res "FAIL demo-fails-without-change"
res "CONFIRMED"
