#!/bin/bash
# import_seed2.sh <Cxx>: copy a second-batch seeded change from its scratch worktree into /verif/seeded/<Cxx>-b and confirm it.
set -u
id=$1
src=/tmp/mut16/$id/seed_out
dst=/verif/seeded/$id-p
[ -f $src/patch.diff ] || { echo "$id no patch"; exit 1; }
mkdir -p $dst
cp $src/patch.diff $src/demo_path.txt $src/notes.md $dst/
cp $src/$(basename $(cat $src/demo_path.txt | tr -d '\n ')) $dst/
[ -f $src/go.mod ] && cp $src/go.mod $dst/
/verif/tools/verify_seed.sh $id-p
