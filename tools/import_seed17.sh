#!/bin/bash
# import_seed17.sh <Axx>: copy a seventeenth-batch (file-focused) seeded change from its scratch worktree into /verif/seeded/<Cxx>-q and confirm it.
set -u
a=$1
id=$(cat /tmp/mut17/$a.prop)
src=/tmp/mut17/$a/seed_out
dst=/verif/seeded/$id-q
[ -f $src/patch.diff ] || { echo "$a no patch"; exit 1; }
mkdir -p $dst
cp $src/patch.diff $src/demo_path.txt $src/notes.md $dst/
cp $src/$(basename $(cat $src/demo_path.txt | tr -d '\n ')) $dst/
/verif/tools/verify_seed.sh $id-q
