#!/usr/bin/env python3
"""Merge a result file of tools/seedmatrix.py (build/seedmatrix.json: {seed: {check: verdict}}) into seeded/RESULTS.json.

  mkresults.py <seedmatrix.json> "<note>"

The verdicts of the file replace those recorded for the same (seed, check); verdicts of other checks recorded by an
earlier full matrix are kept (and say so in the note). Every seed present in seeded/ was confirmed by
tools/verify_seed.sh when it was imported."""
import json, os, sys
ROOT = os.path.dirname(os.path.dirname(os.path.abspath(__file__)))
S = os.path.join(ROOT, 'seeded')
rp = os.path.join(S, 'RESULTS.json')
res = json.load(open(rp)) if os.path.exists(rp) else {}
new = json.load(open(sys.argv[1]))
note = sys.argv[2]
for seed, row in new.items():
    if not os.path.isdir(os.path.join(S, seed)):
        continue
    r = res.setdefault(seed, {'checks': {}, 'confirmed': 'CONFIRMED (tools/verify_seed.sh)', 'note': ''})
    older = {k: v for k, v in r['checks'].items() if k not in row}
    r['checks'].update(row)
    r['note'] = note + ('; verdicts of the other checks (%s) from an earlier full matrix: %s' % (','.join(sorted(older)), r['note']) if older and r.get('note') and 'earlier full matrix' not in r['note'] else ('; ' + r['note'] if older and r.get('note') else ''))
json.dump(res, open(rp, 'w'), indent=1, sort_keys=True)
print(len(res), 'seeds recorded')
