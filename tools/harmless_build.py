#!/usr/bin/env python3
"""harmless_build.py <worker> <nworkers>: for every behaviour-preserving rewrite in harmless/, regenerate lean/Esc/Gen from a private clone of
/repo with the rewrite applied and run the build half of `check` (extractor, validation of every regenerated tie with fallback to
extract/baseline, model, proof modules, axiom audit) for a set of properties whose proof modules together import every tie. Prints one
line per rewrite: which ties fell back, and whether every proof module checked. No stream is run (that is tools/harmless_ties.sh)."""
import os, sys, subprocess, shutil, importlib.machinery, importlib.util, io
w, n = int(sys.argv[1]), int(sys.argv[2])
ROOT = os.path.dirname(os.path.dirname(os.path.abspath(__file__)))
base = '/tmp/hbuild%d' % w
repo, build = base + '/repo', base + '/build'
shutil.rmtree(base, ignore_errors=True)
subprocess.check_call(['git', 'clone', '-q', '/repo', repo])
os.makedirs(build)
os.environ['VERIF_REPO'], os.environ['VERIF_BUILD'] = repo, build
loader = importlib.machinery.SourceFileLoader('checkmod', os.path.join(ROOT, 'check'))
spec = importlib.util.spec_from_loader('checkmod', loader)
C = importlib.util.module_from_spec(spec)
loader.exec_module(C)
names = sorted(d for d in os.listdir(os.path.join(ROOT, 'harmless')) if os.path.exists(os.path.join(ROOT, 'harmless', d, 'patch.diff')))
PROPS = ['C06', 'C01', 'C15', 'C14', 'C19', 'C17', 'C02', 'C12', 'C20', 'C16', 'C07']
for i, name in enumerate(names):
    if i % n != w:
        continue
    subprocess.run(['git', '-C', repo, 'checkout', '-q', '--', '.'])
    subprocess.run(['git', '-C', repo, 'clean', '-fdq'])
    if subprocess.run(['git', '-C', repo, 'apply', os.path.join(ROOT, 'harmless', name, 'patch.diff')]).returncode != 0:
        print(name, 'PATCH DOES NOT APPLY', flush=True)
        continue
    bad, notes = [], set()
    for p in PROPS:
        b = C.build_all(p, io.StringIO())
        if not b['proof_ok'] or not b['model_ok']:
            bad.append('%s:%s' % (p, '; '.join(b['proof_detail'])[:160]))
        for x in b['notes']:
            notes.add(x.split(' is not in force')[0].replace('Tie B for ', '') if 'Tie B' in x else x[:60])
    print(name, 'ALL PROOF MODULES CHECK' if not bad else 'BROKEN ' + ' | '.join(bad), '| fell back:', sorted(notes) if notes else 'nothing', flush=True)
shutil.rmtree(base, ignore_errors=True)
