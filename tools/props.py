"""Table of properties: which streams feed them, which correspondence aspects and monitors decide
them, which Lean module/theorems carry the proof."""
import json

TRIVIAL_TAGS = {'awsop:increase:rejected', 'awsop:delete:refused', 'arith:err', 'taintop:time:none'}
TRIVIAL_BRANCHES = {'empty', 'below-min-count', 'above-max-count', 'pct-err'}

TRUSTED_BASE = [
    'Lean 4.33 kernel; axioms allowed: propext, Classical.choice, Quot.sound (audited with #print axioms on every run)',
    'statement of the theorems in lean/EscProofs/P/<id>.lean and of the predicates in lean/Esc/Spec.lean',
    'hand-written model lean/Esc/*.lean, tied to /repo by the differential harness (harness/, built with -tags verif against the working tree)',
    'extractor extract/ (go/ast) that regenerates lean/Esc/Gen/*.lean from /repo on every run',
    'simulated Kubernetes node API and AWS ASG/EC2 (harness/sim.go) as the source of environment responses',
]

ASSUMPTIONS = [
    'the Kubernetes API answers a GET with the object that was asked for (a response carrying another name is treated as a failure)',
    'AWS SDK response shapes: required pointer fields are non-nil',
    'informers/listers, leader election, metrics, logging, AWS session construction are outside the model',
    'int64 overflow of resource sums and float64 -> int conversions out of range are outside the domain',
]

HIST_Q = ('hist', ['-n', 400, '-scans', 10])
HIST_T = ('hist', ['-n', 20000, '-scans', 12])
HIST_S = ('hist', ['-n', 3000, '-scans', 12])


def hist(prop, focus=None, q=400, t=20000, s=1500, extra=()):
    """extra: further focused history streams, (focus, quick n, thorough n, search n)."""
    f = ['-focus', focus] if focus else []
    corpus = [('scenario', ['-dir', '@ROOT/corpus/' + prop])]
    d = dict(quick=corpus + [('hist', ['-n', q, '-scans', 10] + f)],
             thorough=corpus + [('hist', ['-n', t, '-scans', 12] + f)],
             search=[('hist', ['-n', s, '-scans', 12] + f)])
    for (fo, qn, tn, sn) in extra:
        d['quick'].append(('hist', ['-n', qn, '-scans', 10, '-focus', fo]))
        d['thorough'].append(('hist', ['-n', tn, '-scans', 12, '-focus', fo]))
        if sn:
            d['search'].append(('hist', ['-n', sn, '-scans', 12, '-focus', fo]))
    return d


BIG = ('big', 24, 600, 60)


HOOK_COMMITS = ['8b60f71', 'c4143bc', 'ed2ca09']
FIX_COMMITS = ['972e64a (C01)', '36808c6 (C09)', '9968ae8 (C19)', '4e44fa6 (C04)', '1c752d6 (C02)', '0ec6acc (C18)', 'a3c0a98 (C20)', 'be6e20c (C16)', '839495b (C07)']
NOT_YET = {}

LEVEL_NOTE = ('Trusted: Lean kernel + axioms propext/Classical.choice/Quot.sound; the hand-written model (lean/Esc) and the '
              'statement of the theorems; the correspondence harness (simulated k8s/AWS, canonicalisation, generator reach); '
              'the go/ast extractor. Modelled, not verified: informers, leader election, metrics, logging, AWS session/SDK shapes.')

def c12_twin_monitor(case_line, result):
    """C12 metamorphic monitor (implementation only): the harness ran the same scan on a twin controller whose world
    differs only inside one group t; the calls made for, and the state kept about, every other group must be identical."""
    if '"twin":' not in case_line:
        return []
    c = json.loads(case_line)
    tw = c.get('twin')
    if not tw:
        return []
    return ['C12:twin:group %s acted differently (%s) when only group %s was changed (%s)' % (d['group'], d['what'], tw['t'], tw['mode'])
            for d in tw['diffs']][:3]


def _c16_unsafe(g):
    bad = []
    if not (g['name'] and g['labelKey'] and g['labelValue'] and g['cloudGroup']):
        bad.append('empty-name')
    if not (0 < g['lower'] < g['upper'] < g['scaleUp']):
        bad.append('thresholds')
    if not (0 <= g['slow'] <= g['fast']):
        bad.append('rates')
    if not (0 < g['softNs'] < g['hardNs']):
        bad.append('grace')
    if not (0 < g['coolNs']):
        bad.append('cooldown')
    if not ((0 <= g['minNodes'] < g['maxNodes']) or (g['minNodes'] == 0 and g['maxNodes'] == 0)):
        bad.append('bounds')
    if g['taintEffect'] not in ('', 'NoSchedule', 'NoExecute', 'PreferNoSchedule'):
        bad.append('effect')
    if g['lifecycle'] not in ('', 'on-demand', 'spot'):
        bad.append('lifecycle')
    if not g['maxNodeAgeParses']:
        bad.append('max-node-age')
    return bad


def c16_safe_monitor(case_line, result):
    """C16 monitor, independent of the Lean build: a configuration the real validator accepted must be safe; a file the
    real binary started on must contain safe entries only."""
    if '"op":"startup"' in case_line:
        c = json.loads(case_line)
        if not c['obs'].get('accepted'):
            return []
        bad = ['%s[%d]:%s' % (g['name'], i, ','.join(_c16_unsafe(g))) for i, g in enumerate(c['cfgs']) if _c16_unsafe(g)]
        return ['C16:start-up-accepted-unsafe:' + ';'.join(bad)] if bad else []
    if '"op":"validate"' not in case_line:
        return []
    c = json.loads(case_line)
    if c['obs'].get('problems') != 0:
        return []
    bad = _c16_unsafe(c['cfg'])
    return ['C16:accepted-unsafe:' + ','.join(bad)] if bad else []


PROPS = {
    'C01': dict(level='proof', module='EscProofs.P.C01',
                streams=dict(quick=[('scenario', ['-dir', '@ROOT/corpus/C01']), ('hist', ['-n', 400, '-scans', 10]), ('hist', ['-n', 200, '-scans', 10, '-focus', 'down']),
                                    ('hist', ['-n', 200, '-scans', 10, '-focus', 'annot']), ('hist', ['-n', 150, '-scans', 10, '-focus', 'churn']), ('hist', ['-n', 24, '-scans', 10, '-focus', 'big'])],
                             thorough=[('scenario', ['-dir', '@ROOT/corpus/C01']), ('hist', ['-n', 600, '-scans', 12, '-focus', 'big']), ('hist', ['-n', 20000, '-scans', 12]), ('hist', ['-n', 8000, '-scans', 12, '-focus', 'down']),
                                       ('hist', ['-n', 8000, '-scans', 12, '-focus', 'annot']), ('hist', ['-n', 6000, '-scans', 12, '-focus', 'churn'])],
                             search=[('hist', ['-n', 1500, '-scans', 12]), ('hist', ['-n', 800, '-scans', 12, '-focus', 'down']), ('hist', ['-n', 800, '-scans', 12, '-focus', 'annot']), ('hist', ['-n', 60, '-scans', 12, '-focus', 'big'])]),
                technique='Lean 4 theorem over an executable model (journal soundness by induction over node lists, lifted to histories) + differential correspondence and runtime monitor on the real code',
                level_text='Theorems C01_scan / C01_history (in full since the repair of finding T1, fix 972e64a): for every configuration with non-negative grace periods, '
                           'controller state, view with ANY taint values, clocks, ordering and environment responses, along every history with restarts, each terminate/delete call of the '
                           "model is backed by an eligible node of that scan's view; C01_unreadable / C01_untainted / C01_cordoned: such nodes are never eligible; "
                           'C01_T1_witness_repaired: the former witness (taint value 2^63-1) removes nothing now; goAge_wraps_without_guard: why the guard is needed. '
                           'The model is tied to the code by the hist correspondence (projection: removal calls; taint values incl. int64 extremes and unparsable strings) and the same predicate is monitored on the observed journals.',
                level_note=LEVEL_NOTE,
                aspects=['hist:removals'], monitors=['C01'],
                theorems=['Esc.P.C01_scan', 'Esc.P.C01_history', 'Esc.P.C01_scan_partial', 'Esc.P.C01_history_partial', 'Esc.P.C01_unreadable', 'Esc.P.C01_untainted',
                          'Esc.P.C01_cordoned', 'Esc.P.inRange_all', 'Esc.P.C01_T1_witness_repaired', 'Esc.P.goAge_wraps_without_guard', 'Esc.P.gen_reapAppend_readable', 'Esc.P.gen_reapAppend_unreadable', 'Esc.P.gen_reaperCands_eq', 'Esc.P.gen_forceCands_eq', 'Esc.P.C01_source_reaper', 'Esc.P.gen_reap_translation_complete', 'Esc.P.gen_taintTime_eq', 'Esc.P.C01_source_taint_time', 'Esc.P.gen_taintTime_translation_complete']),
    'C02': dict(level='proof', module='EscProofs.P.Fresh',
                # the last stream of each tier lets the credentials refresh fail (provider rebuilt inside a cool-down): 5 s of real sleep each
                streams=dict(quick=[('scenario', ['-dir', '@ROOT/corpus/C02']), ('hist', ['-n', 400, '-scans', 10, '-focus', 'cooldown']),
                                    ('hist', ['-n', 16, '-scans', 5, '-focus', 'cooldown', '-slow'])],
                             thorough=[('scenario', ['-dir', '@ROOT/corpus/C02']), ('hist', ['-n', 20000, '-scans', 12, '-focus', 'cooldown']),
                                       ('hist', ['-n', 160, '-scans', 6, '-focus', 'cooldown', '-slow']), ('hist', ['-n', 200, '-scans', 8, '-focus', 'fleet'])],
                             search=[('hist', ['-n', 1500, '-scans', 12, '-focus', 'cooldown']), ('hist', ['-n', 32, '-scans', 6, '-focus', 'cooldown', '-slow']),
                                     ('hist', ['-n', 30, '-scans', 8, '-focus', 'fleet'])]),
                aspects=['hist:writes', 'hist:state'], monitors=['C02'],
                theorems=['Esc.P.C02_quiet_scan', 'Esc.P.C02_history_quiet', 'Esc.P.C02_release', 'Esc.P.C02_release_scan', 'Esc.P.C02_armed',
                          'Esc.P.increaseSize_none', 'Esc.P.runOnce_quiet', 'Esc.P.C02_increase_is_last', 'Esc.P.gen_lockLocked_eq', 'Esc.P.gen_lockUnlock_eq', 'Esc.P.gen_lockLock_eq', 'Esc.P.C02_source_lock', 'Esc.P.C02_source_lock_then_locked', 'Esc.P.gen_lock_translation_complete'],
                technique='Lean 4 theorem (lock invariant carried through RunOnce and along histories by induction over the event list, explicit clock) + differential correspondence on all calls and on the lock state + monitor over observed histories',
                level_text='C02_quiet_scan / C02_history_quiet: while now - lockTime < cool-down a group scan issues no call at all and leaves the lock untouched, for every view (below minimum, force-tainted, expired nodes) and, within one lifetime, '
                           'along every history of scans; C02_armed + increaseSize_none: the lock is armed only on an accepted SetDesiredCapacity/AttachInstances (or in dry mode); C02_release(_scan): once the period has elapsed the lock is not held. '
                           'Tie: hist (cool-down focused: advances around the period, below-minimum views inside the window) compares every call and the lock state (time quantised by a hook); monitor: any call inside an observed window. '
                           'The strictness of the boundary comparison (< vs <=) at the nanosecond is not distinguishable by the harness (real clock).',
                level_note=LEVEL_NOTE),
    'C03': dict(level='proof', module='EscProofs.P.C03',
                streams=dict(quick=[('scenario', ['-dir', '@ROOT/corpus/C03']), ('hist', ['-n', 400, '-scans', 10]), ('hist', ['-n', 200, '-scans', 10, '-focus', 'autodisc']), ('hist', ['-n', 200, '-scans', 10, '-focus', 'restore']), ('hist', ['-n', 200, '-scans', 10, '-focus', 'rotate'])],
                             thorough=[('scenario', ['-dir', '@ROOT/corpus/C03']), ('hist', ['-n', 20000, '-scans', 12]), ('hist', ['-n', 10000, '-scans', 12, '-focus', 'autodisc']), ('hist', ['-n', 10000, '-scans', 12, '-focus', 'restore']), ('hist', ['-n', 8000, '-scans', 12, '-focus', 'rotate'])],
                             search=[('hist', ['-n', 1500, '-scans', 12]), ('hist', ['-n', 1500, '-scans', 12, '-focus', 'autodisc']), ('hist', ['-n', 1500, '-scans', 12, '-focus', 'restore']), ('hist', ['-n', 1500, '-scans', 12, '-focus', 'rotate'])]),
                aspects=['hist:taintadds', 'hist:untaints'], monitors=['C03'],
                theorems=['Esc.P.C03_floor', 'Esc.P.C03_below_min', 'Esc.P.C03_restore', 'Esc.P.C03_history', 'Esc.P.gen_taintClamp_eq', 'Esc.P.C03_source_clamp', 'Esc.P.C06_source_taint_at_most_n', 'Esc.P.gen_taintLoop_count_eq', 'Esc.P.C06_taintLoop_count_exact', 'Esc.P.gen_taintLoop_count_eq_dry', 'Esc.P.taintLoop_dry_tracker'],
                technique='Lean 4 theorem (journal shape + counting lemma for the taint loop) + differential correspondence and runtime monitor',
                level_text='C03_floor / C03_history: for every rate, minimum (configured or auto-discovered), state, view with unique node names and environment, along every history, '
                           'untainted-seen minus accepted-taint-adds >= effective minimum whenever a taint is added; C03_below_min: below the minimum nothing is tainted; C03_restore: with the node count within bounds, fewer untainted nodes than the minimum and no cool-down running (for ANY controller state, hence whatever earlier scans left behind) the scan is exactly ScaleUp(min - untainted) on the tainted nodes: untaint newest first, then the remainder from the cloud (C07_order, C07_remainder) - no early return. '
                           'Tie: hist correspondence on taint-adding and taint-removing updates; the same predicate monitored on observed journals.',
                level_note=LEVEL_NOTE),
    'C04': dict(level='proof', module='EscProofs.P.Bounds',
                streams=dict(quick=[('scenario', ['-dir', '@ROOT/corpus/C04']), ('hist', ['-n', 400, '-scans', 10]), ('hist', ['-n', 250, '-scans', 10, '-focus', 'up']), ('awsops', ['-n', 2000]), ('fleetops', ['-n', 96]), ('hist', ['-n', 8, '-scans', 6, '-focus', 'fleet']), ('hist', ['-n', 16, '-scans', 6, '-focus', 'up', '-slow']), ('hist', ['-n', 200, '-scans', 10, '-focus', 'rotate'])],
                             thorough=[('scenario', ['-dir', '@ROOT/corpus/C04']), ('hist', ['-n', 20000, '-scans', 12]), ('hist', ['-n', 10000, '-scans', 12, '-focus', 'up']), ('awsops', ['-n', 100000]), ('fleetops', ['-n', 1600]), ('hist', ['-n', 200, '-scans', 8, '-focus', 'fleet']), ('hist', ['-n', 160, '-scans', 6, '-focus', 'up', '-slow']), ('hist', ['-n', 8000, '-scans', 12, '-focus', 'rotate'])],
                             search=[('hist', ['-n', 1500, '-scans', 12]), ('hist', ['-n', 1500, '-scans', 12, '-focus', 'up']), ('awsops', ['-n', 20000]), ('fleetops', ['-n', 300]), ('hist', ['-n', 40, '-scans', 8, '-focus', 'fleet']), ('hist', ['-n', 32, '-scans', 6, '-focus', 'up', '-slow']), ('hist', ['-n', 1500, '-scans', 12, '-focus', 'rotate'])]),
                aspects=['hist:resize', 'cached-desired'], monitors=['C04'],
                theorems=['Esc.P.C04_bound', 'Esc.P.C04_clamp_exact', 'Esc.P.C04_history', 'Esc.P.bounds_history', 'Esc.P.C04_history_configured', 'Esc.P.runOnce_fresh', 'Esc.P.gen_clampedNodesToAdd_eq', 'Esc.P.C04_source_clamp', 'Esc.P.gen_decide_translation_complete'],
                technique='Lean 4 theorem (walk of the journal with the running desired size; exact characterisation of IncreaseSize requests) + differential correspondence and runtime monitor',
                level_text='bounds_history / C04_history_configured (EscProofs/P/Bounds.lean): along every history from NewController (distinct group names), the max_nodes a scan clamps against IS the configured one - no scan and no cloud answer moves it - or, under auto-discovery, the maximum of the cloud description the scan starts from, which runOnce_fresh shows to be an answer of that same scan. C04_bound / C04_history: every SetDesiredCapacity value and every fleet request, on top of the desired size at that moment, is <= min(max_nodes, cloud max), for all inputs and histories; '
                           'C04_clamp_exact: the clamp lands exactly on the bound and yields no request without headroom. Tie: hist correspondence on resize calls (arguments) + monitor; awsops/fleetops sequences on one provider (removals whose termination AWS rejects, then a request up to the maximum the provider reports) with the provider\'s cached desired size compared and every request checked against the cloud maximum counted from the real desired size.',
                level_note=LEVEL_NOTE),
    'C05': dict(level='proof', module='EscProofs.P.GenArithUse',
                streams=dict(quick=[('arith', ['-n', 40000, '-dir', '@ROOT/corpus/C05']), ('hist', ['-n', 300, '-scans', 10, '-focus', 'up']), ('hist', ['-n', 150, '-scans', 8, '-focus', 'rotate']), ('fleetops', ['-n', 96]), ('hist', ['-n', 8, '-scans', 6, '-focus', 'fleet'])],
                             thorough=[('arith', ['-n', 3000000, '-dir', '@ROOT/corpus/C05']), ('hist', ['-n', 15000, '-scans', 12, '-focus', 'up']), ('hist', ['-n', 5000, '-scans', 10, '-focus', 'rotate']), ('fleetops', ['-n', 1600]), ('hist', ['-n', 200, '-scans', 8, '-focus', 'fleet'])],
                             search=[('arith', ['-n', 300000, '-dir', '@ROOT/corpus/C05']), ('hist', ['-n', 1500, '-scans', 12, '-focus', 'up']), ('hist', ['-n', 800, '-scans', 10, '-focus', 'rotate']), ('fleetops', ['-n', 300])]),
                aspects=['pct-kind', 'pct-bits', 'delta', 'delta-err', 'panic', 'hist:resize', 'hist:untaints', 'journal', 'outcome'], monitors=['C05'],
                theorems=['Esc.P.C05_exact_formula', 'Esc.P.C05_ceil_sufficient_minimal', 'Esc.P.C05_delta_is_max', 'Esc.P.C05_from_zero_exact',
                          'Esc.P.C05_from_zero_no_cache', 'Esc.P.C05_float_short_witness',
                          'Esc.P.C05_float_error', 'Esc.P.C05_float_within_one', 'Esc.P.C05_from_zero_float_error', 'Esc.P.C05_from_zero_within_one',
                          'Esc.P.StdModel_rne64', 'Esc.P.C05_rne64_within_one', 'Esc.P.C05_float_sufficient', 'Esc.P.C05_float_full_in_region',
                          'Esc.P.C05_rne64_full_in_region', 'Esc.P.gen_calcScaleUpDelta_vals', 'Esc.P.gen_calcScaleUpDelta_sentinel', 'Esc.P.gen_calcPercentUsage_eq', 'Esc.P.gen_arith_translation_complete', 'Esc.P.C05_source_in_region'],
                technique='Lean 4 theorems: over exact rationals the formula is the minimal sufficient node count (and the from-zero variants); over any rounding function satisfying the standard model of floating-point arithmetic the float pipeline is within (n/T)(8uP+4uT) of the exact value, hence within one node; the model\'s binary64 round-to-nearest-even satisfies that model with u=2^-53 (proved) and is tied to Go bit for bit by the differential correspondence; exact-rational monitor of every observed delta; partial',
                level_text='PARTIAL. Exact layer proved: n + ceil(n*((pct-T)/T)) = ceil(100R/(sT)) for n>0 equal nodes, which is sufficient and minimal (C05_exact_formula, C05_ceil_sufficient_minimal); the delta is the max over CPU and memory; from zero: ceil(100R/(cT)) with the cached size, '
                           'exactly 1 without cache; composition untainted + requested = delta unless clamped (C07_remainder). Float layer: the model executes binary64 round-to-nearest-even on rationals (rne64) and is compared bit for bit (Float64bits) with Go on every case; '
                           'the statement "float result >= exact need" is false at extreme magnitudes (C05_float_short_witness, finding T2). Proved instead: for every rounding function obeying the standard model with unit round-off u (relative error <= u per operation, integers up to 2^53 exact) the value that is ceiled differs from the exact one by at most (n/T)(8uP+4uT) = 8u*N + 4u*n (C05_float_error; from zero: 4u*N, C05_from_zero_float_error), so the requested count is within one node of the exact minimal count whenever that budget is below 1 (C05_float_within_one, C05_from_zero_within_one); rne64, the function the driver executes and Go is compared with bit for bit, obeys the standard model with u = 2^-53 (StdModel_rne64, C05_rne64_within_one). Sufficiency of the float result: the exact value exceeds every integer below it by at least 1/(s*T), so whenever the budget is below that granularity - with u = 2^-53: (8N+4n)*s*T < 2^53 - the float pipeline never asks for fewer than the exact minimal count (C05_float_sufficient), and n + delta lies in [N, N+1], N = ceil(100R/(sT)) (C05_float_full_in_region; C05_rne64_full_in_region for the executed model). Outside that region the property is false (T2) and the exact-rational monitor decides each observed delta. From zero: within one node (C05_from_zero_within_one); sufficiency from zero is monitored, not proved.',
                level_note=LEVEL_NOTE + ' Go float64 arithmetic = IEEE-754 binary64 RNE (checked bit-for-bit against the model on every run, not proved).'),
    'C06': dict(level='proof', module='EscProofs.P.C06Float',
                streams=dict(quick=[('scenario', ['-dir', '@ROOT/corpus/C06']), ('hist', ['-n', 400, '-scans', 10, '-focus', 'bands']), ('hist', ['-n', 150, '-scans', 8, '-focus', 'rotate']), ('arith', ['-n', 20000]), ('hist', ['-n', 16, '-scans', 6, '-focus', 'up', '-slow'])],
                             thorough=[('scenario', ['-dir', '@ROOT/corpus/C06']), ('hist', ['-n', 20000, '-scans', 12, '-focus', 'bands']), ('hist', ['-n', 5000, '-scans', 10, '-focus', 'rotate']), ('arith', ['-n', 1000000]), ('hist', ['-n', 160, '-scans', 6, '-focus', 'up', '-slow'])],
                             search=[('hist', ['-n', 1500, '-scans', 12, '-focus', 'bands']), ('hist', ['-n', 800, '-scans', 10, '-focus', 'rotate']), ('arith', ['-n', 100000]), ('hist', ['-n', 32, '-scans', 6, '-focus', 'up', '-slow'])]),
                aspects=['hist:taintadds', 'hist:untaints', 'hist:resize', 'hist:delta'], monitors=['C06'],
                theorems=['Esc.P.C06_bands', 'Esc.P.C06_triggers', 'Esc.P.C06_triggers_off', 'Esc.P.C06_taint_rate', 'Esc.P.C06_idle_band',
                          'Esc.P.C06_up_never_taints', 'Esc.P.C06_down_never_adds', 'Esc.P.taintLoop_count_all_ok',
                          'Esc.P.C06_starve_iff', 'Esc.P.C06_starve_scales_up', 'Esc.P.C06_float_bands', 'Esc.P.C06_rne64_bands', 'Esc.P.C06_decision_exact', 'Esc.P.C06_up_never_removes', 'Esc.P.C06_up_shape', 'Esc.P.C06_taint_walks_on', 'Esc.P.gen_calcPercentUsage_eq', 'Esc.P.gen_calcScaleUpDelta_vals', 'Esc.P.gen_bandSwitch_vals', 'Esc.P.gen_bandSwitch_sentinel', 'Esc.P.C06_source_bands', 'Esc.P.gen_decide_translation_complete', 'Esc.P.gen_taintClamp_eq', 'Esc.P.C03_source_clamp', 'Esc.P.gen_isScaleOnStarve_eq', 'Esc.P.gen_scaleOnMaxNodeAge_eq', 'Esc.P.C06_source_triggers_off', 'Esc.P.gen_triggers_translation_complete', 'Esc.P.taintStep_spec', 'Esc.P.C06_source_taint_at_most_n', 'Esc.P.C06_source_taint_exact', 'Esc.P.C06_source_taint_exact_failures', 'Esc.P.gen_loops_translation_complete', 'Esc.P.gen_taintLoop_count_eq', 'Esc.P.C06_taintLoop_count_exact', 'Esc.P.gen_taintLoop_count_eq_dry', 'Esc.P.taintLoop_dry_tracker'],
                technique='Lean 4 theorem (band case analysis for any rounding function; exact taint count when no attempt fails; journal shape of the idle and scale-up branches) + differential correspondence at threshold neighbourhoods + exact-rational band oracle and documented-starve oracle as monitors',
                level_text='C06_bands: the decision is -fast / -slow / 0 / scale-up formula according to where max(cpu%,mem%) (as computed) lies relative to the three thresholds (as converted), for every rounding function; C06_taint_rate: exactly min(rate, untainted - min) nodes are tainted when no attempt fails; '
                           'C06_idle_band: decision 0 yields only reaping; C06_up_never_taints; C06_triggers: starve / max-age only raise the decision to >= 1; C06_starve_iff: the starve trigger computed from the largest-pending / largest-available digests is exactly the documented condition (option on, some pending pod asks in CPU or memory for more than any untainted node has left, untainted < max_nodes), so C06_starve_scales_up: under that condition the decision is >= 1 in every band. C06_float_bands / C06_rne64_bands: for every rounding function obeying the standard model with u <= 2^-43 (binary64: 2^-53, proved for the executed rne64) the band decision is the one the EXACT utilisation max(100Rc/Cc, 100Rm/Cm) dictates whenever it is outside a relative neighbourhood of 2^-40 of a threshold; inside that neighbourhood either side is accepted (monitor likewise). '
                           'Tie: hist (requests placed at threshold*capacity/100 +-2) on taint/untaint/resize calls and the decision delta; band oracle on exact rationals over observed journals.',
                level_note=LEVEL_NOTE),
    'C07': dict(level='proof', module='EscProofs.P.Fresh',
                # the last stream lets the credentials refresh fail (provider rebuilt, 5 s of real sleep each) before a scale-up
                streams=dict(quick=[('scenario', ['-dir', '@ROOT/corpus/C07']), ('awsops', ['-n', 3000]), ('hist', ['-n', 400, '-scans', 10, '-focus', 'up']), ('hist', ['-n', 16, '-scans', 6, '-focus', 'up', '-slow']), ('fleetops', ['-n', 96]), ('hist', ['-n', 8, '-scans', 6, '-focus', 'fleet'])],
                             thorough=[('scenario', ['-dir', '@ROOT/corpus/C07']), ('awsops', ['-n', 100000]), ('hist', ['-n', 20000, '-scans', 12, '-focus', 'up']), ('hist', ['-n', 160, '-scans', 6, '-focus', 'up', '-slow']), ('fleetops', ['-n', 1600]), ('hist', ['-n', 200, '-scans', 8, '-focus', 'fleet'])],
                             search=[('awsops', ['-n', 20000]), ('hist', ['-n', 1500, '-scans', 12, '-focus', 'up']), ('hist', ['-n', 32, '-scans', 6, '-focus', 'up', '-slow']), ('fleetops', ['-n', 300]), ('hist', ['-n', 40, '-scans', 8, '-focus', 'fleet'])]),
                aspects=['hist:untaints', 'hist:resize', 'hist:gets', 'hist:pre', 'cached-desired', 'journal'], monitors=['C07'],
                theorems=['Esc.P.C07_order', 'Esc.P.C07_remainder', 'Esc.P.C07_on_top', 'Esc.untaintLoop_spec', 'Esc.P.tryDelete_desired', 'Esc.orderBy_pairwise',
                          'Esc.P.runOnce_fresh', 'Esc.P.C07_fresh_history', 'Esc.P.C07_on_top_of_reported', 'Esc.P.C07_source_remainder', 'Esc.P.gen_scaleUp_remainder_eq', 'Esc.P.gen_scaleUp_translation_complete', 'Esc.P.untaintStep_spec', 'Esc.P.C07_source_untaint_at_most_n', 'Esc.P.C07_source_untaint_exact', 'Esc.P.gen_loops_translation_complete', 'Esc.P.gen_untaintLoop_count_eq', 'Esc.P.C07_untaintLoop_count_exact', 'Esc.P.gen_untaintLoop_count_eq_dry', 'Esc.P.C07_untaintLoop_count_exact_dry', 'Esc.P.untaintLoop_dry_quiet'],
                technique='Lean 4 theorem (untaint loop attempts a newest-first prefix; count/remainder accounting of ScaleUp; exact SetDesiredCapacity value on the cached desired size, which follows accepted terminations) + differential correspondence incl. the provider cache after multi-node deletions + monitors',
                level_text='C07_order: any tainted node not attempted is not strictly newer than an attempted one (all tie-breaks, all failing writes); C07_remainder: reported untaints <= N, the cloud is asked only if every tainted node was attempted, and then for the remainder N - untainted clamped to the bound, >= 1; '
                           'C07_on_top + tryDelete_desired: SetDesiredCapacity = cached desired + amount, the cached desired having been decremented once per accepted termination of the same scan. Tie: hist (up-focused: tainted nodes + high load + force removals) and awsops (cached desired after DeleteNodes); '
                           'runOnce_fresh / C07_fresh_history (EscProofs/P/Fresh.lean): in every scan of every history, with pairwise distinct cloud groups, the cached description a group scan starts from is an element of an answer to a DescribeAutoScalingGroups call of that same scan (refresh, rebuild or refresh after rebuild) whenever that answer describes the group - '
                           '"current desired size" is what the cloud reported in this scan, never a value remembered from an earlier one (C07_on_top_of_reported). '
                           'monitors: order, reuse, amount <= N - accepted untaints on top of the running desired size, judged against the cloud group as the simulated cloud holds it when the scan starts.',
                level_note=LEVEL_NOTE),
    'C08': dict(level='proof', module='EscProofs.P.C08',
                streams=dict(quick=[('scenario', ['-dir', '@ROOT/corpus/C08']), ('hist', ['-n', 400, '-scans', 10, '-focus', 'ties']), ('hist', ['-n', 200, '-scans', 10, '-focus', 'faults']), ('hist', ['-n', 200, '-scans', 12, '-focus', 'dry'])],
                             thorough=[('scenario', ['-dir', '@ROOT/corpus/C08']), ('hist', ['-n', 20000, '-scans', 12, '-focus', 'ties']), ('hist', ['-n', 10000, '-scans', 12, '-focus', 'faults']), ('hist', ['-n', 10000, '-scans', 12, '-focus', 'dry'])],
                             search=[('hist', ['-n', 1500, '-scans', 12, '-focus', 'faults']), ('hist', ['-n', 1500, '-scans', 12, '-focus', 'ties']), ('hist', ['-n', 1500, '-scans', 12, '-focus', 'dry'])]),
                aspects=['hist:taintadds', 'hist:gets'], monitors=['C08'],
                theorems=['Esc.P.C08_oldest', 'Esc.P.C08_history', 'Esc.P.taintLoop_oldest', 'Esc.orderBy_pairwise', 'Esc.orderBy_perm', 'Esc.taintLoop_spec', 'Esc.P.C08_clean_fetch_is_written'],
                technique='Lean 4 theorem (the visiting order is a sorted permutation whatever the sort does among ties; the taint loop attempts a prefix of it) + differential correspondence with the observed sort order validated per case + monitor',
                level_text='C08_oldest / C08_history: for every set of creation times (ties, identical, zero), list order, sort tie-breaking, taint count and failing GET/UPDATE, no untainted node that was not attempted is strictly older than a tainted one '
                           '(unique node names assumed). The sort itself (sort.Sort on the repo\'s Less) is not modelled: the order it produced is passed as a hint and checked, on every case, to be a sorted permutation. Tie: hist on taint-adding updates and GET order + monitor.',
                level_note=LEVEL_NOTE),
    'C09': dict(level='proof', module='EscProofs.P.C09', streams=hist('C09', extra=[('churn', 150, 6000, 600), ('down', 150, 6000, 600), ('faults', 150, 6000, 0), BIG]),
                aspects=['hist:gets', 'hist:updates', 'hist:removals'], monitors=['C09'],
                theorems=['Esc.P.C09_untouched', 'Esc.P.C09_history', 'Esc.P.C09_uncounted', 'Esc.P.C09_cache_uncounted', 'Esc.P.C09_lists_uncounted', 'Esc.P.C09_alloc_irrelevant', 'Esc.P.gen_classifyNode_eq', 'Esc.P.C09_source_cordoned', 'Esc.P.gen_classifyNode_total', 'Esc.P.gen_classify_translation_complete'],
                technique='Lean 4 theorem (journal anatomy: every node-targeting call names an uncordoned node of the view) + differential correspondence and runtime monitor',
                level_text='C09_untouched / C09_history: outside dry mode every GET/UPDATE/DELETE/terminate targets an uncordoned node of that scan\'s view, whatever the cordoned nodes carry; '
                           'C09_uncounted: a cordoned node is in none of the working lists (so not in the capacity sum); C09_alloc_irrelevant: outside dry mode the complete result of a group scan (decision, every call, new controller and provider state) is the same whatever allocatable CPU/memory the cordoned nodes report. Tie: hist correspondence on node-targeting calls + monitor. '
                           'C09_cache_uncounted / C09_lists_uncounted: the remembered node size and the working lists are the same whether or not cordoned nodes are listed (defect F8 repaired in 36808c6; regression scenario in corpus/C09).',
                level_note=LEVEL_NOTE),
    'C10': dict(level='proof', module='EscProofs.P.C10', streams=hist('C10', focus='annot', extra=[('churn', 150, 6000, 600), ('up', 150, 6000, 600), ('rotate', 150, 5000, 600), BIG]),
                aspects=['hist:removals'], monitors=['C10'],
                theorems=['Esc.P.C10_protected', 'Esc.P.C10_history', 'Esc.P.C10_empty_value_unprotected', 'Esc.P.C10_still_counted',
                          'Esc.P.C10_capacity_unchanged', 'Esc.P.C10_no_holdback', 'Esc.P.gen_reaperCands_eq', 'Esc.P.C01_source_reaper', 'Esc.P.C10_source_no_holdback'],
                technique='Lean 4 theorem (journal anatomy: removal candidates are never protected) + differential correspondence and runtime monitor',
                level_text='C10_protected / C10_history: every removal call is backed by a node that is not protected (non-empty annotation, no force taint), for all ages and emptiness, along all histories; '
                           'classification and capacity ignore annotations; candidates are computed node by node (no hold-back). Tie: hist correspondence on removal calls + monitor.',
                level_note=LEVEL_NOTE),
    'C11': dict(level='proof', module='EscProofs.P.C11Iso',
                # the last stream of each tier: the credentials refresh fails and the provider is rebuilt under a dry group (5 s of real sleep each)
                streams=dict(quick=[('scenario', ['-dir', '@ROOT/corpus/C11']), ('hist', ['-n', 400, '-scans', 10, '-focus', 'dry']), ('hist', ['-n', 16, '-scans', 6, '-focus', 'dry', '-slow']), ('assemble', ['-n', 120, '-bin', '@BUILD/escalator-verif-bin'])],
                             thorough=[('scenario', ['-dir', '@ROOT/corpus/C11']), ('hist', ['-n', 20000, '-scans', 12, '-focus', 'dry']), ('hist', ['-n', 160, '-scans', 6, '-focus', 'dry', '-slow']), ('assemble', ['-n', 3000, '-bin', '@BUILD/escalator-verif-bin'])],
                             search=[('hist', ['-n', 1500, '-scans', 12, '-focus', 'dry']), ('hist', ['-n', 32, '-scans', 6, '-focus', 'dry', '-slow']), ('assemble', ['-n', 400, '-bin', '@BUILD/escalator-verif-bin'])]),
                aspects=['hist:drywrites', 'hist:journal', 'hist:reccount', 'assemble-groups', 'assemble-no-dump', 'bad-case'], monitors=['C11'],
                theorems=['Esc.P.C11_scan', 'Esc.P.C11_history', 'Esc.P.C11_reading', 'Esc.P.C11_other_groups_dry_mode_irrelevant', 'Esc.P.assemble_dry', 'Esc.P.assemble_dry_other_entries_irrelevant', 'Esc.P.main_wiring', 'Esc.P.C01_source_reaper', 'Esc.P.gen_forceAppend_eq'],
                technique='Lean 4 theorem (journal anatomy: with either dry switch every entry is a read) + differential correspondence and runtime monitor',
                level_text='C11_scan / C11_history: with the global flag or the group option set, the group scan journal contains no write, for every state/view/environment and every history. '
                           'C11_other_groups_dry_mode_irrelevant (= C12_frame read for dry_mode): what a group does for a given environment is a function of the global flag and its own configuration, state, cloud group and view; no other group\'s dry_mode occurs in it. '
                           'Scope: scans (RunOnce); the one-off ASG tag write at provider construction is outside. Isolation of other groups is C12. Tie: hist (dry-focused) on writes of dry groups + monitor.',
                level_note=LEVEL_NOTE),
    'C16': dict(level='proof', module='EscProofs.P.C16',
                streams=dict(quick=[('decode', []), ('validate', ['-n', 4000]), ('startup', ['-n', 150, '-bin', '@BUILD/escalator-bin']), ('assemble', ['-n', 120, '-bin', '@BUILD/escalator-verif-bin'])],
                             thorough=[('decode', []), ('validate', ['-n', 400000]), ('startup', ['-n', 4000, '-bin', '@BUILD/escalator-bin']), ('assemble', ['-n', 3000, '-bin', '@BUILD/escalator-verif-bin'])],
                             search=[('validate', ['-n', 40000]), ('startup', ['-n', 600, '-bin', '@BUILD/escalator-bin']), ('assemble', ['-n', 400, '-bin', '@BUILD/escalator-verif-bin'])]),
                aspects=['problems', 'honoured', 'field', 'panic', 'bad-case', 'startup', 'assemble-groups', 'assemble-opts', 'assemble-no-dump'], monitors=['C16'], py_monitor=c16_safe_monitor,
                theorems=['Esc.P.C16_sound', 'Esc.P.C16_startup_sound', 'Esc.P.C16_translation_complete', 'Esc.P.C16_keys_distinct', 'Esc.P.C16_keys_partial', 'Esc.P.C16_keys_full_fails', 'Esc.P.assemble_groups'],
                technique='Lean 4 theorem over definitions REGENERATED from the Go source on every run (go/ast translator of ValidateNodeGroup and of the option struct tags / documented keys) + differential correspondence of the translation with the real validator and decoder + independent monitor',
                level_text='C16_sound: Gen.validate c -> Safe c, where Gen.validate is the conjunction of the 24 checkThat(...) conditions translated from pkg/controller/node_group.go on this run and Safe is written from the property statement; '
                           'deleting or weakening a check breaks the proof before any test runs; C16_translation_complete: no construct was left untranslated; C16_keys_*: json keys pairwise distinct, every documented example key except '
                           'scale_up_cool_down_timeout is an option key (partial: finding T4, C16_keys_full_fails). Tie: the validate stream compares, on a bounded-exhaustive grid plus random, the number of failing checks of the translation with the real '
                           'ValidateNodeGroup; decode runs every key as YAML and JSON through the real decoder; startup runs the built program (cmd/main.go, no build tag) on generated files of 1-4 node groups (duplicate names, invalid entries in any position) and compares "got past setupNodeGroups" with "every entry passes the translated validator"; an independent monitor re-checks Safe on every accepted configuration.',
                level_note=LEVEL_NOTE + ' YAML parsing itself (yaml.NewYAMLOrJSONDecoder) and time.ParseDuration are trusted library code; durations reach the model as the values the accessors returned.'),
    'C17': dict(level='proof', module='EscProofs.P.C17Scan',
                # controller-level histories too: what the provider is asked, and from which description of the group (refresh failures: 5 s of real sleep each)
                streams=dict(quick=[('awsops', ['-n', 3000]), ('fleetops', ['-n', 96]), ('hist', ['-n', 250, '-scans', 10, '-focus', 'up']), ('hist', ['-n', 16, '-scans', 6, '-focus', 'up', '-slow']), ('hist', ['-n', 250, '-scans', 10, '-focus', 'multi']), ('assemble', ['-n', 120, '-bin', '@BUILD/escalator-verif-bin'])],
                             thorough=[('awsops', ['-n', 200000]), ('fleetops', ['-n', 1600]), ('hist', ['-n', 10000, '-scans', 12, '-focus', 'multi']), ('hist', ['-n', 10000, '-scans', 12, '-focus', 'up']), ('hist', ['-n', 160, '-scans', 6, '-focus', 'up', '-slow']), ('assemble', ['-n', 3000, '-bin', '@BUILD/escalator-verif-bin'])],
                             search=[('awsops', ['-n', 20000]), ('fleetops', ['-n', 300]), ('hist', ['-n', 1500, '-scans', 12, '-focus', 'up']), ('hist', ['-n', 32, '-scans', 6, '-focus', 'up', '-slow']), ('hist', ['-n', 1500, '-scans', 12, '-focus', 'multi']), ('assemble', ['-n', 400, '-bin', '@BUILD/escalator-verif-bin'])]),
                aspects=['journal', 'outcome', 'hist:resize', 'assemble-cloud', 'assemble-no-dump', 'bad-case'], monitors=['C17'],
                theorems=['Esc.P.C17_increase', 'Esc.P.C17_reject', 'Esc.P.C17_never_lowers', 'Esc.P.C17_attach_partition', 'Esc.P.C17_batch_limits',
                          'Esc.P.mkFleetReq_ok', 'Esc.P.C17_scan_never_lowers', 'Esc.P.assemble_ready_timeout', 'Esc.P.gen_increaseSize_eq', 'Esc.P.C17_source_dispatch', 'Esc.P.gen_aws_translation_complete'],
                technique='Lean 4 theorem over the model of aws.NodeGroup.IncreaseSize (all deltas, bounds, fleet sizes, environments; batch constants regenerated from source) + differential correspondence on full AWS call arguments + monitor',
                level_text='C17_scan_never_lowers: every SetDesiredCapacity in the journal of ScaleUp asks for strictly more than the desired size the provider holds for the group at that moment (the implementation-side oracle loweringRequests is its negation, judged against the description the cloud itself gives). C17_increase: rejected requests make no call; otherwise exactly SetDesiredCapacity(current+d), or in fleet mode at most one CreateFleet for exactly d (min target d, instant, '
                           'configured template, default on-demand, overrides from the configured types) and never a SetDesiredCapacity; C17_attach_partition: attach calls carry consecutive batches of the acquired ids, '
                           '<= batchSize each, only the last shorter; C17_batch_limits ties batchSize<=20 / terminateBatchSize<=1000 to the constants extracted from aws.go; C17_never_lowers. '
                           'Tie: awsops/fleetops streams run the real provider over the simulated AWS; full call arguments compared; predicates monitored on observed journals.',
                level_note=LEVEL_NOTE),
    'C18': dict(level='proof', module='EscProofs.P.C18',
                streams=dict(quick=[('fleetops', ['-n', 160]), ('hist', ['-n', 8, '-scans', 6, '-focus', 'fleet']), ('hist', ['-n', 24, '-scans', 8, '-focus', 'fleetfail'])],
                             thorough=[('fleetops', ['-n', 3200]), ('hist', ['-n', 200, '-scans', 8, '-focus', 'fleet']), ('hist', ['-n', 600, '-scans', 10, '-focus', 'fleetfail'])],
                             search=[('fleetops', ['-n', 400]), ('hist', ['-n', 40, '-scans', 8, '-focus', 'fleet']), ('hist', ['-n', 80, '-scans', 8, '-focus', 'fleetfail'])]),
                aspects=['journal', 'outcome'], monitors=['C18'],
                theorems=['Esc.P.C18_no_leak', 'Esc.P.C18_error_reported', 'Esc.P.C18_no_lock', 'Esc.P.attachChunks_flatten', 'Esc.P.termChunks_flatten', 'Esc.P.C18_source_lock_only_on_success', 'Esc.P.gen_scaleUp_translation_complete'],
                technique='Lean 4 theorem over the model of attachInstancesToASG/terminateOrphanedInstances (permutation argument over batches, all failure points) + differential correspondence with fault injection at every call + monitor',
                level_text='C18_no_leak: for every fleet size, readiness outcome and failing call, attached ++ submitted-for-termination is a permutation of the acquired ids (never both, never neither), every TerminateInstances call carries '
                           '<= terminateBatchSize ids, and success is reported only when nothing was terminated; C18_no_lock: a failed increase leaves the scale lock untouched. Tie: fleetops stream (real provider, 1 s ticker, fleets up to 2500, failure sequences up to the third strike) + monitor; controller level: fleet-mode histories with the monitor "a cool-down starts only in a scan in which the cloud accepted an increase".',
                level_note=LEVEL_NOTE),
    'C19': dict(level='proof', module='EscProofs.P.C19Fresh',
                # churn: nodes come due, instances arrive, the cloud group's bounds move; with -slow the provider is rebuilt in between (5 s of real sleep each)
                streams=dict(quick=[('scenario', ['-dir', '@ROOT/corpus/C19']), ('awsops', ['-n', 3000]), ('hist', ['-n', 300, '-scans', 10]), ('hist', ['-n', 150, '-scans', 10, '-focus', 'churn']),
                                    ('hist', ['-n', 16, '-scans', 7, '-focus', 'churn', '-slow']), ('forever', [])],
                             thorough=[('scenario', ['-dir', '@ROOT/corpus/C19']), ('awsops', ['-n', 200000]), ('hist', ['-n', 15000, '-scans', 12]), ('hist', ['-n', 8000, '-scans', 12, '-focus', 'churn']),
                                       ('hist', ['-n', 160, '-scans', 8, '-focus', 'churn', '-slow']), ('forever', [])],
                             search=[('awsops', ['-n', 20000]), ('hist', ['-n', 1500, '-scans', 12]), ('hist', ['-n', 1000, '-scans', 12, '-focus', 'churn']), ('hist', ['-n', 32, '-scans', 8, '-focus', 'churn', '-slow']), ('forever', [])]),
                aspects=['journal', 'outcome', 'cached-desired', 'hist:removals', 'hist:outcome', 'forever-notingroup'], monitors=['C19'],
                theorems=['Esc.P.C19_delete', 'Esc.P.C19_count', 'Esc.P.C19_refuse', 'Esc.P.C19_k8s_after_cloud', 'Esc.P.C19_scan_batches',
                          'Esc.P.C19_not_member_scan', 'Esc.P.C19_not_member_fatal', 'Esc.P.C19_membership_fresh', 'Esc.P.forever_stops_on_every_error', 'Esc.P.gen_deleteGuard_eq', 'Esc.P.C19_source_guard', 'Esc.P.gen_aws_translation_complete', 'Esc.P.C19_source_delete_order', 'Esc.P.gen_tryDelete_translation_complete'],
                technique='Lean 4 theorem over the model of aws.NodeGroup.DeleteNodes and TryDeleteNodes (induction over the node list, every failing index) lifted to the scan journal shape + differential correspondence + monitors',
                level_text='C19_delete: DeleteNodes refuses without any call when the minimum would be breached, else terminates (with decrement) exactly the instances of a prefix of the given nodes, stopping at the first non-member (not-in-group) '
                           'or failed call; C19_count <= desired-min; C19_k8s_after_cloud / C19_scan_batches: Node deletions only after the whole batch was accepted, for both batches of a scan; C19_not_member_*: the error ends the scan and makes RunOnce fatal; C19_membership_fresh: "member" and "minimum" are those of an answer the cloud gave in this same scan (distinct cloud groups). '
                           'Tie: awsops (provider level) and hist (controller level) + monitors.',
                level_note=LEVEL_NOTE),
    'C12': dict(level='proof', module='EscProofs.P.C12', streams=dict(quick=[('scenario', ['-dir', '@ROOT/corpus/C12']), ('hist', ['-n', 400, '-scans', 10, '-focus', 'multi']), ('hist', ['-n', 16, '-scans', 6, '-focus', 'fleet']), ('assemble', ['-n', 120, '-bin', '@BUILD/escalator-verif-bin']), ('hist', ['-n', 24, '-scans', 8, '-focus', 'fleetfail'])],
                             thorough=[('scenario', ['-dir', '@ROOT/corpus/C12']), ('hist', ['-n', 20000, '-scans', 12, '-focus', 'multi']), ('hist', ['-n', 300, '-scans', 8, '-focus', 'fleet']), ('assemble', ['-n', 3000, '-bin', '@BUILD/escalator-verif-bin']), ('hist', ['-n', 600, '-scans', 10, '-focus', 'fleetfail'])],
                             search=[('hist', ['-n', 1500, '-scans', 12, '-focus', 'multi']), ('hist', ['-n', 60, '-scans', 8, '-focus', 'fleet']), ('assemble', ['-n', 400, '-bin', '@BUILD/escalator-verif-bin']), ('hist', ['-n', 80, '-scans', 8, '-focus', 'fleetfail'])]),
                aspects=['hist:journal', 'hist:reccount', 'hist:outcome', 'assemble-cloud', 'assemble-groups', 'assemble-no-dump', 'bad-case'], monitors=['C12'], py_monitor=c12_twin_monitor,
                theorems=['Esc.P.C12_targets', 'Esc.P.C12_frame', 'Esc.P.C12_containment', 'Esc.P.C12_fatal_kinds', 'Esc.P.scanGroup_gid', 'Esc.P.assemble_cloud_own', 'Esc.P.assemble_cloud_other_entries_irrelevant', 'Esc.P.main_wiring'],
                technique='Lean 4 theorem (targets from the journal anatomy; frame lemma for the per-group loop by induction over the configured groups; containment by case analysis of the loop) + differential correspondence on per-group journals with 2-3 groups + monitor + metamorphic twin run of the implementation (same scan on a second controller whose world differs only inside one group; the other groups\' calls and state must be identical)',
                level_text='C12_targets: every call of a group scan targets a node listed for that group, an instance of its cached cloud group, or that cloud group; C12_frame: a group\'s record is the scan of its own configuration, state, cloud group and view '
                           'as they stood before the loop, whatever the other groups (other names, other cloud groups) contain or do and wherever it stands in the order — other groups enter only through the index at which the environment is consulted; '
                           'C12_containment / C12_fatal_kinds: a run that is not fatal processed every group, and the loop is fatal only for not-in-group, fleet-strikes or a missing cloud group. '
                           'Tie: hist with 2-3 groups incl. `default`, nodes registered in another group\'s ASG; per-group journals compared; targets monitored on observed journals. Evaluation only from own pods/nodes: C14_view.',
                level_note=LEVEL_NOTE, assumptions=['node-group names are distinct and distinct groups use distinct cloud groups (documented configuration requirement)']),
    'C13': dict(level='proof', module='EscProofs.P.C13',
                streams=dict(quick=[('resources', ['-n', 3000]), ('arith', ['-n', 20000]), ('hist', ['-n', 200, '-scans', 10, '-focus', 'dry']), ('hist', ['-n', 150, '-scans', 10, '-focus', 'bands'])],
                             thorough=[('resources', ['-n', 200000]), ('arith', ['-n', 1000000]), ('hist', ['-n', 8000, '-scans', 12, '-focus', 'dry']), ('hist', ['-n', 8000, '-scans', 12, '-focus', 'bands'])],
                             search=[('resources', ['-n', 30000]), ('arith', ['-n', 100000]), ('hist', ['-n', 1000, '-scans', 12, '-focus', 'dry']), ('hist', ['-n', 1000, '-scans', 12, '-focus', 'bands'])]),
                aspects=['podTotal', 'lpMem', 'lpCPU', 'capTotal', 'laMem', 'laCPU', 'remaining', 'perm-invariance', 'pct-kind', 'pct-bits', 'panic', 'hist:delta'],
                monitors=['C13'],
                decisive={'podTotal': 'Esc.P.C13_totals: the model total is the sum over pods of max(sum containers, largest init) + overhead',
                          'capTotal': 'Esc.P.C13_capacity: the model capacity is the sum of allocatable over the given nodes'},
                theorems=['Esc.P.C13_pod', 'Esc.P.C13_totals', 'Esc.P.C13_capacity', 'Esc.P.C13_perm_pods', 'Esc.P.C13_perm_nodes',
                          'Esc.P.C13_nodeAvail_perm', 'Esc.P.largestPending_inv', 'Esc.P.C13_percent_exact', 'Esc.P.foldl_max_spec', 'Esc.P.gen_calcPercentUsage_eq', 'Esc.P.gen_calcPercentUsage_sentinel_both'],
                technique='Lean 4 theorem (closed forms of the folds; permutation invariance via commutative digests and List.Perm.foldl_eq\') + bit-exact differential correspondence of calculators and percentages + metamorphic permutation monitor',
                level_text='C13_pod/C13_totals/C13_capacity: request = sum over pods of max(sum containers, largest init)+overhead per resource, capacity = sum of allocatable; C13_perm_*: totals, capacity and the starve-test inputs are '
                           'invariant under any permutation of pods and nodes; C13_percent_exact: 100*req/cap with exact arithmetic (float layer: bit-exact correspondence of the rne64 model with Go, see C05). '
                           'Tie: resources stream (real calculators on generated pods/nodes in two orders) and arith stream (Float64bits equality).',
                level_note=LEVEL_NOTE + ' Quantity parsing (resource.Quantity strings) is outside the model: the harness feeds integer milli-CPU / byte values.',
                assumptions=['resource amounts are non-negative and sums stay within int64', 'quantities are whole millicores / whole bytes']),
    'C14': dict(level='proof', module='EscProofs.P.C14',
                streams=dict(quick=[('filters', []), ('hist', ['-n', 150, '-scans', 8, '-focus', 'multi']), ('hist', ['-n', 300, '-scans', 10])],
                             thorough=[('filters', []), ('hist', ['-n', 8000, '-scans', 12, '-focus', 'multi']), ('hist', ['-n', 10000, '-scans', 12])],
                             search=[('filters', []), ('hist', ['-n', 1000, '-scans', 12, '-focus', 'multi']), ('hist', ['-n', 1500, '-scans', 12])]),
                aspects=['affinity', 'default', 'match', 'bad-case', 'hist:delta', 'hist:journal'], monitors=['C14'],
                decisive={'affinity': 'Esc.P.C14_pod: the model filter is equivalent to the documented pod attribution rule',
                          'default': 'Esc.P.C14_default: the model filter is equivalent to the documented default-group rule',
                          'match': 'Esc.P.C14_node: the model filter is equivalent to the documented node rule'},
                theorems=['Esc.P.C14_pod', 'Esc.P.C14_default', 'Esc.P.C14_node', 'Esc.P.C14_static', 'Esc.P.C14_required_terms', 'Esc.P.C14_view', 'Esc.P.gen_podDefaultFilter_eq', 'Esc.P.C14_source_default', 'Esc.P.gen_nodeLabelFilter_eq', 'Esc.P.gen_podAffinityFilter_eq', 'Esc.P.C14_source_affinity', 'Esc.P.gen_filters_translation_complete'],
                technique='Lean 4 theorem (filter <-> documented rule, for all pods/nodes) + exhaustive small-scope differential correspondence with the real filter functions',
                level_text='C14_pod / C14_default / C14_node: the three filters are equivalent to the documented attribution rules for every pod and node; C14_view: a group\'s view is exactly the filtered lists. '
                           'Tie: filters stream enumerates exhaustively the small-scope universe (7 selectors x ~190 affinity shapes x 5 owner sets x 4 annotation sets = 141,820 pods, 9 label maps) through the real filter functions; at controller level, after every scan of the multi-group histories the harness asks each group\'s own lister objects what they return and the driver compares that with viewOf (names of pods and nodes): a disagreement names the mis-attributed pod or node.',
                level_note=LEVEL_NOTE, exhaustive=True),
    'C15': dict(level='proof', module='EscProofs.P.C15Done',
                streams=dict(quick=[('taintops', ['-n', 4000]), ('hist', ['-n', 300, '-scans', 10]), ('hist', ['-n', 200, '-scans', 10, '-focus', 'down']), ('hist', ['-n', 16, '-scans', 8, '-focus', 'down', '-slow'])],
                             thorough=[('taintops', ['-n', 100000]), ('hist', ['-n', 15000, '-scans', 12]), ('hist', ['-n', 10000, '-scans', 12, '-focus', 'down']), ('hist', ['-n', 160, '-scans', 8, '-focus', 'down', '-slow'])],
                             search=[('taintops', ['-n', 20000]), ('hist', ['-n', 1500, '-scans', 12]), ('hist', ['-n', 1500, '-scans', 12, '-focus', 'down']), ('hist', ['-n', 32, '-scans', 8, '-focus', 'down', '-slow'])]),
                aspects=['journal', 'ok', 'time', 'age', 'panic', 'hist:updates'], monitors=['C15'],
                theorems=['Esc.P.C15_add', 'Esc.P.C15_add_idempotent', 'Esc.P.C15_delete', 'Esc.P.C15_no_restamp', 'Esc.P.C15_history',
                          'Esc.P.swapRemoveFirst_perm', 'Esc.P.C15_precise_add', 'Esc.P.C15_precise_delete', 'Esc.P.C15_history_stamp', 'Esc.P.C15_delete_success_means_written', 'Esc.P.C15_add_success_means_written', 'Esc.P.C15_scan_no_restamp_in_view', 'Esc.P.C15_removal_lowers_count', 'Esc.P.C15_source_add', 'Esc.P.gen_addTaint_translation_complete', 'Esc.P.C15_source_delete', 'Esc.P.gen_delTaint_translation_complete'],
                technique='Lean 4 theorem (exact object of every UPDATE relative to the preceding GET; swap-remove preserves the other taints as a multiset; no re-stamp along histories) + differential correspondence on complete UPDATE objects + monitor',
                level_text='C15_delete_success_means_written / C15_add_success_means_written: success is reported only after an accepted UPDATE when the copy the API server returned needed one. C15_add/C15_delete: the UPDATE object is the fetched object plus exactly the stamped escalator taint (effect or NoSchedule) on an object without one, or minus its first escalator taint, all other fields and taints preserved; '
                           'C15_precise_add / C15_precise_delete: the objects the model writes satisfy the very predicate the monitor evaluates on observed UPDATEs (taints compared as a multiset: the property does not fix their order); C15_add_idempotent: an already tainted node gets no UPDATE; C15_no_restamp/C15_history: no write ever gives an already tainted node a different escalator taint. '
                           'Tie: taintops (direct calls, stale views, odd taint values, faults) and hist; full objects compared (plus a digest of every unmodelled field); monitor on observed GET/UPDATE pairs.',
                level_note=LEVEL_NOTE),
    'C20': dict(level='proof', module='EscProofs.P.C20',
                streams=dict(quick=[('scenario', ['-dir', '@ROOT/corpus/C20']), ('hist', ['-n', 500, '-scans', 8, '-focus', 'faults']), ('hist', ['-n', 16, '-scans', 7, '-focus', 'churn', '-slow']), ('hist', ['-n', 24, '-scans', 8, '-focus', 'fleetfail']), ('forever', [])],
                             thorough=[('scenario', ['-dir', '@ROOT/corpus/C20']), ('hist', ['-n', 30000, '-scans', 10, '-focus', 'faults']), ('hist', ['-n', 160, '-scans', 6, '-focus', 'faults', '-slow']), ('hist', ['-n', 160, '-scans', 8, '-focus', 'churn', '-slow']), ('hist', ['-n', 600, '-scans', 10, '-focus', 'fleetfail']), ('forever', [])],
                             search=[('hist', ['-n', 2500, '-scans', 8, '-focus', 'faults']), ('hist', ['-n', 32, '-scans', 8, '-focus', 'churn', '-slow']), ('hist', ['-n', 80, '-scans', 8, '-focus', 'fleetfail']), ('forever', [])]),
                aspects=['hist:outcome', 'hist:reccount', 'hist:ok', 'panic', 'forever-outcome', 'forever-notingroup'], monitors=['C20'],
                theorems=['Esc.P.C20_outcomes', 'Esc.P.C20_fatal_only_partial', 'Esc.P.C20_contained', 'Esc.P.C20_provider_id_guard', 'Esc.P.C20_ready_bounded',
                          'Esc.P.C12_containment', 'Esc.P.C20_stop_founded', 'Esc.P.tryDelete_notInGroup', 'Esc.P.forever_stops_on_every_error'],
                technique='Lean 4 theorem (totality/termination of the model by construction, enumeration of RunOnce outcomes, error containment, index guard) + differential correspondence of the outcome class of every scan under odd object shapes and single/double injected faults + monitor; partial',
                level_text='PARTIAL. Proved over the model: every function is total and every loop bounded (accepted definitions; C20_ready_bounded), a RunOnce ends in one of five enumerated ways (C20_outcomes), errors confined to a node or group do not stop the run '
                           '(C20_contained), the only out-of-range index on the path is guarded (C20_provider_id_guard); C20_fatal_only_partial: without refresh failure / fleet strikes the only fatal outcome is not-in-group (the two other stop conditions are findings T5, T8). '
                           'NOT provable in the model: that the Go code itself does not panic or hang — this is observed: the hist stream (odd shapes: nil allocatable, empty/short provider ids, absurd taint values, zero capacity; faults at every call index, single and double) '
                           'compares the outcome class of every scan (recover() around the real RunOnce) and the next scan; real timers (1 s ticker, 5 s rebuild sleep) are runtime behaviour the model does not exhibit.',
                level_note=LEVEL_NOTE),
}

# Streams added to several properties at once.
#  -realctor: the controller is built through the real NewController (its informers must sync: about half a second of
#             waiting per construction, so these run in shards like the -slow streams). Without it the harness uses a hook
#             that repeats NewController's body with caller-supplied listers, which a change to NewController escapes.
#  -slow:     the credentials refresh may fail (the provider is rebuilt, 5 s of real sleep) and real seconds pass.
def _extra(prop, focus, flag, q, t, sn):
    st = PROPS[prop]['streams']
    st['quick'].append(('hist', ['-n', q, '-scans', 6, '-focus', focus, flag]))
    st['thorough'].append(('hist', ['-n', t, '-scans', 8, '-focus', focus, flag]))
    st['search'].append(('hist', ['-n', sn, '-scans', 8, '-focus', focus, flag]))


for _p, _f in (('C02', 'cooldown'), ('C03', 'restore'), ('C04', 'autodisc'), ('C11', 'dry'), ('C12', 'multi')):
    _extra(_p, _f, '-realctor', 32, 320, 64)
PROPS['C10']['streams']['quick'].append(('taintops', ['-n', 3000]))
PROPS['C10']['streams']['thorough'].append(('taintops', ['-n', 60000]))
PROPS['C10']['streams']['search'].append(('taintops', ['-n', 10000]))
PROPS['C10']['aspects'] = PROPS['C10']['aspects'] + ['journal', 'ok']
PROPS['C18']['aspects'] = PROPS['C18']['aspects'] + ['hist:resize']
PROPS['C17']['streams']['quick'].append(('hist', ['-n', 32, '-scans', 6, '-focus', 'fleet']))
PROPS['C17']['streams']['thorough'].append(('hist', ['-n', 240, '-scans', 8, '-focus', 'fleet']))
PROPS['C17']['streams']['search'].append(('hist', ['-n', 40, '-scans', 8, '-focus', 'fleet']))
PROPS['C18']['streams']['quick'].append(('hist', ['-n', 250, '-scans', 10, '-focus', 'up']))
PROPS['C18']['streams']['thorough'].append(('hist', ['-n', 8000, '-scans', 12, '-focus', 'up']))
PROPS['C18']['streams']['search'].append(('hist', ['-n', 1000, '-scans', 12, '-focus', 'up']))
for _p, _f in (('C05', 'up'), ('C01', 'churn'), ('C09', 'churn'), ('C10', 'churn'), ('C03', 'up')):
    _extra(_p, _f, '-slow', 16, 160, 32)


# diffs that are relevant whatever the property (the scan's overall result)
GLOBAL_ASPECTS = {'outcome'}


# Round 3: what the regenerated ties (Tie B, DESIGN.md section 0 "Round 3") add to each claim. Appended to the level text.
SOURCE_NOTES = {
    'C14': 'Tie B (node_group.go, the three filter constructors as translated): gen_podDefaultFilter_eq / C14_source_default, gen_nodeLabelFilter_eq, gen_podAffinityFilter_eq / C14_source_affinity (the skeleton; the loop over the affinity terms is recognised by its text as the pinned one).',
    'C07': 'Tie B (scale_up.go ScaleUp, as translated with its two callees as parameters): C07_source_remainder — scaleUpCloudProviderNodeGroup is called iff untainting reported no error and left a positive remainder, and is handed exactly want - untainted; gen_scaleUp_remainder_eq: that is the remainder the model computes; C07_source_untaint_at_most_n — the translated loop of untaintNewestN, over any list of candidates and outcomes (induction), hands back at most N; C07_source_untaint_exact — exactly min(N, candidates that can be handed back): untainted candidates and failed removals are walked past.',
    'C18': 'Tie B (scale_up.go ScaleUp): C18_source_lock_only_on_success — the cool-down lock is taken iff the cloud was asked and reported no error, with the number it reported; on an error ScaleUp returns it and takes no lock.',
    'C01': 'Tie B (regenerated from scale_down.go and taint.go on every run): gen_reaperCands_eq / gen_forceCands_eq — the loop bodies of the two reapers, as translated from the source, select exactly the model\'s candidates; C01_source_reaper: a candidate is handed on only if unprotected, its time readable, not dry, age > soft and (empty or age > hard); gen_taintTime_eq / C01_source_taint_time: a time is returned only for a parsable value within the years 1-9999.',
    'C02': 'Tie B (scale_lock.go): gen_lockLocked_eq / gen_lockUnlock_eq / gen_lockLock_eq — the three methods, as translated (unlock() spliced into locked()), are the model\'s; C02_source_lock: inside the cool-down locked() says yes and changes nothing, once it has elapsed it says no and leaves the lock released.',
    'C03': 'Tie B (scale_down.go): gen_taintClamp_eq; C03_source_clamp — the translated head of scaleDownTaint taints min(asked, untainted - min_nodes) and refuses iff fewer than min_nodes are untainted; C06_source_taint_at_most_n — the translated loop of taintOldestN, run over any list of outcomes (induction), never taints more than it was asked; C06_taintLoop_count_exact / gen_taintLoop_count_eq_dry — the model\'s loop, live and dry, counts what the translated loop counts: min(asked, candidates whose write succeeds).',
    'C04': 'Tie B (scale_up.go): gen_clampedNodesToAdd_eq; C04_source_clamp — what the translated head of scaleUpCloudProviderNodeGroup goes on to request never exceeds min(max_nodes, cloud max), lands exactly on it when clamped, and is unchanged below it.',
    'C05': 'Tie B (util.go): gen_calcPercentUsage_eq, gen_calcScaleUpDelta_vals/_sentinel — the translated arithmetic equals the model for every rounding function; C05_source_in_region: run in binary64 it gives N <= n + delta <= N + 1 in the proven region.',
    'C06': 'Tie B (controller.go, util.go, scale_down.go): gen_bandSwitch_vals/_sentinel, C06_source_bands — the translated switch decides -fast / -slow / 0 / scale-up by band; C03_source_clamp gives the taint amount min(rate, untainted - min_nodes); gen_isScaleOnStarve_eq / gen_scaleOnMaxNodeAge_eq: the two documented triggers, as translated, are the model\'s (C06_source_triggers_off: switched off, they never fire); C06_source_taint_exact — the translated taint loop taints exactly min(n, candidates) when the writes succeed, for lists of any length; C06_source_taint_exact_failures — with failing writes exactly min(n, candidates whose write succeeds).',
    'C09': 'Tie B (controller.go filterNodes): gen_classifyNode_eq; C09_source_cordoned — outside dry mode a cordoned node goes to the cordoned list and to no other.',
    'C10': 'Tie B (scale_down.go): C01_source_reaper (a protected candidate is never handed on), C10_source_no_holdback (an eligible unprotected one is, whatever stands next to it: the verdict is per candidate).',
    'C11': 'The assembly of the program (cmd/main.go) is run in the built program (stream assemble, hook cmd/verif_hooks.go) against Esc.assemble: assemble_dry, assemble_dry_other_entries_irrelevant; main_wiring (regenerated facts about func main): the controller gets --drymode and the assembled groups, nothing else. Tie B: C01_source_reaper / gen_forceAppend_eq — neither reaper hands anything on in dry mode.',
    'C12': 'Assembly (stream assemble): assemble_cloud_own / assemble_cloud_other_entries_irrelevant — the cloud configuration of a group is made from its own entry; main_wiring.',
    'C13': 'Tie B (util.go): gen_calcPercentUsage_eq — the translated percentage computation is the model\'s; gen_calcPercentUsage_sentinel_both.',
    'C15': 'C15_scan_no_restamp_in_view: every UPDATE of a scan names a node that carries no escalator taint in that scan\'s view, or is a removal (C15_removal_lowers_count) — no two-step re-stamp inside one scan; monitored as C15.restampBad. Tie B (taint.go AddToBeRemovedTaint, as translated with GET and UPDATE as parameters): C15_source_add — the UPDATE is sent iff the fetched copy carries no escalator taint; the appended taint has the configured effect, NoSchedule if unset; C15_source_delete (DeleteToBeRemovedTaint): the UPDATE is sent iff the fetched copy carries the escalator taint, after the pinned swap-delete of the first such taint.',
    'C16': 'Assembly (stream assemble): assemble_groups — the options handed to the controller are those of the file, entry by entry.',
    'C17': 'Tie B (aws.go IncreaseSize): gen_increaseSize_eq; C17_source_dispatch — rejected before any call iff d <= 0 or current + d > max, otherwise exactly d to the fleet path or exactly current + d. Assembly: assemble_ready_timeout.',
    'C19': 'Tie B (aws.go DeleteNodes): gen_deleteGuard_eq; C19_source_guard — refused as a whole iff it would breach the minimum. C19_source_delete_order (scale_down.go TryDeleteNodes, as translated): the Kubernetes DeleteNodes is called iff the cloud call was made and returned no error. forever_stops_on_every_error + stream forever (the real RunForever): a not-in-group error ends the loop.',
    'C20': 'forever_stops_on_every_error (regenerated facts about RunForever) + stream forever on the real RunForever: after a transient failure the loop goes on scanning, after a failed rebuild it returns (finding T5) and does not panic.',
}
for _p, _t in SOURCE_NOTES.items():
    PROPS[_p]['level_text'] = PROPS[_p]['level_text'] + ' ' + _t + ' Where a regenerated piece no longer matches the model (the source was rewritten) the run falls back to the translation of the pinned tree and says so in the evidence; the correspondence is then the tie for that piece.'


def diff_relevant(prop, d):
    """d is e.g. 'g0:removals' (a group-scan aspect of the hist/scenario streams), 'outcome', 'pre', 'reccount',
    'init:journal' (run-level aspects of those streams), or a bare aspect of a direct-call stream ('journal', 'ok', …).
    In the table, 'hist:x' names a group-scan or run-level aspect of hist/scenario; a bare 'x' names a direct-call aspect."""
    asp = set(PROPS[prop]['aspects'])
    if ':' in d:
        return 'hist:' + d.split(':')[-1] in asp
    if d in ('outcome', 'pre', 'reccount'):
        return 'hist:' + d in asp or d in asp
    return d in asp


def sample_of(case_line, result):
    try:
        c = json.loads(case_line)
    except Exception:
        return dict(raw=case_line[:300])
    if c.get('op') == 'scan':
        return dict(op='scan', nodes=[dict(name=n['name'], taints=[t['key'] + '=' + t['value'] for t in n['taints']], cordoned=n['unschedulable'])
                                      for n in c['nodes']][:8],
                    pods=len(c['pods']), observed=[dict(group=r['name'], delta=r['delta'], calls=[call_name(e) for e in r['j']][:12]) for r in c['obs']['recs']],
                    branches=result.get('branches'))
    c.pop('obs', None)
    s = json.dumps(c)
    return json.loads(s) if len(s) < 1500 else dict(raw=s[:1500])


def call_name(e):
    c = e['call']
    if isinstance(c, str):
        return c
    k = list(c)[0]
    v = c[k]
    tgt = v.get('name') or v.get('id') or v.get('group') or (v.get('obj') or {}).get('name') or ''
    return '%s(%s)%s' % (k, tgt, '' if e['ok'] else '!')
