"""Table of properties: which streams feed them, which correspondence aspects and monitors decide
them, which Lean module/theorems carry the proof."""
import json

TRIVIAL_BRANCHES = {'empty', 'below-min-count', 'above-max-count', 'pct-err'}

TRUSTED_BASE = [
    'Lean 4.33 kernel; axioms allowed: propext, Classical.choice, Quot.sound (audited with #print axioms on every run)',
    'statement of the theorems in lean/EscProofs/P/<id>.lean and of the predicates in lean/Esc/Spec.lean',
    'hand-written model lean/Esc/*.lean, tied to /repo by the differential harness (harness/, built with -tags verif against the working tree)',
    'extractor extract/ (go/ast) that regenerates lean/Esc/Gen/*.lean from /repo on every run',
    'simulated Kubernetes node API and AWS ASG/EC2 (harness/sim.go) as the source of environment responses',
]

ASSUMPTIONS = [
    'the Kubernetes API answers a GET with the object that was asked for (a response carrying another name is treated as a failure)',
    'AWS SDK response shapes: required pointer fields are non-nil',
    'informers/listers, leader election, metrics, logging, AWS session construction are outside the model',
    'int64 overflow of resource sums and float64 -> int conversions out of range are outside the domain',
]

HIST_Q = ('hist', ['-n', 400, '-scans', 10])
HIST_T = ('hist', ['-n', 20000, '-scans', 12])
HIST_S = ('hist', ['-n', 3000, '-scans', 12])


def hist(prop, focus=None, q=400, t=20000, s=3000):
    f = ['-focus', focus] if focus else []
    corpus = [('scenario', ['-dir', '/verif/corpus/' + prop])]
    return dict(quick=corpus + [('hist', ['-n', q, '-scans', 10] + f)],
                thorough=corpus + [('hist', ['-n', t, '-scans', 12] + f)],
                search=[('hist', ['-n', s, '-scans', 12] + f)])


HOOK_COMMITS = ['8b60f71']
FIX_COMMITS = ['4e44fa6 (C04)', '1c752d6 (C02)', '0ec6acc (C18)', 'a3c0a98 (C20)', 'be6e20c (C16)', '839495b (C07)']
NOT_YET = {}

LEVEL_NOTE = ('Trusted: Lean kernel + axioms propext/Classical.choice/Quot.sound; the hand-written model (lean/Esc) and the '
              'statement of the theorems; the correspondence harness (simulated k8s/AWS, canonicalisation, generator reach); '
              'the go/ast extractor. Modelled, not verified: informers, leader election, metrics, logging, AWS session/SDK shapes.')

PROPS = {
    'C01': dict(level='proof', module='EscProofs.P.C01', streams=hist('C01'),
                technique='Lean 4 theorem over an executable model (journal soundness by induction over node lists, lifted to histories) + differential correspondence and runtime monitor on the real code',
                level_text='Theorems C01_scan_partial / C01_history_partial: for every configuration with non-negative grace periods, controller state, view, clocks, '
                           'ordering and environment responses, along every history with restarts, each terminate/delete call of the model is backed by an eligible node of that '
                           "scan's view; partial because taint values above 2^63-1-62135596800 are excluded (C01_full_fails proves the full statement false: finding T1). "
                           'The model is tied to the code by the hist correspondence (projection: removal calls) and the same predicate is monitored on the observed journals.',
                level_note=LEVEL_NOTE,
                aspects=['removals'], monitors=['C01'],
                theorems=['Esc.P.C01_scan_partial', 'Esc.P.C01_history_partial', 'Esc.P.C01_unreadable', 'Esc.P.C01_untainted', 'Esc.P.C01_cordoned',
                          'Esc.P.C01_full_fails']),
}

# diffs that are relevant whatever the property (the scan's overall result)
GLOBAL_ASPECTS = {'outcome'}


def diff_relevant(prop, d):
    """d is e.g. 'g0:removals', 'pre', 'outcome', 'init:journal', 'g1:state'."""
    aspect = d.split(':')[-1]
    asp = set(PROPS[prop]['aspects'])
    return aspect in asp or d in asp


def sample_of(case_line, result):
    try:
        c = json.loads(case_line)
    except Exception:
        return dict(raw=case_line[:300])
    if c.get('op') == 'scan':
        return dict(op='scan', nodes=[dict(name=n['name'], taints=[t['key'] + '=' + t['value'] for t in n['taints']], cordoned=n['unschedulable'])
                                      for n in c['nodes']][:8],
                    pods=len(c['pods']), observed=[dict(group=r['name'], delta=r['delta'], calls=[call_name(e) for e in r['j']][:12]) for r in c['obs']['recs']],
                    branches=result.get('branches'))
    c.pop('obs', None)
    s = json.dumps(c)
    return json.loads(s) if len(s) < 1500 else dict(raw=s[:1500])


def call_name(e):
    c = e['call']
    if isinstance(c, str):
        return c
    k = list(c)[0]
    v = c[k]
    tgt = v.get('name') or v.get('id') or v.get('group') or (v.get('obj') or {}).get('name') or ''
    return '%s(%s)%s' % (k, tgt, '' if e['ok'] else '!')
