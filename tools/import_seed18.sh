#!/bin/bash
# import_seed17.sh <Axx>: copy a eighteenth-batch (small slips in the code under Tie B) seeded change from its scratch worktree into /verif/seeded/<Cxx>-q and confirm it.
set -u
a=$1
id=$(cat /tmp/mut18/$a.prop)
src=/tmp/mut18/$a/seed_out
dst=/verif/seeded/$id-r
[ -f $src/patch.diff ] || { echo "$a no patch"; exit 1; }
mkdir -p $dst
cp $src/patch.diff $src/demo_path.txt $src/notes.md $dst/
cp $src/$(basename $(cat $src/demo_path.txt | tr -d '\n ')) $dst/
/verif/tools/verify_seed.sh $id-r
