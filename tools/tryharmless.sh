#!/bin/bash
V=${VERIF_ROOT:-/verif}
# tryharmless.sh <name> [checks...]: run checks (default: all) against a private clone of /repo with a behaviour-preserving
# rewrite from $V/harmless/<name>/patch.diff applied. Every check is expected to stay quiet.
set -u
name=$1; shift
checks=${*:-C01 C02 C03 C04 C05 C06 C07 C08 C09 C10 C11 C12 C13 C14 C15 C16 C17 C18 C19 C20}
W=/tmp/tryharm-$name-$$
rm -rf $W; git clone -q /repo $W/repo || exit 2
git -C $W/repo apply $V/harmless/$name/patch.diff || { echo "[$name] patch does not apply"; rm -rf $W; exit 2; }
mkdir -p $W/build
for c in $checks; do VERIF_REPO=$W/repo VERIF_BUILD=$W/build $V/check $c | grep -v KNOWN-FINDING | grep -v "^OK" | sed "s/^/[$name] /"; done
mkdir -p /tmp/tryharm-keep/$name; cp -r $W/build/evidence/replay /tmp/tryharm-keep/$name/ 2>/dev/null
rm -rf $W
echo "[$name] done"
