#!/bin/bash
V=${VERIF_ROOT:-/verif}
# tryseed.sh <seed-id> <check-id>... : run checks against a private clone of /repo with the seeded change applied
# (never touches /repo; safe while background runs are using it).
set -u
seed=$1; shift
W=/tmp/tryseed-$seed-$$
rm -rf $W; git clone -q /repo $W/repo || exit 2
git -C $W/repo apply ${VERIF_SEEDS:-$V/seeded}/$seed/patch.diff || { echo "patch does not apply"; exit 2; }
mkdir -p $W/build
for c in "$@"; do VERIF_REPO=$W/repo VERIF_BUILD=$W/build $V/check $c | grep -v KNOWN-FINDING | sed "s/^/[$seed] /"; done
rm -rf /tmp/tryseed-keep/$seed; mkdir -p /tmp/tryseed-keep/$seed; cp -r $W/build/evidence /tmp/tryseed-keep/$seed/ 2>/dev/null
rm -rf $W
