#!/bin/bash
# try6.sh <Cxx>: import the sixteenth-batch seed of Cxx, confirm it, run the property's own check against it
id=$1
/verif/tools/import_seed16.sh $id 2>&1 | grep -v "^ok\|^PASS" | tail -2
${VERIF_ROOT:-/verif}/tools/tryseed.sh $id-p $id 2>&1 | grep -v "^\[.*\] *$"
