"""Known findings: genuine defects of the implementation that are recorded rather than repaired.
The list lives in /verif/known_findings.json (committed, never written at run time). A monitor
failure is suppressed only if a listed finding's matcher accepts the *specific* failing case."""
import json, os

_cache = {}


def load(root):
    if root not in _cache:
        p = os.path.join(root, 'known_findings.json')
        _cache[root] = json.load(open(p)) if os.path.exists(p) else {'findings': [], 'fixed': []}
    return _cache[root]


def _case(it):
    with open(it['cases']) as f:
        for i, line in enumerate(f):
            if i == it['line']:
                return json.loads(line)
    return None


INT64_MAX = 2 ** 63 - 1
UNIX_TO_INTERNAL = 62135596800


def m_doc_key_timeout(it, case):
    """T4: only the documented-but-undecoded key scale_up_cool_down_timeout."""
    return it['detail'] == 'C16:key-not-honoured:scale_up_cool_down_timeout'


def m_fatal_rebuild(it, case):
    return it['detail'] == 'C20:fatal:rebuild-failed'


def m_fatal_strikes(it, case):
    return it['detail'] == 'C20:fatal:fleet-strikes'


def m_float_short(it, case):
    """T2: the float delta is exactly one short on an input outside the region in which Lean proves the float result
    sufficient (C05_float_sufficient: 800*R + 4*C*T < 2^53 for the request R and capacity C of a resource, i.e. error
    budget below the granularity 1/(s*T); from zero: 400*R < 2^53). Inside that region a short delta is NOT this finding."""
    T = case.get('T', 0)
    if it['detail'] == 'C05:short:1':
        return any(800 * case.get(r, 0) + 4 * case.get(c, 0) * T >= 2 ** 53 for r, c in (('cpuReq', 'cpuCap'), ('memReq', 'memCap')))
    if it['detail'] == 'C05:short0:1':
        return any(400 * case.get(r, 0) >= 2 ** 53 for r in ('cpuReq', 'memReq'))
    return False


MATCHERS = {'float_delta_one_short_huge': m_float_short, 'fatal_rebuild_failed': m_fatal_rebuild, 'fatal_fleet_strikes': m_fatal_strikes, 'doc_key_scale_up_cool_down_timeout': m_doc_key_timeout}


def match(prop, it, root):
    """Returns the description of the listed finding that explains this monitor failure, or None."""
    case = None
    for f in load(root)['findings']:
        if f['property'] != prop:
            continue
        fn = MATCHERS.get(f['matcher'])
        if fn is None:
            continue
        if case is None:
            case = _case(it)
        if case is not None and fn(it, case):
            return '%s: %s' % (f['id'], f['what'])
    return None
