#!/bin/bash
# sweep.sh <seeds...>: all 20 quick checks per seed on the unchanged tree, 4 at a time
export VERIF_REPO=$VP_RUN_REPO
./setup.sh > setup.log 2>&1
for s in "$@"; do
  for p in C01 C02 C03 C04 C05 C06 C07 C08 C09 C10 C11 C12 C13 C14 C15 C16 C17 C18 C19 C20; do echo "$s $p"; done
done | xargs -P 5 -L 1 bash -c 'VERIF_SEED=$0 ./check $1 2>&1 | grep -v KNOWN-FINDING | tail -1 | sed "s/^/seed=$0 /"' > sweep.log 2>&1
grep -c " OK " sweep.log; grep -v " OK " sweep.log
