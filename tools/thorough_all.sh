#!/bin/bash
# thorough_all.sh [parallel]: the thorough tier of all twenty checks on the unchanged tree (for `vp run --with-repo`)
export VERIF_REPO=${VP_RUN_REPO:-/repo}
./setup.sh > setup.log 2>&1
P=${1:-3}
for p in C03 C05 C19 C20 C01 C02 C04 C06 C07 C09 C10 C11 C12 C13 C14 C15 C16 C17 C18 C08; do echo $p; done |
  xargs -P $P -I{} bash -c './check {} --tier thorough 2>&1 | grep -v KNOWN-FINDING | tail -1; rm -rf build/run/{}' > thorough.log 2>&1
grep -c "^OK" thorough.log; grep -v "^OK" thorough.log
