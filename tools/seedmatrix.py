#!/usr/bin/env python3
"""Apply each seeded change to /repo, run the registered checks, undo. Prints/records which checks fire."""
import subprocess, sys, os, json
ROOT = os.path.dirname(os.path.dirname(os.path.abspath(__file__)))
sys.path.insert(0, os.path.join(ROOT, 'tools'))
import props as P
REPO = os.environ.get('VERIF_REPO', '/repo')
seeds = sys.argv[1].split(',') if len(sys.argv) > 1 and sys.argv[1] != 'all' else sorted(os.listdir(os.path.join(ROOT, 'seeded')))
checks = sys.argv[2].split(',') if len(sys.argv) > 2 else sorted(P.PROPS)
assert subprocess.run(['git', '-C', REPO, 'status', '--porcelain'], capture_output=True, text=True).stdout.strip() == '', '/repo not clean'
out = {}
for s in seeds:
    patch = os.path.join(ROOT, 'seeded', s, 'patch.diff')
    if not os.path.exists(patch):
        continue
    r = subprocess.run(['git', '-C', REPO, 'apply', patch], capture_output=True, text=True)
    if r.returncode != 0:
        print(s, 'PATCH DOES NOT APPLY', r.stderr[:200]); continue
    row = {}
    try:
        for c in checks:
            q = subprocess.run([os.path.join(ROOT, 'check'), c], capture_output=True, text=True, cwd=ROOT)
            v = [l for l in q.stdout.split('\n') if l.startswith('VIOLATION')]
            if q.returncode == 0:
                row[c] = 'ok'
            elif v and 'no-failing-input-found' in v[0]:
                row[c] = 'NOINPUT'
            elif v:
                row[c] = 'INPUT'
            else:
                row[c] = 'ERR:' + (q.stdout + q.stderr)[-200:].replace('\n', ' ')
    finally:
        subprocess.run(['git', '-C', REPO, 'checkout', '--', '.'])
    out[s] = row
    print(s, ' '.join('%s=%s' % (k, v) for k, v in row.items() if v != 'ok') or 'MISSED by all of ' + ','.join(checks), flush=True)
json.dump(out, open(os.path.join(os.environ.get('VERIF_BUILD', os.path.join(ROOT, 'build')), 'seedmatrix.json'), 'w'), indent=1)
# restore unchanged-tree evidence
for c in checks:
    subprocess.run([os.path.join(ROOT, 'check'), c], capture_output=True, text=True, cwd=ROOT)
