#!/usr/bin/env python3
"""Apply each seeded change to a copy of the repository, run the checks, record which fire.

  seedmatrix.py <seeds|all> [<checks>] [--workers N] [--own]

--own: for each seed run only the check of the property it was written against.

With --workers N > 1 it creates N private copies of /verif (ROOT) and of the repository under
$TMPDIR (default /tmp/seedmx) and spreads the seeds over them. Without it, it works in place on
VERIF_REPO (default /repo) — /repo must then be clean and is restored afterwards."""
import subprocess, sys, os, json, shutil, threading
ROOT = os.path.dirname(os.path.dirname(os.path.abspath(__file__)))
sys.path.insert(0, os.path.join(ROOT, 'tools'))
import props as P
REPO = os.environ.get('VERIF_REPO', '/repo')
args = [a for a in sys.argv[1:] if not a.startswith('--')]
OWN = '--own' in sys.argv
workers = 1
if '--workers' in sys.argv:
    workers = int(sys.argv[sys.argv.index('--workers') + 1])
    args = [a for a in args if a != str(workers)]
seeds = args[0].split(',') if args and args[0] != 'all' else sorted(os.listdir(os.path.join(ROOT, 'seeded')))
checks = args[1].split(',') if len(args) > 1 else sorted(P.PROPS)
out = {}
lock = threading.Lock()


def run_seed(root, repo, build, s):
    patch = os.path.join(ROOT, 'seeded', s, 'patch.diff')
    if not os.path.exists(patch):
        return
    r = subprocess.run(['git', '-C', repo, 'apply', patch], capture_output=True, text=True)
    if r.returncode != 0:
        with lock:
            print(s, 'PATCH DOES NOT APPLY', r.stderr[:200], flush=True)
        return
    row = {}
    env = dict(os.environ, VERIF_REPO=repo, VERIF_BUILD=build)
    try:
        for c in ([('C02' if s == 'M01' else s[:3])] if OWN else checks):
            q = subprocess.run([os.path.join(root, 'check'), c], capture_output=True, text=True, cwd=root, env=env)
            v = [l for l in q.stdout.split('\n') if l.startswith('VIOLATION')]
            if q.returncode == 0:
                row[c] = 'ok'
            elif v and 'no-failing-input-found' in v[0]:
                row[c] = 'NOINPUT'
            elif v:
                row[c] = 'INPUT'
            else:
                row[c] = 'ERR:' + (q.stdout + q.stderr)[-200:].replace('\n', ' ')
    finally:
        subprocess.run(['git', '-C', repo, 'checkout', '--', '.'])
    with lock:
        out[s] = row
        print(s, ' '.join('%s=%s' % (k, v) for k, v in row.items() if v != 'ok') or 'MISSED by all of ' + ','.join(checks), flush=True)


if workers <= 1:
    assert subprocess.run(['git', '-C', REPO, 'status', '--porcelain'], capture_output=True, text=True).stdout.strip() == '', 'repo not clean'
    for s in seeds:
        run_seed(ROOT, REPO, os.environ.get('VERIF_BUILD', os.path.join(ROOT, 'build')), s)
else:
    base = os.environ.get('TMPDIR', '/tmp') + '/seedmx'
    shutil.rmtree(base, ignore_errors=True)
    os.makedirs(base)
    ws = []
    for w in range(workers):
        wr, wrepo = '%s/verif%d' % (base, w), '%s/repo%d' % (base, w)
        subprocess.check_call(['rsync', '-a', '--exclude', 'build/run', '--exclude', 'evidence/replay', '--exclude', '.git', ROOT + '/', wr + '/'])
        subprocess.check_call(['git', 'clone', '-q', REPO, wrepo])
        os.makedirs(wr + '/build', exist_ok=True)
        ws.append((wr, wrepo, wr + '/build'))
    def worker(i):
        for s in seeds[i::workers]:
            run_seed(*ws[i], s)
    ts = [threading.Thread(target=worker, args=(i,)) for i in range(workers)]
    [t.start() for t in ts]
    [t.join() for t in ts]
    shutil.rmtree(base, ignore_errors=True)
dest = os.path.join(os.environ.get('VERIF_BUILD', os.path.join(ROOT, 'build')), 'seedmatrix.json')
os.makedirs(os.path.dirname(dest), exist_ok=True)
json.dump(out, open(dest, 'w'), indent=1, sort_keys=True)
