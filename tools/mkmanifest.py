#!/usr/bin/env python3
"""Regenerate MANIFEST.json from tools/props.py (claimed checks) and properties.jsonl (the rest)."""
import json, os, sys
ROOT = os.path.dirname(os.path.dirname(os.path.abspath(__file__)))
sys.path.insert(0, os.path.join(ROOT, 'tools'))
import props as P

ids = [json.loads(l)['id'] for l in open(os.path.join(ROOT, 'properties.jsonl'))]
hooks_commit = P.HOOK_COMMITS
m = {
    "version": 1,
    "setup_cmd": "cd /verif && ./setup.sh",
    "hooks": {
        "guard": "verif",
        "enable": "go build -tags verif (harness module: replace github.com/atlassian/escalator => /repo); hook files pkg/controller/verif_hooks.go, pkg/cloudprovider/aws/verif_hooks.go, cmd/verif_hooks.go (go build -tags verif ./cmd; active only with ESCALATOR_VERIF_ASSEMBLE set)",
        "baseline_off_cmd": "cd /repo && GOFLAGS=-mod=mod GOPROXY=off GOSUMDB=off go test -vet=off -count=1 ./...",
        "source_commits": hooks_commit,
        "add_only": True,
    },
    "engines": [
        {"name": "lean-model", "path": "lean/", "serves_properties": sorted(P.PROPS), "kind_free_text": "Lean 4 executable model (Esc/), property theorems (EscProofs/P/), core-only line-protocol driver (escmodel)"},
        {"name": "harness", "path": "harness/", "serves_properties": sorted(P.PROPS), "kind_free_text": "Go differential harness linking the real packages with -tags verif over simulated Kubernetes/AWS"},
        {"name": "extract", "path": "extract/", "serves_properties": ["C01", "C02", "C03", "C04", "C05", "C06", "C07", "C09", "C10", "C11", "C12", "C13", "C14", "C15", "C16", "C17", "C18", "C19", "C20"], "kind_free_text": "go/ast translator /repo -> lean/Esc/Gen/*.lean (constants, validator, option keys; translated function bodies of the decision logic, proved equal to the model in lean/EscProofs/P/Gen*.lean; facts about func main and RunForever), re-run on every check; a piece that no longer matches falls back to extract/baseline/ and the correspondence"},
    ],
    "checks": [],
    "notes": "Every check: ./check <id> (quick) / ./check <id> --tier thorough. See DESIGN.md. fix: commits in /repo: " + ", ".join(P.FIX_COMMITS),
    "not_applicable": [],
}
for i in ids:
    if i in P.PROPS:
        s = P.PROPS[i]
        m["checks"].append({
            "property_id": i,
            "quick_cmd": "cd /verif && ./check %s" % i,
            "thorough_cmd": "cd /verif && ./check %s --tier thorough" % i,
            "evidence_file": "/verif/evidence/%s.json" % i,
            "replay_cmd_template": "cd /verif && ./check %s --replay {path}" % i,
            "engine": "lean-model+harness",
            "level_claimed": {"category": s['level'], "text": s['level_text'], "design_ref": s.get('design_ref', 'DESIGN.md section 6, ' + i)},
            "level_note": s['level_note'],
            "technique": s['technique'],
        })
    else:
        m["not_applicable"].append({"property_id": i, "reason": P.NOT_YET.get(i, "check not built yet (work in progress)")})
json.dump(m, open(os.path.join(ROOT, 'MANIFEST.json'), 'w'), indent=1)
print('checks:', [c['property_id'] for c in m['checks']])
