#!/usr/bin/env python3
"""Write seeded/<id>/meta.json from the seed's notes.md and the recorded results (seeded/RESULTS.json:
{seed: {"confirmed": "...", "checks": {check: "INPUT"|"NOINPUT"|"ok"}}})."""
import json, os, re, sys
ROOT = os.path.dirname(os.path.dirname(os.path.abspath(__file__)))
S = os.path.join(ROOT, 'seeded')
res = json.load(open(os.path.join(S, 'RESULTS.json'))) if os.path.exists(os.path.join(S, 'RESULTS.json')) else {}


def section(md, pat):
    """Text of the first markdown section whose heading (or bold lead-in) matches pat."""
    lines = md.split('\n')
    for i, l in enumerate(lines):
        if re.match(r'^(#+ |\*\*)', l) and re.search(pat, l, re.I):
            out = [re.sub(r'^#+ ', '', l)] if not l.startswith('#') else []
            for m in lines[i + 1:]:
                if re.match(r'^#+ ', m):
                    break
                out.append(m)
            return ' '.join(x.strip() for x in out if x.strip())[:1500]
    return ''


for d in sorted(os.listdir(S)):
    p = os.path.join(S, d)
    if not os.path.isdir(p) or not os.path.exists(os.path.join(p, 'patch.diff')):
        continue
    md = open(os.path.join(p, 'notes.md')).read()
    files = sorted(set(re.findall(r'^\+\+\+ b/(\S+)', open(os.path.join(p, 'patch.diff')).read(), re.M)))
    r = res.get(d, {})
    prop = 'C02' if d == 'M01' else d[:3]
    fired = {k: v for k, v in r.get('checks', {}).items() if v != 'ok'}
    meta = dict(
        seed=d, property=prop, batch=0 if d.startswith('M') else {'-b': 2, '-c': 3, '-d': 4, '-e': 5, '-f': 6, '-g': 7, '-h': 8, '-i': 9, '-j': 10, '-k': 11, '-l': 12, '-m': 13, '-n': 14, '-o': 15, '-p': 16, '-q': 17, '-r': 18}.get(d[3:], 1),
        files_changed=files,
        change=section(md, r'change|idea') or md.split('\n')[0].lstrip('# '),
        breaks=section(md, r'break|statement'),
        needs_to_manifest=section(md, r'manifest|needed|needs'),
        demo=dict(test_file=open(os.path.join(p, 'demo_path.txt')).read().strip(), copy=os.path.basename(open(os.path.join(p, 'demo_path.txt')).read().strip())),
        confirmed_by=dict(command='tools/verify_seed.sh ' + d,
                          steps=['patch applies to a scratch worktree of /repo HEAD; go build ./..., go build -tags verif ./..., go vet ./pkg/... succeed',
                                 'existing suite (go test -vet=off -count=1 ./...) passes with the change and without the demo file',
                                 'demo test fails with the change', 'demo test passes with the change reverted'],
                          result=r.get('confirmed', 'not recorded')),
        checks_run=dict(command='tools/tryseed.sh %s <checks> / tools/seedmatrix.py (private clone of /repo with the patch applied; /repo itself untouched)' % d,
                        own_check=r.get('checks', {}).get(prop, 'not recorded'),
                        fired=fired, note=r.get('note', '')),
    )
    json.dump(meta, open(os.path.join(p, 'meta.json'), 'w'), indent=1)
print('ok')
