/-
  Line-protocol driver: reads one JSON case per line on stdin, runs the model, compares with what
  the harness observed on the real implementation, evaluates the property monitors on the observed
  journals, prints one JSON verdict per line.
-/
import Esc.Ops
open Lean Esc

/-- Oracle built from the recorded responses. -/
def listOracle (resps : Array Resp) (desc : List (String × Resp)) : Oracle := fun k c =>
  match c with
  | .describeInstances id => (desc.lookup id).getD .fail
  | _ => resps.getD k .fail

/-- Sort maximal runs of DescribeInstances entries (Go map iteration order is arbitrary). -/
def canonDesc (j : Journal) : Journal :=
  let key (e : Entry) : Option String := match e.call with | .describeInstances id => some id | _ => none
  let rec go (rest : List Entry) (run : List Entry) (acc : List Entry) : List Entry :=
    match rest with
    | [] => acc ++ run
    | e :: es =>
      match key e with
      | some _ =>
        let ins := (run.filter (fun x => (key x).getD "" ≤ (key e).getD "")) ++ [e] ++ (run.filter (fun x => ¬ ((key x).getD "" ≤ (key e).getD "")))
        go es ins acc
      | none => go es [] (acc ++ run ++ [e])
  go j [] []

def isRemoval (e : Entry) : Bool := match e.call with | .terminateInAsg .. | .deleteNode _ => true | _ => false
def isResize (e : Entry) : Bool := match e.call with
  | .setDesired .. | .createFleet _ | .attach .. | .terminateInstances _ => true | _ => false
def isUpdate (e : Entry) : Bool := match e.call with | .updateNode _ => true | _ => false
def isGet (e : Entry) : Bool := match e.call with | .getNode _ => true | _ => false

def aspectsOf (dry : Bool) (view : View) (jm0 jo0 : Journal) : List String :=
  let jm := Spec.canonTaints jm0
  let jo := Spec.canonTaints jo0
  let a (name : String) (p : Entry → Bool) : List String := if jm.filter p == jo.filter p then [] else [name]
  (if dry then a "drywrites" Spec.isWrite else []) ++
  a "removals" isRemoval ++ a "taintadds" (Spec.isTaintAdd view) ++ a "untaints" (Spec.isTaintRemove view) ++
  a "resize" isResize ++ a "updates" isUpdate ++ a "gets" isGet ++ a "writes" Spec.isWrite ++
  (if canonDesc jm == canonDesc jo then [] else ["journal"])

def stateOf (name : String) (s : GState) : ObsState :=
  { name := name, isLocked := s.lock.isLocked, requested := s.lock.requested, lockTime := s.lock.lockTime,
    scaleDelta := s.scaleDelta, lastScaleOut := s.lastScaleOut, cachedCPU := s.cachedCPU, cachedMem := s.cachedMem,
    taintTracker := s.taintTracker, forceTaintTracker := s.forceTaintTracker, minEff := s.minEff, maxEff := s.maxEff }

def outcomeStr : Outcome → String
  | .ok => "ok"
  | .fatal k => "fatal:" ++ k

structure DState where
  ctl : Ctl := ⟨[], false⟩
  st : Option CState := none
  /-- C02 monitor: per group, the time at which the implementation was last seen to get a cloud
      increase accepted in this controller lifetime. -/
  armed : List (String × Int) := []
  /-- provider-level sequences (awsops): the cached group the model's previous operation left behind -/
  awsG : Option PGroup := none
  /-- the rest of a provider-level sequence is skipped after an operation during which the harness saw the machine stall -/
  awsSkip : Bool := false
  /-- C05 monitor: per group, the node size last observed in this controller lifetime ((-1,-1): the
      uncordoned nodes listed last were not all of one size, so "the node size" is not defined). -/
  seen : List (String × (Int × Int)) := []

/-- Did this observed journal get a cloud increase accepted? -/
def acceptedRaise (j : Journal) : Bool :=
  j.any (fun e => e.ok && (match e.call with | .setDesired .. => true | _ => false)) ||
  (j.any (fun e => e.ok && (match e.call with | .createFleet _ => true | _ => false)) &&
   !j.any (fun e => match e.call with | .terminateInstances _ => true | _ => false) &&
   ((j.filter Spec.isAttachEntry).getLast?.map (·.ok)) == some true)

def monitorsWant (c : Spec.Ctx) (obsDelta : Int) (j : Journal) (fatalHere : Bool) (stillTainted : List String := []) (dupTainted : List String := [])
    (deltaUnknown : Bool := false) : List String :=
  let unt : Int := Spec.untaintedCount c
  let want : Int := if unt < c.st.minEff then c.st.minEff - unt else obsDelta
  (if fatalHere then [] else (Spec.decisionBad c obsDelta).flatMap (fun t => ["C06|" ++ t, "C13|" ++ t] ++
    -- the exact utilisation is taken over the uncordoned nodes only: with a cordoned node in view, a decision that
    -- contradicts it also speaks against "a cordoned node's resources are excluded from the capacity"
    (if c.view.nodes.any (·.unschedulable) then ["C09|cordoned-node-in-view:" ++ t] else []) ++
    -- the view is the set of pods and nodes the documented rules attribute to the group
    ["C14|the decision contradicts the utilisation over the pods and nodes attributed to the group: " ++ t])) ++
  if c.dry then [] else
  (if Spec.C07.orderHolds c j then [] else ["C07|order"]) ++
  (if Spec.C07.reuseHolds c j then [] else ["C07|reuse"]) ++
  ((Spec.C10.untaintBad c j).map (fun t => "C10|" ++ t)) ++
  ((Spec.C10.taintBad c j).map (fun t => "C10|" ++ t)) ++
  (if fatalHere then [] else (Spec.C10.holdbackBad c obsDelta j).map (fun t => "C10|" ++ t)) ++
  -- a scan that ended in log.Fatalf (third failed fleet provisioning in a row) never reported its decision: the amounts
  -- cannot be judged against it
  (if deltaUnknown || Spec.C07.amountHolds c want j then [] else ["C07|amount", "C05|compose"]) ++
  (if Spec.C07.amountHolds c (want + 1000000000) j then [] else ["C17|a SetDesiredCapacity of a scale-up does not raise the desired size the cloud holds (request not current + d)"]) ++
  ((Spec.loweringRequests c j).flatMap (fun (cur, v) =>
    let t := "a SetDesiredCapacity lowers the cloud group's desired size from " ++ toString cur ++ " to " ++ toString v ++ ": the cloud will terminate " ++ toString (cur - v) ++ " instance(s) of its own choosing"
    ["C01|" ++ t ++ " (no taint, grace period or drain condition is consulted)", "C19|" ++ t ++ " (not the instances of the given nodes)"] ++
    (if c.view.nodes.any Spec.protectedNode then ["C10|" ++ t ++ ", the nodes protected by the no-delete annotation included"] else []) ++
    (if c.view.nodes.any (·.unschedulable) then ["C09|" ++ t ++ ", cordoned nodes included"] else []))) ++
  (if fatalHere then [] else (Spec.C07.shortfall c want j stillTainted dupTainted).flatMap (fun t => ["C07|remainder-not-requested: " ++ t, "C05|brought-too-few: " ++ t] ++
    (if unt < c.st.minEff then ["C03|below min_nodes and no cool-down running, but capacity is not restored: " ++ t] ++
       -- a cool-down was started earlier and has run out (the lock flag is still set, its time has passed): "once the
       -- period has elapsed the group is acted on again"
       (if c.st.lock.isLocked then ["C02|the cool-down has elapsed, yet the group is not acted on again (below min_nodes, nothing restored): " ++ t] else [])
     else ["C06|the decision is to add " ++ toString want ++ " node(s), but capacity is not added: " ++ t]))) ++
  (if fatalHere then [] else (Spec.C06.bad c j ++ Spec.C06.badStarve c obsDelta j ++ Spec.C06.badMaxAge c obsDelta j).map (fun t => "C06|" ++ t)) ++
  (if fatalHere then [] else (Spec.C05.badScaleUp c obsDelta).flatMap (fun t => ["C05|" ++ t] ++
    -- the size is computed from the untainted, uncordoned nodes only: with a cordoned node in view a wrong size also
    -- speaks against "a cordoned node is never counted"
    (if c.view.nodes.any (·.unschedulable) then ["C09|cordoned-node-in-view:" ++ t] else [])))

def monitors (c : Spec.Ctx) (j : Journal) (fatalHere : Bool) : List String :=
  ((Spec.C19.scanBad c j fatalHere).map (fun t => "C19|" ++ t)) ++
  (if fatalHere && Spec.notInGroupUnfounded c then
    ["C20|the scan stopped the controller with the not-in-group error although every removal candidate of this view is a member of the cloud group",
     "C12|a failure that is not the documented not-in-group condition stopped the scan (every removal candidate is a member): later groups are not processed",
     "C19|not-in-group reported although every removal candidate is a member"] else []) ++
  ((Spec.C06.upRemovalBad c j).map (fun t => "C06|" ++ t)) ++
  (if Spec.C01.holds c j then [] else ["C01|" ++ ";".intercalate (Spec.C01.bad c j)]) ++
  (if Spec.C03.holds c j then [] else ["C03|taints added although fewer than min_nodes untainted nodes remain (or while below the minimum)"] ++
    -- only untainted, uncordoned nodes count towards min_nodes: with a cordoned node in view, tainting below the minimum
    -- also speaks against "a cordoned node is never counted"
    (if c.view.nodes.any (·.unschedulable) then ["C09|cordoned-node-in-view: taints added although fewer than min_nodes untainted, uncordoned nodes remain"] else [])) ++
  -- a fleet request made for a group names subnets of that group's own cloud group, and instance types from its own configuration
  (let foreign := j.filterMap (fun e => match e.call with
      | .createFleet r =>
        let zones := (c.g.asg.vpcZones.splitOn ",").map (fun z => z.trimAscii.toString)
        let bad := r.overrides.filter (fun ov => !zones.contains ov.subnet ||
          (match ov.instanceType with | some t => !c.cfg.aws.instanceTypeOverrides.contains t | none => !c.cfg.aws.instanceTypeOverrides.isEmpty))
        if bad.isEmpty then none else some (toString (bad.map (fun ov => ov.subnet ++ "/" ++ ov.instanceType.getD "-")))
      | _ => none)
   if foreign.isEmpty then [] else ["C12|a fleet request of this group carries subnets or instance types that are not its own: " ++ ";".intercalate foreign]) ++
  (if Spec.C12.holds c j then [] else ["C12|" ++ ";".intercalate ((j.filter (fun e => !Spec.C12.okEntry c e)).map (fun e => (toJson e.call).compress))]) ++
  (if Spec.C08.holds c j then [] else ["C08|a node never attempted stays untainted although strictly older than a node tainted in this scan; tainted: " ++ toString (Spec.taintedNames c.view j)]) ++
  (if Spec.C04.holds c j then [] else ["C04|a resize request takes the target above min(max_nodes, cloud max), counted from the desired size at that moment"]) ++
  (if Spec.C09.holds c j then [] else ["C09|a call targets a cordoned node of this scan's view"]) ++
  (if Spec.C10.holds c j then [] else ["C10|a removal call targets a node protected by the no-delete annotation"]) ++
  (if Spec.C11.holds c j then [] else ["C11|a write was issued for a group in dry mode: " ++ ";".intercalate ((j.filter Spec.isWrite).map (fun e => ((toJson e.call).compress.take 120).toString))])

/-- Pre-scan context of each group as the model sees it: needs the refreshed provider and the
    auto-discovered bounds, which we recompute by running the prologue of `runOnce`. -/
def ctxFor (ctl : Ctl) (stAfterRefresh : CState) (c : GroupCfg) (sc : ScanCase) : Option Spec.Ctx := do
  let pg ← findProv stAfterRefresh.prov c.cloudGroup
  let gst ← findState stAfterRefresh.groups c.name
  let gst := if autoDiscover c then { gst with minEff := pg.asg.min, maxEff := pg.asg.max } else gst
  pure { globalDry := ctl.globalDry, cfg := c, st := gst, g := pg, view := viewOf c sc.pods sc.nodes,
         nowMock := sc.nowMock, nowReal := sc.nowReal }

def handleScan (ds : DState) (sc : ScanCase) : DState × Json :=
  match ds.st with
  | none => (ds, Json.mkObj [("error", "scan before init")])
  | some st =>
    let o := listOracle sc.resps.toArray sc.desc
    -- a group whose listing failed sees nothing in this scan: `scaleNodeGroup` returns before it starts (modelled as
    -- the empty view, which takes the same exit: no call, decision 0)
    let views := fun name => match ds.ctl.cfgs.find? (fun c => c.name == name) with
      | some c => if (sc.listfail.getD []).contains name then ⟨[], []⟩ else viewOf c sc.pods sc.nodes
      | none => ⟨[], []⟩
    let hints := fun name => (sc.hints.lookup name).getD ⟨[], []⟩
    let r := runOnce rne64 o 0 ds.ctl st views hints sc.nowMock sc.nowReal
    let out := r.val
    -- the context in which a group's observed journal is judged: the state, provider group (after this scan's refresh —
    -- or rebuild — and after the groups before it) and view the model's own run started that group from
    -- "the group's current desired size", its bounds and its members are what the cloud holds, not what a provider
    -- object remembers: where the harness reports them, the observed journal is judged against them
    let truth (x : Spec.Ctx) : Spec.Ctx :=
      match (sc.cloud.getD []).find? (fun a => a.name == x.g.asg.name) with
      | some a =>
        let st' := if autoDiscover x.cfg then { x.st with minEff := a.min, maxEff := a.max } else x.st
        let g' := { x.g with asg := a }
        { x with g := g', st := st' }
      | none => x
    let ctxOf (c : GroupCfg) (stR : CState) : Option Spec.Ctx :=
      match out.recs.find? (fun m => m.name == c.name) with
      | some m =>
        let x : Spec.Ctx := { globalDry := ds.ctl.globalDry, cfg := m.cfg, st := m.pre, g := m.preG, view := m.view,
                              nowMock := sc.nowMock, nowReal := sc.nowReal }
        some (truth x)
      | none => (ctxFor ds.ctl stR c sc).map truth
    -- compare
    let dOutcome := if outcomeStr out.outcome == sc.obs.outcome then [] else ["outcome"]
    let dPre := if out.pre == sc.obs.pre then [] else ["pre"]
    let dRecs : List String :=
      if out.recs.length != sc.obs.recs.length then ["reccount"] else
      (out.recs.zip sc.obs.recs).flatMap (fun (m, ob) =>
        let v := views m.name
        (aspectsOf (ds.ctl.globalDry || m.cfg.dryMode) v m.j ob.j).map (fun a => m.name ++ ":" ++ a) ++
        (if m.delta == ob.delta || sc.obs.outcome == "fatal:fleet-strikes" then [] else [m.name ++ ":delta"]))
    let dStates : List String :=
      if sc.obs.outcome == "fatal:fleet-strikes" then [] else   -- log.Fatalf: the process is gone, its state is moot
      sc.obs.states.flatMap (fun os =>
        match findState out.st.groups os.name with
        | some s => if stateOf os.name s == os then [] else [os.name ++ ":state"]
        | none => [os.name ++ ":state"])
    -- node sizes observed by the groups processed in this scan (including this scan's listing)
    let seen' : List (String × (Int × Int)) := sc.obs.recs.foldl (fun acc ob =>
      let ns := ((views ob.name).nodes.filter (fun n => !n.unschedulable)).map (fun n => (n.allocCPU, n.allocMem))
      match ns with
      | [] => acc
      | x :: rest => (ob.name, if rest.all (· == x) then x else (-1, -1)) :: acc.filter (fun p => p.1 != ob.name)) ds.seen
    -- C15 on the observed journals, paired with the recorded responses (ordered calls only)
    let isOrdered (e : Entry) : Bool := match e.call with | .describeInstances _ => false | _ => true
    let allObs : List (String × Entry) := sc.obs.pre.map (fun e => ("", e)) ++ sc.obs.recs.flatMap (fun r => r.j.map (fun e => (r.name, e)))
    let paired : List (String × Entry × Resp) :=
      (allObs.foldl (fun (acc : List (String × Entry × Resp) × List Resp) (ge : String × Entry) =>
        if isOrdered ge.2 then
          match acc.2 with
          | r :: rs => (acc.1 ++ [(ge.1, ge.2, r)], rs)
          | [] => (acc.1 ++ [(ge.1, ge.2, Resp.fail)], [])
        else (acc.1 ++ [(ge.1, ge.2, Resp.fail)], acc.2)) ([], sc.resps)).1
    -- monitors on the observed journals; contexts follow the model's state evolution group by group
    let mons : List String :=
      sc.obs.recs.flatMap (fun ob =>
        match ds.ctl.cfgs.find? (fun c => c.name == ob.name) with
        | none => []
        | some c =>
          -- provider state: after refresh, plus earlier groups' effects (groups have distinct cloud groups)
          let stR : CState := { st with prov := match (refresh o 0 st.prov).val with | some p => p | none => st.prov }
          match ctxOf c stR with
          | none => []
          | some ctx =>
            let fatalHere := sc.obs.outcome != "ok" && (sc.obs.recs.getLast?.map (·.name)) == some ob.name
            -- the cloud no longer has this group's cloud group (deleted out of band): what the scan should have asked of
            -- it cannot be judged
            let gone := sc.cloud.isSome && !(sc.cloud.getD []).any (fun a => a.name == ctx.g.asg.name)
            -- nodes whose fetched copy (GET accepted) still carried the escalator taint: only an accepted UPDATE untaints them
            let stillTainted : List String := (paired.filter (fun t => t.1 == ob.name)).filterMap (fun t => match t.2.1.call, t.2.2 with
              | .getNode _, .node nd => if t.2.1.ok && hasTaint escKey nd then some nd.name else none
              | _, _ => none)
            let m05 := if fatalHere || seen'.lookup ob.name == some (-1, -1) then [] else
              (Spec.C05.badFromZero ctx (seen'.lookup ob.name) ob.delta).flatMap (fun t =>
                ["C05|" ++ t] ++ (if ctx.view.nodes.any (·.unschedulable) then ["C09|cordoned-node-in-view:" ++ t] else []))
            -- "enabling dry mode on one group does not change another group's actions": a live group, configured next to a
            -- dry one, that decides to add capacity and then writes nothing, or that keeps the book dry mode keeps instead of
            -- tainting, is being run as if it were dry
            let liveNextToDry := !ctx.dry && ds.ctl.cfgs.any (fun c' => c'.name != ob.name && c'.dryMode)
            let dupTainted : List String := (paired.filter (fun t => t.1 == ob.name)).filterMap (fun t => match t.2.1.call, t.2.2 with
              | .getNode _, .node nd => if t.2.1.ok && (nd.taints.filter (fun x => x.key == escKey)).length ≥ 2 then some nd.name else none
              | _, _ => none)
            let mw := monitorsWant ctx ob.delta ob.j (fatalHere || gone) stillTainted dupTainted (fatalHere && sc.obs.outcome == "fatal:fleet-strikes")
            let m11 := if !liveNextToDry then [] else
              (mw.filter (fun m => m.startsWith "C07|remainder-not-requested")).map (fun m => "C11|a live group configured next to a dry one acts as if it were dry: " ++ (m.drop 4).toString) ++
              (match sc.obs.states.find? (fun s => s.name == ob.name) with
               | some s => if s.taintTracker.isEmpty then [] else ["C11|a live group configured next to a dry one keeps dry mode's list of would-be-tainted nodes: " ++ toString s.taintTracker]
               | none => [])
            (monitors ctx ob.j (fatalHere && sc.obs.outcome == "fatal:not-in-group") ++ mw ++ m11 ++ m05).map (fun m => match m.splitOn "|" with
            | [p, d] => p ++ ":" ++ ob.name ++ ":" ++ d
            | _ => m ++ ":" ++ ob.name))
    -- which oracles were applicable to this scan (probed with an observation they would have to reject):
    -- written to the evidence so that a quiet monitor can be told from one that never applied
    let armed : List String := sc.obs.recs.flatMap (fun ob =>
      match ds.ctl.cfgs.find? (fun c => c.name == ob.name) with
      | none => []
      | some c =>
        let stR : CState := { st with prov := match (refresh o 0 st.prov).val with | some p => p | none => st.prov }
        match ctxOf c stR with
        | none => []
        | some ctx =>
          let unt : Int := Spec.untaintedCount ctx
          let want : Int := if unt < ctx.st.minEff then ctx.st.minEff - unt else ob.delta
          (if (Spec.decisionBad ctx (-987654321)).isEmpty then [] else ["decision-by-exact-band" ++ (if ctx.dry then "(dry)" else "")]) ++
          (if (Spec.C06.badStarve ctx 0 []).isEmpty then [] else ["starve-exception"]) ++
          (if (Spec.C06.badMaxAge ctx 0 []).isEmpty then [] else ["max-node-age-exception"]) ++
          (if (Spec.C05.badFromZero ctx (seen'.lookup ob.name) (-5)).isEmpty || seen'.lookup ob.name == some (-1, -1) then [] else ["scale-up-from-zero"]) ++
          (if (Spec.C05.badScaleUp ctx (-5)).isEmpty then [] else ["scale-up-size"]) ++
          (if (Spec.C07.shortfall ctx want []).isEmpty then [] else ["remainder-requested"]))
    let mon15 : List String := ds.ctl.cfgs.flatMap (fun c =>
      let mine := (paired.filter (fun t => t.1 == c.name)).map (fun t => t.2)
      (Spec.C15.bad (sc.nowReal / 1000000000) c.taintEffect none mine).map (fun n => "C15:" ++ c.name ++ ":" ++ n) ++
      (Spec.C15.restampBad (views c.name) none mine).map (fun n => "C15:" ++ c.name ++ ":a node that carries the escalator taint in this scan's view is given a new one (its grace period restarts): " ++ n))
    let mons := mons ++ mon15
    -- C03 against stale listings (needs the GET responses)
    let mon03 : List String := sc.obs.recs.flatMap (fun ob =>
      match ds.ctl.cfgs.find? (fun c => c.name == ob.name) with
      | none => []
      | some c =>
        let stR : CState := { st with prov := match (refresh o 0 st.prov).val with | some p => p | none => st.prov }
        match ctxOf c stR with
        | none => []
        | some ctx =>
          let mine := (paired.filter (fun t => t.1 == c.name)).map (fun t => t.2)
          (Spec.C03.staleBad ctx mine).map (fun t => "C03:" ++ c.name ++ ":" ++ t) ++
          (Spec.C08.skippedBad ctx mine).map (fun t => "C08:" ++ c.name ++ ":" ++ t) ++
          -- (not for the group at which a scan ended fatally: it may have stopped before the taint loop)
          (if sc.obs.outcome != "ok" && (sc.obs.recs.getLast?.map (·.name)) == some ob.name then []
           else (Spec.C06.tooFewBad ctx mine).map (fun t => "C06:" ++ c.name ++ ":" ++ t)))
    let mons := mons ++ mon03
    -- C02 on the observed journals
    let mon02 : List String := sc.obs.recs.flatMap (fun ob =>
      match ds.armed.lookup ob.name, ds.ctl.cfgs.find? (fun c => c.name == ob.name) with
      | some t0, some c => if sc.nowReal - t0 < c.coolNs && !ob.j.isEmpty then ["C02:" ++ ob.name ++ ":activity-in-cooldown"] else []
      | _, _ => [])
    let mon02b : List String := sc.obs.recs.flatMap (fun ob =>
      match ds.ctl.cfgs.find? (fun c => c.name == ob.name) with
      | some c =>
        if ds.ctl.globalDry || c.dryMode then [] else
        -- everything after the entry that got the increase accepted (SetDesiredCapacity, or the last attach of a fleet)
        let idx? := (ob.j.zipIdx.filter (fun (e, _) => e.ok && (match e.call with | .setDesired .. => true | .attach .. => true | _ => false))).getLast?.map (·.2)
        match idx? with
        | some i =>
          if acceptedRaise ob.j then
            let later := (ob.j.drop (i + 1)).filter (fun e => Spec.isWrite e)
            if later.isEmpty then [] else
              ["C02:" ++ ob.name ++ ":changes to the group after the cloud accepted its scale-up, in the same scan: " ++
                ";".intercalate (later.map (fun e => ((toJson e.call).compress.take 80).toString))]
          else []
        | none => []
      | none => [])
    let mons := mons ++ mon02 ++ mon02b
    -- C20 on the observed outcome
    let mon20 : List String :=
      if sc.obs.outcome.startsWith "panic:" then ["C20:panic:" ++ sc.obs.outcome]
      else if sc.obs.outcome == "fatal:rebuild-failed" || sc.obs.outcome == "fatal:group-missing" then
        -- the recorded finding T5 is the stop after a failed refresh and a rebuild of the provider; the same error in a scan
        -- whose refresh did not fail (so nothing was rebuilt) is another matter
        if sc.obs.pre.any (fun e => !e.ok || (match e.call with | .build => true | _ => false)) then ["C20:fatal:rebuild-failed"]
        else ["C20:fatal:undocumented-stop:" ++ sc.obs.outcome ++ ":the provider was not rebuilt in this scan, yet RunOnce gave up on a cloud group",
              "C12:" ++ ((sc.obs.recs.getLast?.map (·.name)).getD "?") ++ ":groups-not-processed:" ++ sc.obs.outcome ++ " without a rebuild of the provider"]
      else if sc.obs.outcome == "fatal:fleet-strikes" then
        -- the recorded finding T8 is the exit after the third consecutive failed fleet provisioning *of one group*; an exit
        -- when no group has got that far (the model counts per group, as the pinned code does) is another matter
        if outcomeStr out.outcome == "fatal:fleet-strikes" then ["C20:fatal:fleet-strikes"]
        else ["C20:fatal:undocumented-stop:the process exits on failed fleet provisioning although no single group has failed three times in a row",
              "C12:" ++ ((sc.obs.recs.getLast?.map (·.name)).getD "?") ++ ":the fleet failures of other groups were counted against this group: the process exits and the groups after it are not processed",
              "C18:" ++ ((sc.obs.recs.getLast?.map (·.name)).getD "?") ++ ":process exit on a failed fleet provisioning that is not the third in a row for this group"]
      else if sc.obs.outcome.startsWith "fatal:unexpected" then ["C20:fatal:undocumented-stop:" ++ sc.obs.outcome]
      else []
    -- C12: a failure that is not one of the documented stop conditions must not keep later groups from being processed
    let mon12 : List String :=
      if sc.obs.outcome == "ok" && sc.obs.recs.length < ds.ctl.cfgs.length then
        ["C12:" ++ ((sc.obs.recs.getLast?.map (·.name)).getD "?") ++ ":groups-after-it-not-processed-although-nothing-failed:" ++
          toString (ds.ctl.cfgs.length - sc.obs.recs.length)]
      else if sc.obs.outcome.startsWith "panic:" && sc.obs.recs.length < ds.ctl.cfgs.length then
        ["C12:" ++ ((sc.obs.recs.getLast?.map (·.name)).getD "?") ++ ":groups-after-it-not-processed:" ++
          toString (ds.ctl.cfgs.length - sc.obs.recs.length) ++ ":" ++ sc.obs.outcome]
      else if sc.obs.outcome.startsWith "fatal:unexpected" then
        ["C12:" ++ ((sc.obs.recs.getLast?.map (·.name)).getD "?") ++ ":groups-after-it-not-processed:" ++
          toString (ds.ctl.cfgs.length - sc.obs.recs.length) ++ ":" ++ sc.obs.outcome]
      else []
    let mons := mons ++ mon12
    -- C18/C02: a cool-down may start only when the cloud accepted an increase in this scan (outside dry mode)
    let monLock : List String := sc.obs.recs.flatMap (fun ob =>
      match ds.ctl.cfgs.find? (fun c => c.name == ob.name), findState st.groups ob.name, sc.obs.states.find? (fun os => os.name == ob.name) with
      | some c, some pre, some post =>
        if !(ds.ctl.globalDry || c.dryMode) && !acceptedRaise ob.j && post.lockTime == some sc.nowReal && pre.lock.lockTime != some sc.nowReal then
          let d := ob.name ++ ":a cool-down was started in this scan although the cloud accepted no increase"
          ["C18:" ++ d, "C02:" ++ d, "C20:" ++ d ++ " (the group now waits out a cool-down for capacity nobody asked for)"]
        else []
      | _, _, _ => [])
    -- C08 in dry mode: the nodes newly recorded as tainted must be the oldest of the untainted ones
    let monDry08 : List String := sc.obs.recs.flatMap (fun ob =>
      match ds.ctl.cfgs.find? (fun c => c.name == ob.name), findState st.groups ob.name, sc.obs.states.find? (fun os => os.name == ob.name) with
      | some c, some pre, some post =>
        if ds.ctl.globalDry || c.dryMode then
          let added := post.taintTracker.filter (fun x => !pre.taintTracker.contains x)
          let unt := nodesOf true pre .untainted (viewOf c sc.pods sc.nodes).nodes
          let bad := unt.filter (fun u => !added.contains u.name && unt.any (fun t => added.contains t.name && u.created < t.created))
          if bad.isEmpty then [] else
            ["C08:" ++ ob.name ++ ":dry mode recorded " ++ toString added ++ " as tainted although " ++ toString (bad.map (·.name)) ++ " are strictly older and stay untainted"]
        else []
      | _, _, _ => [])
    let mons := mons ++ monLock ++ monDry08
    -- C14/C12 at controller level: what each group's own listers return is exactly what the documented rule attributes
    -- to it (`viewOf`, proved equal to the rule: C14_view); a disagreement names the pod or node
    let sortS (l : List String) : List String := l.mergeSort (fun a b => decide (a ≤ b))
    let monLists : List String := (sc.lists.getD []).flatMap (fun ol =>
      match ds.ctl.cfgs.find? (fun c => c.name == ol.name) with
      | none => []
      | some c =>
        let v := viewOf c sc.pods sc.nodes
        let wantP := sortS (v.pods.map (·.name))
        let wantN := sortS (v.nodes.map (·.name))
        let extraP := ol.pods.filter (fun x => !wantP.contains x)
        let missP := wantP.filter (fun x => !ol.pods.contains x)
        let extraN := ol.nodes.filter (fun x => !wantN.contains x)
        let missN := wantN.filter (fun x => !ol.nodes.contains x)
        if ol.pods == wantP && ol.nodes == wantN then [] else
          let d := "group " ++ ol.name ++ " lists pods " ++ toString extraP ++ " it must not and misses " ++ toString missP ++
                   "; nodes extra " ++ toString extraN ++ " missing " ++ toString missN
          ["C14:attribution:" ++ d, "C12:attribution:" ++ d] ++
          -- nodes listed for a group that the cluster-wide listing of this scan does not attribute to it enter its capacity
          (if extraN.isEmpty then [] else ["C13:capacity-over-nodes-not-listed-for-the-group:" ++ d]))
    -- C14/C12 on the calls themselves: a node named in a call made while processing a group carries that group's label
    -- (judged on the cluster-wide listing of this scan, whatever the group's own lister returned or failed to return)
    let monTouch : List String := sc.obs.recs.flatMap (fun ob =>
      match ds.ctl.cfgs.find? (fun c => c.name == ob.name) with
      | none => []
      | some c =>
        let mine := (sc.nodes.filter (nodeLabelFilter c.labelKey c.labelValue)).map (·.name)
        let known := sc.nodes.map (·.name)
        let touched := ob.j.filterMap (fun e => match e.call with
          | .getNode n | .deleteNode n => some n
          | .updateNode o => some o.name
          | _ => none)
        let bad := (touched.filter (fun n => known.contains n && !mine.contains n)).eraseDups
        if bad.isEmpty then [] else
          ["C14:group " ++ ob.name ++ " acted on nodes that do not carry its label: " ++ toString bad,
           "C12:group " ++ ob.name ++ " acted on nodes that do not carry its label: " ++ toString bad])
    let mons := mons ++ monTouch
    -- shared informer objects must not be modified by the controller (the next scan would read the modification)
    let monMut : List String := (sc.mutated.getD []).flatMap (fun x =>
      ["C13:lister-object-modified:" ++ x, "C15:lister-object-modified:" ++ x] ++
      -- the taints of a cached node object were rewritten in place: later scans sort it into the wrong list without
      -- any API call for it (oldest-first tainting, newest-first reuse and the minimum count all read those lists)
      (if x.endsWith ":taints" then ["C08:lister-object-modified:" ++ x, "C07:lister-object-modified:" ++ x, "C03:lister-object-modified:" ++ x] else []))
    let mons := mons ++ monLists ++ monMut
    let mons := mons ++ mon20
    let armed' : List (String × Int) := sc.obs.recs.foldl (fun acc ob =>
      if acceptedRaise ob.j then (ob.name, sc.nowReal) :: acc.filter (fun p => p.1 != ob.name) else acc) ds.armed
    let diffs := dOutcome ++ dPre ++ dRecs ++ dStates
    let branches := out.recs.map (fun m => m.name ++ ":" ++ m.branch)
    let base : List (String × Json) :=
      [("diffs", toJson diffs), ("mon", toJson mons), ("branches", toJson branches), ("armed", toJson armed)]
    let detail : List (String × Json) :=
      if diffs.isEmpty && mons.isEmpty then [] else
        [("model", Json.mkObj [
            ("outcome", toJson (outcomeStr out.outcome)),
            ("pre", toJson out.pre),
            ("recs", toJson (out.recs.map (fun m => Json.mkObj [("name", toJson m.name), ("j", toJson m.j), ("delta", toJson m.delta), ("err", toJson m.err), ("branch", toJson m.branch)]))),
            ("states", toJson (out.st.groups.map (fun (n, s) => stateOf n s)))])]
    -- after a disagreement on controller state, continue from what the implementation holds, so that one
    -- divergence is reported once and does not cascade through the rest of the history
    let resync (n : String) (s : GState) : GState :=
      match sc.obs.states.find? (fun os => os.name == n) with
      | some os => { s with lock := ⟨os.isLocked, os.requested, os.lockTime⟩, scaleDelta := os.scaleDelta, lastScaleOut := os.lastScaleOut,
                            cachedCPU := os.cachedCPU, cachedMem := os.cachedMem, taintTracker := os.taintTracker,
                            forceTaintTracker := os.forceTaintTracker, minEff := os.minEff, maxEff := os.maxEff }
      | none => s
    let st' : CState := if dStates.isEmpty then out.st else { out.st with groups := out.st.groups.map (fun (n, s) => (n, resync n s)) }
    ({ ds with st := some st', armed := armed', seen := seen' }, Json.mkObj (base ++ detail))

def shiftState (d : Int) (st : CState) : CState :=
  { st with groups := st.groups.map (fun (n, s) =>
      (n, { s with lock := { s.lock with lockTime := s.lock.lockTime.map (· - d) },
                   lastScaleOut := s.lastScaleOut.map (· - d) })) }

def handleLine (ds : DState) (line : String) : DState × Json :=
  match Json.parse line with
  | .error e => (ds, Json.mkObj [("error", toJson ("parse: " ++ e))])
  | .ok j =>
    match j.getObjValAs? String "op" with
    | .error e => (ds, Json.mkObj [("error", toJson e)])
    | .ok "init" =>
      match fromJson? j with
      | .error e => (ds, Json.mkObj [("error", toJson ("init: " ++ e))])
      | .ok (ic : InitCase) =>
        let o := listOracle ic.resps.toArray []
        let r := newController o 0 ic.ctl
        let diffs := (if r.val.isSome == ic.obs.ok then [] else ["init:ok"]) ++ (if r.j == ic.obs.j then [] else ["init:journal"])
        let detail := if diffs.isEmpty then [] else [("model", Json.mkObj [("ok", toJson r.val.isSome), ("j", toJson r.j)])]
        -- a restart whose construction fails (a cloud group has vanished, say) leaves the harness with the controller it
        -- had: the attempt is compared, the running controller's state is kept
        (if !ic.obs.ok && r.val.isNone && ds.st.isSome then ds else { ctl := ic.ctl, st := r.val, armed := [] }, Json.mkObj ([("diffs", toJson diffs), ("mon", toJson ([] : List String)), ("branches", toJson ([] : List String))] ++ detail))
    | .ok "begin" => ({}, Json.mkObj [("skip", toJson true)])
    | .ok "abandon" => ({}, Json.mkObj [("skip", toJson true)])
    | .ok "shift" =>
      match j.getObjValAs? Int "d" with
      | .error e => (ds, Json.mkObj [("error", toJson e)])
      | .ok d => ({ ds with st := ds.st.map (shiftState d), armed := ds.armed.map (fun p => (p.1, p.2 - d)) }, Json.mkObj [("diffs", toJson ([] : List String)), ("mon", toJson ([] : List String)), ("branches", toJson ([] : List String))])
    | .ok "scan" =>
      match fromJson? j with
      | .error e => (ds, Json.mkObj [("error", toJson ("scan: " ++ e))])
      | .ok (sc : ScanCase) => handleScan ds sc
    | .ok other =>
      if other == "awsop" then
        -- the harness's own watchdog saw the machine stall while this operation waited on real timers (fleet readiness polls): the
        -- number of polls that fit into the timeout is then not the implementation's doing. The operation, and the rest of the
        -- sequence on the same provider object (the cached group can no longer be threaded), are not compared.
        let stalled : Bool := (match j.getObjValAs? Bool "stalled" with | .ok b => b | .error _ => false)
        let seq : Nat := (match j.getObjValAs? Nat "seq" with | .ok n => n | .error _ => 0)
        let skipping := stalled || (ds.awsSkip && seq > 0)
        if skipping then
          ({ ds with awsSkip := true, awsG := none }, Json.mkObj [("diffs", toJson ([] : List String)), ("mon", toJson ([] : List String)), ("branches", toJson ([] : List String)), ("nt", toJson "awsop:stalled-not-compared")])
        else
        let (r, g') := handleAwsOp ds.awsG j
        let detail := if r.diffs.isEmpty && r.mon.isEmpty then [] else [("model", r.model)]
        ({ ds with awsG := g', awsSkip := false }, Json.mkObj ([("diffs", toJson r.diffs), ("mon", toJson r.mon), ("branches", toJson ([] : List String)), ("nt", toJson r.tag)] ++ detail))
      else
      let out : Option OpOut := match other with
        | "arith" => some (handleArith j)
        | "taintop" => some (handleTaintOp j)
        | "filter" => some (handleFilter j)
        | "nodefilter" => some (handleNodeFilter j)
        | "resources" => some (handleResources j)
        | "validate" => some (handleValidate j)
        | "startup" => some (handleStartup j)
        | "assemble" => some (handleAssemble j)
        | "forever" => some (handleForever j)
        | "decode" => some (handleDecode j)
        | "decode2" => some (handleDecode2 j)
        | _ => none
      match out with
      | none => (ds, Json.mkObj [("error", toJson ("unknown op " ++ other))])
      | some r =>
        let detail := if r.diffs.isEmpty && r.mon.isEmpty then [] else [("model", r.model)]
        (ds, Json.mkObj ([("diffs", toJson r.diffs), ("mon", toJson r.mon), ("branches", toJson ([] : List String)), ("nt", toJson r.tag)] ++ detail))

partial def loop (h : IO.FS.Stream) (out : IO.FS.Stream) (ds : DState) : IO Unit := do
  let line ← h.getLine
  if line.isEmpty then return ()
  if line.trimAscii.isEmpty then loop h out ds else
  let (ds', res) := handleLine ds line
  out.putStrLn res.compress
  loop h out ds'

def main : IO Unit := do
  let stdin ← IO.getStdin
  let stdout ← IO.getStdout
  loop stdin stdout {}
  stdout.flush
