import Esc.Basic
import Esc.Arith
import Esc.K8s
import Esc.Aws
import Esc.Controller
import Esc.Run
import Esc.Spec
import Esc.Json
