/-
  `Controller.ScaleUp` (pkg/controller/scale_up.go) as translated on every run (`Esc.Gen.scaleUp`, Gen/ScaleUp.lean; extract/reap.go,
  genScaleUp): the calls of `scaleUpUntaint` and `scaleUpCloudProviderNodeGroup` are parameters (what they returned), the call of
  the latter records the `nodesDelta` it is handed, the call of `scaleUpLock.lock` is recorded. Clauses of C07, C02 and C18 that
  this skeleton decides, for all inputs; and its agreement with the model's `scaleUp` on what the cloud is asked for.
-/
import Esc.Controller
import Esc.Gen.ScaleUp
namespace Esc.P
open Esc

/-- **C07 on the source: the cloud is asked for exactly the remainder.** `scaleUpCloudProviderNodeGroup` is called iff untainting
    reported no error and left a positive remainder, and it is handed exactly `want − untainted`. -/
theorem C07_source_remainder (want untainted : Int) (untaintErr : Bool) (added : Int) (addErr : Bool) :
    let r := Gen.scaleUp want untainted untaintErr added addErr
    (r.2.2.1 = true ↔ (untaintErr = false ∧ want - untainted > 0)) ∧
    (r.2.2.1 = true → r.2.2.2.1 = want - untainted) := by
  intro r
  simp only [r, Gen.scaleUp]
  by_cases h : untainted < want
  · have h2 : ¬ (want - untainted ≤ 0) := by omega
    have h3 : want - untainted > 0 := by omega
    cases untaintErr <;> cases addErr <;> simp [h, h2, h3]
  · have h2 : want - untainted ≤ 0 := by omega
    have h3 : ¬ (want - untainted > 0) := by omega
    cases untaintErr <;> cases addErr <;> simp [h, h2, h3]

/-- **C02 / C18 on the source: the cool-down lock is taken only for capacity the cloud accepted.** The lock is taken iff the
    cloud was asked and `scaleUpCloudProviderNodeGroup` reported no error, and it is taken with exactly the number it reported;
    when it reported an error, `ScaleUp` returns the error (and 0). -/
theorem C18_source_lock_only_on_success (want untainted : Int) (untaintErr : Bool) (added : Int) (addErr : Bool) :
    let r := Gen.scaleUp want untainted untaintErr added addErr
    (r.2.2.2.2.1 = true ↔ (r.2.2.1 = true ∧ addErr = false)) ∧
    (r.2.2.2.2.1 = true → r.2.2.2.2.2 = added ∧ r.1 = untainted + added ∧ r.2.1 = false) ∧
    (r.2.2.1 = true → addErr = true → r.1 = 0 ∧ r.2.1 = true ∧ r.2.2.2.2.1 = false) := by
  intro r
  simp only [r, Gen.scaleUp]
  by_cases h : untainted < want
  · have h2 : ¬ (want - untainted ≤ 0) := by omega
    have h3 : want - untainted > 0 := by omega
    cases untaintErr <;> cases addErr <;> simp [h, h2, h3]
  · have h2 : want - untainted ≤ 0 := by omega
    have h3 : ¬ (want - untainted > 0) := by omega
    cases untaintErr <;> cases addErr <;> simp [h, h2, h3]

/-- **Agreement with the model.** The model's `scaleUp` hands `nodesToAdd` the remainder `want − count` exactly when the
    translated skeleton calls `scaleUpCloudProviderNodeGroup`, with the same number. (The rest of the model's `scaleUp` — the
    clamp, the provider call, the lock — is tied by `gen_clampedNodesToAdd_eq`, `gen_increaseSize_eq`, `gen_lockLock_eq` and the
    correspondence.) -/
theorem gen_scaleUp_remainder_eq (want count : Int) (added : Int) (addErr : Bool) :
    let r := Gen.scaleUp want count false added addErr
    (r.2.2.1 = decide (want - count > 0)) ∧ (want - count > 0 → r.2.2.2.1 = want - count) := by
  intro r
  simp only [r, Gen.scaleUp]
  by_cases h : count < want
  · have h2 : ¬ (want - count ≤ 0) := by omega
    have h3 : want - count > 0 := by omega
    cases addErr <;> simp [h, h2, h3]
  · have h2 : want - count ≤ 0 := by omega
    have h3 : ¬ (want - count > 0) := by omega
    cases addErr <;> simp [h, h2, h3]

theorem gen_scaleUp_translation_complete : Gen.numScaleUpUnknown = 0 := by decide

end Esc.P
