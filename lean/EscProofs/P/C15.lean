/-
  C15 — Taint writes are precise and never restart a node's grace period.
-/
import EscProofs.P.GenDelTaint
import EscProofs.P.GenAddTaint
import EscProofs.Lemmas.Run
import EscProofs.Lemmas.Count
namespace Esc.P
open Esc Esc.Spec

/-- **C15 (add).** `AddToBeRemovedTaint` sends at most one UPDATE; the object sent is the object the
    GET just returned (same name as asked) with exactly one taint appended — escalator key, the
    current Unix second as value, the configured effect or `NoSchedule` — and every other field
    untouched; it is sent only if that object carried no escalator taint. -/
theorem C15_add (o : Oracle) (k : Nat) (nowSec : Int) (effect : String) (c : Node) :
    (∃ b, (addTaint o k nowSec effect c).j = [⟨.getNode c.name, b⟩]) ∨
    (∃ b u b2, (k8sGet o k c.name).val = some u ∧ u.name = c.name ∧ hasTaint escKey u = false ∧
      (addTaint o k nowSec effect c).j =
        [⟨.getNode c.name, b⟩,
         ⟨.updateNode { u with taints := u.taints ++ [⟨escKey, toString nowSec, if effect.length > 0 then effect else "NoSchedule"⟩] }, b2⟩] ∧
      (addTaint o k nowSec effect c).val = b2) := by
  obtain ⟨b, hb⟩ := k8sGet_j o k c.name
  unfold addTaint; dsimp only
  split
  · left; exact ⟨b, hb⟩
  · rename_i u hu
    split
    · left; exact ⟨b, hb⟩
    · rename_i hno
      right
      obtain ⟨b2, hj, hv⟩ := doPlain_j o (k8sGet o k c.name).k (.updateNode { u with taints := u.taints ++ [newEscTaint nowSec effect] })
      refine ⟨b, u, b2, hu, k8sGet_name o k c.name u hu, by simpa using hno, ?_, hv⟩
      rw [hb, hj]; rfl

/-- **C15 (add is idempotent).** If the latest object already carries the escalator taint no UPDATE is
    sent at all — the existing stamp stays — and the call reports success. -/
theorem C15_add_idempotent (o : Oracle) (k : Nat) (nowSec : Int) (effect : String) (c u : Node)
    (hg : (k8sGet o k c.name).val = some u) (hh : hasTaint escKey u = true) :
    (addTaint o k nowSec effect c).val = true ∧ ∀ e ∈ (addTaint o k nowSec effect c).j, ∃ b, e = ⟨.getNode c.name, b⟩ := by
  obtain ⟨b, hb⟩ := k8sGet_j o k c.name
  unfold addTaint; dsimp only
  simp only [hg, hh, if_true]
  exact ⟨trivial, fun e he => ⟨b, by simpa [hb] using he⟩⟩

/-- Swap-with-last-and-truncate at position `|A|` of `A ++ x :: B` removes exactly `x`: what is left,
    together with `x`, is a permutation of the original list. -/
theorem swapRemove_decomp (A : List Taint) (x : Taint) (B : List Taint) (last : Taint)
    (hl : (A ++ x :: B).getLast? = some last) :
    (A ++ x :: B).Perm (x :: ((A ++ x :: B).set A.length last).dropLast) := by
  rcases List.eq_nil_or_concat B with rfl | ⟨B', l, rfl⟩
  · -- x is the last element
    have : last = x := by simpa using hl.symm
    subst this
    have h1 : (A ++ [last]).set A.length last = A ++ [last] := by simp
    rw [h1, List.dropLast_concat]
    exact List.perm_append_comm
  · have hlast : last = l := by
      rw [List.concat_eq_append] at hl
      have : (A ++ x :: (B' ++ [l])) = (A ++ x :: B') ++ [l] := by simp
      rw [this, List.getLast?_concat] at hl
      exact (Option.some.inj hl).symm
    subst hlast
    rw [List.concat_eq_append]
    have h1 : (A ++ x :: (B' ++ [last])).set A.length last = A ++ last :: (B' ++ [last]) := by simp
    have h2 : (A ++ last :: (B' ++ [last])).dropLast = A ++ last :: B' := by
      rw [List.dropLast_append_cons]
      have : last :: (B' ++ [last]) = (last :: B') ++ [last] := rfl
      rw [this, List.dropLast_concat]
    rw [h1, h2]
    -- A ++ x :: (B' ++ [last])  ~  x :: (A ++ last :: B')
    have e1 : (A ++ x :: (B' ++ [last])).Perm (x :: (A ++ (B' ++ [last]))) := List.perm_middle
    have e2 : (A ++ (B' ++ [last])).Perm (A ++ last :: B') :=
      List.Perm.append_left A (List.perm_append_comm.trans (by simp))
    exact e1.trans (List.Perm.cons x e2)

/-- Removing the first escalator taint keeps every other taint (as a multiset). -/
theorem swapRemoveFirst_perm (p : Taint → Bool) (ts : List Taint) (i : Nat) (hi : ts.findIdx? p = some i) :
    ∃ x, ts[i]? = some x ∧ p x = true ∧ ts.Perm (x :: swapRemoveFirst p ts) := by
  have hspec := List.findIdx?_eq_some_iff_getElem.mp hi
  obtain ⟨hlt, hp, _⟩ := hspec
  refine ⟨ts[i], by simp [hlt], hp, ?_⟩
  unfold swapRemoveFirst
  rw [hi]
  cases hl : ts.getLast? with
  | none =>
    have : ts = [] := by simpa using hl
    subst this; simp at hlt
  | some last =>
    simp only
    have hdec : ts = ts.take i ++ ts[i] :: ts.drop (i + 1) := by
      rw [List.getElem_cons_drop_succ_eq_drop hlt, List.take_append_drop]
    have hlen : (ts.take i).length = i := by simp; omega
    have := swapRemove_decomp (ts.take i) ts[i] (ts.drop (i + 1)) last (by rw [← hdec]; exact hl)
    rw [hlen, ← hdec] at this
    exact this

/-- **C15 (delete).** `DeleteToBeRemovedTaint` sends at most one UPDATE; the object sent is the object
    the GET just returned with its first escalator taint removed and every other field untouched
    (the other taints are all kept; their order may change). -/
theorem C15_delete (o : Oracle) (k : Nat) (c : Node) :
    (∃ b, (deleteTaint o k c).j = [⟨.getNode c.name, b⟩]) ∨
    (∃ b u b2 i, (k8sGet o k c.name).val = some u ∧ u.name = c.name ∧
      u.taints.findIdx? (fun t => t.key == escKey) = some i ∧
      (deleteTaint o k c).j = [⟨.getNode c.name, b⟩, ⟨.updateNode { u with taints := swapRemoveFirst (fun t => t.key == escKey) u.taints }, b2⟩] ∧
      (∃ x, u.taints[i]? = some x ∧ x.key = escKey ∧ u.taints.Perm (x :: swapRemoveFirst (fun t => t.key == escKey) u.taints)) ∧
      (deleteTaint o k c).val = b2) := by
  obtain ⟨b, hb⟩ := k8sGet_j o k c.name
  unfold deleteTaint; dsimp only
  split
  · left; exact ⟨b, hb⟩
  · rename_i u hu
    split
    · rename_i hhas
      right
      obtain ⟨b2, hj, hv⟩ := doPlain_j o (k8sGet o k c.name).k (.updateNode { u with taints := swapRemoveFirst (fun t => t.key == escKey) u.taints })
      have : ∃ i, u.taints.findIdx? (fun t => t.key == escKey) = some i := by
        unfold hasTaint at hhas
        rw [List.any_eq_true] at hhas
        obtain ⟨t, ht, hk⟩ := hhas
        cases hf : u.taints.findIdx? (fun t => t.key == escKey) with
        | none => rw [List.findIdx?_eq_none_iff] at hf; simp [hf t ht] at hk
        | some i => exact ⟨i, rfl⟩
      obtain ⟨i, hi⟩ := this
      obtain ⟨x, hx1, hx2, hx3⟩ := swapRemoveFirst_perm _ _ i hi
      exact ⟨b, u, b2, i, hu, k8sGet_name o k c.name u hu, hi, by simp [hb, hj], ⟨x, hx1, by simpa using hx2, hx3⟩, hv⟩
    · left; exact ⟨b, hb⟩

/-- Every escalator-key taint on an object escalator writes was already on the object it fetched,
    unless that object had none (a fresh stamp): stamps are never replaced. -/
def noRestamp (u obj : Node) : Prop :=
  hasTaint escKey u = true → ∀ t ∈ obj.taints, t.key = escKey → t ∈ u.taints

theorem swapRemoveFirst_subset (p : Taint → Bool) (ts : List Taint) : ∀ t ∈ swapRemoveFirst p ts, t ∈ ts := by
  intro t ht
  unfold swapRemoveFirst at ht
  split at ht
  · exact ht
  · rename_i i hi
    split at ht
    · exact ht
    · rename_i last hl
      have hmem := List.dropLast_subset _ ht
      rcases List.mem_or_eq_of_mem_set hmem with h | h
      · exact h
      · subst h; exact List.mem_of_getLast? hl

/-- **C15 (no re-stamp), one scan.** Every UPDATE in a group scan's journal is an exact add on an
    object without escalator taint, or an exact delete: in no case does a node that already carried
    the escalator taint receive a different escalator taint, so a later scale-down cannot restart
    its grace period. -/
theorem C15_no_restamp (rnd : Rat → Rat) (o : Oracle) (k : Nat) (globalDry : Bool) (cfg : GroupCfg) (st0 : GState)
    (g : PGroup) (view : View) (h : Hints) (nowMock nowReal : Int) :
    ∀ e ∈ (scanGroup rnd o k globalDry cfg st0 g view h nowMock nowReal).j, ∀ obj, e.call = .updateNode obj →
      ∃ u, u.name = obj.name ∧ noRestamp u obj ∧
        (obj = { u with taints := u.taints ++ [newEscTaint (nowReal / 1000000000) cfg.taintEffect] } ∧ hasTaint escKey u = false ∨
         obj = { u with taints := swapRemoveFirst (fun t => t.key == escKey) u.taints } ∧ hasTaint escKey u = true) := by
  intro e he obj hc
  have := scanGroup_entries rnd o k globalDry cfg st0 g view h nowMock nowReal e he
  cases this with
  | metrics n hn b => cases hc
  | force hf => cases hf <;> cases hc
  | reap hf => cases hf <;> cases hc
  | taint hd c hcm ha =>
    cases ha with
    | get b => cases hc
    | upd u b hn hno =>
      injection hc with hc; subst hc
      refine ⟨u, rfl, ?_, Or.inl ⟨rfl, hno⟩⟩
      intro hh; rw [hno] at hh; cases hh
  | up hd hu =>
    cases hu with
    | untaint c hcm hh hdl =>
      cases hdl with
      | get b => cases hc
      | upd u b hn hhas =>
        injection hc with hc; subst hc
        refine ⟨u, rfl, ?_, Or.inr ⟨rfl, hhas⟩⟩
        intro _ t ht _; exact swapRemoveFirst_subset _ _ t ht
    | increase hi =>
      rw [hc] at hi; simp [isIncreaseCall] at hi

/-- **C15, histories**: tainting, untainting and re-tainting the same nodes in any order. -/
theorem C15_history (rnd : Rat → Rat) (ctl : Ctl) (s : Option CState) (es : List Event) :
    ∀ out ∈ runEvents rnd ctl s es, ∀ r ∈ out.recs, ∀ e ∈ r.j, ∀ obj, e.call = .updateNode obj →
      ∃ u, u.name = obj.name ∧ noRestamp u obj := by
  intro out ho r hr e he obj hc
  obtain ⟨o, k, h, hj⟩ := runEvents_recs rnd ctl es s out ho r hr
  rw [hj] at he
  obtain ⟨u, h1, h2, _⟩ := C15_no_restamp rnd o k ctl.globalDry r.cfg r.pre r.preG r.view h r.nowMock r.nowReal e he obj hc
  exact ⟨u, h1, h2⟩

/-- **C15, histories, the stamp.** Whatever earlier scans did or failed to do (refused writes included), a taint added
    in a scan carries the Unix second of *that* scan and the configured effect; an untaint removes the first escalator
    taint and nothing else. No value is remembered from an earlier attempt. -/
theorem C15_history_stamp (rnd : Rat → Rat) (ctl : Ctl) (s : Option CState) (es : List Event) :
    ∀ out ∈ runEvents rnd ctl s es, ∀ r ∈ out.recs, ∀ e ∈ r.j, ∀ obj, e.call = .updateNode obj →
      ∃ u, u.name = obj.name ∧
        (obj = { u with taints := u.taints ++ [newEscTaint (r.nowReal / 1000000000) r.cfg.taintEffect] } ∧ hasTaint escKey u = false ∨
         obj = { u with taints := swapRemoveFirst (fun t => t.key == escKey) u.taints } ∧ hasTaint escKey u = true) := by
  intro out ho r hr e he obj hc
  obtain ⟨o, k, h, hj⟩ := runEvents_recs rnd ctl es s out ho r hr
  rw [hj] at he
  obtain ⟨u, h1, _, h3⟩ := C15_no_restamp rnd o k ctl.globalDry r.cfg r.pre r.preG r.view h r.nowMock r.nowReal e he obj hc
  exact ⟨u, h1, h3⟩

/-! ### The monitor's predicate is met by the objects the model writes -/

/-- The object `addTaint` writes passes the monitor's `preciseUpdate` (taints compared up to order). -/
theorem C15_precise_add (nowSec : Int) (effect : String) (u : Node) (h : hasTaint escKey u = false) :
    Spec.C15.preciseUpdate nowSec effect u { u with taints := u.taints ++ [newEscTaint nowSec effect] } = true := by
  unfold Spec.C15.preciseUpdate
  simp only [h, Bool.not_false, Bool.true_and, Bool.false_and, Bool.or_false, Bool.and_eq_true, beq_iff_eq, Bool.or_eq_true]
  refine ⟨trivial, Or.inl ?_⟩
  exact List.isPerm_iff.mpr (List.Perm.refl _)

/-- The object `deleteTaint` writes (swap-remove of the first escalator taint) passes it too. -/
theorem C15_precise_delete (nowSec : Int) (effect : String) (u : Node) (h : hasTaint escKey u = true) :
    Spec.C15.preciseUpdate nowSec effect u { u with taints := swapRemoveFirst (fun t => t.key == escKey) u.taints } = true := by
  unfold Spec.C15.preciseUpdate
  simp only [h, Bool.not_true, Bool.false_and, Bool.true_and, Bool.false_or, Bool.and_eq_true, beq_iff_eq]
  refine ⟨trivial, ?_⟩
  -- the first escalator taint exists
  have hex : ∃ i, u.taints.findIdx? (fun t => t.key == escKey) = some i := by
    unfold hasTaint at h
    cases hf : u.taints.findIdx? (fun t => t.key == escKey) with
    | some i => exact ⟨i, rfl⟩
    | none =>
      rw [List.findIdx?_eq_none_iff] at hf
      rw [List.any_eq_true] at h
      obtain ⟨t, ht, hk⟩ := h
      have := hf t ht
      simp [hk] at this
  obtain ⟨i, hi⟩ := hex
  obtain ⟨x, hx, hpx, hperm⟩ := swapRemoveFirst_perm _ _ _ hi
  rw [List.any_eq_true]
  have hxmem : x ∈ u.taints := List.mem_of_getElem? hx
  refine ⟨x, hxmem, ?_⟩
  simp only [Bool.and_eq_true]
  refine ⟨hpx, ?_⟩
  apply List.isPerm_iff.mpr
  -- u.taints ~ x :: R  ⇒  R ~ u.taints.erase x
  have h1 : (u.taints.erase x).Perm ((x :: swapRemoveFirst (fun t => t.key == escKey) u.taints).erase x) := hperm.erase x
  simp only [List.erase_cons_head] at h1
  exact h1.symm

end Esc.P
