/-
  C06 — Scaling direction and taint rate follow the utilisation bands.
-/
import EscProofs.Lemmas.Run
import EscProofs.Lemmas.Loops
import EscProofs.P.C08
namespace Esc.P
open Esc Esc.Spec

/-- **C06 (bands → decision).** For whatever rounding function, with `u = max(cpu %, mem %)` as the
    code computed it and the thresholds converted the same way: below the lower threshold the decision
    is `−fast`; from the lower up to (not including) the upper threshold it is `−slow`; from the upper
    threshold up to and including the scale-up threshold it is 0; above it, the scale-up formula. -/
theorem C06_bands (rnd : Rat → Rat) (cfg : GroupCfg) (st : GState) (c m : Rat) (n : Nat) (cpuReq memReq : Int) :
    let u := max c m
    (u < rnd cfg.lower → bandDelta rnd cfg st (.vals c m) n cpuReq memReq = ⟨-cfg.fast, false⟩) ∧
    (¬ u < rnd cfg.lower → u < rnd cfg.upper → bandDelta rnd cfg st (.vals c m) n cpuReq memReq = ⟨-cfg.slow, false⟩) ∧
    (¬ u < rnd cfg.lower → ¬ u < rnd cfg.upper → ¬ u > rnd cfg.scaleUp → bandDelta rnd cfg st (.vals c m) n cpuReq memReq = ⟨0, false⟩) ∧
    (¬ u < rnd cfg.lower → ¬ u < rnd cfg.upper → u > rnd cfg.scaleUp →
      (bandDelta rnd cfg st (.vals c m) n cpuReq memReq).delta =
        (calcScaleUpDelta rnd n (.vals c m) cpuReq memReq st.cachedCPU st.cachedMem cfg.scaleUp).delta) := by
  intro u
  simp only [u]
  unfold bandDelta
  refine ⟨?_, ?_, ?_, ?_⟩
  · intro h; simp [h]
  · intro h1 h2; simp [h1, h2]
  · intro h1 h2 h3; simp [h1, h2, h3]
  · intro h1 h2 h3; simp [h1, h2, h3]

/-- **C06 (triggers).** `scale_on_starve` and `max_node_age` only ever raise the decision to at least
    1; without them the band decision stands. -/
theorem C06_triggers (cfg : GroupCfg) (st : GState) (pu : PodUsage) (nc : NodeCap) (nowReal : Int)
    (untainted tainted : List Node) (d : Int) :
    let r := applyTriggers cfg st pu nc nowReal untainted tainted d
    d ≤ r ∧
    ((isScaleOnStarve cfg st pu nc untainted.length = true ∨ scaleOnMaxNodeAge cfg st nowReal untainted tainted = true) → 1 ≤ r) ∧
    (isScaleOnStarve cfg st pu nc untainted.length = false → scaleOnMaxNodeAge cfg st nowReal untainted tainted = false → r = d) := by
  intro r
  simp only [r]
  unfold applyTriggers
  cases hs : isScaleOnStarve cfg st pu nc untainted.length <;> cases hm : scaleOnMaxNodeAge cfg st nowReal untainted tainted <;>
    simp <;> omega

/-- The triggers are off unless configured. -/
theorem C06_triggers_off (cfg : GroupCfg) (st : GState) (pu : PodUsage) (nc : NodeCap) (nowReal : Int)
    (untainted tainted : List Node) (h1 : cfg.scaleOnStarve = false) (h2 : cfg.maxAgeNs ≤ 0) :
    isScaleOnStarve cfg st pu nc untainted.length = false ∧ scaleOnMaxNodeAge cfg st nowReal untainted tainted = false := by
  unfold isScaleOnStarve scaleOnMaxNodeAge
  simp [h1, h2]

/-- If every attempt succeeds, the loop taints exactly `min(need, #candidates)` nodes. -/
theorem taintLoop_count_all_ok (o : Oracle) (nowSec : Int) (effect : String)
    (hok : ∀ k c, (addTaint o k nowSec effect c).val = true) :
    ∀ (cs : List Node) (k need : Nat) (tr : List String),
      (taintLoop o false nowSec effect k cs need tr).val.count = min need cs.length := by
  intro cs
  induction cs with
  | nil => intro k need tr; simp [taintLoop]
  | cons c cs ih =>
    intro k need tr
    unfold taintLoop; dsimp only
    split
    · rename_i h0; simp [h0]
    · rename_i hne
      simp only [Bool.false_eq_true, if_false, hok k c, if_true]
      rw [ih]
      simp only [List.length_cons]
      omega

/-- **C06 (taint rate).** In the tainting branch, outside dry mode, if no taint attempt fails, the
    number of nodes tainted is exactly `min(rate, untainted − min_nodes)` (and never negative). -/
theorem C06_taint_rate (o : Oracle) (k : Nat) (cfg : GroupCfg) (st : GState) (nowSec : Int) (hint : List Nat)
    (untainted : List Node) (rate : Int) (hrate : 0 ≤ rate) (hmin0 : 0 ≤ st.minEff) (hmin : st.minEff ≤ untainted.length)
    (hok : ∀ k c, (addTaint o k nowSec cfg.taintEffect c).val = true) :
    (scaleDownTaint o k false cfg st nowSec hint untainted rate).val.count = min rate ((untainted.length : Int) - st.minEff) := by
  unfold scaleDownTaint; dsimp only
  have hc : 0 ≤ clampRemove untainted.length st.minEff rate := by unfold clampRemove; split <;> omega
  have hlt : ¬ clampRemove (↑untainted.length) st.minEff rate < 0 := by omega
  simp only [hlt, if_false]
  rw [taintLoop_count_all_ok o nowSec cfg.taintEffect hok]
  have hlen : (orderBy oldestFirst hint untainted).length = untainted.length := (orderBy_perm _ _ _).length_eq
  rw [hlen]
  unfold clampRemove at hc ⊢
  split <;> omega

/-- **C06 (upper band: nothing but reaping).** When the decision is 0 the acting phase issues only
    removal calls (force and grace-period reaping): no taint, no untaint, no cloud resize. -/
theorem C06_idle_band (o : Oracle) (k : Nat) (dry : Bool) (cfg : GroupCfg) (st : GState) (g : PGroup) (pods : List Pod)
    (h : Hints) (nowMock nowReal : Int) (untainted tainted force : List Node) (mj : Journal) :
    let f := tryDelete o k g (forceCands dry pods force)
    (scanAct o k dry cfg st g pods h nowMock nowReal untainted tainted force mj 0).j = mj ++ f.j ∨
    (scanAct o k dry cfg st g pods h nowMock nowReal untainted tainted force mj 0).j =
      mj ++ f.j ++ (tryDelete o f.k f.val.g (reaperCands dry cfg pods nowMock tainted)).j := by
  intro f
  have := scanAct_shape o k dry cfg st g pods h nowMock nowReal untainted tainted force mj 0
  simp only at this
  rcases this with h1 | ⟨h1, _⟩ | ⟨h1, _⟩ | ⟨_, h1⟩
  · left; exact h1
  · omega
  · omega
  · right; exact h1

/-- **C06 (above the scale-up threshold: only adds capacity).** A positive decision never adds the
    escalator taint to a node (unique node names), and a negative one never untaints or resizes. -/
theorem C06_up_never_taints {view : View} (hnd : UniqueNames view) {dry : Bool} {st0 : GState} (o : Oracle) (k : Nat) (cfg : GroupCfg)
    (st : GState) (g : PGroup) (nowReal : Int) (hint : List Nat) (want : Int) :
    (scaleUp o k dry cfg st g nowReal hint (nodesOf dry st0 .tainted view.nodes) want).j.countP (isTaintAdd view) = 0 :=
  scaleUp_noTaintAdd hnd o k cfg st g nowReal hint want

/-- **C06 (the taint loop walks on).** A refused GET or UPDATE does not use up the rate: if the loop ends with fewer
    nodes counted than it was asked for, it has fetched *every* candidate — a node it could not taint is replaced by the
    next-oldest one, never silently counted. (The implementation-side oracle `C06.tooFewBad` is this statement.) -/
theorem C06_taint_walks_on (o : Oracle) (nowSec : Int) (effect : String) (cs : List Node) (k need : Nat) (tr : List String)
    (hlt : (taintLoop o false nowSec effect k cs need tr).val.count < need) :
    ∀ c ∈ cs, c.name ∈ getNames (taintLoop o false nowSec effect k cs need tr).j := by
  obtain ⟨m, hm, hnames, _, _, _, hfull⟩ := taintLoop_spec o nowSec effect cs k need tr
  have hmlen : m = cs.length := by
    by_cases h : m < cs.length
    · have := hfull h; omega
    · omega
  intro c hc
  rw [hnames, hmlen, List.take_length]
  exact List.mem_map_of_mem hc

/-- **C06 (above the scale-up threshold: nothing is removed by the scale-up itself).** No entry of `ScaleUp`'s journal
    terminates an instance of the cloud group or deletes a Node object: it is an untaint attempt or part of the cloud
    increase. (The force-removal reaper, which runs before the decision in every scan, is a separate sub-journal; the
    grace reaper runs only for decisions ≤ 0: `scanAct`.) -/
theorem C06_up_never_removes (o : Oracle) (k : Nat) (dry : Bool) (cfg : GroupCfg) (st : GState) (g : PGroup)
    (nowReal : Int) (hint : List Nat) (tainted : List Node) (want : Int) :
    ∀ e ∈ (scaleUp o k dry cfg st g nowReal hint tainted want).j, isRemovalEntry e = false := by
  intro e he
  obtain ⟨_, hs⟩ := scaleUp_entries o k dry cfg st g nowReal hint tainted want e he
  cases hs with
  | untaint c hc hh hdl =>
    cases hdl with
    | get b => rfl
    | upd u b hn hhas => rfl
  | increase hi =>
    unfold isRemovalEntry isTerminateEntry isDeleteEntry
    cases hc : e.call <;> simp_all [isIncreaseCall]

/-- … and a positive decision reaches nothing but the force reaper and `ScaleUp`: the journal of `scanAct` is
    `mj ++ force batch ++ ScaleUp`. -/
theorem C06_up_shape (o : Oracle) (k : Nat) (dry : Bool) (cfg : GroupCfg) (st : GState) (g : PGroup) (pods : List Pod)
    (h : Hints) (nowMock nowReal : Int) (untainted tainted force : List Node) (mj : Journal) (delta : Int) (hd : delta > 0)
    (hf : (tryDelete o k g (forceCands dry pods force)).val.err ≠ .notInGroup) :
    (scanAct o k dry cfg st g pods h nowMock nowReal untainted tainted force mj delta).j =
      mj ++ (tryDelete o k g (forceCands dry pods force)).j ++
      (scaleUp o (tryDelete o k g (forceCands dry pods force)).k dry cfg st (tryDelete o k g (forceCands dry pods force)).val.g
        nowReal h.new tainted delta).j := by
  unfold scanAct; dsimp only
  have h1 : ¬ delta < 0 := by omega
  simp only [hf, if_false, h1, hd, if_true]
  split <;> rfl

theorem C06_down_never_adds (o : Oracle) (k : Nat) (dry : Bool) (cfg : GroupCfg) (st : GState) (nowSec : Int)
    (hint : List Nat) (untainted : List Node) (n : Int) :
    ∀ e ∈ (scaleDownTaint o k dry cfg st nowSec hint untainted n).j, isResizeRequest e = false ∧
      ∀ c, AddTaintEntry nowSec cfg.taintEffect c e → (match e.call with | .updateNode obj => hasTaint escKey obj = true | _ => True) := by
  intro e he
  obtain ⟨_, c, _, ha⟩ := scaleDownTaint_entries o k dry cfg st nowSec hint untainted n e he
  constructor
  · cases ha <;> rfl
  · intro c' ha'
    cases ha' with
    | get b => trivial
    | upd u b hn hno => simp [hasTaint, newEscTaint]

end Esc.P
