/-
  Tie B for the integer / band logic of pkg/controller: `Esc.Gen.calculateNodesToAdd`, `clampedNodesToAdd`, `bandSwitch`
  (Gen/Decide.lean) are REGENERATED from scale_up.go and controller.go on every run by extract/decide.go; they are proved
  equal to the hand-written model (`Esc.nodesToAdd`, `Esc.bandDelta`), and C04's bound and C06's bands are restated on them.
-/
import Esc.Controller
import Esc.Gen.Decide
import EscProofs.P.GenArith
namespace Esc.P
open Esc

/-- **Tie B, the scale-up clamp (C04).** What the translator read at the head of `scaleUpCloudProviderNodeGroup` (with
    `calculateNodesToAdd`) is the model's `nodesToAdd`. -/
theorem gen_clampedNodesToAdd_eq (want target maxEff asgMax : Int) :
    Gen.clampedNodesToAdd want target maxEff asgMax = nodesToAdd want target maxEff asgMax := by
  unfold Gen.clampedNodesToAdd Gen.calculateNodesToAdd nodesToAdd
  by_cases h : maxEff < asgMax
  · simp only [h, decide_true, if_true]
    by_cases h2 : target + want > maxEff <;> simp [h2]
  · simp only [h, decide_false, if_false, Bool.false_eq_true]
    by_cases h2 : target + want > asgMax <;> simp [h2]

/-- **C04 on the source.** The number of nodes the translated head of `scaleUpCloudProviderNodeGroup` goes on to request never
    takes the target above `min(max_nodes, cloud maximum)`; a request that would exceed the bound lands exactly on it; and a
    request within the bound is passed on unchanged. For all integers. -/
theorem C04_source_clamp (want target maxEff asgMax : Int) :
    let d := Gen.clampedNodesToAdd want target maxEff asgMax
    target + d ≤ max (target + want) (min maxEff asgMax) ∧
    target + d ≤ min maxEff asgMax ∧
    (target + want > min maxEff asgMax → target + d = min maxEff asgMax) ∧
    (target + want ≤ min maxEff asgMax → d = want) := by
  intro d
  simp only [d, gen_clampedNodesToAdd_eq]
  by_cases h : maxEff < asgMax
  · have hm : min maxEff asgMax = maxEff := Int.min_eq_left (by omega)
    rw [hm]
    by_cases h2 : target + want > maxEff
    · have : nodesToAdd want target maxEff asgMax = maxEff - target := by simp [nodesToAdd, h, h2]
      rw [this]; omega
    · have : nodesToAdd want target maxEff asgMax = want := by simp [nodesToAdd, h, h2]
      rw [this]; omega
  · have hm : min maxEff asgMax = asgMax := Int.min_eq_right (by omega)
    rw [hm]
    by_cases h2 : target + want > asgMax
    · have : nodesToAdd want target maxEff asgMax = asgMax - target := by simp [nodesToAdd, h, h2]
      rw [this]; omega
    · have : nodesToAdd want target maxEff asgMax = want := by simp [nodesToAdd, h, h2]
      rw [this]; omega

/-- **Tie B, the band switch (C06), ordinary percentages.** -/
theorem gen_bandSwitch_vals (rnd : Rat → Rat) (cfg : GroupCfg) (st : GState) (c m : Rat) (n : Nat) (cpuReq memReq : Int) :
    Gen.bandSwitch rnd (.fin c) (.fin m) cfg.lower cfg.upper cfg.scaleUp cfg.fast cfg.slow
        (Gen.calcScaleUpDelta rnd n (.fin c) (.fin m) cpuReq memReq st.cachedCPU st.cachedMem cfg.scaleUp) =
      ((bandDelta rnd cfg st (.vals c m) n cpuReq memReq).delta, (bandDelta rnd cfg st (.vals c m) n cpuReq memReq).negErr) := by
  rw [gen_calcScaleUpDelta_vals]
  simp only [Gen.bandSwitch, bandDelta, Gen.F.max, Gen.F.lt, Gen.F.gt, decide_eq_true_eq]
  by_cases h1 : max c m < rnd (cfg.lower : Rat)
  · simp [h1]
  · by_cases h2 : max c m < rnd (cfg.upper : Rat)
    · simp [h1, h2]
    · by_cases h3 : max c m > rnd (cfg.scaleUp : Rat)
      · simp only [h1, h2, h3, if_true, if_false]
        cases (calcScaleUpDelta rnd n (.vals c m) cpuReq memReq st.cachedCPU st.cachedMem cfg.scaleUp).err <;> simp
      · simp [h1, h2, h3]

/-- **Tie B, the band switch, from zero** (both percentages are the sentinel: above every threshold). -/
theorem gen_bandSwitch_sentinel (rnd : Rat → Rat) (cfg : GroupCfg) (st : GState) (n : Nat) (cpuReq memReq : Int) :
    Gen.bandSwitch rnd .maxFloat .maxFloat cfg.lower cfg.upper cfg.scaleUp cfg.fast cfg.slow
        (Gen.calcScaleUpDelta rnd n .maxFloat .maxFloat cpuReq memReq st.cachedCPU st.cachedMem cfg.scaleUp) =
      ((bandDelta rnd cfg st .sentinel n cpuReq memReq).delta, (bandDelta rnd cfg st .sentinel n cpuReq memReq).negErr) := by
  rw [gen_calcScaleUpDelta_sentinel]
  simp only [Gen.bandSwitch, bandDelta, Gen.F.max, Gen.F.lt, Gen.F.gt]
  cases (calcScaleUpDelta rnd n .sentinel cpuReq memReq st.cachedCPU st.cachedMem cfg.scaleUp).err <;> simp

/-- **C06 on the source.** The translated switch, on ordinary percentages with `u = max(cpu %, mem %)`: below the lower
    threshold −fast, between lower and upper −slow, between upper and the scale-up threshold 0 — never an error in those
    three bands — and above the scale-up threshold whatever `calcScaleUpDelta` returns. -/
theorem C06_source_bands (rnd : Rat → Rat) (c m : Rat) (lower upper scaleUp fast slow : Int) (up : Int × Bool) :
    let u := max c m
    let r := Gen.bandSwitch rnd (.fin c) (.fin m) lower upper scaleUp fast slow up
    (u < rnd lower → r = (-fast, false)) ∧
    (¬ u < rnd lower → u < rnd upper → r = (-slow, false)) ∧
    (¬ u < rnd lower → ¬ u < rnd upper → ¬ u > rnd scaleUp → r = (0, false)) ∧
    (¬ u < rnd lower → ¬ u < rnd upper → u > rnd scaleUp → r = up) := by
  intro u r
  simp only [r, u, Gen.bandSwitch, Gen.F.max, Gen.F.lt, Gen.F.gt, decide_eq_true_eq]
  refine ⟨?_, ?_, ?_, ?_⟩
  · intro h; simp [h]
  · intro h1 h2; simp [h1, h2]
  · intro h1 h2 h3; simp [h1, h2, h3]
  · intro h1 h2 h3
    simp only [h1, h2, h3, if_true, if_false]
    obtain ⟨d, e⟩ := up
    cases e <;> simp

/-- Nothing of the three pieces was left untranslated. -/
theorem gen_decide_translation_complete : Gen.numDecideUnknown = 0 := by decide

end Esc.P
