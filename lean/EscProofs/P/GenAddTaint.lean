/-
  `k8s.AddToBeRemovedTaint` (pkg/k8s/taint.go) as translated on every run (`Esc.Gen.addTaint`, Gen/AddTaint.lean; extract/reap.go,
  genAddTaint): GET and UPDATE are parameters (what they returned), the UPDATE is recorded, and the taint appended in front of it is,
  textually, the pinned one (escalator key, `fmt.Sprint(time.Now().Unix())`, the effect variable). C15's "a node that already
  carries the escalator taint is never re-stamped" and "the configured effect (NoSchedule if unset)" are decided by this skeleton.
-/
import Esc.Gen.AddTaint
namespace Esc.P
open Esc

/-- **C15 on the source.** The UPDATE is sent iff the GET returned a node without error and that copy carries no taint with the
    escalator key — an already tainted node is never written to, so never re-stamped; the taint appended carries the configured
    effect, NoSchedule when none is configured; an error is reported iff the GET or the UPDATE failed; on an already tainted copy
    success is reported without a write. -/
theorem C15_source_add (getNil getErr hasEsc : Bool) (effectLen : Int) (updNil updErr : Bool) :
    let r := Gen.addTaint getNil getErr hasEsc effectLen updNil updErr
    (r.2.1 = true ↔ (getNil = false ∧ getErr = false ∧ hasEsc = false)) ∧
    (r.2.1 = true → (r.2.2 = if effectLen > 0 then 1 else 0)) ∧
    (r.1 = true ↔ ((getErr = true ∨ getNil = true) ∨ (hasEsc = false ∧ (updErr = true ∨ updNil = true)))) ∧
    (getNil = false → getErr = false → hasEsc = true → r = (false, false, -1)) := by
  intro r
  simp only [r, Gen.addTaint]
  cases getNil <;> cases getErr <;> cases hasEsc <;> cases updNil <;> cases updErr <;> by_cases h : effectLen > 0 <;> simp [h]

theorem gen_addTaint_translation_complete : Gen.numAddTaintUnknown = 0 := by decide

end Esc.P
