/-
  C13 — Utilisation = pod requests over untainted allocatable, order-independent.
-/
import EscProofs.P.GenArith
import Esc.Spec
namespace Esc.P
open Esc

/-! ### the per-pod request -/

theorem foldl_add_cpu (l : List Res) (a : Res) :
    (l.foldl (fun a c => (⟨a.cpu + c.cpu, a.mem + c.mem⟩ : Res)) a).cpu = a.cpu + (l.map (·.cpu)).sum ∧
    (l.foldl (fun a c => (⟨a.cpu + c.cpu, a.mem + c.mem⟩ : Res)) a).mem = a.mem + (l.map (·.mem)).sum := by
  induction l generalizing a with
  | nil => simp
  | cons x xs ih =>
    simp only [List.foldl_cons, List.map_cons, List.sum_cons]
    obtain ⟨h1, h2⟩ := ih ⟨a.cpu + x.cpu, a.mem + x.mem⟩
    constructor <;> simp only [h1, h2] <;> omega

theorem foldl_max_cpu (l : List Res) (a : Res) :
    (l.foldl (fun a c => (⟨max a.cpu c.cpu, max a.mem c.mem⟩ : Res)) a).cpu = (l.map (·.cpu)).foldl max a.cpu ∧
    (l.foldl (fun a c => (⟨max a.cpu c.cpu, max a.mem c.mem⟩ : Res)) a).mem = (l.map (·.mem)).foldl max a.mem := by
  induction l generalizing a with
  | nil => simp
  | cons x xs ih => simpa using ih ⟨max a.cpu x.cpu, max a.mem x.mem⟩

/-- `l.foldl max s` is the maximum of `s` and the elements of `l`. -/
theorem foldl_max_spec (l : List Int) (s : Int) :
    s ≤ l.foldl max s ∧ (∀ x ∈ l, x ≤ l.foldl max s) ∧ (l.foldl max s = s ∨ l.foldl max s ∈ l) := by
  induction l generalizing s with
  | nil => simp
  | cons x xs ih =>
    simp only [List.foldl_cons]
    obtain ⟨h1, h2, h3⟩ := ih (max s x)
    refine ⟨by omega, ?_, ?_⟩
    · intro y hy
      rcases List.mem_cons.mp hy with rfl | hy
      · omega
      · exact h2 y hy
    · rcases h3 with h | h
      · by_cases hsx : s ≤ x
        · right; rw [h]; simp [Int.max_eq_right hsx]
        · left; rw [h]; omega
      · right; exact List.mem_cons_of_mem _ h

/-- **C13 (per pod).** A pod's request, per resource, is max(sum of its container requests, largest
    init-container request) plus its overhead. -/
theorem C13_pod (p : Pod) :
    (podRequest p).cpu = (p.initContainers.map (·.cpu)).foldl max ((p.containers.map (·.cpu)).sum) + p.overhead.cpu ∧
    (podRequest p).mem = (p.initContainers.map (·.mem)).foldl max ((p.containers.map (·.mem)).sum) + p.overhead.mem := by
  unfold podRequest
  simp only
  obtain ⟨s1, s2⟩ := foldl_add_cpu p.containers ⟨0, 0⟩
  obtain ⟨m1, m2⟩ := foldl_max_cpu p.initContainers (p.containers.foldl (fun a c => (⟨a.cpu + c.cpu, a.mem + c.mem⟩ : Res)) ⟨0, 0⟩)
  simp only [m1, m2, s1, s2, Int.zero_add, and_self]

/-! ### order-independent digests -/

/-- What of the pod usage the decisions read: both totals, and the two maxima used by the starve
    test. -/
structure UsageKey where
  cpu : Int
  mem : Int
  maxPendingCPU : Int
  maxPendingMem : Int
deriving DecidableEq

def usageKey (u : PodUsage) : UsageKey := ⟨u.total.cpu, u.total.mem, u.largestPendingCPU.cpu, u.largestPendingMem.mem⟩

def usageKeyStep (k : UsageKey) (p : Pod) : UsageKey :=
  let r := podRequest p
  if p.phase = "Pending" then ⟨k.cpu + r.cpu, k.mem + r.mem, max k.maxPendingCPU r.cpu, max k.maxPendingMem r.mem⟩
  else ⟨k.cpu + r.cpu, k.mem + r.mem, k.maxPendingCPU, k.maxPendingMem⟩

theorem usageKey_step (u : PodUsage) (p : Pod) : usageKey (podUsageStep u p) = usageKeyStep (usageKey u) p := by
  unfold podUsageStep usageKeyStep usageKey
  simp only
  split
  · simp only [UsageKey.mk.injEq, true_and]
    constructor
    · split <;> omega
    · split <;> omega
  · rfl

theorem usageKey_foldl (pods : List Pod) (u : PodUsage) :
    usageKey (pods.foldl podUsageStep u) = pods.foldl usageKeyStep (usageKey u) := by
  induction pods generalizing u with
  | nil => rfl
  | cons p ps ih => simp only [List.foldl_cons, ih, usageKey_step]

theorem usageKeyStep_comm (k : UsageKey) (p q : Pod) : usageKeyStep (usageKeyStep k p) q = usageKeyStep (usageKeyStep k q) p := by
  unfold usageKeyStep
  by_cases hp : p.phase = "Pending" <;> by_cases hq : q.phase = "Pending" <;>
    simp only [hp, hq, if_true, if_false, UsageKey.mk.injEq, and_true, and_self] <;> omega

/-- **C13 (totals).** The group's request total is the sum of the per-pod requests. -/
theorem C13_totals (pods : List Pod) :
    (podsUsage pods).total.cpu = (pods.map (fun p => (podRequest p).cpu)).sum ∧
    (podsUsage pods).total.mem = (pods.map (fun p => (podRequest p).mem)).sum := by
  have key : ∀ (pods : List Pod) (k : UsageKey),
      (pods.foldl usageKeyStep k).cpu = k.cpu + (pods.map (fun p => (podRequest p).cpu)).sum ∧
      (pods.foldl usageKeyStep k).mem = k.mem + (pods.map (fun p => (podRequest p).mem)).sum := by
    intro pods
    induction pods with
    | nil => intro k; simp
    | cons p ps ih =>
      intro k
      simp only [List.foldl_cons, List.map_cons, List.sum_cons]
      obtain ⟨h1, h2⟩ := ih (usageKeyStep k p)
      rw [h1, h2]
      unfold usageKeyStep
      by_cases hp : p.phase = "Pending" <;> simp only [hp, if_true, if_false] <;> omega
  have h := usageKey_foldl pods ⟨⟨0, 0⟩, ⟨0, 0⟩, ⟨0, 0⟩⟩
  obtain ⟨k1, k2⟩ := key pods (usageKey ⟨⟨0, 0⟩, ⟨0, 0⟩, ⟨0, 0⟩⟩)
  unfold podsUsage
  have e1 : (pods.foldl podUsageStep ⟨⟨0, 0⟩, ⟨0, 0⟩, ⟨0, 0⟩⟩).total.cpu = (usageKey (pods.foldl podUsageStep ⟨⟨0, 0⟩, ⟨0, 0⟩, ⟨0, 0⟩⟩)).cpu := rfl
  have e2 : (pods.foldl podUsageStep ⟨⟨0, 0⟩, ⟨0, 0⟩, ⟨0, 0⟩⟩).total.mem = (usageKey (pods.foldl podUsageStep ⟨⟨0, 0⟩, ⟨0, 0⟩, ⟨0, 0⟩⟩)).mem := rfl
  rw [e1, e2, h, k1, k2]
  simp [usageKey]

/-- **C13 (pod order).** Totals and starve-test inputs do not depend on the order in which the pods
    are listed. -/
theorem C13_perm_pods (pods pods' : List Pod) (h : pods.Perm pods') : usageKey (podsUsage pods) = usageKey (podsUsage pods') := by
  unfold podsUsage
  rw [usageKey_foldl, usageKey_foldl]
  exact List.Perm.foldl_eq' h (fun x _ y _ z => usageKeyStep_comm z x y) _

/-- The starve test reads the pod usage only through the digest: a largest-pending record is empty
    exactly when its leading component is zero. -/
theorem largestPending_inv (pods : List Pod) :
    ((podsUsage pods).largestPendingCPU.cpu = 0 → (podsUsage pods).largestPendingCPU = ⟨0, 0⟩) ∧
    ((podsUsage pods).largestPendingMem.mem = 0 → (podsUsage pods).largestPendingMem = ⟨0, 0⟩) ∧
    0 ≤ (podsUsage pods).largestPendingCPU.cpu ∧ 0 ≤ (podsUsage pods).largestPendingMem.mem := by
  unfold podsUsage
  have key : ∀ (pods : List Pod) (u : PodUsage),
      ((u.largestPendingCPU.cpu = 0 → u.largestPendingCPU = ⟨0, 0⟩) ∧ (u.largestPendingMem.mem = 0 → u.largestPendingMem = ⟨0, 0⟩) ∧
        0 ≤ u.largestPendingCPU.cpu ∧ 0 ≤ u.largestPendingMem.mem) →
      (((pods.foldl podUsageStep u).largestPendingCPU.cpu = 0 → (pods.foldl podUsageStep u).largestPendingCPU = ⟨0, 0⟩) ∧
       ((pods.foldl podUsageStep u).largestPendingMem.mem = 0 → (pods.foldl podUsageStep u).largestPendingMem = ⟨0, 0⟩) ∧
        0 ≤ (pods.foldl podUsageStep u).largestPendingCPU.cpu ∧ 0 ≤ (pods.foldl podUsageStep u).largestPendingMem.mem) := by
    intro pods
    induction pods with
    | nil => intro u h; exact h
    | cons p ps ih =>
      intro u ⟨h1, h2, h3, h4⟩
      simp only [List.foldl_cons]
      apply ih
      unfold podUsageStep
      by_cases hp : p.phase = "Pending"
      · simp only [hp, if_true]
        by_cases hc : (podRequest p).cpu > u.largestPendingCPU.cpu <;> by_cases hm : (podRequest p).mem > u.largestPendingMem.mem <;>
          simp only [hc, hm, if_true, if_false] <;> refine ⟨?_, ?_, ?_, ?_⟩ <;> first | exact h1 | exact h2 | omega | (intro h0; omega)
      · simp only [hp, if_false]
        exact ⟨h1, h2, h3, h4⟩
  exact key pods _ ⟨fun _ => rfl, fun _ => rfl, by simp, by simp⟩

/-! ### capacity -/

structure CapKey where
  cpu : Int
  mem : Int
  maxAvailCPU : Int
  maxAvailMem : Int
deriving DecidableEq

def capKey (c : NodeCap) : CapKey := ⟨c.total.cpu, c.total.mem, c.largestAvailCPU.cpu, c.largestAvailMem.mem⟩

def capKeyStep (pods : List Pod) (k : CapKey) (n : Node) : CapKey :=
  let a := nodeAvail pods n
  ⟨k.cpu + n.allocCPU, k.mem + n.allocMem, max k.maxAvailCPU a.cpu, max k.maxAvailMem a.mem⟩

theorem capKey_step (pods : List Pod) (c : NodeCap) (n : Node) : capKey (nodeCapStep pods c n) = capKeyStep pods (capKey c) n := by
  unfold nodeCapStep capKeyStep capKey
  simp only [CapKey.mk.injEq, true_and]
  constructor
  · split <;> omega
  · split <;> omega

theorem capKey_foldl (pods : List Pod) (nodes : List Node) (c : NodeCap) :
    capKey (nodes.foldl (nodeCapStep pods) c) = nodes.foldl (capKeyStep pods) (capKey c) := by
  induction nodes generalizing c with
  | nil => rfl
  | cons n ns ih => simp only [List.foldl_cons, ih, capKey_step]

/-- **C13 (capacity).** Capacity is the sum of the allocatable resources of the nodes passed in —
    the controller passes the untainted uncordoned nodes (see C09). -/
theorem C13_capacity (nodes : List Node) (pods : List Pod) :
    (nodesCapacity nodes pods).total.cpu = (nodes.map (·.allocCPU)).sum ∧
    (nodesCapacity nodes pods).total.mem = (nodes.map (·.allocMem)).sum := by
  have key : ∀ (nodes : List Node) (k : CapKey),
      (nodes.foldl (capKeyStep pods) k).cpu = k.cpu + (nodes.map (·.allocCPU)).sum ∧
      (nodes.foldl (capKeyStep pods) k).mem = k.mem + (nodes.map (·.allocMem)).sum := by
    intro nodes
    induction nodes with
    | nil => intro k; simp
    | cons n ns ih =>
      intro k
      simp only [List.foldl_cons, List.map_cons, List.sum_cons]
      obtain ⟨h1, h2⟩ := ih (capKeyStep pods k n)
      rw [h1, h2]
      unfold capKeyStep
      constructor <;> simp only <;> omega
  have h := capKey_foldl pods nodes ⟨⟨0, 0⟩, ⟨0, 0⟩, ⟨0, 0⟩⟩
  obtain ⟨k1, k2⟩ := key nodes (capKey ⟨⟨0, 0⟩, ⟨0, 0⟩, ⟨0, 0⟩⟩)
  unfold nodesCapacity
  have e1 : (nodes.foldl (nodeCapStep pods) ⟨⟨0, 0⟩, ⟨0, 0⟩, ⟨0, 0⟩⟩).total.cpu = (capKey (nodes.foldl (nodeCapStep pods) ⟨⟨0, 0⟩, ⟨0, 0⟩, ⟨0, 0⟩⟩)).cpu := rfl
  have e2 : (nodes.foldl (nodeCapStep pods) ⟨⟨0, 0⟩, ⟨0, 0⟩, ⟨0, 0⟩⟩).total.mem = (capKey (nodes.foldl (nodeCapStep pods) ⟨⟨0, 0⟩, ⟨0, 0⟩, ⟨0, 0⟩⟩)).mem := rfl
  rw [e1, e2, h, k1, k2]
  simp [capKey]

/-- **C13 (node order).** Capacity and the largest-available inputs of the starve test do not depend
    on the order in which the nodes are listed. -/
theorem C13_perm_nodes (pods : List Pod) (nodes nodes' : List Node) (h : nodes.Perm nodes') :
    capKey (nodesCapacity nodes pods) = capKey (nodesCapacity nodes' pods) := by
  unfold nodesCapacity
  rw [capKey_foldl, capKey_foldl]
  refine List.Perm.foldl_eq' h (fun x _ y _ z => ?_) _
  unfold capKeyStep
  simp only [CapKey.mk.injEq]
  refine ⟨by omega, by omega, by omega, by omega⟩

/-- A node's available resources do not depend on the order of the pod list either. -/
theorem C13_nodeAvail_perm (pods pods' : List Pod) (h : pods.Perm pods') (n : Node) : nodeAvail pods n = nodeAvail pods' n := by
  unfold nodeAvail
  have hf : (pods.filter (fun p => p.nodeName == n.name && usingNodeResources p)).Perm (pods'.filter (fun p => p.nodeName == n.name && usingNodeResources p)) :=
    h.filter _
  have := List.Perm.foldl_eq' hf (f := fun (a : Res) p => (⟨a.cpu + (podRequest p).cpu, a.mem + (podRequest p).mem⟩ : Res))
    (fun x _ y _ z => by simp only [Res.mk.injEq]; constructor <;> omega) ⟨0, 0⟩
  simp only [this]

/-- **C13 (percent).** With exact arithmetic (`rnd = id`) utilisation is `100 × requests / capacity`
    per resource. -/
theorem C13_percent_exact (cpuReq memReq cpuCap memCap n : Int) (h1 : cpuCap ≠ 0) (h2 : memCap ≠ 0) :
    calcPercent id cpuReq memReq cpuCap memCap n = .vals ((cpuReq : Rat) / cpuCap * 100) ((memReq : Rat) / memCap * 100) ∨
    (cpuReq = 0 ∧ memReq = 0 ∧ cpuCap = 0 ∧ memCap = 0 ∧ n = 0) := by
  left
  unfold calcPercent pct1
  have : ¬(cpuReq = 0 ∧ memReq = 0 ∧ cpuCap = 0 ∧ memCap = 0 ∧ n = 0) := fun h => h1 h.2.2.1
  simp [h1, h2]

end Esc.P
