/-
  C12 — Node groups are isolated from each other.
-/
import EscProofs.P.Assemble
import EscProofs.P.MainWiring
import EscProofs.Lemmas.Run
import EscProofs.Lemmas.Classify
import EscProofs.P.C02
namespace Esc.P
open Esc Esc.Spec

theorem view_has_name {view : View} {n : Node} {name : String} (hin : n ∈ view.nodes) (hn : name = n.name) :
    view.nodes.any (fun x => x.name == name) = true := by
  rw [List.any_eq_true]; exact ⟨n, hin, by simp [hn]⟩

/-- **C12 (targets), one group scan.** Every call targets a node listed for this group, an instance
    of this group's cached cloud group, or that cloud group itself. -/
theorem C12_targets (rnd : Rat → Rat) (o : Oracle) (k : Nat) (globalDry : Bool) (cfg : GroupCfg) (st0 : GState)
    (g : PGroup) (view : View) (h : Hints) (nowMock nowReal : Int) :
    C12.holds ⟨globalDry, cfg, st0, g, view, nowMock, nowReal⟩
      (scanGroup rnd o k globalDry cfg st0 g view h nowMock nowReal).j = true := by
  unfold C12.holds
  rw [List.all_eq_true]
  intro e he
  have removal : ∀ {cands : List Node}, (∀ n ∈ cands, n ∈ view.nodes) → RemovalEntry g cands e →
      C12.okEntry ⟨globalDry, cfg, st0, g, view, nowMock, nowReal⟩ e = true := by
    intro cands hc hr
    cases hr with
    | terminate n hn hb b =>
      unfold C12.okEntry
      have := instance_backs hb
      rw [List.any_eq_true] at this ⊢
      obtain ⟨i, hi, hp⟩ := this
      simp only [Bool.and_eq_true, beq_iff_eq] at hp
      exact ⟨i, hi, by simp [hp.1]⟩
    | delete n hn b => exact view_has_name (hc n hn) rfl
  have := scanGroup_entries rnd o k globalDry cfg st0 g view h nowMock nowReal e he
  cases this with
  | metrics n hn b =>
    unfold C12.okEntry
    rw [List.any_eq_true]
    exact ⟨n, hn, by simp⟩
  | force hf => exact removal (fun n hn => (forceCands_mem hn).2.1) hf
  | reap hf => exact removal (fun n hn => (reaperCands_mem hn).2.1) hf
  | taint hd c hc ha =>
    obtain ⟨hin, _⟩ := nodesOf_mem hc
    cases ha with
    | get b => exact view_has_name hin rfl
    | upd u b hn hno => exact view_has_name hin hn
  | up hd hu =>
    cases hu with
    | untaint c hc hh hdl =>
      obtain ⟨hin, _⟩ := nodesOf_mem hc
      cases hdl with
      | get b => exact view_has_name hin rfl
      | upd u b hn hhas => exact view_has_name hin hn
    | increase hi =>
      -- exact amounts are not needed here: only which group the call is for
      unfold C12.okEntry
      -- describeAsgs names: the fleet path asks for [g.id]; use the exact lemma through scaleUp again
      generalize hcall : e.call = c at hi ⊢
      cases c <;> simp [isIncreaseCall] at hi ⊢ <;> exact hi

end Esc.P

namespace Esc.P
open Esc Esc.Spec

/-! ### frame: what a group's scan depends on -/

theorem terminateOrphans_gid (o : Oracle) (k : Nat) (g : PGroup) (ids : List String) :
    (terminateOrphans o k g ids).val.g.id = g.id ∧ (terminateOrphans o k g ids).val.g.asg = g.asg := by
  unfold terminateOrphans; dsimp only; split <;> simp

theorem attachInstances_gid (o : Oracle) (k : Nat) (cfg : AwsCfg) (g : PGroup) (ids : List String) :
    (attachInstances o k cfg g ids).val.g.id = g.id ∧ (attachInstances o k cfg g ids).val.g.asg = g.asg := by
  unfold attachInstances; dsimp only
  split
  · split
    · simp
    · exact terminateOrphans_gid o _ g _
  · exact terminateOrphans_gid o _ g _

theorem increaseSize_gid (o : Oracle) (k : Nat) (cfg : AwsCfg) (g : PGroup) (d : Int) :
    (increaseSize o k cfg g d).val.g.id = g.id ∧ (increaseSize o k cfg g d).val.g.asg = g.asg := by
  unfold increaseSize; dsimp only
  split
  · simp
  split
  · simp
  split
  · unfold oneShot; dsimp only
    split
    · split
      · simp
      · split
        · split
          · simp
          · exact attachInstances_gid o _ cfg g _
        · simp
    · simp
  · simp

theorem scaleUp_gid (o : Oracle) (k : Nat) (dry : Bool) (cfg : GroupCfg) (st : GState) (g : PGroup)
    (nowReal : Int) (hint : List Nat) (tainted : List Node) (want : Int) :
    (scaleUp o k dry cfg st g nowReal hint tainted want).val.g.id = g.id := by
  unfold scaleUp; dsimp only
  split
  · split
    · rfl
    · split
      · rfl
      · split <;> exact (increaseSize_gid o _ cfg.aws g _).1
  · rfl

/-- A group scan hands back a provider group with the same id. -/
theorem scanGroup_gid (rnd : Rat → Rat) (o : Oracle) (k : Nat) (globalDry : Bool) (cfg : GroupCfg) (st0 : GState)
    (g : PGroup) (view : View) (h : Hints) (nowMock nowReal : Int) :
    (scanGroup rnd o k globalDry cfg st0 g view h nowMock nowReal).val.g.id = g.id := by
  unfold scanGroup; dsimp only
  split
  · rfl
  split
  · rfl
  split
  · rfl
  split
  · split
    · rfl
    · exact scaleUp_gid o _ _ cfg _ g nowReal h.new _ _
  split
  · rfl
  split
  · rfl
  unfold scanDecide; dsimp only
  split
  · rfl
  unfold scanAct; dsimp only
  have hf := fun c => (tryDelete_g o k g c).2
  split
  · exact hf _
  split
  · split
    · rw [(tryDelete_g o _ _ _).2]; exact hf _
    · rw [(tryDelete_g o _ _ _).2]; exact hf _
  split
  · split <;> (rw [scaleUp_gid]; exact hf _)
  · split <;> (rw [(tryDelete_g o _ _ _).2]; exact hf _)

theorem findProv_id {prov : List PGroup} {id : String} {pg : PGroup} (h : findProv prov id = some pg) : pg.id = id := by
  unfold findProv at h
  have := List.find?_some h
  simpa using this

theorem findProv_setProv_other (prov : List PGroup) (g : PGroup) (id : String) (h : g.id ≠ id) :
    findProv (setProv prov g) id = findProv prov id := by
  unfold findProv setProv
  induction prov with
  | nil => rfl
  | cons p ps ih =>
    rw [List.map_cons, List.find?_cons, List.find?_cons]
    by_cases hp : (p.id == g.id) = true
    · have hpid : p.id = g.id := by simpa using hp
      have h1 : (g.id == id) = false := by simpa using h
      have h2 : (p.id == id) = false := by rw [hpid]; exact h1
      simp only [hp, if_true, h1, h2]
      exact ih
    · have hp' : (p.id == g.id) = false := by simpa using hp
      simp only [hp', Bool.false_eq_true, if_false]
      cases hpi : p.id == id
      · simp only; exact ih
      · rfl

/-- **C12 (frame).** In a `RunOnce`, the record of a group is the scan of *its own* configuration,
    controller state, cached cloud group and view, as they stood before the loop — whatever the other
    groups (with other names and other cloud groups) contain or do, and wherever the group stands in
    the configured order. Other groups influence it only through how many calls they made before it
    (the index at which the environment is consulted). -/
theorem C12_frame (rnd : Rat → Rat) (o : Oracle) (ctl : Ctl) (views : String → View) (hints : String → Hints)
    (nowMock nowReal : Int) (c : GroupCfg) (gst : GState) (pg : PGroup) :
    ∀ (cs : List GroupCfg) (k : Nat) (ls : LoopState),
      (∀ c' ∈ cs, c'.name = c.name → c' = c) →
      (∀ c' ∈ cs, c'.name ≠ c.name → c'.cloudGroup ≠ c.cloudGroup) →
      findState ls.st.groups c.name = some gst → findProv ls.st.prov c.cloudGroup = some pg →
      ∀ r ∈ (groupLoop rnd o ctl views hints nowMock nowReal k cs ls).val.recs, r ∉ ls.recs → r.name = c.name →
        (cs.filter (fun c' => c' == c)).length ≤ 1 →
        ∃ k', r.j = (scanGroup rnd o k' ctl.globalDry c
          (if autoDiscover c then { gst with minEff := pg.asg.min, maxEff := pg.asg.max } else gst) pg (views c.name) (hints c.name) nowMock nowReal).j := by
  intro cs
  induction cs with
  | nil => intro k ls _ _ _ _ r hr hnr; simp [groupLoop] at hr; exact absurd hr hnr
  | cons c' cs ih =>
    intro k ls huniq hcloud hs hp r hr hnr hrn hone
    unfold groupLoop at hr
    split at hr
    · rename_i pg' gst' hp' hs'
      dsimp only at hr
      generalize hg : (if autoDiscover c' = true then { gst' with minEff := pg'.asg.min, maxEff := pg'.asg.max } else gst') = g0 at hr
      by_cases hcn : c'.name = c.name
      · -- this is the group itself
        have hcc : c' = c := huniq c' List.mem_cons_self hcn
        subst hcc
        rw [hs] at hs'; rw [hp] at hp'
        have e1 : gst = gst' := Option.some.inj hs'
        have e2 : pg = pg' := Option.some.inj hp'
        -- no further copy of c in the tail: later records are not for c.name ... they could only come from c again
        have htail : ∀ c'' ∈ cs, c''.name ≠ c'.name := by
          intro c'' hc'' hn
          have := huniq c'' (List.mem_cons_of_mem _ hc'') hn
          subst this
          simp only [List.filter_cons, beq_self_eq_true, if_true, List.length_cons] at hone
          have : 0 < (cs.filter (fun x => x == c'')).length := List.length_pos_of_mem (List.mem_filter.mpr ⟨hc'', by simp⟩)
          omega
        -- records produced by the tail are for other names
        have hnames : ∀ (cs' : List GroupCfg) (k'' : Nat) (ls' : LoopState), (∀ c'' ∈ cs', c''.name ≠ c'.name) →
            ∀ r' ∈ (groupLoop rnd o ctl views hints nowMock nowReal k'' cs' ls').val.recs, r' ∈ ls'.recs ∨ r'.name ≠ c'.name := by
          intro cs'
          induction cs' with
          | nil => intro k'' ls' _ r' hr'; left; simpa [groupLoop] using hr'
          | cons d ds ihd =>
            intro k'' ls' hne r' hr'
            unfold groupLoop at hr'
            split at hr'
            · dsimp only at hr'
              have hnew : ∀ x, x ∈ ls'.recs ++ [x] → True := fun _ _ => trivial
              clear hnew
              have hd := hne d List.mem_cons_self
              split at hr'
              all_goals first
                | (rcases List.mem_append.mp hr' with h | h
                   · left; exact h
                   · right; simp only [List.mem_singleton] at h; subst h; exact hd)
                | (rcases ihd _ _ (fun c'' hc'' => hne c'' (List.mem_cons_of_mem _ hc'')) r' hr' with h | h
                   · rcases List.mem_append.mp h with h | h
                     · left; exact h
                     · right; simp only [List.mem_singleton] at h; subst h; exact hd
                   · right; exact h)
            · left; exact hr'
        have hmine : r ∈ ls.recs ++ [(⟨c'.name, (scanGroup rnd o k ctl.globalDry c' g0 pg' (views c'.name) (hints c'.name) nowMock nowReal).j,
            (scanGroup rnd o k ctl.globalDry c' g0 pg' (views c'.name) (hints c'.name) nowMock nowReal).val.delta,
            (scanGroup rnd o k ctl.globalDry c' g0 pg' (views c'.name) (hints c'.name) nowMock nowReal).val.err,
            (scanGroup rnd o k ctl.globalDry c' g0 pg' (views c'.name) (hints c'.name) nowMock nowReal).val.branch,
            c', g0, pg', views c'.name, nowMock, nowReal⟩ : GroupRec)] := by
          split at hr
          · exact hr
          · exact hr
          · rcases hnames cs _ _ htail r hr with h | h
            · exact h
            · exact absurd hrn h
        rcases List.mem_append.mp hmine with h | h
        · exact absurd h hnr
        · simp only [List.mem_singleton] at h
          subst h
          refine ⟨k, ?_⟩
          show (scanGroup rnd o k ctl.globalDry c' g0 pg' (views c'.name) (hints c'.name) nowMock nowReal).j = _
          rw [← hg, e1, e2]
      · -- another group runs first: c's entries are untouched
        have hcg : c'.cloudGroup ≠ c.cloudGroup := hcloud c' List.mem_cons_self hcn
        generalize hscan : scanGroup rnd o k ctl.globalDry c' g0 pg' (views c'.name) (hints c'.name) nowMock nowReal = sc at hr
        have hgid : sc.val.g.id = c'.cloudGroup := by
          rw [← hscan, scanGroup_gid, findProv_id hp']
        have hs2 : findState (setState ls.st.groups c'.name { sc.val.st with scaleDelta := sc.val.delta }) c.name = some gst := by
          unfold findState setState
          rw [lookup_map_other _ _ _ _ (fun h => hcn h.symm)]
          exact hs
        have hp2 : findProv (setProv ls.st.prov sc.val.g) c.cloudGroup = some pg := by
          rw [findProv_setProv_other _ _ _ (by rw [hgid]; exact hcg)]
          exact hp
        have hnew : r ∉ ls.recs ++ [(⟨c'.name, sc.j, sc.val.delta, sc.val.err, sc.val.branch, c', g0, pg', views c'.name, nowMock, nowReal⟩ : GroupRec)] := by
          intro h
          rcases List.mem_append.mp h with h | h
          · exact hnr h
          · simp only [List.mem_singleton] at h; subst h; exact hcn hrn
        have hone' : (cs.filter (fun x => x == c)).length ≤ 1 := by
          have : (c' == c) = false := by
            cases hb : c' == c with
            | false => rfl
            | true => exact absurd (by rw [eq_of_beq hb]) hcn
          simpa [List.filter_cons, this] using hone
        split at hr
        · exact absurd hr hnew
        · exact absurd hr hnew
        · exact ih _ _ (fun x hx => huniq x (List.mem_cons_of_mem _ hx)) (fun x hx => hcloud x (List.mem_cons_of_mem _ hx))
            hs2 hp2 r hr hnew hrn hone'
    · exact absurd hr hnr

/-- **C12 (containment).** A `RunOnce` that does not end fatally processed every configured group, in
    order: an error confined to one group (node count outside bounds, division by zero, failed cloud
    or Kubernetes calls, refused increase …) does not stop the later groups. -/
theorem C12_containment (rnd : Rat → Rat) (o : Oracle) (ctl : Ctl) (views : String → View) (hints : String → Hints)
    (nowMock nowReal : Int) :
    ∀ (cs : List GroupCfg) (k : Nat) (ls : LoopState),
      (groupLoop rnd o ctl views hints nowMock nowReal k cs ls).val.outcome = .ok →
      (groupLoop rnd o ctl views hints nowMock nowReal k cs ls).val.recs.map (·.name) = ls.recs.map (·.name) ++ cs.map (·.name) := by
  intro cs
  induction cs with
  | nil => intro k ls _; simp [groupLoop]
  | cons c cs ih =>
    intro k ls
    unfold groupLoop
    split
    · dsimp only
      split
      · intro h; simp at h
      · intro h; simp at h
      · intro h
        rw [ih _ _ h]
        simp
    · intro h
      -- a missing group is fatal
      simp at h

/-- The only ways a `RunOnce` ends fatally while looping over the groups. -/
theorem C12_fatal_kinds (rnd : Rat → Rat) (o : Oracle) (ctl : Ctl) (views : String → View) (hints : String → Hints)
    (nowMock nowReal : Int) :
    ∀ (cs : List GroupCfg) (k : Nat) (ls : LoopState), ls.outcome = .ok →
      (groupLoop rnd o ctl views hints nowMock nowReal k cs ls).val.outcome = .ok ∨
      (groupLoop rnd o ctl views hints nowMock nowReal k cs ls).val.outcome = .fatal "not-in-group" ∨
      (groupLoop rnd o ctl views hints nowMock nowReal k cs ls).val.outcome = .fatal "fleet-strikes" ∨
      (groupLoop rnd o ctl views hints nowMock nowReal k cs ls).val.outcome = .fatal "group-missing" := by
  intro cs
  induction cs with
  | nil => intro k ls h; left; simpa [groupLoop] using h
  | cons c cs ih =>
    intro k ls h
    unfold groupLoop
    split
    · dsimp only
      split
      · right; left; rfl
      · right; right; left; rfl
      · exact ih _ _ rfl
    · right; right; right; rfl

end Esc.P
