/-
  `func main` of cmd/main.go hands the assembled configuration on as it is. The definitions under `Esc.Gen` (Main.lean)
  are REGENERATED from the source on every run: `mainOpts` lists, per field of the `controller.Opts{…}` literal, the normal
  form of the expression it is given. What `setupNodeGroups()` and `setupCloudProvider(·)` return is checked by running them
  in the built program (stream `assemble`, model `Esc.assemble`); the facts below say that the controller receives exactly
  those values and the `--drymode` flag, so that `Assembled.dryOf` *is* the controller's dry-mode predicate of the running
  program. When the literal cannot be read (`mainOptsFound = false`: `main` was restructured) the statement is void and the
  evidence says so.
-/
import Esc.Gen.Main
import EscProofs.P.Assemble
namespace Esc.P
open Esc

/-- **Wiring of `main` (C11, C12).** The controller's options are the assembled ones: the node groups are the result of
    `setupNodeGroups()`, the cloud-provider builder is `setupCloudProvider` of that same result, the global dry-mode
    switch is the `--drymode` flag and nothing else, and that literal is what `NewController` is called with. -/
theorem main_wiring (h : Gen.mainOptsFound = true) :
    Gen.mainOpts.lookup "NodeGroups" = some "setupNodeGroups()" ∧
    Gen.mainOpts.lookup "CloudProviderBuilder" = some "setupCloudProvider(setupNodeGroups())" ∧
    Gen.mainOpts.lookup "DryMode" = some "flag:drymode" ∧
    Gen.mainCtorArg = "controller.Opts{…}" := by
  revert h; decide

/-- Non-vacuity: on a source whose literal is read as on the pinned tree, the hypothesis holds and the conclusion is the
    wiring itself. (Whether the literal of the *current* source was read is recorded in the evidence of every run:
    `check` reads `Gen.mainOptsFound`.) -/
example : (true = true) → ([("DryMode", "flag:drymode")] : List (String × String)).lookup "DryMode" = some "flag:drymode" := by decide

end Esc.P
