/-
  Tie B for pkg/controller/scale_down.go: `Esc.Gen.reapAppend`, `forceAppend`, `taintClamp` (Gen/Reap.lean) are REGENERATED
  from the source on every run by extract/reap.go — the bodies of the two reaper loops, read as "is this candidate handed to
  TryDeleteNodes?", and the clamp at the head of scaleDownTaint. They are proved equal to the hand-written model
  (`reaperCands`, `forceCands`, `clampRemove`), and the clauses of C01, C10, C11 and C03 that they decide are restated on them.
-/
import Esc.Controller
import Esc.Gen.Reap
namespace Esc.P
open Esc

/-- **Tie B, the grace reaper.** For a candidate whose taint time reads as `v`, one iteration of the translated loop appends it
    exactly when the model's `reaperCands` keeps it. -/
theorem gen_reapAppend_readable (dry : Bool) (cfg : GroupCfg) (pods : List Pod) (nowMock : Int) (n : Node) (v : Int)
    (hv : taintStamp? n = some v) :
    Gen.reapAppend (safeFromDeletion n) false false (nodeEmpty pods n) dry (goAgeNs nowMock v) cfg.softNs cfg.hardNs =
      (!dry && (!safeFromDeletion n && graceExpired cfg pods nowMock n)) := by
  simp only [Gen.reapAppend, graceExpired, hv]
  cases safeFromDeletion n <;> cases dry <;> cases nodeEmpty pods n <;>
    by_cases h1 : goAgeNs nowMock v > cfg.softNs <;> by_cases h2 : goAgeNs nowMock v > cfg.hardNs <;> simp [h1, h2]

/-- **Tie B, the grace reaper, unreadable taint time** (`GetToBeRemovedTime` returned an error or no time): never appended,
    as in the model (`graceExpired` is false without a stamp). -/
theorem gen_reapAppend_unreadable (prot timeNil timeErr empty dry : Bool) (age soft hard : Int)
    (h : (timeErr || timeNil) = true) :
    Gen.reapAppend prot timeNil timeErr empty dry age soft hard = false := by
  simp only [Gen.reapAppend]
  cases prot <;> simp [h]

/-- The model's reaper list is the translated loop run over the tainted nodes. -/
theorem gen_reaperCands_eq (dry : Bool) (cfg : GroupCfg) (pods : List Pod) (nowMock : Int) (tainted : List Node) :
    reaperCands dry cfg pods nowMock tainted =
      tainted.filter (fun n => match taintStamp? n with
        | some v => Gen.reapAppend (safeFromDeletion n) false false (nodeEmpty pods n) dry (goAgeNs nowMock v) cfg.softNs cfg.hardNs
        | none => Gen.reapAppend (safeFromDeletion n) true false (nodeEmpty pods n) dry 0 cfg.softNs cfg.hardNs) := by
  unfold reaperCands
  cases dry with
  | true =>
    simp only [if_true]
    symm
    rw [List.filter_eq_nil_iff]
    intro n _
    cases hs : taintStamp? n with
    | none => simp [gen_reapAppend_unreadable]
    | some v => simp [gen_reapAppend_readable true cfg pods nowMock n v hs]
  | false =>
    simp only [Bool.false_eq_true, if_false]
    apply List.filter_congr
    intro n _
    cases hs : taintStamp? n with
    | none => simp [gen_reapAppend_unreadable, graceExpired, hs]
    | some v => simp [gen_reapAppend_readable false cfg pods nowMock n v hs]

/-- **C01 (a)/(b), C10, C11 on the source.** Whatever the inputs, the translated loop body appends a candidate only if it is
    not protected by the no-delete annotation, its taint time was read, the group is not in dry mode, and the recorded time is
    more than the soft grace period in the past with the node empty, or more than the hard grace period in the past. -/
theorem C01_source_reaper (prot timeNil timeErr empty dry : Bool) (age soft hard : Int)
    (h : Gen.reapAppend prot timeNil timeErr empty dry age soft hard = true) :
    prot = false ∧ timeNil = false ∧ timeErr = false ∧ dry = false ∧
    age > soft ∧ (empty = true ∨ age > hard) := by
  simp only [Gen.reapAppend] at h
  cases prot <;> cases timeNil <;> cases timeErr <;> cases dry <;> cases empty <;>
    by_cases h1 : age > soft <;> by_cases h2 : age > hard <;> simp_all

/-- "does not hold back the removal of other eligible nodes" (C10) at the level of one iteration: the verdict on a candidate
    is a function of that candidate's own facts — no state is carried from one iteration to the next (the generated definition
    has no such parameter), and an unprotected, readable, expired, empty candidate outside dry mode is appended. -/
theorem C10_source_no_holdback (age soft hard : Int) (h1 : age > soft) :
    Gen.reapAppend false false false true false age soft hard = true := by
  simp [Gen.reapAppend, h1]

/-- **Tie B, the force reaper.** -/
theorem gen_forceAppend_eq (empty dry : Bool) : Gen.forceAppend empty dry = (!dry && empty) := by
  cases empty <;> cases dry <;> simp [Gen.forceAppend]

theorem gen_forceCands_eq (dry : Bool) (pods : List Pod) (force : List Node) :
    forceCands dry pods force = force.filter (fun n => Gen.forceAppend (nodeEmpty pods n) dry) := by
  unfold forceCands
  cases dry <;> simp [gen_forceAppend_eq]

/-- **Tie B, the clamp of `scaleDownTaint`** (for the non-negative amounts the caller passes: `−nodesDelta` of a scale-down). -/
theorem gen_taintClamp_eq (want untainted minEff : Int) (hw : 0 ≤ want) :
    Gen.taintClamp want untainted minEff =
      (if clampRemove untainted minEff want < 0 then (0, true) else (clampRemove untainted minEff want, false)) := by
  simp only [Gen.taintClamp, clampRemove]
  by_cases h : untainted - want < minEff
  · simp only [h, decide_true, if_true]
    by_cases h2 : untainted - minEff < 0 <;> simp [h2]
  · have : ¬ want < 0 := by omega
    simp [h, this]

/-- **C03 / C06 on the source.** When the translated head of `scaleDownTaint` lets tainting go ahead with `n` nodes, at least
    `min_nodes` untainted nodes remain afterwards, never more than asked for is tainted, and `n` is exactly
    `min(asked, untainted − min_nodes)`; when fewer than `min_nodes` are untainted it refuses (taints nothing). -/
theorem C03_source_clamp (want untainted minEff : Int) (hw : 0 ≤ want) :
    let r := Gen.taintClamp want untainted minEff
    (r.2 = false → untainted - r.1 ≥ minEff ∧ 0 ≤ r.1 ∧ r.1 ≤ want ∧ r.1 = min want (untainted - minEff)) ∧
    (r.2 = true ↔ untainted < minEff) := by
  intro r
  simp only [r, Gen.taintClamp]
  by_cases h : untainted - want < minEff
  · simp only [h, decide_true, if_true]
    by_cases h2 : untainted - minEff < 0
    · simp only [h2, decide_true, if_true]; constructor
      · intro hf; cases hf
      · constructor
        · intro _; omega
        · intro _; trivial
    · simp only [h2, decide_false, Bool.false_eq_true, if_false]; constructor
      · intro _; refine ⟨by omega, by omega, by omega, ?_⟩; omega
      · constructor
        · intro hf; cases hf
        · intro hlt; omega
  · simp only [h, decide_false, Bool.false_eq_true, if_false]; constructor
    · intro _; refine ⟨by omega, hw, by omega, ?_⟩; omega
    · constructor
      · intro hf; cases hf
      · intro hlt; omega

/-- Nothing of the three pieces was left untranslated. -/
theorem gen_reap_translation_complete : Gen.numReapUnknown = 0 := by decide

end Esc.P
