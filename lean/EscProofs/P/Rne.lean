/-
  The driver's rounding function `rne64` satisfies the standard model with u = 2⁻⁵³ — for every
  rational, since the model has neither subnormals nor overflow (the Go values compared against it
  bit-for-bit by the arith stream stay far inside binary64's normal range).
-/
import Mathlib.Tactic.FieldSimp
import Mathlib.Tactic.Ring
import Mathlib.Tactic.Linarith
import Mathlib.Tactic.Positivity
import Mathlib.Algebra.Order.Field.Rat
import Mathlib.Algebra.Order.AbsoluteValue.Basic
import Mathlib.Algebra.Order.Field.Power
import Esc.Arith
import EscProofs.P.C05Float
namespace Esc.P
open Esc

theorem pow2_eq_zpow (e : Int) : pow2 e = (2 : Rat) ^ e := by
  unfold pow2
  split
  · rename_i h
    have : e = (e.toNat : Int) := (Int.toNat_of_nonneg h).symm
    conv_rhs => rw [this]
    rw [zpow_natCast]; push_cast; rfl
  · rename_i h
    have h' : 0 ≤ -e := by omega
    have : e = -((-e).toNat : Int) := by rw [Int.toNat_of_nonneg h']; ring
    conv_rhs => rw [this]
    rw [zpow_neg, zpow_natCast]; push_cast; simp

theorem pow2_pos (e : Int) : 0 < pow2 e := by rw [pow2_eq_zpow]; positivity

theorem roundHalfEven_err (x : Rat) : |((roundHalfEven x : Int) : Rat) - x| ≤ 1 / 2 := by
  have h1 := Rat.floor_le x
  have h2 := Rat.lt_floor_add_one x
  push_cast at h2
  unfold roundHalfEven
  dsimp only
  rw [abs_le]
  split
  · constructor <;> linarith
  · split
    · push_cast; constructor <;> linarith
    · have : x - (x.floor : Rat) = 1 / 2 := by
        rename_i a b; exact le_antisymm (not_lt.mp b) (not_lt.mp a)
      split
      · constructor <;> linarith
      · push_cast; constructor <;> linarith

theorem roundHalfEven_int (z : Int) : roundHalfEven (z : Rat) = z := by
  unfold roundHalfEven
  dsimp only
  rw [Rat.floor_intCast]
  simp

theorem expOf_spec (x : Rat) (hx : 0 < x) :
    (2 : Rat) ^ 52 ≤ x / pow2 (expOf x) ∧ x / pow2 (expOf x) < (2 : Rat) ^ 53 := by
  unfold expOf
  dsimp only
  have hnum : 0 < x.num := Rat.num_pos.mpr hx
  have hN0 : x.num.natAbs ≠ 0 := by omega
  have hD0 : x.den ≠ 0 := x.den_nz
  -- the four log2 facts, over ℚ
  have hN1 : ((2 : Rat) ^ (Nat.log2 x.num.natAbs)) ≤ (x.num.natAbs : Rat) := by
    exact_mod_cast Nat.log2_self_le hN0
  have hN2 : (x.num.natAbs : Rat) < 2 * (2 : Rat) ^ (Nat.log2 x.num.natAbs) := by
    have := @Nat.lt_log2_self x.num.natAbs
    rw [Nat.pow_succ] at this
    have : (x.num.natAbs : Rat) < ((2 ^ Nat.log2 x.num.natAbs * 2 : Nat) : Rat) := by exact_mod_cast this
    push_cast at this; linarith
  have hD1 : ((2 : Rat) ^ (Nat.log2 x.den)) ≤ (x.den : Rat) := by
    exact_mod_cast Nat.log2_self_le hD0
  have hD2 : (x.den : Rat) < 2 * (2 : Rat) ^ (Nat.log2 x.den) := by
    have := @Nat.lt_log2_self x.den
    rw [Nat.pow_succ] at this
    have : (x.den : Rat) < ((2 ^ Nat.log2 x.den * 2 : Nat) : Rat) := by exact_mod_cast this
    push_cast at this; linarith
  have hxe : x = (x.num.natAbs : Rat) / (x.den : Rat) := by
    have h := Rat.num_div_den x
    have : (x.num : Rat) = ((x.num.natAbs : Int) : Rat) := by rw [Int.natAbs_of_nonneg (le_of_lt hnum)]
    rw [this, Int.cast_natCast] at h; exact h.symm
  generalize x.num.natAbs = N at *
  generalize x.den = D at *
  generalize Nat.log2 N = a at *
  generalize Nat.log2 D = b at *
  have hA : (0 : Rat) < (2 : Rat) ^ a := by positivity
  have hB : (0 : Rat) < (2 : Rat) ^ b := by positivity
  have hDpos : (0 : Rat) < D := lt_of_lt_of_le hB hD1
  -- y0 = x / 2^e0
  have he0 : pow2 ((a : Int) - (b : Int) - 52) = (2 : Rat) ^ a / ((2 : Rat) ^ b * (2 : Rat) ^ 52) := by
    rw [pow2_eq_zpow, zpow_sub₀ (by norm_num), zpow_sub₀ (by norm_num), zpow_natCast, zpow_natCast]
    have : (2 : Rat) ^ (52 : Int) = (2 : Rat) ^ 52 := by norm_cast
    rw [this]; field_simp
  have hy0 : x / pow2 ((a : Int) - (b : Int) - 52) = (N : Rat) * (2 : Rat) ^ b * (2 : Rat) ^ 52 / ((D : Rat) * (2 : Rat) ^ a) := by
    rw [he0, hxe]; field_simp
  have hlo : (2 : Rat) ^ 51 < x / pow2 ((a : Int) - (b : Int) - 52) := by
    rw [hy0, lt_div_iff₀ (by positivity)]
    have : (D : Rat) * (2 : Rat) ^ a < 2 * (2 : Rat) ^ b * N := by
      calc (D : Rat) * (2 : Rat) ^ a < 2 * (2 : Rat) ^ b * (2 : Rat) ^ a := by
            exact mul_lt_mul_of_pos_right hD2 hA
        _ ≤ 2 * (2 : Rat) ^ b * N := by
            exact mul_le_mul_of_nonneg_left hN1 (by positivity)
    nlinarith
  have hhi : x / pow2 ((a : Int) - (b : Int) - 52) < (2 : Rat) ^ 53 := by
    rw [hy0, div_lt_iff₀ (by positivity)]
    have : (N : Rat) * (2 : Rat) ^ b < 2 * (2 : Rat) ^ a * D := by
      calc (N : Rat) * (2 : Rat) ^ b < 2 * (2 : Rat) ^ a * (2 : Rat) ^ b := by
            exact mul_lt_mul_of_pos_right hN2 hB
        _ ≤ 2 * (2 : Rat) ^ a * D := by
            exact mul_le_mul_of_nonneg_left hD1 (by positivity)
    nlinarith
  have hstep : ∀ e : Int, x / pow2 (e - 1) = 2 * (x / pow2 e) := by
    intro e
    rw [pow2_eq_zpow, pow2_eq_zpow, zpow_sub_one₀ (by norm_num)]
    field_simp
  have hc : ((2 ^ 53 : Nat) : Rat) = (2 : Rat) ^ 53 := by norm_cast
  have hc' : ((2 ^ 52 : Nat) : Rat) = (2 : Rat) ^ 52 := by norm_cast
  rw [hc, hc']
  generalize hE : (a : Int) - (b : Int) - 52 = e0 at *
  rw [if_neg (not_le.mpr hhi)]
  split
  · rename_i hlt
    rw [hstep]
    constructor
    · have : (2 : Rat) ^ 52 = 2 * (2 : Rat) ^ 51 := by norm_num
      rw [this]; linarith
    · have : (2 : Rat) ^ 53 = 2 * (2 : Rat) ^ 52 := by norm_num
      rw [this]; linarith
  · rename_i hge
    exact ⟨not_lt.mp hge, hhi⟩

/-- `rne64` on a positive rational: the rounded value is within `a / 2⁵³` of `a`. -/
theorem rne_pos_err (a : Rat) (ha : 0 < a) :
    |((roundHalfEven (a / pow2 (expOf a)) : Int) : Rat) * pow2 (expOf a) - a| ≤ 1 / 2 ^ 53 * a := by
  obtain ⟨hlo, _⟩ := expOf_spec a ha
  have hp := pow2_pos (expOf a)
  generalize pow2 (expOf a) = P at *
  have herr := roundHalfEven_err (a / P)
  generalize ((roundHalfEven (a / P) : Int) : Rat) = m at *
  have e : m * P - a = (m - a / P) * P := by field_simp
  rw [e, abs_mul, abs_of_pos hp]
  have hP : P ≤ a / 2 ^ 52 := by
    rw [le_div_iff₀ (by positivity)]
    have := (le_div_iff₀ hp).mp hlo
    linarith
  calc |m - a / P| * P ≤ 1 / 2 * P := mul_le_mul_of_nonneg_right herr (le_of_lt hp)
    _ ≤ 1 / 2 * (a / 2 ^ 52) := by linarith
    _ = 1 / 2 ^ 53 * a := by ring

theorem rne64_rel (x : Rat) : |rne64 x - x| ≤ 1 / 2 ^ 53 * |x| := by
  unfold rne64
  split
  · rename_i h; subst h; simp
  · rename_i hne
    dsimp only
    by_cases hneg : x < 0
    · simp only [hneg, if_true]
      have ha : 0 < -x := by linarith
      have := rne_pos_err (-x) ha
      rw [abs_of_neg hneg]
      have e : ∀ r : Rat, -r - x = -(r - -x) := by intro r; ring
      rw [e, abs_neg]; exact this
    · simp only [hneg, if_false]
      have ha : 0 < x := lt_of_le_of_ne (not_lt.mp hneg) (Ne.symm hne)
      rw [abs_of_pos ha]; exact rne_pos_err x ha

/-- A positive integer up to 2⁵³ is a fixed point. -/
theorem rne_pos_int (k : Nat) (hk : 0 < k) (hk' : k ≤ 2 ^ 53) :
    ((roundHalfEven ((k : Rat) / pow2 (expOf (k : Rat))) : Int) : Rat) * pow2 (expOf (k : Rat)) = (k : Rat) := by
  have ha : (0 : Rat) < (k : Rat) := by exact_mod_cast hk
  obtain ⟨hlo, hhi⟩ := expOf_spec (k : Rat) ha
  have hp := pow2_pos (expOf (k : Rat))
  generalize hE : expOf (k : Rat) = e at *
  have hkq : (k : Rat) ≤ 2 ^ 53 := by exact_mod_cast hk'
  -- 2^e ≤ 2, so e ≤ 1
  have hPle : pow2 e ≤ 2 := by
    have := (le_div_iff₀ hp).mp hlo
    nlinarith
  have he : e ≤ 1 := by
    rw [pow2_eq_zpow] at hPle
    by_contra hcon
    have h2 : (2 : Int) ≤ e := by omega
    have : (2 : Rat) ^ (2 : Int) ≤ (2 : Rat) ^ e := zpow_le_zpow_right₀ (by norm_num) h2
    norm_num at this
    linarith
  -- the quotient is an integer
  have hint : ∃ z : Int, (k : Rat) / pow2 e = (z : Rat) := by
    rcases (by omega : e ≤ 0 ∨ e = 1) with h0 | h1
    · refine ⟨(k : Int) * 2 ^ (-e).toNat, ?_⟩
      have : e = -((-e).toNat : Int) := by rw [Int.toNat_of_nonneg (by omega)]; ring
      rw [pow2_eq_zpow]
      conv_lhs => rw [this]
      rw [zpow_neg, zpow_natCast]; push_cast; field_simp
    · subst h1
      have hP : pow2 1 = 2 := by rw [pow2_eq_zpow]; norm_num
      rw [hP] at hlo ⊢
      have : (k : Rat) = 2 ^ 53 := by
        apply le_antisymm hkq
        have := (le_div_iff₀ (by norm_num : (0 : Rat) < 2)).mp hlo
        linarith
      refine ⟨2 ^ 52, ?_⟩
      rw [this]; norm_num
  obtain ⟨z, hz⟩ := hint
  rw [hz, roundHalfEven_int, ← hz]
  field_simp

theorem rne64_exactInt (z : Int) (hz : |z| ≤ 2 ^ 53) : rne64 (z : Rat) = (z : Rat) := by
  unfold rne64
  split
  · rename_i h; rw [h]
  · rename_i hne
    dsimp only
    have hz0 : z ≠ 0 := by intro h; apply hne; rw [h]; rfl
    by_cases hneg : (z : Rat) < 0
    · simp only [hneg, if_true]
      have hzn : z < 0 := by exact_mod_cast hneg
      have hcast : -(z : Rat) = ((z.natAbs : Nat) : Rat) := by
        rw [Nat.cast_natAbs, Int.cast_abs, abs_of_neg hneg]
      rw [hcast, rne_pos_int z.natAbs (by omega) (by rw [abs_of_neg hzn] at hz; omega), ← hcast]; ring
    · simp only [hneg, if_false]
      have hzp : 0 < z := by
        have : (0 : Rat) ≤ (z : Rat) := not_lt.mp hneg
        have : 0 ≤ z := by exact_mod_cast this
        omega
      have hcast : (z : Rat) = ((z.natAbs : Nat) : Rat) := by
        rw [Nat.cast_natAbs, Int.cast_abs, abs_of_pos (by exact_mod_cast hzp)]
      rw [hcast, rne_pos_int z.natAbs (by omega) (by rw [abs_of_pos hzp] at hz; omega)]

/-- **The driver's rounding function satisfies the standard model with u = 2⁻⁵³.** -/
theorem StdModel_rne64 : StdModel rne64 (1 / 2 ^ 53) :=
  ⟨by positivity, by norm_num, rne64_rel, rne64_exactInt⟩

/-- **C05 for the function the driver runs and Go is compared against bit-for-bit.** -/
theorem C05_rne64_within_one (n R C T : Int)
    (hn : 1 ≤ n) (hn' : n ≤ 2 ^ 53) (hR : 0 ≤ R) (hR' : R ≤ 2 ^ 53) (hC : 1 ≤ C) (hC' : C ≤ 2 ^ 53)
    (hT : 1 ≤ T) (hT' : T ≤ 2 ^ 53)
    (hbudget : (n : Rat) / T * (8 * (1 / 2 ^ 53) * (100 * ((R : Rat) / C)) + 4 * (1 / 2 ^ 53) * T) < 1) :
    let exact := ((n : Rat) * ((100 * ((R : Rat) / C) - T) / T)).ceil
    exact - 1 ≤ neededFromPct rne64 n (pct1 rne64 R C) T ∧ neededFromPct rne64 n (pct1 rne64 R C) T ≤ exact + 1 :=
  C05_float_within_one rne64 _ StdModel_rne64 n R C T hn hn' hR hR' hC hC' hT hT' hbudget

/-- **C05 in full for the executed float model, inside the region** `(8·N* + 4·n)·s·T·2⁻⁵³ < 1`: the node
    count after the scale-up lies in `[N, N+1]`, `N = ⌈100·R/(s·T)⌉` the minimal sufficient count. -/
theorem C05_rne64_full_in_region (n R s T : Int)
    (hn : 1 ≤ n) (hn' : n ≤ 2 ^ 53) (hR : 0 ≤ R) (hR' : R ≤ 2 ^ 53) (hs : 1 ≤ s) (hC' : n * s ≤ 2 ^ 53)
    (hT : 1 ≤ T) (hT' : T ≤ 2 ^ 53)
    (hgran : (n : Rat) / T * (8 * (1 / 2 ^ 53) * (100 * ((R : Rat) / ((n * s : Int) : Rat))) + 4 * (1 / 2 ^ 53) * T) < 1 / ((s : Rat) * T)) :
    let N := ((100 * R : Int) / ((s * T : Int) : Rat) : Rat).ceil
    N ≤ n + neededFromPct rne64 n (pct1 rne64 R (n * s)) T ∧ n + neededFromPct rne64 n (pct1 rne64 R (n * s)) T ≤ N + 1 :=
  C05_float_full_in_region rne64 _ StdModel_rne64 n R s T hn hn' hR hR' hs hC' hT hT' hgran

/-- Non-vacuity of the region: 20 nodes × 4000 m, threshold 70, 97 000 m requested. -/
example : ((20 : Int) : Rat) / (70 : Int) * (8 * (1 / 2 ^ 53) * (100 * (((97000 : Int) : Rat) / ((20 * 4000 : Int) : Rat))) + 4 * (1 / 2 ^ 53) * (70 : Int)) <
    1 / (((4000 : Int) : Rat) * (70 : Int)) := by norm_num

end Esc.P
