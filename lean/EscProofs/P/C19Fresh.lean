/-
  C19 with the fresh description: membership ("a member of the group") and the minimum a removal must respect are
  those of the cloud's own answer in the same scan.
-/
import EscProofs.P.GenTryDelete
import EscProofs.P.GenAws
import EscProofs.P.Forever
import EscProofs.P.C19
import EscProofs.P.Fresh
namespace Esc.P
open Esc Esc.Spec

/-- **C19 (what "member" and "minimum" refer to).** In a `RunOnce` over groups with pairwise distinct cloud groups,
    for every group scan there is an answer `l` of the cloud to a describe call of this same scan such that, if `l`
    describes the group's cloud group, some `a ∈ l` with that name is what the scan works from: a node is a member
    (`belongs`) iff one of `a`'s instances carries its provider id, and the refusal threshold of `DeleteNodes`
    (`C19_delete`) is `a.desired − a.min`. Nothing is remembered from an earlier scan or an earlier provider object. -/
theorem C19_membership_fresh (rnd : Rat → Rat) (o : Oracle) (k : Nat) (ctl : Ctl) (st : CState) (views : String → View)
    (hints : String → Hints) (nowMock nowReal : Int)
    (hpw : ctl.cfgs.Pairwise (fun a b => a.cloudGroup ≠ b.cloudGroup)) :
    ∃ l : List Asg, ∀ r ∈ (runOnce rnd o k ctl st views hints nowMock nowReal).val.recs,
      (∃ a ∈ l, a.name = r.cfg.cloudGroup) →
      ∃ a ∈ l, a.name = r.cfg.cloudGroup ∧ r.preG.asg = a ∧
        (∀ n : Node, belongs r.preG n = a.instances.any (fun i => providerIdOf i == n.providerID)) := by
  obtain ⟨_, _, l, _, _, hfresh⟩ := runOnce_fresh rnd o k ctl st views hints nowMock nowReal hpw
  refine ⟨l, ?_⟩
  intro r hr hex
  obtain ⟨hm, hn⟩ := hfresh r hr hex
  exact ⟨r.preG.asg, hm, hn, rfl, fun n => rfl⟩

end Esc.P
