/-
  C10 — The no-delete annotation protects a node from removal, not from tainting.
-/
import EscProofs.P.GenReap
import EscProofs.Lemmas.Run
import EscProofs.Lemmas.Classify
namespace Esc.P
open Esc Esc.Spec

/-- **C10, one scan.** Every terminate/delete call is backed by a node that is *not* protected
    (non-empty no-delete annotation and no force taint) — however old its taint and whether or not
    it is empty. -/
theorem C10_protected (rnd : Rat → Rat) (o : Oracle) (k : Nat) (globalDry : Bool) (cfg : GroupCfg) (st0 : GState)
    (g : PGroup) (view : View) (h : Hints) (nowMock nowReal : Int) :
    C10.holds ⟨globalDry, cfg, st0, g, view, nowMock, nowReal⟩
      (scanGroup rnd o k globalDry cfg st0 g view h nowMock nowReal).j = true := by
  unfold C10.holds C10.okEntry
  rw [List.all_eq_true]
  intro e he
  have := scanGroup_entries rnd o k globalDry cfg st0 g view h nowMock nowReal e he
  cases this with
  | metrics n hn b => rfl
  | force hf =>
    refine removalEntry_backed (c := ⟨globalDry, cfg, st0, g, view, nowMock, nowReal⟩) (fun n hn => ?_) hf
    obtain ⟨_, hin, _, hf, _⟩ := forceCands_mem hn
    exact ⟨hin, by simp [protectedNode, hf]⟩
  | reap hf =>
    refine removalEntry_backed (c := ⟨globalDry, cfg, st0, g, view, nowMock, nowReal⟩) (fun n hn => ?_) hf
    obtain ⟨_, hin, _, _, _, hs, _⟩ := reaperCands_mem hn
    exact ⟨hin, by simp [protectedNode, hs]⟩
  | taint hd c hc ha => cases ha <;> rfl
  | up hd hu =>
    cases hu with
    | untaint c hc hh hdl => cases hdl <;> rfl
    | increase hi => exact increase_not_removal hi

/-- **C10, histories**: annotation added, removed or re-added at any time — the statement is per
    scan and holds for whatever the view shows at that scan. -/
theorem C10_history (rnd : Rat → Rat) (ctl : Ctl) (s : Option CState) (es : List Event) :
    ∀ out ∈ runEvents rnd ctl s es, ∀ r ∈ out.recs,
      C10.holds ⟨ctl.globalDry, r.cfg, r.pre, r.preG, r.view, r.nowMock, r.nowReal⟩ r.j = true := by
  intro out ho r hr
  obtain ⟨o, k, h, hj⟩ := runEvents_recs rnd ctl es s out ho r hr
  rw [hj]
  exact C10_protected rnd o k ctl.globalDry r.cfg r.pre r.preG r.view h r.nowMock r.nowReal

/-- An empty annotation value does not protect. -/
theorem C10_empty_value_unprotected (n : Node) (h : n.annotations.lookup noDeleteKey = some "") : protectedNode n = false := by
  simp [protectedNode, safeFromDeletion, h]

/-- The annotation is invisible to classification (so to capacity, taint and untaint candidates). -/
theorem C10_still_counted (dry : Bool) (st : GState) (n : Node) (a : KV) :
    classify dry st { n with annotations := a } = classify dry st n := rfl

/-- … and to the resources the node contributes. -/
theorem C10_capacity_unchanged (pods : List Pod) (c : NodeCap) (n : Node) (a : KV) :
    nodeCapStep pods c { n with annotations := a } = nodeCapStep pods c n := rfl

/-- A protected node does not hold back the others: the reaper's candidate list is computed node by
    node, so it is the concatenation of the candidate lists of any split of the tainted list. -/
theorem C10_no_holdback (dry : Bool) (cfg : GroupCfg) (pods : List Pod) (now : Int) (l1 l2 : List Node) :
    reaperCands dry cfg pods now (l1 ++ l2) = reaperCands dry cfg pods now l1 ++ reaperCands dry cfg pods now l2 := by
  unfold reaperCands
  split <;> simp

end Esc.P
