/-
  C15: success is reported only when the job is done (the implementation-side oracle "success reported, the fetched copy
  needed the write, nothing written" of the `taintops` stream is the negation of these two statements).
-/
import EscProofs.P.C15
namespace Esc.P
open Esc Esc.Spec

/-- **C15 (untaint: success means written).** If `DeleteToBeRemovedTaint` reports success and the copy of the node the API
    server returned carries the escalator taint, then the journal ends with an *accepted* UPDATE of that copy with its
    first escalator taint removed. -/
theorem C15_delete_success_means_written (o : Oracle) (k : Nat) (c u : Node)
    (hget : o k (.getNode c.name) = .node u) (hname : u.name = c.name) (hhas : hasTaint escKey u = true)
    (hok : (deleteTaint o k c).val = true) :
    (deleteTaint o k c).j = [⟨.getNode c.name, true⟩,
      ⟨.updateNode { u with taints := swapRemoveFirst (fun t => t.key == escKey) u.taints }, true⟩] := by
  unfold deleteTaint k8sGet at hok ⊢
  simp only [hget, hname, if_true] at hok ⊢
  simp only [hhas, if_true] at hok ⊢
  unfold doPlain at hok ⊢
  split at hok <;> simp_all

/-- **C15 (taint: success means written).** If `AddToBeRemovedTaint` reports success and the copy of the node the API
    server returned carries no escalator taint, then the journal ends with an *accepted* UPDATE of that copy plus the
    stamped escalator taint. -/
theorem C15_add_success_means_written (o : Oracle) (k : Nat) (nowSec : Int) (effect : String) (c u : Node)
    (hget : o k (.getNode c.name) = .node u) (hname : u.name = c.name) (hno : hasTaint escKey u = false)
    (hok : (addTaint o k nowSec effect c).val = true) :
    (addTaint o k nowSec effect c).j = [⟨.getNode c.name, true⟩,
      ⟨.updateNode { u with taints := u.taints ++ [newEscTaint nowSec effect] }, true⟩] := by
  unfold addTaint k8sGet at hok ⊢
  simp only [hget, hname, if_true] at hok ⊢
  simp only [hno, Bool.false_eq_true, if_false] at hok ⊢
  unfold doPlain at hok ⊢
  split at hok <;> simp_all

/-- Removing the first escalator taint lowers the number of escalator taints by exactly one: an UPDATE whose object carries
    *more* escalator taints than the fetched copy is therefore never a removal (the monitor `C15.restampBad` reads "add" off
    the counts). -/
theorem C15_removal_lowers_count (u : Node) (h : hasTaint escKey u = true) :
    escCount { u with taints := swapRemoveFirst (fun t => t.key == escKey) u.taints } + 1 = escCount u := by
  unfold hasTaint at h
  obtain ⟨i, hi⟩ : ∃ i, u.taints.findIdx? (fun t => t.key == escKey) = some i := by
    cases hf : u.taints.findIdx? (fun t => t.key == escKey) with
    | some i => exact ⟨i, rfl⟩
    | none =>
      rw [List.findIdx?_eq_none_iff] at hf
      obtain ⟨t, ht, hk⟩ := List.any_eq_true.mp h
      have := hf t ht
      simp [hk] at this
  obtain ⟨x, _, hpx, hperm⟩ := swapRemoveFirst_perm (fun t => t.key == escKey) u.taints i hi
  unfold escCount
  have := (hperm.filter (fun t => t.key == escKey)).length_eq
  simp only [List.filter_cons, hpx, if_true, List.length_cons] at this
  show (List.filter (fun t => t.key == escKey) (swapRemoveFirst (fun t => t.key == escKey) u.taints)).length + 1 = _
  omega

/-- **C15, the whole scan (no re-stamp of a node tainted in the view).** Every UPDATE of a group scan either names a node that
    carries *no* escalator taint in this scan's view — the only nodes a taint is ever added to — or is the removal of the first
    escalator taint from the copy just fetched. So no node that the scan sees tainted is given a new stamp in that scan, by
    whatever sequence of writes; together with `C15_removal_lowers_count` this is what `Spec.C15.restampBad` monitors. -/
theorem C15_scan_no_restamp_in_view (rnd : Rat → Rat) (o : Oracle) (k : Nat) (globalDry : Bool) (cfg : GroupCfg) (st0 : GState)
    (g : PGroup) (view : View) (h : Hints) (nowMock nowReal : Int) :
    ∀ e ∈ (scanGroup rnd o k globalDry cfg st0 g view h nowMock nowReal).j, ∀ obj, e.call = .updateNode obj →
      (∃ c ∈ view.nodes, c.name = obj.name ∧ hasTaint escKey c = false) ∨
      (∃ u, u.name = obj.name ∧ hasTaint escKey u = true ∧
        obj = { u with taints := swapRemoveFirst (fun t => t.key == escKey) u.taints }) := by
  intro e he obj hc
  have := scanGroup_entries rnd o k globalDry cfg st0 g view h nowMock nowReal e he
  cases this with
  | metrics n hn b => cases hc
  | force hf => cases hf <;> cases hc
  | reap hf => cases hf <;> cases hc
  | taint hd c hcm ha =>
    cases ha with
    | get b => cases hc
    | upd u b hn hno =>
      injection hc with hc; subst hc
      rw [hd] at hcm
      obtain ⟨hmem, hcl⟩ := nodesOf_mem hcm
      exact Or.inl ⟨c, hmem, hn.symm, (classify_untainted hcl).2.2⟩
  | up hd hu =>
    cases hu with
    | untaint c hcm hh hdl =>
      cases hdl with
      | get b => cases hc
      | upd u b hn hhas =>
        injection hc with hc; subst hc
        exact Or.inr ⟨u, rfl, hhas, rfl⟩
    | increase hi =>
      rw [hc] at hi; simp [isIncreaseCall] at hi

end Esc.P
