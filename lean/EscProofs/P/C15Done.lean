/-
  C15: success is reported only when the job is done (the implementation-side oracle "success reported, the fetched copy
  needed the write, nothing written" of the `taintops` stream is the negation of these two statements).
-/
import EscProofs.P.C15
namespace Esc.P
open Esc Esc.Spec

/-- **C15 (untaint: success means written).** If `DeleteToBeRemovedTaint` reports success and the copy of the node the API
    server returned carries the escalator taint, then the journal ends with an *accepted* UPDATE of that copy with its
    first escalator taint removed. -/
theorem C15_delete_success_means_written (o : Oracle) (k : Nat) (c u : Node)
    (hget : o k (.getNode c.name) = .node u) (hname : u.name = c.name) (hhas : hasTaint escKey u = true)
    (hok : (deleteTaint o k c).val = true) :
    (deleteTaint o k c).j = [⟨.getNode c.name, true⟩,
      ⟨.updateNode { u with taints := swapRemoveFirst (fun t => t.key == escKey) u.taints }, true⟩] := by
  unfold deleteTaint k8sGet at hok ⊢
  simp only [hget, hname, if_true] at hok ⊢
  simp only [hhas, if_true] at hok ⊢
  unfold doPlain at hok ⊢
  split at hok <;> simp_all

/-- **C15 (taint: success means written).** If `AddToBeRemovedTaint` reports success and the copy of the node the API
    server returned carries no escalator taint, then the journal ends with an *accepted* UPDATE of that copy plus the
    stamped escalator taint. -/
theorem C15_add_success_means_written (o : Oracle) (k : Nat) (nowSec : Int) (effect : String) (c u : Node)
    (hget : o k (.getNode c.name) = .node u) (hname : u.name = c.name) (hno : hasTaint escKey u = false)
    (hok : (addTaint o k nowSec effect c).val = true) :
    (addTaint o k nowSec effect c).j = [⟨.getNode c.name, true⟩,
      ⟨.updateNode { u with taints := u.taints ++ [newEscTaint nowSec effect] }, true⟩] := by
  unfold addTaint k8sGet at hok ⊢
  simp only [hget, hname, if_true] at hok ⊢
  simp only [hno, Bool.false_eq_true, if_false] at hok ⊢
  unfold doPlain at hok ⊢
  split at hok <;> simp_all

end Esc.P
