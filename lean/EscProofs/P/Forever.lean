/-
  `Controller.RunForever` (the loop around `RunOnce` that the harness does not drive). `Esc.Gen.runOnceCallSites` and
  `runOnceErrorsReturned` are REGENERATED from pkg/controller/controller.go on every run (extract/mainwiring.go).

  The model's histories (`runEvents`) take a scan that `RunOnce` ends with an error as the end of that controller's
  lifetime: the next event is a restart or nothing. That is the program's behaviour exactly when every call site of
  `c.RunOnce()` in `RunForever` hands a non-nil error straight back (and `main` exits with it). C19's "a not-in-group error
  makes escalator exit rather than continue" and C20's "only the documented not-in-group condition stops the controller /
  the next scan proceeds normally" are read against this.
-/
import Esc.Gen.Forever
namespace Esc.P
open Esc

/-- **RunForever stops on every error of RunOnce.** Every call site of `c.RunOnce()` in `RunForever` is of the form
    `err := c.RunOnce(); if err != nil { …; return err }`, and there is at least one. -/
theorem forever_stops_on_every_error :
    0 < Gen.runOnceCallSites ∧ Gen.runOnceErrorsReturned = Gen.runOnceCallSites := by decide

end Esc.P
