/-
  Tie B for the two "set scale to a minimum of 1" triggers of `scaleNodeGroup` (pkg/controller/controller.go):
  `Esc.Gen.isScaleOnStarve` and `Esc.Gen.scaleOnMaxNodeAge` (Gen/Triggers.lean) are REGENERATED on every run (extract/reap.go,
  genTriggers; the "some untainted node is older than max_node_age" loop is read as an existence test) and proved equal to the
  model's. C06's "the only exceptions are the documented scale_on_starve and max_node_age triggers" rests on them
  (`C06_triggers`, `C06_starve_iff`).
-/
import Esc.Controller
import Esc.Gen.Triggers
namespace Esc.P
open Esc

/-- **Tie B, `isScaleOnStarve`.** -/
theorem gen_isScaleOnStarve_eq (cfg : GroupCfg) (st : GState) (pu : PodUsage) (nc : NodeCap) (untainted : Nat) :
    Gen.isScaleOnStarve cfg.scaleOnStarve
        (pu.largestPendingCPU.cpu == 0 && pu.largestPendingCPU.mem == 0) (pu.largestPendingMem.cpu == 0 && pu.largestPendingMem.mem == 0)
        pu.largestPendingCPU.cpu nc.largestAvailCPU.cpu pu.largestPendingMem.mem nc.largestAvailMem.mem untainted st.maxEff =
      isScaleOnStarve cfg st pu nc untainted := by
  unfold Gen.isScaleOnStarve isScaleOnStarve
  rfl

/-- **Tie B, `scaleOnMaxNodeAge`.** -/
theorem gen_scaleOnMaxNodeAge_eq (cfg : GroupCfg) (st : GState) (nowReal : Int) (untainted tainted : List Node) :
    Gen.scaleOnMaxNodeAge cfg.maxAgeNs untainted.length st.minEff tainted.length
        (untainted.any (fun n => nowReal - n.created * 1000000000 > cfg.maxAgeNs)) =
      scaleOnMaxNodeAge cfg st nowReal untainted tainted := by
  unfold Gen.scaleOnMaxNodeAge scaleOnMaxNodeAge
  generalize (untainted.any fun n => decide (nowReal - n.created * 1000000000 > cfg.maxAgeNs)) = b
  have hz : ((untainted.length : Int) = 0) ↔ untainted.length = 0 := Int.natCast_eq_zero
  have hp : ((tainted.length : Int) > 0) ↔ tainted.length > 0 := Int.natCast_pos
  by_cases h1 : cfg.maxAgeNs ≤ 0
  · simp [h1]
  · by_cases ha : (untainted.length : Int) = st.minEff <;> by_cases hb : untainted.length = 0 <;>
      by_cases hc : tainted.length > 0 <;> cases b <;>
      simp [h1, ha, hb, hc, hz, hp] <;> (intro h0; rw [← ha] at h0; exact hb (hz.mp h0))

/-- **C06 on the source: when the triggers are off, they are off.** Without `scale_on_starve` the starve trigger never fires;
    without a positive `max_node_age`, or away from the minimum, or with a tainted node around, the age trigger never fires. -/
theorem C06_source_triggers_off :
    (∀ a b c d e f g h, Gen.isScaleOnStarve false a b c d e f g h = false) ∧
    (∀ untainted minEff tainted anyOlder maxAge, maxAge ≤ 0 → Gen.scaleOnMaxNodeAge maxAge untainted minEff tainted anyOlder = false) ∧
    (∀ maxAge untainted minEff tainted anyOlder, (untainted ≠ minEff ∨ untainted = 0 ∨ tainted > 0) →
      Gen.scaleOnMaxNodeAge maxAge untainted minEff tainted anyOlder = false) := by
  refine ⟨?_, ?_, ?_⟩
  · intros; simp [Gen.isScaleOnStarve]
  · intro u mn t ao ma h; simp [Gen.scaleOnMaxNodeAge, h]
  · intro ma u mn t ao h
    unfold Gen.scaleOnMaxNodeAge
    by_cases h1 : ma ≤ 0
    · simp [h1]
    · rcases h with h | h | h <;> simp [h1, h]

theorem gen_triggers_translation_complete : Gen.numTriggersUnknown = 0 := by decide

end Esc.P
