/-
  C06, float layer: outside a relative neighbourhood of 2⁻⁴⁰ of a threshold, the side on which the
  *computed* utilisation falls is the side on which the *exact* utilisation lies — for every rounding
  function obeying the standard model with u ≤ 2⁻⁴³ (binary64: u = 2⁻⁵³). Together with `C06_bands`
  (decision as a function of the computed utilisation, for every rounding function) this gives the
  band decision as a function of the exact utilisation.
-/
import EscProofs.P.GenLoopsModel
import EscProofs.P.GenLoops
import EscProofs.P.GenTriggers
import EscProofs.P.GenReap
import EscProofs.P.GenDecide
import EscProofs.P.GenArith
import EscProofs.P.C06Starve
import EscProofs.P.Rne
namespace Esc.P
open Esc Esc.Spec

/-- The computed percentage is within `3u` (relative) of the exact one. -/
theorem pct1_err (rnd : Rat → Rat) (u : Rat) (h : StdModel rnd u) (R C : Int)
    (hR : 0 ≤ R) (hR' : R ≤ 2 ^ 53) (hC : 1 ≤ C) (hC' : C ≤ 2 ^ 53) :
    |pct1 rnd R C - 100 * ((R : Rat) / C)| ≤ 3 * u * (100 * ((R : Rat) / C)) := by
  unfold pct1
  rw [h.exactInt R (by rw [abs_of_nonneg hR]; exact hR'), h.exactInt C (by rw [abs_of_nonneg (by omega)]; exact hC')]
  have hCq : (1 : Rat) ≤ C := by exact_mod_cast hC
  have hRq : (0 : Rat) ≤ R := by exact_mod_cast hR
  have hq0 : (0 : Rat) ≤ (R : Rat) / C := by positivity
  generalize (R : Rat) / C = q0 at hq0 ⊢
  obtain ⟨d1, e1, b1⟩ := rnd_err h q0
  obtain ⟨d2, e2, b2⟩ := rnd_err h (rnd q0 * 100)
  rw [abs_of_nonneg hq0] at b1
  exact err_p u q0 _ _ d1 d2 h.u_nonneg h.u_small hq0 e1 b1 e2 b2

/-- Clearly below the threshold exactly ⇒ below it as computed. -/
theorem below_of_clearlyBelow (rnd : Rat → Rat) (u : Rat) (h : StdModel rnd u) (hu : u ≤ 1 / 2 ^ 43)
    (p U : Rat) (t : Int) (hU : 0 ≤ U) (ht : |t| ≤ 2 ^ 53) (herr : |p - U| ≤ 3 * u * U)
    (hb : clearlyBelow U t = true) : p < rnd (t : Rat) := by
  rw [h.exactInt t ht]
  unfold clearlyBelow at hb
  simp only [decide_eq_true_eq] at hb
  have h1 := (abs_le.mp herr).2
  have h3 : 3 * u * U ≤ (1 / 2 ^ 40 : Rat) * U := by
    apply mul_le_mul_of_nonneg_right _ hU
    calc 3 * u ≤ 3 * (1 / 2 ^ 43) := by linarith
      _ ≤ 1 / 2 ^ 40 := by norm_num
  have hc : ((2 ^ 40 : Nat) : Rat) = 2 ^ 40 := by norm_cast
  rw [hc] at hb
  linarith

/-- Clearly above the threshold exactly ⇒ above it as computed. -/
theorem above_of_clearlyAbove (rnd : Rat → Rat) (u : Rat) (h : StdModel rnd u) (hu : u ≤ 1 / 2 ^ 43)
    (p U : Rat) (t : Int) (hU : 0 ≤ U) (ht0 : 0 ≤ t) (ht : |t| ≤ 2 ^ 53) (herr : |p - U| ≤ 3 * u * U)
    (ha : clearlyAbove U t = true) : p > rnd (t : Rat) := by
  rw [h.exactInt t ht]
  unfold clearlyAbove at ha
  simp only [decide_eq_true_eq] at ha
  have h1 := (abs_le.mp herr).1
  have hc : ((2 ^ 40 : Nat) : Rat) = 2 ^ 40 := by norm_cast
  rw [hc] at ha
  have htq : (0 : Rat) ≤ t := by exact_mod_cast ht0
  have hu0 := h.u_nonneg
  -- p ≥ U(1 − 3u) > t(1 + 2⁻⁴⁰)(1 − 3u) ≥ t
  have h3 : 3 * u ≤ 1 / 2 ^ 41 := by
    calc 3 * u ≤ 3 * (1 / 2 ^ 43) := by linarith
      _ ≤ 1 / 2 ^ 41 := by norm_num
  have hU' : (t : Rat) * (1 + 1 / 2 ^ 40) < U := ha
  have hp : U * (1 - 3 * u) ≤ p := by linarith
  have hpos : (0 : Rat) < 1 - 3 * u := by
    have : (1 : Rat) / 2 ^ 41 < 1 := by norm_num
    linarith
  have hchain : (t : Rat) * (1 + 1 / 2 ^ 40) * (1 - 3 * u) ≤ U * (1 - 3 * u) :=
    mul_le_mul_of_nonneg_right (le_of_lt hU') (le_of_lt hpos)
  have hfac : (1 : Rat) < (1 + 1 / 2 ^ 40) * (1 - 3 * u) := by
    have : (1 + 1 / 2 ^ 40 : Rat) * (1 - 1 / 2 ^ 41) ≤ (1 + 1 / 2 ^ 40) * (1 - 3 * u) := by
      apply mul_le_mul_of_nonneg_left _ (by norm_num)
      linarith
    have h2 : (1 : Rat) < (1 + 1 / 2 ^ 40) * (1 - 1 / 2 ^ 41) := by norm_num
    linarith
  by_cases ht1 : (t : Rat) = 0
  · rw [ht1] at hU' ⊢
    have : 0 < U := by linarith
    nlinarith
  · have htpos : (0 : Rat) < t := lt_of_le_of_ne htq (Ne.symm ht1)
    have : (t : Rat) < (t : Rat) * ((1 + 1 / 2 ^ 40) * (1 - 3 * u)) := by
      have := mul_lt_mul_of_pos_left hfac htpos
      linarith
    calc (t : Rat) < (t : Rat) * ((1 + 1 / 2 ^ 40) * (1 - 3 * u)) := this
      _ = (t : Rat) * (1 + 1 / 2 ^ 40) * (1 - 3 * u) := by ring
      _ ≤ U * (1 - 3 * u) := hchain
      _ ≤ p := hp

/-- Core of the band theorem, on the computed percentages `pc pm` and the exact ones `Uc Um`. -/
theorem bands_core (rnd : Rat → Rat) (u : Rat) (h : StdModel rnd u) (hu : u ≤ 1 / 2 ^ 43)
    (cfg : GroupCfg) (st : GState) (n : Nat) (Rc Rm : Int) (pc pm Uc Um : Rat)
    (hUc : 0 ≤ Uc) (hUm : 0 ≤ Um) (ec : |pc - Uc| ≤ 3 * u * Uc) (em : |pm - Um| ≤ 3 * u * Um)
    (hl : 0 ≤ cfg.lower) (hl' : cfg.lower ≤ 2 ^ 53) (hup : 0 ≤ cfg.upper) (hup' : cfg.upper ≤ 2 ^ 53)
    (hs : 0 ≤ cfg.scaleUp) (hs' : cfg.scaleUp ≤ 2 ^ 53) :
    (clearlyBelow (max Uc Um) cfg.lower = true → bandDelta rnd cfg st (.vals pc pm) n Rc Rm = ⟨-cfg.fast, false⟩) ∧
    (clearlyAbove (max Uc Um) cfg.lower = true → clearlyBelow (max Uc Um) cfg.upper = true →
        bandDelta rnd cfg st (.vals pc pm) n Rc Rm = ⟨-cfg.slow, false⟩) ∧
    (clearlyAbove (max Uc Um) cfg.lower = true → clearlyAbove (max Uc Um) cfg.upper = true → clearlyBelow (max Uc Um) cfg.scaleUp = true →
        bandDelta rnd cfg st (.vals pc pm) n Rc Rm = ⟨0, false⟩) ∧
    (clearlyAbove (max Uc Um) cfg.lower = true → clearlyAbove (max Uc Um) cfg.upper = true → clearlyAbove (max Uc Um) cfg.scaleUp = true →
        (bandDelta rnd cfg st (.vals pc pm) n Rc Rm).delta =
          (calcScaleUpDelta rnd n (.vals pc pm) Rc Rm st.cachedCPU st.cachedMem cfg.scaleUp).delta) := by
  -- monotonicity of the two "clearly" predicates in U
  have belowBoth : ∀ t : Int, clearlyBelow (max Uc Um) t = true → clearlyBelow Uc t = true ∧ clearlyBelow Um t = true := by
    intro t hb
    unfold clearlyBelow at hb ⊢
    simp only [decide_eq_true_eq] at hb ⊢
    have hpos : (0 : Rat) < 1 + 1 / ((2 ^ 40 : Nat) : Rat) := by positivity
    have h1 : Uc ≤ max Uc Um := le_max_left _ _
    have h2 : Um ≤ max Uc Um := le_max_right _ _
    constructor
    · exact lt_of_le_of_lt (mul_le_mul_of_nonneg_right h1 (le_of_lt hpos)) hb
    · exact lt_of_le_of_lt (mul_le_mul_of_nonneg_right h2 (le_of_lt hpos)) hb
  have aboveOne : ∀ t : Int, clearlyAbove (max Uc Um) t = true → clearlyAbove Uc t = true ∨ clearlyAbove Um t = true := by
    intro t ha
    unfold clearlyAbove at ha ⊢
    simp only [decide_eq_true_eq] at ha ⊢
    rcases max_cases Uc Um with ⟨hm, _⟩ | ⟨hm, _⟩
    · left; rw [hm] at ha; exact ha
    · right; rw [hm] at ha; exact ha
  have ltT : ∀ t : Int, 0 ≤ t → t ≤ 2 ^ 53 → clearlyBelow (max Uc Um) t = true → max pc pm < rnd (t : Rat) := by
    intro t ht0 ht hb
    obtain ⟨b1, b2⟩ := belowBoth t hb
    have ht' : |t| ≤ 2 ^ 53 := by rw [abs_of_nonneg ht0]; exact ht
    exact max_lt (below_of_clearlyBelow rnd u h hu pc Uc t hUc ht' ec b1) (below_of_clearlyBelow rnd u h hu pm Um t hUm ht' em b2)
  have gtT : ∀ t : Int, 0 ≤ t → t ≤ 2 ^ 53 → clearlyAbove (max Uc Um) t = true → max pc pm > rnd (t : Rat) := by
    intro t ht0 ht ha
    have ht' : |t| ≤ 2 ^ 53 := by rw [abs_of_nonneg ht0]; exact ht
    rcases aboveOne t ha with a | a
    · exact lt_of_lt_of_le (above_of_clearlyAbove rnd u h hu pc Uc t hUc ht0 ht' ec a) (le_max_left _ _)
    · exact lt_of_lt_of_le (above_of_clearlyAbove rnd u h hu pm Um t hUm ht0 ht' em a) (le_max_right _ _)
  obtain ⟨B1, B2, B3, B4⟩ := C06_bands rnd cfg st pc pm n Rc Rm
  refine ⟨?_, ?_, ?_, ?_⟩
  · intro hb
    exact B1 (ltT _ hl hl' hb)
  · intro ha hb
    exact B2 (not_lt.mpr (le_of_lt (gtT _ hl hl' ha))) (ltT _ hup hup' hb)
  · intro ha1 ha2 hb
    exact B3 (not_lt.mpr (le_of_lt (gtT _ hl hl' ha1))) (not_lt.mpr (le_of_lt (gtT _ hup hup' ha2)))
      (not_lt.mpr (le_of_lt (ltT _ hs hs' hb)))
  · intro ha1 ha2 ha3
    exact B4 (not_lt.mpr (le_of_lt (gtT _ hl hl' ha1))) (not_lt.mpr (le_of_lt (gtT _ hup hup' ha2))) (gtT _ hs hs' ha3)

/-- **C06 (bands on the exact utilisation).** With `U = max(100·Rc/Cc, 100·Rm/Cm)` on exact rationals,
    thresholds `0 ≤ lower, upper, scaleUp ≤ 2⁵³`, requests and capacities within `[0, 2⁵³]`, and any
    rounding function obeying the standard model with `u ≤ 2⁻⁴³`: clearly below `lower` the decision is
    `−fast`; clearly between `lower` and `upper` it is `−slow`; clearly between `upper` and `scaleUp` it is
    0; clearly above `scaleUp` it is the scale-up formula. ("Clearly": by a relative margin of 2⁻⁴⁰.) -/
theorem C06_float_bands (rnd : Rat → Rat) (u : Rat) (h : StdModel rnd u) (hu : u ≤ 1 / 2 ^ 43)
    (cfg : GroupCfg) (st : GState) (n : Nat) (Rc Cc Rm Cm : Int)
    (hRc : 0 ≤ Rc) (hRc' : Rc ≤ 2 ^ 53) (hCc : 1 ≤ Cc) (hCc' : Cc ≤ 2 ^ 53)
    (hRm : 0 ≤ Rm) (hRm' : Rm ≤ 2 ^ 53) (hCm : 1 ≤ Cm) (hCm' : Cm ≤ 2 ^ 53)
    (hl : 0 ≤ cfg.lower) (hl' : cfg.lower ≤ 2 ^ 53) (hup : 0 ≤ cfg.upper) (hup' : cfg.upper ≤ 2 ^ 53)
    (hs : 0 ≤ cfg.scaleUp) (hs' : cfg.scaleUp ≤ 2 ^ 53) :
    let U : Rat := max (100 * ((Rc : Rat) / Cc)) (100 * ((Rm : Rat) / Cm))
    let p := Pct.vals (pct1 rnd Rc Cc) (pct1 rnd Rm Cm)
    (clearlyBelow U cfg.lower = true → bandDelta rnd cfg st p n Rc Rm = ⟨-cfg.fast, false⟩) ∧
    (clearlyAbove U cfg.lower = true → clearlyBelow U cfg.upper = true → bandDelta rnd cfg st p n Rc Rm = ⟨-cfg.slow, false⟩) ∧
    (clearlyAbove U cfg.lower = true → clearlyAbove U cfg.upper = true → clearlyBelow U cfg.scaleUp = true →
        bandDelta rnd cfg st p n Rc Rm = ⟨0, false⟩) ∧
    (clearlyAbove U cfg.lower = true → clearlyAbove U cfg.upper = true → clearlyAbove U cfg.scaleUp = true →
        (bandDelta rnd cfg st p n Rc Rm).delta = (calcScaleUpDelta rnd n p Rc Rm st.cachedCPU st.cachedMem cfg.scaleUp).delta) := by
  have hCcq : (1 : Rat) ≤ Cc := by exact_mod_cast hCc
  have hCmq : (1 : Rat) ≤ Cm := by exact_mod_cast hCm
  have hRcq : (0 : Rat) ≤ Rc := by exact_mod_cast hRc
  have hRmq : (0 : Rat) ≤ Rm := by exact_mod_cast hRm
  exact bands_core rnd u h hu cfg st n Rc Rm _ _ _ _ (by positivity) (by positivity)
    (pct1_err rnd u h Rc Cc hRc hRc' hCc hCc') (pct1_err rnd u h Rm Cm hRm hRm' hCm hCm') hl hl' hup hup' hs hs'

/-- The same for the rounding function the driver executes (u = 2⁻⁵³ ≤ 2⁻⁴³). -/
theorem C06_rne64_bands (cfg : GroupCfg) (st : GState) (n : Nat) (Rc Cc Rm Cm : Int)
    (hRc : 0 ≤ Rc) (hRc' : Rc ≤ 2 ^ 53) (hCc : 1 ≤ Cc) (hCc' : Cc ≤ 2 ^ 53)
    (hRm : 0 ≤ Rm) (hRm' : Rm ≤ 2 ^ 53) (hCm : 1 ≤ Cm) (hCm' : Cm ≤ 2 ^ 53)
    (hl : 0 ≤ cfg.lower) (hl' : cfg.lower ≤ 2 ^ 53) (hup : 0 ≤ cfg.upper) (hup' : cfg.upper ≤ 2 ^ 53)
    (hs : 0 ≤ cfg.scaleUp) (hs' : cfg.scaleUp ≤ 2 ^ 53) :
    let U : Rat := max (100 * ((Rc : Rat) / Cc)) (100 * ((Rm : Rat) / Cm))
    let p := Pct.vals (pct1 rne64 Rc Cc) (pct1 rne64 Rm Cm)
    (clearlyBelow U cfg.lower = true → bandDelta rne64 cfg st p n Rc Rm = ⟨-cfg.fast, false⟩) ∧
    (clearlyAbove U cfg.lower = true → clearlyBelow U cfg.upper = true → bandDelta rne64 cfg st p n Rc Rm = ⟨-cfg.slow, false⟩) ∧
    (clearlyAbove U cfg.lower = true → clearlyAbove U cfg.upper = true → clearlyBelow U cfg.scaleUp = true →
        bandDelta rne64 cfg st p n Rc Rm = ⟨0, false⟩) ∧
    (clearlyAbove U cfg.lower = true → clearlyAbove U cfg.upper = true → clearlyAbove U cfg.scaleUp = true →
        (bandDelta rne64 cfg st p n Rc Rm).delta = (calcScaleUpDelta rne64 n p Rc Rm st.cachedCPU st.cachedMem cfg.scaleUp).delta) :=
  C06_float_bands rne64 _ StdModel_rne64 (by norm_num) cfg st n Rc Cc Rm Cm hRc hRc' hCc hCc' hRm hRm' hCm hCm' hl hl' hup hup' hs hs'

/-- **C06 (the decision handed to the acting half of the scan, by exact band).** With both triggers off,
    for the executed rounding function: the decision `scanDecide` computes — band decision on the computed
    percentages, then the triggers — is `−fast`, `−slow` or `0` according to the band in which the exact
    utilisation of the group clearly lies. (This is what the `decisionBad` monitor checks on observed scans,
    in every mode including dry mode.) -/
theorem C06_decision_exact (cfg : GroupCfg) (st : GState) (pu : PodUsage) (nc : NodeCap) (nowReal : Int)
    (untainted tainted : List Node) (Rc Cc Rm Cm : Int)
    (hRc : 0 ≤ Rc) (hRc' : Rc ≤ 2 ^ 53) (hCc : 1 ≤ Cc) (hCc' : Cc ≤ 2 ^ 53)
    (hRm : 0 ≤ Rm) (hRm' : Rm ≤ 2 ^ 53) (hCm : 1 ≤ Cm) (hCm' : Cm ≤ 2 ^ 53)
    (hl : 0 ≤ cfg.lower) (hl' : cfg.lower ≤ 2 ^ 53) (hup : 0 ≤ cfg.upper) (hup' : cfg.upper ≤ 2 ^ 53)
    (hs : 0 ≤ cfg.scaleUp) (hs' : cfg.scaleUp ≤ 2 ^ 53)
    (hstarve : cfg.scaleOnStarve = false) (hage : cfg.maxAgeNs ≤ 0) :
    let U : Rat := max (100 * ((Rc : Rat) / Cc)) (100 * ((Rm : Rat) / Cm))
    let d := applyTriggers cfg st pu nc nowReal untainted tainted
      (bandDelta rne64 cfg st (calcPercent rne64 Rc Rm Cc Cm untainted.length) untainted.length Rc Rm).delta
    (clearlyBelow U cfg.lower = true → d = -cfg.fast) ∧
    (clearlyAbove U cfg.lower = true → clearlyBelow U cfg.upper = true → d = -cfg.slow) ∧
    (clearlyAbove U cfg.lower = true → clearlyAbove U cfg.upper = true → clearlyBelow U cfg.scaleUp = true → d = 0) := by
  intro U d
  have hoff := C06_triggers_off cfg st pu nc nowReal untainted tainted hstarve hage
  have htr := (C06_triggers cfg st pu nc nowReal untainted tainted
    (bandDelta rne64 cfg st (calcPercent rne64 Rc Rm Cc Cm untainted.length) untainted.length Rc Rm).delta).2.2 hoff.1 hoff.2
  have hpct : calcPercent rne64 Rc Rm Cc Cm untainted.length = .vals (pct1 rne64 Rc Cc) (pct1 rne64 Rm Cm) := by
    unfold calcPercent
    have h1 : Cc ≠ 0 := by omega
    have h2 : Cm ≠ 0 := by omega
    simp [h1, h2]
  obtain ⟨B1, B2, B3, _⟩ := C06_rne64_bands cfg st untainted.length Rc Cc Rm Cm hRc hRc' hCc hCc' hRm hRm' hCm hCm' hl hl' hup hup' hs hs'
  simp only [d, htr, hpct]
  refine ⟨?_, ?_, ?_⟩
  · intro h; rw [B1 h]
  · intro h1 h2; rw [B2 h1 h2]
  · intro h1 h2 h3; rw [B3 h1 h2 h3]

end Esc.P
