/-
  C14 — Pods and nodes are attributed to node groups exactly as documented.
-/
import EscProofs.P.GenFilters
import Esc.Spec
namespace Esc.P
open Esc

/-- The required node-affinity terms of a pod: none unless affinity, node affinity and the required
    selector are all present (`unwrapNodeSelectorTerms`). -/
theorem C14_required_terms (p : Pod) (t : List MatchExpr) :
    t ∈ requiredTerms p ↔ ∃ a, p.affinity = some a ∧ a.hasNodeAffinity = true ∧ ∃ ts, a.required = some ts ∧ t ∈ ts := by
  unfold requiredTerms
  cases p.affinity with
  | none => simp
  | some a =>
    cases hna : a.hasNodeAffinity <;> cases hr : a.required <;> simp [hna, hr]

/-- **C14 (pods of a labelled group).** A pod counts toward the group with label `key = value` iff
    it is not DaemonSet-owned and either its nodeSelector maps `key` to `value`, or one of its
    required node-affinity match expressions on `key` uses operator `In` and lists `value`. -/
theorem C14_pod (key value : String) (p : Pod) :
    podAffinityFilter key value p = true ↔
      isDaemonSet p = false ∧
      (p.nodeSelector.lookup key = some value ∨
       ∃ term ∈ requiredTerms p, ∃ e ∈ term, e.key = key ∧ e.op = "In" ∧ value ∈ e.values) := by
  unfold podAffinityFilter
  cases hds : isDaemonSet p with
  | true => simp
  | false =>
    simp only [Bool.false_eq_true, if_false, true_and]
    by_cases hsel : p.nodeSelector.lookup key = some value
    · simp [hsel]
    · have hsel' : (p.nodeSelector.lookup key == some value) = false := by simpa using hsel
      simp only [hsel', Bool.false_eq_true, if_false, hsel, false_or, List.any_eq_true, Bool.and_eq_true, beq_iff_eq]
      constructor
      · rintro ⟨term, hterm, e, he, ⟨⟨hk, hop⟩, v, hv, hveq⟩⟩
        exact ⟨term, hterm, e, he, hk, hop, hveq ▸ hv⟩
      · rintro ⟨term, hterm, e, he, hk, hop, hv⟩
        exact ⟨term, hterm, e, he, ⟨⟨hk, hop⟩, value, hv, rfl⟩⟩

/-- **C14 (pods of the group named `default`).** A pod counts iff it is neither DaemonSet-owned nor a
    static pod and has no nodeSelector and no affinity rules of any of the three kinds. -/
theorem C14_default (p : Pod) :
    podDefaultFilter p = true ↔
      isDaemonSet p = false ∧ isStatic p = false ∧ p.nodeSelector = [] ∧
      (p.affinity = none ∨ ∃ a, p.affinity = some a ∧ a.hasNodeAffinity = false ∧ a.hasPodAffinity = false ∧ a.hasPodAntiAffinity = false) := by
  unfold podDefaultFilter
  cases hds : isDaemonSet p <;> cases hst : isStatic p <;> simp only [Bool.false_eq_true, if_false, if_true, true_and, false_and, reduceCtorEq]
  · cases ha : p.affinity with
    | none => simp [List.isEmpty_iff]
    | some a => simp [List.isEmpty_iff, and_assoc]
  all_goals simp

/-- Static pods are those whose `kubernetes.io/config.source` annotation is `file`. -/
theorem C14_static (p : Pod) : isStatic p = true ↔ p.annotations.lookup "kubernetes.io/config.source" = some "file" := by
  unfold isStatic; simp

/-- **C14 (nodes).** A node belongs to a group iff its labels map the key to exactly the value. -/
theorem C14_node (key value : String) (n : Node) : nodeLabelFilter key value n = true ↔ n.labels.lookup key = some value := by
  unfold nodeLabelFilter; simp

/-- The view of a group is exactly the filtered cluster lists (the group named by
    `Gen.defaultNodeGroup` uses the default pod filter; node attribution is the same for all). -/
theorem C14_view (c : GroupCfg) (pods : List Pod) (nodes : List Node) (p : Pod) (n : Node) :
    (p ∈ (viewOf c pods nodes).pods ↔ p ∈ pods ∧
        (if c.name = Gen.defaultNodeGroup then podDefaultFilter p = true else podAffinityFilter c.labelKey c.labelValue p = true)) ∧
    (n ∈ (viewOf c pods nodes).nodes ↔ n ∈ nodes ∧ nodeLabelFilter c.labelKey c.labelValue n = true) := by
  unfold viewOf
  constructor
  · split <;> simp [List.mem_filter]
  · simp [List.mem_filter]

/-- Non-vacuity: a pod selected through an `In` expression whose selector points elsewhere. -/
example :
    podAffinityFilter "grp" "v"
      { name := "p", nodeName := "", nodeSelector := [("grp", "w")],
        affinity := some ⟨true, some [[⟨"grp", "In", ["x", "v"]⟩]], false, false⟩, ownerKinds := ["ReplicaSet"], annotations := [],
        containers := [], initContainers := [], overhead := ⟨0, 0⟩, phase := "Running", scheduled := none } = true := by decide

end Esc.P
