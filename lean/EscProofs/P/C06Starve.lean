/-
  C06, scale_on_starve: the trigger the code computes from its "largest pending" / "largest available"
  digests is exactly the documented condition — some pending pod asks, in CPU or in memory, for more
  than any untainted node has left.
-/
import EscProofs.P.C06
namespace Esc.P
open Esc Esc.Spec

/-- What the fold over pods leaves in the two "largest pending" records (leading components). -/
structure PendSpec (pods : List Pod) (lc lm : Int) : Prop where
  c0 : 0 ≤ lc
  m0 : 0 ≤ lm
  cub : ∀ p ∈ pods, p.phase = "Pending" → (podRequest p).cpu ≤ lc
  mub : ∀ p ∈ pods, p.phase = "Pending" → (podRequest p).mem ≤ lm
  cwit : lc = 0 ∨ ∃ p ∈ pods, p.phase = "Pending" ∧ (podRequest p).cpu = lc
  mwit : lm = 0 ∨ ∃ p ∈ pods, p.phase = "Pending" ∧ (podRequest p).mem = lm

theorem podsUsage_fold_spec (ps : List Pod) :
    ∀ (done : List Pod) (u : PodUsage), PendSpec done u.largestPendingCPU.cpu u.largestPendingMem.mem →
      PendSpec (done ++ ps) (ps.foldl podUsageStep u).largestPendingCPU.cpu (ps.foldl podUsageStep u).largestPendingMem.mem := by
  induction ps with
  | nil => intro done u h; simpa using h
  | cons p ps ih =>
    intro done u h
    simp only [List.foldl_cons]
    have := ih (done ++ [p]) (podUsageStep u p) ?_
    · simpa using this
    · unfold podUsageStep
      dsimp only
      by_cases hp : p.phase = "Pending"
      · simp only [hp, if_true]
        constructor
        · split <;> first | exact h.c0 | (have := h.c0; omega)
        · split <;> first | exact h.m0 | (have := h.m0; omega)
        · intro q hq hqp
          rcases List.mem_append.mp hq with hq | hq
          · have := h.cub q hq hqp; split <;> omega
          · have : q = p := by simpa using hq
            subst this; split <;> omega
        · intro q hq hqp
          rcases List.mem_append.mp hq with hq | hq
          · have := h.mub q hq hqp; split <;> omega
          · have : q = p := by simpa using hq
            subst this; split <;> omega
        · split
          · right; exact ⟨p, by simp, hp, rfl⟩
          · rcases h.cwit with h0 | ⟨q, hq, hqp, he⟩
            · left; exact h0
            · right; exact ⟨q, List.mem_append_left _ hq, hqp, he⟩
        · split
          · right; exact ⟨p, by simp, hp, rfl⟩
          · rcases h.mwit with h0 | ⟨q, hq, hqp, he⟩
            · left; exact h0
            · right; exact ⟨q, List.mem_append_left _ hq, hqp, he⟩
      · simp only [hp, if_false]
        constructor
        · exact h.c0
        · exact h.m0
        · intro q hq hqp
          rcases List.mem_append.mp hq with hq | hq
          · exact h.cub q hq hqp
          · have : q = p := by simpa using hq
            subst this; exact absurd hqp hp
        · intro q hq hqp
          rcases List.mem_append.mp hq with hq | hq
          · exact h.mub q hq hqp
          · have : q = p := by simpa using hq
            subst this; exact absurd hqp hp
        · rcases h.cwit with h0 | ⟨q, hq, hqp, he⟩
          · left; exact h0
          · right; exact ⟨q, List.mem_append_left _ hq, hqp, he⟩
        · rcases h.mwit with h0 | ⟨q, hq, hqp, he⟩
          · left; exact h0
          · right; exact ⟨q, List.mem_append_left _ hq, hqp, he⟩

theorem podsUsage_spec (pods : List Pod) :
    PendSpec pods (podsUsage pods).largestPendingCPU.cpu (podsUsage pods).largestPendingMem.mem := by
  have := podsUsage_fold_spec pods [] ⟨⟨0,0⟩, ⟨0,0⟩, ⟨0,0⟩⟩
    ⟨by simp, by simp, by simp, by simp, Or.inl rfl, Or.inl rfl⟩
  simpa [podsUsage] using this

/-- What the fold over nodes leaves in the two "largest available" records. -/
structure AvailSpec (pods : List Pod) (nodes : List Node) (ac am : Int) : Prop where
  c0 : 0 ≤ ac
  m0 : 0 ≤ am
  cub : ∀ n ∈ nodes, (nodeAvail pods n).cpu ≤ ac
  mub : ∀ n ∈ nodes, (nodeAvail pods n).mem ≤ am
  cwit : ac = 0 ∨ ∃ n ∈ nodes, (nodeAvail pods n).cpu = ac
  mwit : am = 0 ∨ ∃ n ∈ nodes, (nodeAvail pods n).mem = am

theorem nodesCapacity_fold_spec (pods : List Pod) (ns : List Node) :
    ∀ (done : List Node) (c : NodeCap), AvailSpec pods done c.largestAvailCPU.cpu c.largestAvailMem.mem →
      AvailSpec pods (done ++ ns) (ns.foldl (nodeCapStep pods) c).largestAvailCPU.cpu (ns.foldl (nodeCapStep pods) c).largestAvailMem.mem := by
  induction ns with
  | nil => intro done c h; simpa using h
  | cons n ns ih =>
    intro done c h
    simp only [List.foldl_cons]
    have := ih (done ++ [n]) (nodeCapStep pods c n) ?_
    · simpa using this
    · unfold nodeCapStep
      dsimp only
      constructor
      · split <;> first | exact h.c0 | (have := h.c0; omega)
      · split <;> first | exact h.m0 | (have := h.m0; omega)
      · intro q hq
        rcases List.mem_append.mp hq with hq | hq
        · have := h.cub q hq; split <;> omega
        · have : q = n := by simpa using hq
          subst this; split <;> omega
      · intro q hq
        rcases List.mem_append.mp hq with hq | hq
        · have := h.mub q hq; split <;> omega
        · have : q = n := by simpa using hq
          subst this; split <;> omega
      · split
        · right; exact ⟨n, by simp, rfl⟩
        · rcases h.cwit with h0 | ⟨q, hq, he⟩
          · left; exact h0
          · right; exact ⟨q, List.mem_append_left _ hq, he⟩
      · split
        · right; exact ⟨n, by simp, rfl⟩
        · rcases h.mwit with h0 | ⟨q, hq, he⟩
          · left; exact h0
          · right; exact ⟨q, List.mem_append_left _ hq, he⟩

theorem nodesCapacity_spec (pods : List Pod) (nodes : List Node) :
    AvailSpec pods nodes (nodesCapacity nodes pods).largestAvailCPU.cpu (nodesCapacity nodes pods).largestAvailMem.mem := by
  have := nodesCapacity_fold_spec pods nodes [] ⟨⟨0,0⟩, ⟨0,0⟩, ⟨0,0⟩⟩
    ⟨by simp, by simp, by simp, by simp, Or.inl rfl, Or.inl rfl⟩
  simpa [nodesCapacity] using this

/-- One resource: "largest pending exceeds largest available" says exactly that some pending pod asks
    for more than nothing and more than every node has left. -/
theorem exceeds_iff {α β : Type} (ps : List α) (ns : List β) (req : α → Int) (av : β → Int) (L A : Int)
    (hL0 : 0 ≤ L) (hLub : ∀ p ∈ ps, req p ≤ L) (hLw : L = 0 ∨ ∃ p ∈ ps, req p = L)
    (hA0 : 0 ≤ A) (hAub : ∀ n ∈ ns, av n ≤ A) (hAw : A = 0 ∨ ∃ n ∈ ns, av n = A) :
    L > A ↔ ∃ p ∈ ps, req p > 0 ∧ ∀ n ∈ ns, req p > av n := by
  constructor
  · intro h
    rcases hLw with h0 | ⟨p, hp, he⟩
    · omega
    · exact ⟨p, hp, by omega, fun n hn => by have := hAub n hn; omega⟩
  · rintro ⟨p, hp, hpos, hall⟩
    have := hLub p hp
    rcases hAw with h0 | ⟨n, hn, he⟩
    · omega
    · have := hall n hn; omega

/-- **C06 (scale_on_starve is the documented condition).** For every pod list and untainted node list,
    the trigger computed from the digests equals: option on ∧ some pending pod cannot fit on any
    untainted node in CPU or in memory ∧ fewer untainted nodes than max_nodes. -/
theorem C06_starve_iff (cfg : GroupCfg) (st : GState) (pods : List Pod) (unt : List Node) :
    isScaleOnStarve cfg st (podsUsage pods) (nodesCapacity unt pods) unt.length =
      (cfg.scaleOnStarve && starved pods unt && decide ((unt.length : Int) < st.maxEff)) := by
  have hp := podsUsage_spec pods
  have ha := nodesCapacity_spec pods unt
  -- the two per-resource equivalences, over the pending pods
  have hc := exceeds_iff (pods.filter (fun p => p.phase == "Pending")) unt (fun p => (podRequest p).cpu) (fun n => (nodeAvail pods n).cpu)
    _ _ hp.c0 (by intro p hp'; simp only [List.mem_filter, beq_iff_eq] at hp'; exact hp.cub p hp'.1 hp'.2)
    (by rcases hp.cwit with h | ⟨p, h1, h2, h3⟩
        · exact Or.inl h
        · exact Or.inr ⟨p, by simp [List.mem_filter, h1, h2], h3⟩)
    ha.c0 ha.cub ha.cwit
  have hm := exceeds_iff (pods.filter (fun p => p.phase == "Pending")) unt (fun p => (podRequest p).mem) (fun n => (nodeAvail pods n).mem)
    _ _ hp.m0 (by intro p hp'; simp only [List.mem_filter, beq_iff_eq] at hp'; exact hp.mub p hp'.1 hp'.2)
    (by rcases hp.mwit with h | ⟨p, h1, h2, h3⟩
        · exact Or.inl h
        · exact Or.inr ⟨p, by simp [List.mem_filter, h1, h2], h3⟩)
    ha.m0 ha.mub ha.mwit
  -- the "record is not empty" guards are implied by exceeding a non-negative value
  have gc : (!((podsUsage pods).largestPendingCPU.cpu == 0 && (podsUsage pods).largestPendingCPU.mem == 0) &&
      decide ((podsUsage pods).largestPendingCPU.cpu > (nodesCapacity unt pods).largestAvailCPU.cpu)) =
      decide ((podsUsage pods).largestPendingCPU.cpu > (nodesCapacity unt pods).largestAvailCPU.cpu) := by
    by_cases h : (podsUsage pods).largestPendingCPU.cpu > (nodesCapacity unt pods).largestAvailCPU.cpu
    · have : (podsUsage pods).largestPendingCPU.cpu ≠ 0 := by have := ha.c0; omega
      simp [h, this]
    · simp [h]
  have gm : (!((podsUsage pods).largestPendingMem.cpu == 0 && (podsUsage pods).largestPendingMem.mem == 0) &&
      decide ((podsUsage pods).largestPendingMem.mem > (nodesCapacity unt pods).largestAvailMem.mem)) =
      decide ((podsUsage pods).largestPendingMem.mem > (nodesCapacity unt pods).largestAvailMem.mem) := by
    by_cases h : (podsUsage pods).largestPendingMem.mem > (nodesCapacity unt pods).largestAvailMem.mem
    · have : (podsUsage pods).largestPendingMem.mem ≠ 0 := by have := ha.m0; omega
      simp [h, this]
    · simp [h]
  have hst : starved pods unt =
      (decide ((podsUsage pods).largestPendingCPU.cpu > (nodesCapacity unt pods).largestAvailCPU.cpu) ||
       decide ((podsUsage pods).largestPendingMem.mem > (nodesCapacity unt pods).largestAvailMem.mem)) := by
    rw [Bool.eq_iff_iff]
    unfold starved starvedPod
    simp only [List.any_eq_true, Bool.or_eq_true, Bool.and_eq_true, decide_eq_true_eq, List.all_eq_true]
    rw [hc, hm]
    constructor
    · rintro ⟨p, hp', h | h⟩
      · exact Or.inl ⟨p, hp', h.1, h.2⟩
      · exact Or.inr ⟨p, hp', h.1, h.2⟩
    · rintro (⟨p, hp', h1, h2⟩ | ⟨p, hp', h1, h2⟩)
      · exact ⟨p, hp', Or.inl ⟨h1, h2⟩⟩
      · exact ⟨p, hp', Or.inr ⟨h1, h2⟩⟩
  unfold isScaleOnStarve
  rw [gc, gm, hst]

/-- So: whenever the documented starve condition holds (option on, room below max_nodes), the decision
    after the triggers is a scale-up of at least one node, whatever band the utilisation is in. -/
theorem C06_starve_scales_up (cfg : GroupCfg) (st : GState) (pods : List Pod) (nowReal : Int)
    (unt tainted : List Node) (d : Int)
    (hon : cfg.scaleOnStarve = true) (hs : starved pods unt = true) (hroom : (unt.length : Int) < st.maxEff) :
    1 ≤ applyTriggers cfg st (podsUsage pods) (nodesCapacity unt pods) nowReal unt tainted d := by
  have h := (C06_triggers cfg st (podsUsage pods) (nodesCapacity unt pods) nowReal unt tainted d).2.1
  apply h
  left
  rw [C06_starve_iff, hon, hs]
  simp [hroom]

end Esc.P
