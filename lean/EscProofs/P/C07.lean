/-
  C07 — Tainted nodes are reused before new capacity is bought.
-/
import EscProofs.P.GenLoopsModel
import EscProofs.P.GenLoops
import EscProofs.P.GenScaleUp
import EscProofs.Lemmas.Run
import EscProofs.Lemmas.Loops
import EscProofs.P.C08
import EscProofs.P.C04
namespace Esc.P
open Esc Esc.Spec

/-- **C07 (order).** The untaint loop visits the tainted nodes newest first: any tainted node it did
    not attempt is not strictly newer than any it attempted — for every number and age ordering of
    tainted nodes (ties included), every visiting order among ties, every failing GET/UPDATE. -/
theorem C07_order (o : Oracle) (cs : List Node) (k need : Nat) (tr : List String)
    (hall : ∀ c ∈ cs, hasTaint escKey c = true)
    (hs : cs.Pairwise (fun a b => newestFirst a b = true)) (hnd : (cs.map (·.name)).Nodup) :
    ∀ x ∈ cs, x.name ∉ getNames (untaintLoop o false k cs need tr).j →
      ∀ y ∈ cs, y.name ∈ getNames (untaintLoop o false k cs need tr).j → ¬ y.created < x.created := by
  obtain ⟨m, hm, h1, _⟩ := untaintLoop_spec o cs k need tr hall
  intro x hx hxn y hy hyn
  rw [h1] at hxn hyn
  have hyt : y ∈ cs.take m := by
    obtain ⟨y', hy'm, hy'n⟩ := List.mem_map.mp hyn
    have : y' = y := name_inj hnd (List.mem_of_mem_take hy'm) hy hy'n
    exact this ▸ hy'm
  have hxd : x ∈ cs.drop m := by
    have : x ∈ cs.take m ++ cs.drop m := by rw [List.take_append_drop]; exact hx
    rcases List.mem_append.mp this with h | h
    · exact absurd (List.mem_map_of_mem h) hxn
    · exact h
  have hp : (cs.take m ++ cs.drop m).Pairwise (fun a b => newestFirst a b = true) := by rw [List.take_append_drop]; exact hs
  have := (List.pairwise_append.mp hp).2.2 y hyt x hxd
  simp only [newestFirst, decide_eq_true_eq] at this
  omega

/-- **C07 (count and remainder).** `ScaleUp(want)`, outside dry mode, with every listed tainted node
    carrying the escalator taint: the number it reports untainted is at most `want`; if it goes on to
    the cloud provider then *every* tainted node was attempted (none that could have been untainted
    stays tainted un-tried), and what it asks for is the remainder `want − untainted`, clamped to
    `min(max_nodes, cloud maximum) − desired` and at least 1; a remainder of zero means no request. -/
theorem C07_remainder (o : Oracle) (k : Nat) (cfg : GroupCfg) (st : GState) (g : PGroup)
    (nowReal : Int) (hint : List Nat) (tainted : List Node) (want : Int) (hw : 0 ≤ want)
    (hall : ∀ c ∈ tainted, hasTaint escKey c = true) :
    let u := scaleUpUntaint o k false st hint tainted want
    let add := nodesToAdd (want - u.val.count) g.asg.desired st.maxEff g.asg.max
    (u.val.count : Int) ≤ want ∧
    (okUpdateNames u.j).length ≤ u.val.count ∧
    ((u.val.count : Int) < want → ∀ c ∈ tainted, c.name ∈ getNames u.j) ∧
    ((scaleUp o k false cfg st g nowReal hint tainted want).j = u.j ∨
     ((u.val.count : Int) < want ∧ 0 < add ∧
      (scaleUp o k false cfg st g nowReal hint tainted want).j = u.j ++ (increaseSize o u.k cfg.aws g add).j)) := by
  intro u add
  have hspec : (u.val.count : Int) ≤ want ∧ (okUpdateNames u.j).length ≤ u.val.count ∧
      ((u.val.count : Int) < want → ∀ c ∈ tainted, c.name ∈ getNames u.j) := by
    simp only [u]
    unfold scaleUpUntaint
    split
    · rename_i he
      have : tainted = [] := by simpa using he
      subst this
      simp [okUpdateNames]; exact hw
    · have hall' : ∀ c ∈ orderBy newestFirst hint tainted, hasTaint escKey c = true :=
        fun c hc => hall c ((orderBy_mem _ _ _ _).mp hc)
      obtain ⟨m, hm, h1, _, h3, _, h6, h5⟩ := untaintLoop_spec o (orderBy newestFirst hint tainted) k want.toNat st.taintTracker hall'
      refine ⟨by omega, h6, ?_⟩
      intro hlt c hc
      have hmlen : m = (orderBy newestFirst hint tainted).length := by
        by_cases hml : m < (orderBy newestFirst hint tainted).length
        · have := h5 hml
          omega
        · omega
      rw [h1, hmlen, List.take_length]
      exact List.mem_map_of_mem ((orderBy_mem _ _ _ _).mpr hc)
  refine ⟨hspec.1, hspec.2.1, hspec.2.2, ?_⟩
  simp only [u, add]
  unfold scaleUp; dsimp only
  generalize scaleUpUntaint o k false st hint tainted want = uu
  split
  · rename_i hrest
    split
    · left; rfl
    · rename_i hadd
      simp only [Bool.false_eq_true, if_false]
      right
      refine ⟨by omega, by omega, ?_⟩
      split <;> rfl
  · left; rfl

/-- **C07 (on top of the current desired size).** Every `SetDesiredCapacity` of a group scan asks for
    the group's desired size at that moment — the refreshed value minus the terminations this scan
    already got accepted — plus the amount; a fleet request asks for the amount itself. This is
    `C04_bound`'s walk (`C04.go`) with the exact amounts of `increaseSize_exact`. -/
theorem C07_on_top (o : Oracle) (k : Nat) (cfg : AwsCfg) (g : PGroup) (d : Int) :
    ∀ e ∈ (increaseSize o k cfg g d).j,
      (∀ gid v, e.call = .setDesired gid v → v = g.asg.desired + d) ∧ (∀ r, e.call = .createFleet r → r.total = d ∧ r.minTarget = d) := by
  intro e he
  have := increaseSize_exact o k cfg g d e he
  constructor
  · intro gid v hc; rw [hc] at this; simp only [isIncreaseCallExact, Bool.and_eq_true, beq_iff_eq] at this; exact this.2
  · intro r hc; rw [hc] at this; simp only [isIncreaseCallExact, Bool.and_eq_true, beq_iff_eq] at this; exact ⟨this.1.1, this.1.2⟩

end Esc.P
