/-
  C05 stated on the REGENERATED arithmetic (what extract/arith.go read in pkg/controller/util.go on this run), executed
  with binary64 round-to-nearest-even: composition of Tie B (`GenArith.lean`) with the float layer (`Rne.lean`).
-/
import EscProofs.P.GenArith
import EscProofs.P.Rne
namespace Esc.P
open Esc

/-- **C05 on the source, inside the region.** For a group of `n ≥ 1` untainted nodes of equal size `s` (CPU and memory
    loaded alike: request `R` against capacity `n·s` for both), the functions translated from util.go — `calcPercentUsage`
    followed by `calcScaleUpDelta`, computed in binary64 — report no error and return a delta with
    `N ≤ n + delta ≤ N + 1`, `N = ⌈100·R/(s·T)⌉` the smallest node count that puts the requests at or below the threshold,
    whenever the rounding budget is below the granularity `1/(s·T)` (the region of `C05_rne64_full_in_region`). -/
theorem C05_source_in_region (n R s T cachedCPU cachedMem : Int)
    (hn : 1 ≤ n) (hn' : n ≤ 2 ^ 53) (hR : 0 ≤ R) (hR' : R ≤ 2 ^ 53) (hs : 1 ≤ s) (hC' : n * s ≤ 2 ^ 53)
    (hT : 1 ≤ T) (hT' : T ≤ 2 ^ 53)
    (hgran : (n : Rat) / T * (8 * (1 / 2 ^ 53) * (100 * ((R : Rat) / ((n * s : Int) : Rat))) + 4 * (1 / 2 ^ 53) * T) < 1 / ((s : Rat) * T)) :
    let p := Gen.calcPercentUsage rne64 R R (n * s) (n * s) n
    let d := Gen.calcScaleUpDelta rne64 n p.1 p.2.1 R R cachedCPU cachedMem T
    let N := ((100 * R : Int) / ((s * T : Int) : Rat) : Rat).ceil
    p.2.2 = false ∧ N ≤ n + d.1 ∧ n + d.1 ≤ N + 1 := by
  intro p d N
  have hC : n * s ≠ 0 := by
    have : 1 ≤ n * s := by nlinarith
    omega
  have hp : p = (.fin (pct1 rne64 R (n * s)), .fin (pct1 rne64 R (n * s)), false) := by
    simp only [p, gen_calcPercentUsage_eq, calcPercent]
    have h1 : ¬ (R = 0 ∧ R = 0 ∧ n * s = 0 ∧ n * s = 0 ∧ n = 0) := fun h => hC h.2.2.1
    have h2 : ¬ (n * s = 0 ∨ n * s = 0) := fun h => hC (h.elim id id)
    simp only [if_neg h1, if_neg h2, pctTriple]
  have hd : d.1 = neededFromPct rne64 n (pct1 rne64 R (n * s)) T := by
    simp only [d, hp, gen_calcScaleUpDelta_vals, calcScaleUpDelta, max_self]
  refine ⟨by rw [hp], ?_⟩
  rw [hd]
  exact C05_rne64_full_in_region n R s T hn hn' hR hR' hs hC' hT hT' hgran

end Esc.P
