/-
  C11 — Dry mode performs no writes.
-/
import EscProofs.P.GenReap
import EscProofs.Lemmas.Run
import EscProofs.Lemmas.Classify
namespace Esc.P
open Esc Esc.Spec

/-- **C11, one scan.** With either dry-mode switch on, whatever the state, view, clocks and
    environment, the group scan issues no write of any kind (no Node update/delete, no cloud
    resize, attach or terminate). -/
theorem C11_scan (rnd : Rat → Rat) (o : Oracle) (k : Nat) (globalDry : Bool) (cfg : GroupCfg) (st0 : GState)
    (g : PGroup) (view : View) (h : Hints) (nowMock nowReal : Int) :
    C11.holds ⟨globalDry, cfg, st0, g, view, nowMock, nowReal⟩
      (scanGroup rnd o k globalDry cfg st0 g view h nowMock nowReal).j = true := by
  unfold C11.holds Ctx.dry
  cases hd : (globalDry || cfg.dryMode) with
  | false => simp
  | true =>
    simp only [Bool.not_true, Bool.false_or]
    rw [List.all_eq_true]
    intro e he
    have := scanGroup_entries rnd o k globalDry cfg st0 g view h nowMock nowReal e he
    cases this with
    | metrics n hn b => rfl
    | force hf =>
      rw [hd] at hf
      cases hf with
      | terminate n hn _ _ => simp [forceCands] at hn
      | delete n hn _ => simp [forceCands] at hn
    | reap hf =>
      rw [hd] at hf
      cases hf with
      | terminate n hn _ _ => simp [reaperCands] at hn
      | delete n hn _ => simp [reaperCands] at hn
    | taint hdry _ _ _ => rw [hd] at hdry; cases hdry
    | up hdry _ => rw [hd] at hdry; cases hdry

/-- **C11, histories.** Along every history (scans and restarts), every scan of a group that is in
    dry mode — by the global flag or by its own option — contains no write. -/
theorem C11_history (rnd : Rat → Rat) (ctl : Ctl) (s : Option CState) (es : List Event) :
    ∀ out ∈ runEvents rnd ctl s es, ∀ r ∈ out.recs,
      C11.holds ⟨ctl.globalDry, r.cfg, r.pre, r.preG, r.view, r.nowMock, r.nowReal⟩ r.j = true := by
  intro out ho r hr
  obtain ⟨o, k, h, hj⟩ := runEvents_recs rnd ctl es s out ho r hr
  rw [hj]
  exact C11_scan rnd o k ctl.globalDry r.cfg r.pre r.preG r.view h r.nowMock r.nowReal

/-- Reading of the Boolean predicate: in dry mode every journal entry is a GET or a Describe*. -/
theorem C11_reading (c : Ctx) (j : Journal) (hd : c.dry = true) (h : C11.holds c j = true) :
    ∀ e ∈ j, isWrite e = false := by
  unfold C11.holds at h
  simp only [hd, Bool.not_true, Bool.false_or] at h
  intro e he
  have := List.all_eq_true.mp h e he
  simpa using this

end Esc.P
