/-
  The translated taint loop (`Esc.Gen.taintStep`, run by `runLoop`) against the model's `taintLoop`: for every oracle, candidate
  list and amount, the model's count is what the translated loop computes on the outcomes of the model's own `addTaint` calls.
  (Tie B for the counting skeleton of `taintOldestN`; what each iteration writes is `addTaint`, tied by `C15_source_add` and the
  correspondence.)
-/
import Esc.Controller
import EscProofs.P.GenLoops
namespace Esc.P
open Esc

/-- Outcomes ("the write failed") of `addTaint` on the candidates in order, the oracle index threaded as the model threads it. -/
def taintOutcomes (o : Oracle) (nowSec : Int) (effect : String) : Nat → List Node → List Bool
  | _, [] => []
  | k, c :: cs =>
    let a := addTaint o k nowSec effect c
    (!a.val) :: taintOutcomes o nowSec effect a.k cs

/-- **Tie B, the loop of `taintOldestN` (count).** Outside dry mode the model's `taintLoop` taints exactly as many nodes as the
    translated loop does when fed the outcomes of the model's `addTaint` calls; in dry mode, as many as the translated loop on any
    outcomes of that length. -/
theorem gen_taintLoop_count_eq (o : Oracle) (nowSec : Int) (effect : String) (cs : List Node) :
    ∀ (k need : Nat) (count0 : Int) (tr : List String),
      ((taintLoop o false nowSec effect k cs need tr).val.count : Int) =
        runLoop (fun c e => Gen.taintStep c (count0 + need) false e) count0 (taintOutcomes o nowSec effect k cs) - count0 := by
  induction cs with
  | nil => intro k need count0 tr; simp [taintLoop, taintOutcomes, runLoop]
  | cons c cs ih =>
    intro k need count0 tr
    have sp := taintStep_spec count0 (count0 + need) false (!(addTaint o k nowSec effect c).val)
    by_cases hn : need = 0
    · have hz : (need : Int) = 0 := by omega
      have hstop : (Gen.taintStep count0 (count0 + need) false (!(addTaint o k nowSec effect c).val)).1 = true :=
        sp.1.mpr (by omega)
      simp only [taintLoop, hn, if_true, taintOutcomes, runLoop]
      rw [hn] at hstop
      rw [if_pos hstop]
      simp
    · have hpos : ¬ count0 ≥ count0 + (need : Int) := by omega
      have hgo : (Gen.taintStep count0 (count0 + need) false (!(addTaint o k nowSec effect c).val)).1 = false := by
        cases h : (Gen.taintStep count0 (count0 + need) false (!(addTaint o k nowSec effect c).val)).1
        · rfl
        · exact absurd (sp.1.mp h) hpos
      have hc := sp.2.2 hgo
      simp only [taintLoop, hn, if_false, Bool.false_eq_true, taintOutcomes, runLoop, hgo]
      cases ha : (addTaint o k nowSec effect c).val with
      | true =>
        simp only [ha, if_true, Bool.not_true, Bool.false_or, Bool.not_false] at hc ⊢
        have := ih (addTaint o k nowSec effect c).k (need - 1) (count0 + 1) tr
        have hcast : ((need - 1 : Nat) : Int) = (need : Int) - 1 := by omega
        rw [hcast] at this
        have hn' : count0 + 1 + ((need : Int) - 1) = count0 + need := by omega
        rw [hn'] at this
        rw [hc]
        (try simp only [ha] at this ⊢)
        omega
      | false =>
        simp only [ha, Bool.false_eq_true, if_false, Bool.not_false, Bool.or_self, Bool.not_true] at hc ⊢
        have := ih (addTaint o k nowSec effect c).k need count0 tr
        rw [hc, Int.add_zero]
        (try simp only [ha] at this ⊢)
        omega

/-- Per-candidate facts of the untaint loop outside dry mode: (the listed copy carries the escalator taint, `deleteTaint` reported
    a failure, —), the oracle index threaded as the model threads it (a candidate without the taint makes no call). -/
def untaintOutcomes (o : Oracle) : Nat → List Node → List (Bool × Bool × Bool)
  | _, [] => []
  | k, c :: cs =>
    if hasTaint escKey c then
      let a := deleteTaint o k c
      (true, !a.val, false) :: untaintOutcomes o a.k cs
    else (false, false, false) :: untaintOutcomes o k cs

/-- **Tie B, the loop of `untaintNewestN` (count).** Outside dry mode the model's `untaintLoop` hands back exactly as many nodes
    as the translated loop does when fed the facts of the model's own run. -/
theorem gen_untaintLoop_count_eq (o : Oracle) (cs : List Node) :
    ∀ (k need : Nat) (count0 : Int) (tr : List String),
      ((untaintLoop o false k cs need tr).val.count : Int) =
        runLoop (fun c e => Gen.untaintStep c (count0 + need) false e.1 e.2.1 e.2.2) count0 (untaintOutcomes o k cs) - count0 := by
  induction cs with
  | nil => intro k need count0 tr; simp [untaintLoop, untaintOutcomes, runLoop]
  | cons c cs ih =>
    intro k need count0 tr
    by_cases hn : need = 0
    · have hstop : ∀ a b d, (Gen.untaintStep count0 (count0 + need) false a b d).1 = true := by
        intro a b d; exact (untaintStep_spec count0 (count0 + need) false a b d).1.mpr (by omega)
      rw [hn] at hstop
      by_cases he : hasTaint escKey c = true
      · simp only [untaintLoop, hn, if_true, untaintOutcomes, he, runLoop]
        rw [if_pos (hstop _ _ _)]; simp
      · have he' : hasTaint escKey c = false := by simpa using he
        simp only [untaintLoop, hn, if_true, untaintOutcomes, he', Bool.false_eq_true, if_false, runLoop]
        rw [if_pos (hstop _ _ _)]; simp
    · have hpos : ¬ count0 ≥ count0 + (need : Int) := by omega
      have hgo : ∀ a b d, (Gen.untaintStep count0 (count0 + need) false a b d).1 = false := by
        intro a b d
        cases h : (Gen.untaintStep count0 (count0 + need) false a b d).1
        · rfl
        · exact absurd ((untaintStep_spec count0 (count0 + need) false a b d).1.mp h) hpos
      by_cases he : hasTaint escKey c = true
      · have sp := untaintStep_spec count0 (count0 + need) false true (!(deleteTaint o k c).val) false
        have hc := sp.2.2.1 (hgo _ _ _)
        simp only [untaintLoop, hn, if_false, Bool.false_eq_true, he, if_true, untaintOutcomes, runLoop, hgo]
        cases ha : (deleteTaint o k c).val with
        | true =>
          simp only [ha, if_true, Bool.not_true, Bool.not_false, Bool.and_true, Bool.true_and, Bool.false_and, Bool.or_false] at hc ⊢
          have := ih (deleteTaint o k c).k (need - 1) (count0 + 1) tr
          have hcast : ((need - 1 : Nat) : Int) = (need : Int) - 1 := by omega
          rw [hcast] at this
          have hn' : count0 + 1 + ((need : Int) - 1) = count0 + need := by omega
          rw [hn'] at this
          rw [hc]
          omega
        | false =>
          simp only [ha, Bool.false_eq_true, if_false, Bool.not_false, Bool.not_true, Bool.and_false, Bool.false_and, Bool.or_false] at hc ⊢
          have := ih (deleteTaint o k c).k need count0 tr
          rw [hc, Int.add_zero]
          omega
      · have he' : hasTaint escKey c = false := by simpa using he
        have sp := untaintStep_spec count0 (count0 + need) false false false false
        have hc := sp.2.2.1 (hgo _ _ _)
        simp only [untaintLoop, hn, if_false, Bool.false_eq_true, he', untaintOutcomes, runLoop, hgo]
        simp only [Bool.not_false, Bool.and_false, Bool.false_and, Bool.or_false, Bool.false_eq_true, if_false] at hc
        have := ih k need count0 tr
        rw [hc, Int.add_zero]
        omega

/-- **C07, model and source together (count).** Outside dry mode the model's `untaintLoop` hands back exactly
    `min(need, number of candidates that carry the taint and whose removal succeeds)` — obtained through the translated loop
    (`gen_untaintLoop_count_eq` + `C07_source_untaint_exact`), for every oracle, candidate list and amount. -/
theorem C07_untaintLoop_count_exact (o : Oracle) (cs : List Node) (k need : Nat) (tr : List String) :
    ((untaintLoop o false k cs need tr).val.count : Int) =
      min (need : Int) ((untaintOutcomes o k cs).countP (untaintOk false) : Nat) := by
  have h1 := gen_untaintLoop_count_eq o cs k need 0 tr
  have h2 := C07_source_untaint_exact (0 + need) false (untaintOutcomes o k cs) 0 (by omega)
  rw [h1, h2]; omega

/-- **C03 / C06, model and source together (count).** Outside dry mode the model's `taintLoop` taints exactly
    `min(need, number of candidates whose write succeeds)`. -/
theorem C06_taintLoop_count_exact (o : Oracle) (nowSec : Int) (effect : String) (cs : List Node) (k need : Nat) (tr : List String) :
    ((taintLoop o false nowSec effect k cs need tr).val.count : Int) =
      min (need : Int) ((taintOutcomes o nowSec effect k cs).countP (fun e => false || !e) : Nat) := by
  have h1 := gen_taintLoop_count_eq o nowSec effect cs k need 0 tr
  have h2 := C06_source_taint_exact_failures (0 + need) false (taintOutcomes o nowSec effect k cs) 0 (by omega)
  rw [h1, h2]; omega

/-- The model's dry taint loop counts `min(need, candidates)`. -/
theorem taintLoop_dry_count (o : Oracle) (nowSec : Int) (effect : String) (cs : List Node) :
    ∀ (k need : Nat) (tr : List String),
      ((taintLoop o true nowSec effect k cs need tr).val.count : Int) = min (need : Int) (cs.length : Nat) := by
  induction cs with
  | nil => intro k need tr; simp [taintLoop]; omega
  | cons c cs ih =>
    intro k need tr
    by_cases hn : need = 0
    · simp [taintLoop, hn]; omega
    · have := ih k (need - 1) (tr ++ [c.name])
      simp only [taintLoop, hn, if_false, if_true, List.length_cons]
      omega

/-- **Tie B, the loop of `taintOldestN` in dry mode (count).** The model's dry `taintLoop` counts what the translated loop, run
    with `dry = true`, counts on ANY outcomes, one per candidate (no write is made, so none can fail). -/
theorem gen_taintLoop_count_eq_dry (o : Oracle) (nowSec : Int) (effect : String) (cs : List Node) (k need : Nat) (tr : List String)
    (outcomes : List Bool) (hlen : outcomes.length = cs.length) :
    ((taintLoop o true nowSec effect k cs need tr).val.count : Int) =
      runLoop (fun c e => Gen.taintStep c need true e) 0 outcomes := by
  rw [taintLoop_dry_count, C06_source_taint_exact need true outcomes 0 (by omega) (fun _ _ => Or.inl rfl), hlen]
  omega

/-- Per-candidate facts of the untaint loop in dry mode: (—, —, the tracker holds the node's name), the tracker threaded as the
    model threads it (a hit removes the first occurrence of the name). -/
def untaintOutcomesDry : List String → List Node → List (Bool × Bool × Bool)
  | _, [] => []
  | tr, c :: cs =>
    if tr.contains c.name then (false, false, true) :: untaintOutcomesDry (removeFirst c.name tr) cs
    else (false, false, false) :: untaintOutcomesDry tr cs

/-- **Tie B, the loop of `untaintNewestN` in dry mode (count).** The model's dry `untaintLoop` hands back exactly as many nodes
    as the translated loop run with `dry = true` on the tracker facts of the model's own run. -/
theorem gen_untaintLoop_count_eq_dry (o : Oracle) (cs : List Node) :
    ∀ (k need : Nat) (count0 : Int) (tr : List String),
      ((untaintLoop o true k cs need tr).val.count : Int) =
        runLoop (fun c e => Gen.untaintStep c (count0 + need) true e.1 e.2.1 e.2.2) count0 (untaintOutcomesDry tr cs) - count0 := by
  induction cs with
  | nil => intro k need count0 tr; simp [untaintLoop, untaintOutcomesDry, runLoop]
  | cons c cs ih =>
    intro k need count0 tr
    by_cases hn : need = 0
    · have hstop : ∀ a b d, (Gen.untaintStep count0 (count0 + need) true a b d).1 = true := by
        intro a b d; exact (untaintStep_spec count0 (count0 + need) true a b d).1.mpr (by omega)
      rw [hn] at hstop
      by_cases he : tr.contains c.name = true
      · simp only [untaintLoop, hn, if_true, untaintOutcomesDry, he, runLoop]
        rw [if_pos (hstop _ _ _)]; simp
      · have he' : tr.contains c.name = false := by simpa using he
        simp only [untaintLoop, hn, if_true, untaintOutcomesDry, he', Bool.false_eq_true, if_false, runLoop]
        rw [if_pos (hstop _ _ _)]; simp
    · have hpos : ¬ count0 ≥ count0 + (need : Int) := by omega
      have hgo : ∀ a b d, (Gen.untaintStep count0 (count0 + need) true a b d).1 = false := by
        intro a b d
        cases h : (Gen.untaintStep count0 (count0 + need) true a b d).1
        · rfl
        · exact absurd ((untaintStep_spec count0 (count0 + need) true a b d).1.mp h) hpos
      by_cases he : tr.contains c.name = true
      · have sp := untaintStep_spec count0 (count0 + need) true false false true
        have hc := sp.2.2.1 (hgo _ _ _)
        simp only [untaintLoop, hn, if_false, if_true, he, untaintOutcomesDry, runLoop, hgo, Bool.false_eq_true]
        simp only [Bool.not_true, Bool.false_and, Bool.and_true, Bool.or_true, Bool.true_and, Bool.false_or, if_true] at hc
        have := ih k (need - 1) (count0 + 1) (removeFirst c.name tr)
        have hcast : ((need - 1 : Nat) : Int) = (need : Int) - 1 := by omega
        rw [hcast] at this
        have hn' : count0 + 1 + ((need : Int) - 1) = count0 + need := by omega
        rw [hn'] at this
        rw [hc]
        omega
      · have he' : tr.contains c.name = false := by simpa using he
        have sp := untaintStep_spec count0 (count0 + need) true false false false
        have hc := sp.2.2.1 (hgo _ _ _)
        simp only [untaintLoop, hn, if_false, if_true, he', untaintOutcomesDry, runLoop, hgo, Bool.false_eq_true]
        simp only [Bool.not_true, Bool.false_and, Bool.and_false, Bool.or_false, Bool.false_eq_true, if_false] at hc
        have := ih k need count0 tr
        rw [hc, Int.add_zero]
        omega

/-- **C07 in dry mode, model and source together (count)**: exactly `min(need, candidates the tracker holds at their turn)`. -/
theorem C07_untaintLoop_count_exact_dry (o : Oracle) (cs : List Node) (k need : Nat) (tr : List String) :
    ((untaintLoop o true k cs need tr).val.count : Int) =
      min (need : Int) ((untaintOutcomesDry tr cs).countP (untaintOk true) : Nat) := by
  have h1 := gen_untaintLoop_count_eq_dry o cs k need 0 tr
  have h2 := C07_source_untaint_exact (0 + need) true (untaintOutcomesDry tr cs) 0 (by omega)
  rw [h1, h2]; omega

/-- Non-vacuity: tracker [b, a], candidates a, c, b, two wanted — a and b are handed back, c (never dry-tainted) is walked past. -/
example : (untaintOutcomesDry ["b", "a"] [{ (default : Node) with name := "a" }, { (default : Node) with name := "c" },
    { (default : Node) with name := "b" }]).countP (untaintOk true) = 2 := by decide

/-- **Dry mode writes nothing and remembers exactly what it counted**: the model's dry taint loop issues no call (empty journal,
    oracle index untouched) and appends to the tracker the names of the first `need` candidates, in order — the nodes it counted. -/
theorem taintLoop_dry_tracker (o : Oracle) (nowSec : Int) (effect : String) (cs : List Node) :
    ∀ (k need : Nat) (tr : List String),
      (taintLoop o true nowSec effect k cs need tr).val.tracker = tr ++ (cs.take need).map (·.name) ∧
      (taintLoop o true nowSec effect k cs need tr).j = [] ∧ (taintLoop o true nowSec effect k cs need tr).k = k := by
  induction cs with
  | nil => intro k need tr; simp [taintLoop]
  | cons c cs ih =>
    intro k need tr
    by_cases hn : need = 0
    · simp [taintLoop, hn]
    · obtain ⟨m, rfl⟩ : ∃ m, need = m + 1 := ⟨need - 1, by omega⟩
      have := ih k m (tr ++ [c.name])
      simp only [taintLoop, hn, if_false, if_true, Nat.add_sub_cancel, List.take_succ_cons, List.map_cons]
      refine ⟨?_, this.2.1, this.2.2⟩
      rw [this.1]; simp

/-- **Dry mode writes nothing (untaint)**: the model's dry untaint loop issues no call — empty journal, oracle index untouched —
    for every candidate list, amount and tracker. -/
theorem untaintLoop_dry_quiet (o : Oracle) (cs : List Node) :
    ∀ (k need : Nat) (tr : List String),
      (untaintLoop o true k cs need tr).j = [] ∧ (untaintLoop o true k cs need tr).k = k := by
  induction cs with
  | nil => intro k need tr; simp [untaintLoop]
  | cons c cs ih =>
    intro k need tr
    by_cases hn : need = 0
    · simp [untaintLoop, hn]
    · by_cases he : tr.contains c.name = true
      · simp only [untaintLoop, hn, if_false, if_true, he]
        exact ih k (need - 1) (removeFirst c.name tr)
      · have he' : tr.contains c.name = false := by simpa using he
        simp only [untaintLoop, hn, if_false, if_true, he', Bool.false_eq_true]
        exact ih k need tr

end Esc.P
