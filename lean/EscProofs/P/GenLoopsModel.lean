/-
  The translated taint loop (`Esc.Gen.taintStep`, run by `runLoop`) against the model's `taintLoop`: for every oracle, candidate
  list and amount, the model's count is what the translated loop computes on the outcomes of the model's own `addTaint` calls.
  (Tie B for the counting skeleton of `taintOldestN`; what each iteration writes is `addTaint`, tied by `C15_source_add` and the
  correspondence.)
-/
import Esc.Controller
import EscProofs.P.GenLoops
namespace Esc.P
open Esc

/-- Outcomes ("the write failed") of `addTaint` on the candidates in order, the oracle index threaded as the model threads it. -/
def taintOutcomes (o : Oracle) (nowSec : Int) (effect : String) : Nat → List Node → List Bool
  | _, [] => []
  | k, c :: cs =>
    let a := addTaint o k nowSec effect c
    (!a.val) :: taintOutcomes o nowSec effect a.k cs

/-- **Tie B, the loop of `taintOldestN` (count).** Outside dry mode the model's `taintLoop` taints exactly as many nodes as the
    translated loop does when fed the outcomes of the model's `addTaint` calls; in dry mode, as many as the translated loop on any
    outcomes of that length. -/
theorem gen_taintLoop_count_eq (o : Oracle) (nowSec : Int) (effect : String) (cs : List Node) :
    ∀ (k need : Nat) (count0 : Int) (tr : List String),
      ((taintLoop o false nowSec effect k cs need tr).val.count : Int) =
        runLoop (fun c e => Gen.taintStep c (count0 + need) false e) count0 (taintOutcomes o nowSec effect k cs) - count0 := by
  induction cs with
  | nil => intro k need count0 tr; simp [taintLoop, taintOutcomes, runLoop]
  | cons c cs ih =>
    intro k need count0 tr
    have sp := taintStep_spec count0 (count0 + need) false (!(addTaint o k nowSec effect c).val)
    by_cases hn : need = 0
    · have hz : (need : Int) = 0 := by omega
      have hstop : (Gen.taintStep count0 (count0 + need) false (!(addTaint o k nowSec effect c).val)).1 = true :=
        sp.1.mpr (by omega)
      simp only [taintLoop, hn, if_true, taintOutcomes, runLoop]
      rw [hn] at hstop
      rw [if_pos hstop]
      simp
    · have hpos : ¬ count0 ≥ count0 + (need : Int) := by omega
      have hgo : (Gen.taintStep count0 (count0 + need) false (!(addTaint o k nowSec effect c).val)).1 = false := by
        cases h : (Gen.taintStep count0 (count0 + need) false (!(addTaint o k nowSec effect c).val)).1
        · rfl
        · exact absurd (sp.1.mp h) hpos
      have hc := sp.2.2 hgo
      simp only [taintLoop, hn, if_false, Bool.false_eq_true, taintOutcomes, runLoop, hgo]
      cases ha : (addTaint o k nowSec effect c).val with
      | true =>
        simp only [ha, if_true, Bool.not_true, Bool.false_or, Bool.not_false] at hc ⊢
        have := ih (addTaint o k nowSec effect c).k (need - 1) (count0 + 1) tr
        have hcast : ((need - 1 : Nat) : Int) = (need : Int) - 1 := by omega
        rw [hcast] at this
        have hn' : count0 + 1 + ((need : Int) - 1) = count0 + need := by omega
        rw [hn'] at this
        rw [hc]
        (try simp only [ha] at this ⊢)
        omega
      | false =>
        simp only [ha, Bool.false_eq_true, if_false, Bool.not_false, Bool.or_self, Bool.not_true] at hc ⊢
        have := ih (addTaint o k nowSec effect c).k need count0 tr
        rw [hc, Int.add_zero]
        (try simp only [ha] at this ⊢)
        omega

end Esc.P
