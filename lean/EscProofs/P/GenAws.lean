/-
  Tie B for the decision heads of `aws.NodeGroup.IncreaseSize` and `DeleteNodes` (pkg/cloudprovider/aws/aws.go):
  `Esc.Gen.increaseSize` / `deleteGuard` (Gen/AwsGuards.lean) are REGENERATED on every run (extract/reap.go, genAwsGuards) and
  proved to drive the model's `increaseSize` / `awsDeleteNodes`; the C17 and C19 clauses they decide are restated on them.
-/
import Esc.Aws
import Esc.Gen.AwsGuards
namespace Esc.P
open Esc

/-- **Tie B, `IncreaseSize`.** The model's `increaseSize` is the translated dispatch: reject without any call, the one-shot
    fleet path with exactly `delta`, or one `SetDesiredCapacity` of exactly the value the source computes. -/
theorem gen_increaseSize_eq (o : Oracle) (k : Nat) (cfg : AwsCfg) (g : PGroup) (delta : Int) :
    increaseSize o k cfg g delta =
      (match Gen.increaseSize delta g.asg.desired g.asg.max (decide (cfg.launchTemplateID ≠ "")) with
       | (1, d) => oneShot o k cfg g d
       | (2, v) =>
         let s := doPlain o k (.setDesired g.id v)
         ⟨⟨if s.val then .none else .failed, g⟩, s.j, s.k⟩
       | _ => ⟨⟨.rejected, g⟩, [], k⟩) := by
  unfold increaseSize Gen.increaseSize
  by_cases h1 : delta ≤ 0
  · simp [h1]
  · by_cases h2 : g.asg.desired + delta > g.asg.max
    · simp [h1, h2]
    · by_cases h3 : cfg.launchTemplateID = "" <;> simp [h1, h2, h3]

/-- **C17 on the source.** A non-positive delta, or one that would take the desired size above the ASG maximum, is rejected
    before any AWS call; every other delta is either handed to the fleet path unchanged or turned into one request for exactly
    `current + delta` — which is above `current`, so a scale-up never lowers the desired capacity. -/
theorem C17_source_dispatch (delta target max : Int) (oneShot : Bool) :
    let r := Gen.increaseSize delta target max oneShot
    (r = (0, 0) ↔ (delta ≤ 0 ∨ target + delta > max)) ∧
    (r.1 = 1 → r.2 = delta ∧ 0 < delta ∧ target + delta ≤ max) ∧
    (r.1 = 2 → r.2 = target + delta ∧ target < r.2 ∧ r.2 ≤ max) := by
  intro r
  simp only [r, Gen.increaseSize]
  by_cases h1 : delta ≤ 0
  · simp [h1]
  · by_cases h2 : target + delta > max
    · simp [h1, h2]
    · cases oneShot <;> simp [h1, h2] <;> omega

/-- **Tie B, `DeleteNodes`.** The model's `awsDeleteNodes` refuses exactly when the translated guards do, and otherwise runs
    the termination loop. -/
theorem gen_deleteGuard_eq (o : Oracle) (k : Nat) (g : PGroup) (nodes : List Node) :
    awsDeleteNodes o k g nodes =
      (if Gen.deleteGuard g.asg.desired g.asg.min nodes.length = (0, 0) then ⟨⟨.refused, g⟩, [], k⟩ else terminateLoop o k g nodes) := by
  unfold awsDeleteNodes Gen.deleteGuard
  by_cases h1 : g.asg.desired ≤ g.asg.min
  · simp [h1]
  · by_cases h2 : g.asg.desired - (nodes.length : Int) < g.asg.min <;> simp [h1, h2]

/-- **C19 on the source.** The whole request is refused — before any termination — exactly when it would take the desired
    size below the ASG minimum (or the group is at its minimum already); a request that passes removes at most
    `desired − min` nodes. -/
theorem C19_source_guard (target min count : Int) (hc : 0 ≤ count) :
    (Gen.deleteGuard target min count = (0, 0) ↔ (target ≤ min ∨ target - count < min)) ∧
    (Gen.deleteGuard target min count ≠ (0, 0) → count ≤ target - min) := by
  simp only [Gen.deleteGuard]
  by_cases h1 : target ≤ min
  · simp [h1]
  · by_cases h2 : target - count < min
    · simp [h1, h2]
    · simp [h1, h2]; omega

theorem gen_aws_translation_complete : Gen.numAwsUnknown = 0 := by decide

end Esc.P
