/-
  Tie B for the three attribution filters of pkg/controller/node_group.go (`Esc.Gen.podDefaultFilter`, `nodeLabelFilter`,
  `podAffinityFilter`; Gen/Filters.lean, regenerated on every run by extract/reap.go, genFilters). The default-group filter and
  the node-label filter are translated in full; of the affinity filter the skeleton is (DaemonSet → out; nodeSelector hit → in;
  otherwise the loop over the required node-affinity terms decides), the loop itself being recognised by its text: it is, word for
  word, the loop of the pinned tree (what that loop computes is the model's `podAffinityFilter`, tied by the exhaustive `filters`
  stream). C14's three rules restated on the translations.
-/
import Esc.K8s
import Esc.Gen.Filters
namespace Esc.P
open Esc

/-- **Tie B, `NewPodDefaultFilterFunc`.** -/
theorem gen_podDefaultFilter_eq (p : Pod) :
    Gen.podDefaultFilter (isDaemonSet p) (isStatic p) p.nodeSelector.length (p.affinity.isNone)
        ((p.affinity.map (fun a => !a.hasNodeAffinity)).getD true) ((p.affinity.map (fun a => !a.hasPodAffinity)).getD true)
        ((p.affinity.map (fun a => !a.hasPodAntiAffinity)).getD true) = podDefaultFilter p := by
  unfold Gen.podDefaultFilter podDefaultFilter
  cases isDaemonSet p <;> cases isStatic p <;> cases hs : p.nodeSelector <;> cases ha : p.affinity <;> simp [List.isEmpty] <;> omega

/-- **C14 on the source, the `default` group.** A pod counts iff it is neither DaemonSet-owned nor static, has no nodeSelector
    and no affinity rules. -/
theorem C14_source_default (daemon static : Bool) (selectorLen : Int) (affNil nodeAffNil podAffNil antiAffNil : Bool) :
    Gen.podDefaultFilter daemon static selectorLen affNil nodeAffNil podAffNil antiAffNil = true ↔
      (daemon = false ∧ static = false ∧ selectorLen = 0 ∧ (affNil = true ∨ (nodeAffNil = true ∧ podAffNil = true ∧ antiAffNil = true))) := by
  unfold Gen.podDefaultFilter
  cases daemon <;> cases static <;> cases affNil <;> cases nodeAffNil <;> cases podAffNil <;> cases antiAffNil <;>
    by_cases h : selectorLen = 0 <;> simp [h]

/-- **Tie B, `NewNodeLabelFilterFunc`** / **C14 on the source, nodes**: a node belongs iff its labels map the key to exactly the value. -/
theorem gen_nodeLabelFilter_eq (key value : String) (n : Node) :
    Gen.nodeLabelFilter (n.labels.lookup key).isSome (n.labels.lookup key == some value) = nodeLabelFilter key value n := by
  unfold Gen.nodeLabelFilter nodeLabelFilter
  cases h : n.labels.lookup key <;> simp
  rename_i v; by_cases hv : v = value <;> simp [hv]

/-- **Tie B, the skeleton of `NewPodAffinityFilterFunc`**, with `affinityIn` the model's reading of the loop. -/
theorem gen_podAffinityFilter_eq (key value : String) (p : Pod) :
    Gen.podAffinityFilter (isDaemonSet p) (p.nodeSelector.lookup key).isSome (p.nodeSelector.lookup key == some value)
        ((requiredTerms p).any (fun term => term.any (fun e => e.key == key && e.op == "In" && e.values.any (· == value)))) =
      podAffinityFilter key value p := by
  unfold Gen.podAffinityFilter podAffinityFilter
  cases isDaemonSet p <;> cases h : p.nodeSelector.lookup key <;>
    cases (requiredTerms p).any (fun term => term.any (fun e => e.key == key && e.op == "In" && e.values.any (· == value))) <;> simp
  all_goals (rename_i v; by_cases hv : v = value <;> simp [hv])

/-- **C14 on the source, labelled groups.** A pod counts iff it is not DaemonSet-owned and either its nodeSelector maps the key to
    the value or the affinity loop finds an `In` expression listing it. -/
theorem C14_source_affinity (daemon selHasKey selValueEq affinityIn : Bool) :
    Gen.podAffinityFilter daemon selHasKey selValueEq affinityIn = true ↔
      (daemon = false ∧ ((selHasKey = true ∧ selValueEq = true) ∨ affinityIn = true)) := by
  unfold Gen.podAffinityFilter
  cases daemon <;> cases selHasKey <;> cases selValueEq <;> cases affinityIn <;> simp

theorem gen_filters_translation_complete : Gen.numFiltersUnknown = 0 := by decide

end Esc.P
