/-
  C02 — No scaling activity while a cloud scale-up is inside its cool-down.
-/
import EscProofs.P.GenLock
import EscProofs.Lemmas.Run
import EscProofs.Lemmas.Shape
namespace Esc.P
open Esc Esc.Spec

/-- **C02 (quiet), one scan.** While the lock is held — `now − lockTime < cool-down` — the group scan
    issues no call at all (no resize, taint, untaint, termination, deletion, not even a read),
    whatever the cluster looks like: fewer untainted nodes than the minimum, force-tainted nodes,
    expired tainted nodes … — and it leaves the lock exactly as it was. -/
theorem C02_quiet_scan (rnd : Rat → Rat) (o : Oracle) (k : Nat) (globalDry : Bool) (cfg : GroupCfg) (st0 : GState)
    (g : PGroup) (view : View) (h : Hints) (nowMock nowReal : Int)
    (hl : lockHeld st0.lock cfg.coolNs nowReal = true) :
    (scanGroup rnd o k globalDry cfg st0 g view h nowMock nowReal).j = [] ∧
    (scanGroup rnd o k globalDry cfg st0 g view h nowMock nowReal).val.st.lock = st0.lock ∧
    (scanGroup rnd o k globalDry cfg st0 g view h nowMock nowReal).val.g = g := by
  obtain ⟨_, _, _, _, hlock, _⟩ := withCache_trackers st0 view.nodes
  have hl' : lockedNow (withCache st0 view.nodes).lock cfg.coolNs nowReal = true := by rw [hlock]; exact hl
  unfold scanGroup; dsimp only
  split
  · (refine ⟨?_, ?_, ?_⟩ <;> first | rfl | trivial | exact hlock)
  split
  · (refine ⟨?_, ?_, ?_⟩ <;> first | rfl | trivial | exact hlock)
  split
  · (refine ⟨?_, ?_, ?_⟩ <;> first | rfl | trivial | exact hlock)
  split
  · simp only [hl', if_true]; (refine ⟨?_, ?_, ?_⟩ <;> first | rfl | trivial | exact hlock)
  split
  · (refine ⟨?_, ?_, ?_⟩ <;> first | rfl | trivial | exact hlock)
  · simp only [hl', if_true]; (refine ⟨?_, ?_, ?_⟩ <;> first | rfl | trivial | exact hlock)

/-- The lock never outlives its cool-down: once the period has elapsed it is not held, whatever
    state it was left in. -/
theorem C02_release (l : Lock) (coolNs now : Int) (h : ∀ t, l.lockTime = some t → now - t ≥ coolNs) :
    lockHeld l coolNs now = false := by
  unfold lockHeld
  cases ht : l.lockTime with
  | none => rfl
  | some t => have := h t ht; simp only [decide_eq_false_iff_not]; omega

/-- … and then the scan does not take either of the two "locked" exits. -/
theorem C02_release_scan (rnd : Rat → Rat) (o : Oracle) (k : Nat) (globalDry : Bool) (cfg : GroupCfg) (st0 : GState)
    (g : PGroup) (view : View) (h : Hints) (nowMock nowReal : Int)
    (hl : lockHeld st0.lock cfg.coolNs nowReal = false) :
    (scanGroup rnd o k globalDry cfg st0 g view h nowMock nowReal).val.branch ≠ "locked" ∧
    (scanGroup rnd o k globalDry cfg st0 g view h nowMock nowReal).val.branch ≠ "min-locked" := by
  obtain ⟨_, _, _, _, hlock, _⟩ := withCache_trackers st0 view.nodes
  have hl' : lockedNow (withCache st0 view.nodes).lock cfg.coolNs nowReal = false := by rw [hlock]; exact hl
  unfold scanGroup; dsimp only
  split
  · (constructor <;> simp)
  split
  · (constructor <;> simp)
  split
  · (constructor <;> simp)
  split
  · simp only [hl', Bool.false_eq_true, if_false]; (constructor <;> simp)
  split
  · (constructor <;> simp)
  · simp only [hl', Bool.false_eq_true, if_false]
    unfold scanDecide; dsimp only
    split
    · (constructor <;> simp)
    · unfold scanAct; dsimp only
      split
      · (constructor <;> simp)
      split
      · split <;> (constructor <;> simp)
      split
      · split <;> (constructor <;> simp)
      · split <;> (constructor <;> simp)

/-- An accepted entry that raises the cloud group: `SetDesiredCapacity` or `AttachInstances`. -/
def isAcceptedRaise (gid : String) (e : Entry) : Bool :=
  e.ok && (match e.call with | .setDesired g _ => g == gid | .attach g _ => g == gid | _ => false)

theorem attachBatches_ok_last (o : Oracle) (gid : String) : ∀ (bs : List (List String)) (k : Nat), bs ≠ [] →
    (attachBatches o gid k bs).val.ok = true → ∃ e ∈ (attachBatches o gid k bs).j, isAcceptedRaise gid e = true := by
  intro bs
  induction bs with
  | nil => intro _ h; exact absurd rfl h
  | cons b bs _ =>
    intro k _
    unfold attachBatches; dsimp only
    obtain ⟨b', hj, hv⟩ := doPlain_j o k (.attach gid b)
    split
    · rename_i hb
      rw [hv] at hb; subst hb
      intro _
      exact ⟨⟨.attach gid b, true⟩, by simp [hj], by simp [isAcceptedRaise]⟩
    · intro hok; simp at hok

theorem attachChunks_ne_nil (sz f : Nat) (l : List String) : attachChunks sz f l ≠ [] := by
  cases f <;> (unfold attachChunks; try split) <;> simp

theorem attachInstances_none (o : Oracle) (k : Nat) (cfg : AwsCfg) (g : PGroup) (ids : List String) :
    (attachInstances o k cfg g ids).val.err = .none → ∃ e ∈ (attachInstances o k cfg g ids).j, isAcceptedRaise g.id e = true := by
  unfold attachInstances; dsimp only
  split
  · split
    · rename_i hok
      intro _
      obtain ⟨e, he, ha⟩ := attachBatches_ok_last o g.id _ _ (attachChunks_ne_nil _ _ _) hok
      exact ⟨e, by simp [he], ha⟩
    · split <;> (intro h; simp at h)
  · split <;> (intro h; simp at h)

theorem oneShot_none (o : Oracle) (k : Nat) (cfg : AwsCfg) (g : PGroup) (d : Int) :
    (oneShot o k cfg g d).val.err = .none → ∃ e ∈ (oneShot o k cfg g d).j, isAcceptedRaise g.id e = true := by
  unfold oneShot; dsimp only
  split
  · split
    · intro h; simp at h
    · split
      · split
        · intro h; simp at h
        · intro h
          obtain ⟨e, he, ha⟩ := attachInstances_none o _ cfg g _ h
          exact ⟨e, by simp [he], ha⟩
      · intro h; simp at h
  · intro h; simp at h

/-- The provider reports success only after AWS accepted a `SetDesiredCapacity` or the (last)
    `AttachInstances` call. -/
theorem increaseSize_none (o : Oracle) (k : Nat) (cfg : AwsCfg) (g : PGroup) (d : Int) :
    (increaseSize o k cfg g d).val.err = .none → ∃ e ∈ (increaseSize o k cfg g d).j, isAcceptedRaise g.id e = true := by
  unfold increaseSize; dsimp only
  split
  · intro h; simp at h
  split
  · intro h; simp at h
  split
  · exact oneShot_none o k cfg g d
  · obtain ⟨b, hj, hv⟩ := doPlain_j o k (.setDesired g.id (g.asg.desired + d))
    rw [hv]
    cases b with
    | true => intro _; exact ⟨⟨.setDesired g.id (g.asg.desired + d), true⟩, by simp [hj], by simp [isAcceptedRaise]⟩
    | false => intro h; simp at h

/-- **C02 (armed exactly on acceptance).** `ScaleUp` either leaves the lock untouched, or arms it at
    the current time; and it arms it only if the group is in dry mode or the cloud provider accepted
    an increase (an accepted `SetDesiredCapacity` / `AttachInstances` is in the journal). Any
    failed or refused increase leaves the lock as it was (see also `C18_no_lock`). -/
theorem C02_armed (o : Oracle) (k : Nat) (dry : Bool) (cfg : GroupCfg) (st : GState) (g : PGroup)
    (nowReal : Int) (hint : List Nat) (tainted : List Node) (want : Int) :
    ((scaleUp o k dry cfg st g nowReal hint tainted want).val.st.lock = st.lock ∨
      ((scaleUp o k dry cfg st g nowReal hint tainted want).val.err = .none ∧
       (scaleUp o k dry cfg st g nowReal hint tainted want).val.st.lock.isLocked = true ∧
       (scaleUp o k dry cfg st g nowReal hint tainted want).val.st.lock.lockTime = some nowReal)) ∧
    ((scaleUp o k dry cfg st g nowReal hint tainted want).val.st.lock ≠ st.lock → dry = true ∨
      ∃ e ∈ (scaleUp o k dry cfg st g nowReal hint tainted want).j, isAcceptedRaise g.id e = true) := by
  unfold scaleUp; dsimp only
  generalize scaleUpUntaint o k dry st hint tainted want = u
  split
  · split
    · exact ⟨Or.inl rfl, fun h => absurd rfl h⟩
    · split
      · rename_i hd
        exact ⟨Or.inr ⟨rfl, rfl, rfl⟩, fun _ => Or.inl hd⟩
      · generalize hinc : increaseSize o u.k cfg.aws g (nodesToAdd (want - ↑u.val.count) g.asg.desired st.maxEff g.asg.max) = inc
        have hacc := increaseSize_none o u.k cfg.aws g (nodesToAdd (want - ↑u.val.count) g.asg.desired st.maxEff g.asg.max)
        rw [hinc] at hacc
        cases herr : inc.val.err with
        | none =>
          refine ⟨Or.inr ⟨rfl, rfl, rfl⟩, fun _ => Or.inr ?_⟩
          obtain ⟨e, he, ha⟩ := hacc herr
          exact ⟨e, by simp [he], ha⟩
        | rejected => exact ⟨Or.inl rfl, fun h => absurd rfl h⟩
        | failed => exact ⟨Or.inl rfl, fun h => absurd rfl h⟩
        | fatal => exact ⟨Or.inl rfl, fun h => absurd rfl h⟩
  · exact ⟨Or.inl rfl, fun h => absurd rfl h⟩

end Esc.P

namespace Esc.P
open Esc Esc.Spec

/-! ### histories -/

theorem lookup_map_other (gs : List (String × GState)) (n n' : String) (s : GState) (h : n ≠ n') :
    List.lookup n (gs.map (fun p => if p.1 == n' then (n', s) else p)) = List.lookup n gs := by
  induction gs with
  | nil => rfl
  | cons p ps ih =>
    obtain ⟨pn, pg⟩ := p
    rw [List.map_cons, List.lookup_cons, List.lookup_cons]
    by_cases hp : (pn == n') = true
    · have hpn : pn = n' := by simpa using hp
      have h1 : (n == n') = false := by simpa using h
      have h2 : (n == pn) = false := by rw [hpn]; exact h1
      simp only [hp, if_true, h1, h2, ih]
    · have hp' : (pn == n') = false := by simpa using hp
      simp only [hp', Bool.false_eq_true, if_false, ih]

theorem lookup_map_same (gs : List (String × GState)) (n : String) (s : GState) (h : (List.lookup n gs).isSome = true) :
    List.lookup n (gs.map (fun p => if p.1 == n then (n, s) else p)) = some s := by
  induction gs with
  | nil => simp at h
  | cons p ps ih =>
    obtain ⟨pn, pg⟩ := p
    rw [List.map_cons, List.lookup_cons]
    rw [List.lookup_cons] at h
    by_cases hp : (pn == n) = true
    · have hpn : pn = n := by simpa using hp
      simp only [hp, if_true, beq_self_eq_true]
    · have hp' : (pn == n) = false := by simpa using hp
      have hp'' : (n == pn) = false := by
        have : pn ≠ n := by simpa using hp'
        simpa using (fun h => this h.symm)
      simp only [hp', Bool.false_eq_true, if_false, hp''] at h ⊢
      exact ih h

/-- The lock of group `n` as recorded in the controller state. -/
def lockOf (st : CState) (n : String) : Option Lock := (findState st.groups n).map (·.lock)

/-- Per-`RunOnce` frame: if the lock of every group named `n` is held at this scan's time, then every
    record for `n` has an empty journal and the lock of `n` is unchanged afterwards. -/
theorem groupLoop_quiet (rnd : Rat → Rat) (o : Oracle) (ctl : Ctl) (views : String → View) (hints : String → Hints)
    (nowMock nowReal : Int) (n : String) (l : Lock) (cool : Int) (hl : lockHeld l cool nowReal = true) :
    ∀ (cs : List GroupCfg) (k : Nat) (ls : LoopState),
      (∀ c ∈ cs, c.name = n → c.coolNs = cool) →
      lockOf ls.st n = some l →
      (∀ r ∈ ls.recs, r.name = n → r.j = []) →
      lockOf (groupLoop rnd o ctl views hints nowMock nowReal k cs ls).val.st n = some l ∧
      (∀ r ∈ (groupLoop rnd o ctl views hints nowMock nowReal k cs ls).val.recs, r.name = n → r.j = []) := by
  intro cs
  induction cs with
  | nil => intro k ls _ h1 h2; simpa [groupLoop] using ⟨h1, h2⟩
  | cons c cs ih =>
    intro k ls hcool h1 h2
    unfold groupLoop
    split
    · rename_i pg gst hp hs
      dsimp only
      -- the scan of c
      generalize hgst' : (if autoDiscover c = true then { gst with minEff := pg.asg.min, maxEff := pg.asg.max } else gst) = gst'
      have hlock' : gst'.lock = gst.lock := by rw [← hgst']; split <;> rfl
      by_cases hcn : c.name = n
      · -- this is group n: held, hence quiet
        have hgl : gst.lock = l := by
          unfold lockOf at h1
          rw [← hcn, hs] at h1
          simpa using h1
        have hq := C02_quiet_scan rnd o k ctl.globalDry c gst' pg (views c.name) (hints c.name) nowMock nowReal
          (by rw [hlock', hgl, hcool c List.mem_cons_self hcn]; exact hl)
        generalize scanGroup rnd o k ctl.globalDry c gst' pg (views c.name) (hints c.name) nowMock nowReal = r at hq
        obtain ⟨q1, q2, q3⟩ := hq
        have hst' : lockOf ⟨setState ls.st.groups c.name { r.val.st with scaleDelta := r.val.delta }, setProv ls.st.prov r.val.g⟩ n = some l := by
          unfold lockOf findState setState
          rw [← hcn, lookup_map_same _ _ _ (by unfold findState at hs; rw [hs]; rfl)]
          simp [q2, hlock', hgl]
        have hrecs' : ∀ r' ∈ ls.recs ++ [(⟨c.name, r.j, r.val.delta, r.val.err, r.val.branch, c, gst', pg, views c.name, nowMock, nowReal⟩ : GroupRec)],
            r'.name = n → r'.j = [] := by
          intro r' hr' hn
          rcases List.mem_append.mp hr' with hr' | hr'
          · exact h2 r' hr' hn
          · simp only [List.mem_singleton] at hr'; subst hr'; exact q1
        split
        · exact ⟨hst', hrecs'⟩
        · exact ⟨hst', hrecs'⟩
        · exact ih _ _ (fun c' hc' => hcool c' (List.mem_cons_of_mem _ hc')) hst' hrecs'
      · -- another group: n's state is untouched
        generalize scanGroup rnd o k ctl.globalDry c gst' pg (views c.name) (hints c.name) nowMock nowReal = r
        have hst' : lockOf ⟨setState ls.st.groups c.name { r.val.st with scaleDelta := r.val.delta }, setProv ls.st.prov r.val.g⟩ n = some l := by
          unfold lockOf findState setState
          rw [lookup_map_other _ _ _ _ (fun h => hcn h.symm)]
          exact h1
        have hrecs' : ∀ r' ∈ ls.recs ++ [(⟨c.name, r.j, r.val.delta, r.val.err, r.val.branch, c, gst', pg, views c.name, nowMock, nowReal⟩ : GroupRec)],
            r'.name = n → r'.j = [] := by
          intro r' hr' hn
          rcases List.mem_append.mp hr' with hr' | hr'
          · exact h2 r' hr' hn
          · simp only [List.mem_singleton] at hr'; subst hr'; exact absurd hn hcn
        split
        · exact ⟨hst', hrecs'⟩
        · exact ⟨hst', hrecs'⟩
        · exact ih _ _ (fun c' hc' => hcool c' (List.mem_cons_of_mem _ hc')) hst' hrecs'
    · exact ⟨h1, h2⟩

theorem runOnce_quiet (rnd : Rat → Rat) (o : Oracle) (k : Nat) (ctl : Ctl) (st : CState) (views : String → View)
    (hints : String → Hints) (nowMock nowReal : Int) (n : String) (l : Lock) (cool : Int)
    (hcool : ∀ c ∈ ctl.cfgs, c.name = n → c.coolNs = cool)
    (hl : lockHeld l cool nowReal = true) (h1 : lockOf st n = some l) :
    lockOf (runOnce rnd o k ctl st views hints nowMock nowReal).val.st n = some l ∧
    (∀ r ∈ (runOnce rnd o k ctl st views hints nowMock nowReal).val.recs, r.name = n → r.j = []) := by
  unfold runOnce; dsimp only
  split
  · exact ⟨h1, by simp⟩
  · rename_i prov _
    exact groupLoop_quiet rnd o ctl views hints nowMock nowReal n l cool hl ctl.cfgs _ ⟨{ st with prov := prov }, [], .ok⟩ hcool
      (by unfold lockOf at h1 ⊢; exact h1) (by simp)

/-- **C02 (quiet), histories.** Within one controller lifetime (no restart), once the lock of a group
    carries time `t0`, every later scan whose clock is still inside the cool-down
    (`now − t0 < scale_up_cool_down_period`) does nothing at all for that group — for every history
    of scans, every spacing, every cluster content, every environment. -/
theorem C02_history_quiet (rnd : Rat → Rat) (ctl : Ctl) (n : String) (cool : Int)
    (hcool : ∀ c ∈ ctl.cfgs, c.name = n → c.coolNs = cool) :
    ∀ (es : List Event) (st : CState) (l : Lock) (t0 : Int),
      lockOf st n = some l → l.lockTime = some t0 →
      (∀ e ∈ es, match e with | .scan i => i.nowReal - t0 < cool | .restart _ => False) →
      ∀ out ∈ runEvents rnd ctl (some st) es, ∀ r ∈ out.recs, r.name = n → r.j = [] := by
  intro es
  induction es with
  | nil => intro st l t0 _ _ _ out ho; simp [runEvents] at ho
  | cons e es ih =>
    intro st l t0 h1 ht hall out ho r hr hn
    cases e with
    | restart o => exact (hall _ List.mem_cons_self).elim
    | scan i =>
      have hnow := hall (.scan i) List.mem_cons_self
      simp only at hnow
      have hl : lockHeld l cool i.nowReal = true := by
        unfold lockHeld; rw [ht]; simpa using hnow
      obtain ⟨q1, q2⟩ := runOnce_quiet rnd i.o 0 ctl st i.views i.hints i.nowMock i.nowReal n l cool hcool hl h1
      unfold runEvents at ho; dsimp only at ho
      rcases List.mem_cons.mp ho with rfl | ho
      · exact q2 r hr hn
      · split at ho
        · exact ih _ l t0 q1 ht (fun e he => hall e (List.mem_cons_of_mem _ he)) out ho r hr hn
        · -- fatal outcome: no state, later scans do not run
          have : ∀ es', runEvents rnd ctl none es' = [] ∨ True := fun _ => Or.inr trivial
          clear this
          have hnone : ∀ (es' : List Event), (∀ e ∈ es', match e with | .scan _ => True | .restart _ => False) → runEvents rnd ctl none es' = [] := by
            intro es'
            induction es' with
            | nil => intro _; rfl
            | cons e' es' ih' =>
              intro h
              cases e' with
              | restart o' => exact (h _ List.mem_cons_self).elim
              | scan i' => unfold runEvents; exact ih' (fun e he => h e (List.mem_cons_of_mem _ he))
          rw [hnone es (fun e he => by have := hall e (List.mem_cons_of_mem _ he); cases e <;> simp_all)] at ho
          cases ho

/-- Non-vacuity: a lock taken at time 1000 is held at time 1500 for a cool-down of 600, and released
    at time 1600. -/
example : lockHeld ⟨true, 2, some 1000⟩ 600 1500 = true ∧ lockHeld ⟨true, 2, some 1000⟩ 600 1600 = false := by decide

end Esc.P
