/-
  Tie B for `Controller.filterNodes` (pkg/controller/controller.go): `Esc.Gen.classifyNode` (Gen/Classify.lean) is REGENERATED
  from the loop body on every run (extract/reap.go, genClassify) and proved equal to the model's `classify`; C09's "a cordoned
  node is never touched and never counted" is restated on it: outside dry mode a cordoned node goes to the cordoned list and to
  no other — the lists every later step (capacity, taint, untaint, reaper) draws from.
-/
import Esc.Controller
import Esc.Gen.Classify
namespace Esc.P
open Esc

/-- Code of the list `filterNodes` appends to. -/
def classCode : Class → Nat
  | .untainted => 1
  | .tainted => 2
  | .force => 3
  | .cordoned => 4

/-- **Tie B, `filterNodes`.** For every controller state and node, in and outside dry mode, the translated loop body appends
    the node to the list the model's `classify` names. -/
theorem gen_classifyNode_eq (dry : Bool) (st : GState) (n : Node) :
    Gen.classifyNode dry (st.taintTracker.contains n.name) (st.forceTaintTracker.contains n.name) n.unschedulable
        (hasTaint forceKey n) (hasTaint escKey n) = classCode (classify dry st n) := by
  unfold Gen.classifyNode classify
  cases dry <;> cases st.taintTracker.contains n.name <;> cases st.forceTaintTracker.contains n.name <;>
    cases n.unschedulable <;> cases hasTaint forceKey n <;> cases hasTaint escKey n <;> simp [classCode]

/-- **C09 on the source.** Outside dry mode a cordoned (unschedulable) node is appended to the cordoned list — never to the
    untainted, tainted or force-tainted list — whatever taints it carries. -/
theorem C09_source_cordoned (inTaintTracker inForceTracker hasForce hasEsc : Bool) :
    Gen.classifyNode false inTaintTracker inForceTracker true hasForce hasEsc = 4 := by
  simp [Gen.classifyNode]

/-- Every node is appended to exactly one list (no node is dropped): the code is never 0. -/
theorem gen_classifyNode_total (dry inTaintTracker inForceTracker unschedulable hasForce hasEsc : Bool) :
    Gen.classifyNode dry inTaintTracker inForceTracker unschedulable hasForce hasEsc ≠ 0 := by
  cases dry <;> cases inTaintTracker <;> cases inForceTracker <;> cases unschedulable <;> cases hasForce <;> cases hasEsc <;>
    simp [Gen.classifyNode]

theorem gen_classify_translation_complete : Gen.numClassifyUnknown = 0 := by decide

end Esc.P
