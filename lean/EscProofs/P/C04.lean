/-
  C04 — Cloud target size never exceeds min(max_nodes, cloud group maximum).
-/
import EscProofs.Lemmas.Run
import EscProofs.Lemmas.Count
namespace Esc.P
open Esc Esc.Spec

/-! ### helper facts -/

def decCount (j : Journal) : Nat := j.countP isOkDecTerminate

def isResizeReq (e : Entry) : Bool :=
  match e.call with | .setDesired .. | .createFleet _ => true | _ => false

theorem decCount_append (a b : Journal) : decCount (a ++ b) = decCount a + decCount b := by
  simp [decCount, List.countP_append]

theorem go_append (bnd : Int) : ∀ (a b : Journal) (cur : Int),
    C04.go bnd cur (a ++ b) = (C04.go bnd cur a && C04.go bnd (cur - decCount a) b) := by
  intro a
  induction a with
  | nil => intro b cur; simp [C04.go, decCount]
  | cons e es ih =>
    intro b cur
    simp only [List.cons_append, C04.go, ih, decCount, List.countP_cons]
    cases hdec : isOkDecTerminate e
    · simp [Bool.and_assoc]
    · simp only [if_true, Bool.and_assoc]
      congr 2
      have : cur - 1 - ↑(List.countP isOkDecTerminate es) = cur - ↑(List.countP isOkDecTerminate es + 1) := by omega
      rw [this]

theorem go_of_noResize (bnd : Int) : ∀ (j : Journal) (cur : Int), (∀ e ∈ j, isResizeReq e = false) → C04.go bnd cur j = true := by
  intro j
  induction j with
  | nil => intro cur _; rfl
  | cons e es ih =>
    intro cur h
    have he := h e List.mem_cons_self
    simp only [C04.go, Bool.and_eq_true]
    refine ⟨?_, ih _ (fun e' he' => h e' (List.mem_cons_of_mem _ he'))⟩
    unfold isResizeReq at he
    generalize e.call = c at he ⊢
    cases c <;> simp at he ⊢

theorem removal_noResize {g : PGroup} {cands : List Node} {e : Entry} (h : RemovalEntry g cands e) : isResizeReq e = false := by
  cases h <;> rfl

theorem metrics_noResize {mj : Journal} (h : ∀ e ∈ mj, ∃ id b, e = ⟨.describeInstances id, b⟩) : ∀ e ∈ mj, isResizeReq e = false := by
  intro e he; obtain ⟨id, b, rfl⟩ := h e he; rfl

theorem metrics_noDec {mj : Journal} (h : ∀ e ∈ mj, ∃ id b, e = ⟨.describeInstances id, b⟩) : decCount mj = 0 :=
  countP_zero_of_forall (fun e he => by obtain ⟨id, b, rfl⟩ := h e he; simp [isOkDecTerminate])

/-! ### the provider's cached group along the removal path -/

theorem terminateLoop_desired (o : Oracle) : ∀ (ns : List Node) (k : Nat) (g : PGroup),
    (terminateLoop o k g ns).val.g.asg.desired = g.asg.desired - decCount (terminateLoop o k g ns).j ∧
    (terminateLoop o k g ns).val.g.asg.max = g.asg.max := by
  intro ns
  induction ns with
  | nil => intro k g; simp [terminateLoop, decCount]
  | cons n ns ih =>
    intro k g
    unfold terminateLoop; dsimp only
    split
    · obtain ⟨b, hj, hv⟩ := doPlain_j o k (.terminateInAsg (instanceIdFor g n) true)
      split
      · rename_i hok
        rw [hv] at hok
        subst hok
        obtain ⟨h1, h2⟩ := ih (doPlain o k (Call.terminateInAsg (instanceIdFor g n) true)).k (decDesired g)
        refine ⟨?_, by rw [h2]; rfl⟩
        rw [h1]
        have hd : (decDesired g).asg.desired = g.asg.desired - 1 := rfl
        have hc : decCount ((doPlain o k (Call.terminateInAsg (instanceIdFor g n) true)).j ++
            (terminateLoop o (doPlain o k (Call.terminateInAsg (instanceIdFor g n) true)).k (decDesired g) ns).j) =
            1 + decCount (terminateLoop o (doPlain o k (Call.terminateInAsg (instanceIdFor g n) true)).k (decDesired g) ns).j := by
          simp [hj, decCount, List.countP_append, isOkDecTerminate]; omega
        rw [hd, hc]; omega
      · rename_i hok
        rw [hv] at hok
        simp only [hj, decCount, List.countP_cons, List.countP_nil]
        simp [isOkDecTerminate, hok]
    · simp [decCount]

theorem deleteNodesK8s_noDec (o : Oracle) : ∀ (ns : List Node) (k : Nat), decCount (deleteNodesK8s o k ns).j = 0 := by
  intro ns k
  exact countP_zero_of_forall (fun e he => by obtain ⟨n, _, b, rfl⟩ := deleteNodesK8s_entries o ns k e he; simp [isOkDecTerminate])

theorem tryDelete_desired (o : Oracle) (k : Nat) (g : PGroup) (cands : List Node) :
    (tryDelete o k g cands).val.g.asg.desired = g.asg.desired - decCount (tryDelete o k g cands).j ∧
    (tryDelete o k g cands).val.g.asg.max = g.asg.max := by
  have haws : (awsDeleteNodes o k g cands).val.g.asg.desired = g.asg.desired - decCount (awsDeleteNodes o k g cands).j ∧
      (awsDeleteNodes o k g cands).val.g.asg.max = g.asg.max := by
    unfold awsDeleteNodes
    split
    · simp [decCount]
    · split
      · simp [decCount]
      · exact terminateLoop_desired o cands k g
  unfold tryDelete; dsimp only
  split
  · simp [decCount]
  · split
    · simp only [decCount, List.countP_append]
      have := deleteNodesK8s_noDec o cands (awsDeleteNodes o k g cands).k
      unfold decCount at this haws
      rw [this]; simpa using haws
    · exact haws
    · exact haws

/-! ### the increase path -/

/-- Every resize request of `IncreaseSize` asks for exactly `d` on top of the cached desired size,
    and the call contains no terminate-in-ASG. -/
theorem increaseSize_go (o : Oracle) (k : Nat) (cfg : AwsCfg) (g : PGroup) (d : Int) (bnd : Int)
    (hb : g.asg.desired + d ≤ bnd) : C04.go bnd g.asg.desired (increaseSize o k cfg g d).j = true := by
  have key : ∀ (j : Journal), (∀ e ∈ j, isIncreaseCallExact g.id g.asg.desired d e.call = true) → C04.go bnd g.asg.desired j = true := by
    intro j
    induction j with
    | nil => intro _; rfl
    | cons e es ih =>
      intro h
      have he := h e List.mem_cons_self
      have hdec : isOkDecTerminate e = false := by
        unfold isOkDecTerminate
        generalize e.call = c at he ⊢
        cases c <;> simp [isIncreaseCallExact, isAttachPhaseCall] at he ⊢
      simp only [C04.go, hdec, Bool.false_eq_true, if_false, Bool.and_eq_true]
      refine ⟨?_, ih (fun e' he' => h e' (List.mem_cons_of_mem _ he'))⟩
      generalize e.call = c at he ⊢
      cases c <;> simp [isIncreaseCallExact, isAttachPhaseCall] at he ⊢ <;> omega
  exact key _ (increaseSize_exact o k cfg g d)

theorem nodesToAdd_le (want target maxEff asgMax : Int) :
    target + nodesToAdd want target maxEff asgMax ≤ (if maxEff < asgMax then maxEff else asgMax) ∨
    nodesToAdd want target maxEff asgMax = want ∧ target + want ≤ (if maxEff < asgMax then maxEff else asgMax) := by
  unfold nodesToAdd
  simp only
  split <;> omega

theorem delTaint_noResize {c : Node} {e : Entry} (h : DelTaintEntry c e) : isResizeReq e = false ∧ isOkDecTerminate e = false := by
  cases h <;> simp [isResizeReq, isOkDecTerminate]

/-- `ScaleUp`'s journal respects the bound when walked from the group's cached desired size. -/
theorem scaleUp_go (o : Oracle) (k : Nat) (dry : Bool) (cfg : GroupCfg) (st : GState) (g : PGroup)
    (nowReal : Int) (hint : List Nat) (tainted : List Node) (want : Int) (bnd : Int)
    (hbnd : bnd = if st.maxEff < g.asg.max then st.maxEff else g.asg.max) :
    C04.go bnd g.asg.desired (scaleUp o k dry cfg st g nowReal hint tainted want).j = true := by
  have hu : ∀ e ∈ (scaleUpUntaint o k dry st hint tainted want).j, isResizeReq e = false ∧ isOkDecTerminate e = false := by
    intro e he
    unfold scaleUpUntaint at he
    split at he
    · simp at he
    · obtain ⟨_, c, _, _, hd⟩ := untaintLoop_entries o dry _ _ _ _ e he
      exact delTaint_noResize hd
  have hu1 : C04.go bnd g.asg.desired (scaleUpUntaint o k dry st hint tainted want).j = true :=
    go_of_noResize _ _ _ (fun e he => (hu e he).1)
  have hu2 : decCount (scaleUpUntaint o k dry st hint tainted want).j = 0 :=
    countP_zero_of_forall (fun e he => (hu e he).2)
  unfold scaleUp; dsimp only
  generalize scaleUpUntaint o k dry st hint tainted want = u at hu1 hu2
  have hle : g.asg.desired + nodesToAdd (want - ↑u.val.count) g.asg.desired st.maxEff g.asg.max ≤ bnd := by
    rw [hbnd]
    rcases nodesToAdd_le (want - ↑u.val.count) g.asg.desired st.maxEff g.asg.max with h | ⟨h1, h2⟩
    · exact h
    · rw [h1]; exact h2
  have hinc := increaseSize_go o u.k cfg.aws g _ _ hle
  clear hbnd
  split
  · split
    · exact hu1
    · split
      · exact hu1
      · split <;>
        · show C04.go bnd g.asg.desired (u.j ++ _) = true
          rw [go_append, hu1, hu2]; simpa using hinc
  · exact hu1

/-- **C04 (bound), one scan.** Every `SetDesiredCapacity` value and every fleet request, taken on
    top of the cloud group's desired size at that moment (the refreshed value minus the
    terminations the scan already made), is at most `min(max_nodes, cloud maximum)` — for every
    utilisation, every pair of maxima, every mix of tainted nodes, every environment. -/
theorem C04_bound (rnd : Rat → Rat) (o : Oracle) (k : Nat) (globalDry : Bool) (cfg : GroupCfg) (st0 : GState)
    (g : PGroup) (view : View) (h : Hints) (nowMock nowReal : Int) :
    C04.holds ⟨globalDry, cfg, st0, g, view, nowMock, nowReal⟩
      (scanGroup rnd o k globalDry cfg st0 g view h nowMock nowReal).j = true := by
  unfold C04.holds bound
  simp only
  have hshape := scanGroup_shape rnd o k globalDry cfg st0 g view h nowMock nowReal
  simp only at hshape
  rcases hshape with hj | ⟨st, hsb, _, hj⟩ | ⟨st, mj, hsb, hmj, hge, hj | ⟨delta, hj⟩⟩
  · rw [hj]; rfl
  · rw [hj]; exact scaleUp_go o k _ cfg st g nowReal h.new _ _ _ (by rw [hsb.2.1])
  · rw [hj]; exact go_of_noResize _ _ _ (metrics_noResize hmj)
  · rw [hj]
    have hact := scanAct_shape o k (globalDry || cfg.dryMode) cfg st g view.pods h nowMock nowReal
      (nodesOf (globalDry || cfg.dryMode) st0 .untainted view.nodes) (nodesOf (globalDry || cfg.dryMode) st0 .tainted view.nodes)
      (nodesOf (globalDry || cfg.dryMode) st0 .force view.nodes) mj delta
    simp only at hact
    have hm := go_of_noResize (if st0.maxEff < g.asg.max then st0.maxEff else g.asg.max) mj g.asg.desired (metrics_noResize hmj)
    have hmd := metrics_noDec hmj
    have hdel : ∀ (k' : Nat) (g' : PGroup) (c : List Node) (cur : Int),
        C04.go (if st0.maxEff < g.asg.max then st0.maxEff else g.asg.max) cur (tryDelete o k' g' c).j = true :=
      fun k' g' c cur => go_of_noResize _ _ _ (fun e he => removal_noResize (tryDelete_entries o k' g' c e he))
    rcases hact with hj | ⟨_, hj | hj⟩ | ⟨_, hj⟩ | ⟨_, hj⟩
    · rw [hj, go_append, hm, hdel]; rfl
    · rw [hj, go_append, go_append, hm, hdel, hdel]; rfl
    · rw [hj, go_append, go_append, go_append, hm, hdel, hdel]
      simp only [Bool.true_and]
      apply go_of_noResize
      intro e he
      obtain ⟨_, c, _, ha⟩ := scaleDownTaint_entries o _ _ cfg _ _ h.old _ _ e he
      cases ha <;> rfl
    · rw [hj, go_append, go_append, hm, hdel, decCount_append, hmd]
      simp only [Bool.true_and, Nat.zero_add]
      obtain ⟨hd, hmx⟩ := tryDelete_desired o k g (forceCands (globalDry || cfg.dryMode) view.pods (nodesOf (globalDry || cfg.dryMode) st0 .force view.nodes))
      have := scaleUp_go o (tryDelete o k g (forceCands (globalDry || cfg.dryMode) view.pods (nodesOf (globalDry || cfg.dryMode) st0 .force view.nodes))).k
        (globalDry || cfg.dryMode) cfg st
        (tryDelete o k g (forceCands (globalDry || cfg.dryMode) view.pods (nodesOf (globalDry || cfg.dryMode) st0 .force view.nodes))).val.g
        nowReal h.new (nodesOf (globalDry || cfg.dryMode) st0 .tainted view.nodes) delta
        (if st0.maxEff < g.asg.max then st0.maxEff else g.asg.max) (by rw [hmx, hsb.2.1])
      rw [hd] at this
      simpa using this
    · rw [hj, go_append, go_append, hm, hdel, hdel]; rfl

/-- **C04 (clamp is exact).** If the wanted increase would exceed the bound and headroom remains,
    the request lands exactly on the bound; with no headroom the amount is non-positive and `ScaleUp`
    makes no request (it returns the "refusing to scale up beyond the maximum" error instead). -/
theorem C04_clamp_exact (want target maxEff asgMax : Int) :
    let bnd := if maxEff < asgMax then maxEff else asgMax
    (target + want > bnd → target + nodesToAdd want target maxEff asgMax = bnd) ∧
    (target + want ≤ bnd → nodesToAdd want target maxEff asgMax = want) ∧
    (bnd - target ≤ 0 → 0 < want → nodesToAdd want target maxEff asgMax ≤ 0) := by
  intro bnd
  simp only [bnd]
  unfold nodesToAdd
  simp only
  refine ⟨?_, ?_, ?_⟩ <;> intro h <;> split <;> omega

/-- **C04, histories.** -/
theorem C04_history (rnd : Rat → Rat) (ctl : Ctl) (s : Option CState) (es : List Event) :
    ∀ out ∈ runEvents rnd ctl s es, ∀ r ∈ out.recs,
      C04.holds ⟨ctl.globalDry, r.cfg, r.pre, r.preG, r.view, r.nowMock, r.nowReal⟩ r.j = true := by
  intro out ho r hr
  obtain ⟨o, k, h, hj⟩ := runEvents_recs rnd ctl es s out ho r hr
  rw [hj]
  exact C04_bound rnd o k ctl.globalDry r.cfg r.pre r.preG r.view h r.nowMock r.nowReal

end Esc.P
