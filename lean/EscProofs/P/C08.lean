/-
  C08 — Scale-down taints the oldest nodes first.
-/
import EscProofs.Lemmas.Run
import EscProofs.Lemmas.Loops
import EscProofs.P.C03
namespace Esc.P
open Esc Esc.Spec

theorem name_inj {nodes : List Node} (hnd : (nodes.map (·.name)).Nodup) {a b : Node} (ha : a ∈ nodes) (hb : b ∈ nodes)
    (h : a.name = b.name) : a = b := by
  have h1 := find_by_name hnd ha
  have h2 := find_by_name hnd hb
  rw [h] at h1
  rw [h1] at h2
  exact Option.some.inj h2

/-- The loop-level statement: with the candidates visited in an order sorted by creation time,
    every candidate that was not attempted is at least as young as every candidate attempted. -/
theorem taintLoop_oldest (o : Oracle) (nowSec : Int) (effect : String) (cs : List Node) (k need : Nat) (tr : List String)
    (hs : cs.Pairwise (fun a b => oldestFirst a b = true)) (hnd : (cs.map (·.name)).Nodup) :
    ∀ x ∈ cs, x.name ∉ getNames (taintLoop o false nowSec effect k cs need tr).j →
      ∀ y ∈ cs, y.name ∈ okUpdateNames (taintLoop o false nowSec effect k cs need tr).j → ¬ x.created < y.created := by
  obtain ⟨m, hm, h1, h2, _⟩ := taintLoop_spec o nowSec effect cs k need tr
  intro x hx hxn y hy hyn
  rw [h1] at hxn
  have hy' := h2 y.name hyn
  -- y is among the first m, x is not
  have hyt : y ∈ cs.take m := by
    obtain ⟨y', hy'm, hy'n⟩ := List.mem_map.mp hy'
    have : y' = y := name_inj hnd (List.mem_of_mem_take hy'm) hy hy'n
    exact this ▸ hy'm
  have hxd : x ∈ cs.drop m := by
    have : x ∈ cs.take m ++ cs.drop m := by rw [List.take_append_drop]; exact hx
    rcases List.mem_append.mp this with h | h
    · exact absurd (List.mem_map_of_mem h) hxn
    · exact h
  have hp : (cs.take m ++ cs.drop m).Pairwise (fun a b => oldestFirst a b = true) := by rw [List.take_append_drop]; exact hs
  have := (List.pairwise_append.mp hp).2.2 y hyt x hxd
  simp only [oldestFirst, decide_eq_true_eq] at this
  omega

theorem taintedNames_sub_okUpdate (view : View) (j : Journal) : ∀ n ∈ taintedNames view j, n ∈ okUpdateNames j := by
  intro n hn
  unfold taintedNames at hn
  simp only [List.mem_filterMap, List.mem_filter] at hn
  obtain ⟨e, ⟨he, hadd⟩, hcall⟩ := hn
  unfold okUpdateNames
  simp only [List.mem_filterMap]
  refine ⟨e, he, ?_⟩
  unfold isTaintAdd at hadd
  generalize e.call = c at hadd hcall ⊢
  cases c <;> simp at hadd hcall ⊢
  simp [hadd.1.1, hcall]

theorem taintedNames_nil_of_count {view : View} {j : Journal} (h : j.countP (isTaintAdd view) = 0) : taintedNames view j = [] := by
  unfold taintedNames
  have : j.filter (isTaintAdd view) = [] := by
    rw [List.filter_eq_nil_iff]
    intro e he
    have := List.countP_eq_zero.mp h e he
    simpa using this
  rw [this]; rfl

theorem holds_of_noTaint (c : Ctx) (j : Journal) (h : taintedNames c.view j = []) : C08.holds c j = true := by
  unfold C08.holds
  simp [h]

/-- **C08, one scan.** For every set of creation timestamps (ties, identical, zero), every list order
    returned by the cache, every visiting order the sort may produce among ties, every taint count
    and every failing GET/UPDATE: no untainted node the scan did not even attempt is strictly older
    than a node it tainted. -/
theorem C08_oldest (rnd : Rat → Rat) (o : Oracle) (k : Nat) (globalDry : Bool) (cfg : GroupCfg) (st0 : GState)
    (g : PGroup) (view : View) (h : Hints) (nowMock nowReal : Int) (hnd : UniqueNames view) :
    C08.holds ⟨globalDry, cfg, st0, g, view, nowMock, nowReal⟩
      (scanGroup rnd o k globalDry cfg st0 g view h nowMock nowReal).j = true := by
  have hshape := scanGroup_shape rnd o k globalDry cfg st0 g view h nowMock nowReal
  simp only at hshape
  rcases hshape with hj | ⟨st, _, _, hj⟩ | ⟨st, mj, hsb, hmj, hge, hj | ⟨delta, hj⟩⟩
  · rw [hj]; exact holds_of_noTaint _ _ rfl
  · rw [hj]; exact holds_of_noTaint _ _ (taintedNames_nil_of_count (scaleUp_noTaintAdd hnd o k cfg st g nowReal h.new _))
  · rw [hj]; exact holds_of_noTaint _ _ (taintedNames_nil_of_count (noUpdate_noTaintAdd (metrics_noUpdate hmj)))
  · rw [hj]
    have hact := scanAct_shape o k (globalDry || cfg.dryMode) cfg st g view.pods h nowMock nowReal
      (nodesOf (globalDry || cfg.dryMode) st0 .untainted view.nodes) (nodesOf (globalDry || cfg.dryMode) st0 .tainted view.nodes)
      (nodesOf (globalDry || cfg.dryMode) st0 .force view.nodes) mj delta
    simp only at hact
    have hm0 := noUpdate_noTaintAdd (view := view) (metrics_noUpdate hmj)
    have hf0 := fun k' g' c => noUpdate_noTaintAdd (view := view) (tryDelete_noUpdate o k' g' c)
    rcases hact with hj | ⟨hneg, hj | hj⟩ | ⟨hpos, hj⟩ | ⟨hz, hj⟩
    · rw [hj]; exact holds_of_noTaint _ _ (taintedNames_nil_of_count (by simp [List.countP_append, hm0, hf0]))
    · rw [hj]; exact holds_of_noTaint _ _ (taintedNames_nil_of_count (by simp [List.countP_append, hm0, hf0]))
    · -- the tainting branch
      rw [hj]
      cases hdry : (globalDry || cfg.dryMode) with
      | true =>
        -- dry mode: no calls at all in the taint loop
        apply holds_of_noTaint
        apply taintedNames_nil_of_count
        simp only [List.countP_append, hm0, hf0, Nat.zero_add]
        apply countP_zero_of_forall
        intro e he
        obtain ⟨hd, _⟩ := scaleDownTaint_entries o _ _ cfg _ _ h.old _ _ e he
        cases hd
      | false =>
        unfold C08.holds Ctx.dry
        simp only [hdry]
        rw [List.all_eq_true]
        intro x hx
        simp only [Bool.or_eq_true, List.contains_eq_mem, decide_eq_true_eq, List.all_eq_true, Bool.not_eq_true', decide_eq_false_iff_not]
        by_cases hxa : x.name ∈ getNames (mj ++ (tryDelete o k g (forceCands false view.pods (nodesOf false st0 .force view.nodes))).j ++
            (tryDelete o (tryDelete o k g (forceCands false view.pods (nodesOf false st0 .force view.nodes))).k
              (tryDelete o k g (forceCands false view.pods (nodesOf false st0 .force view.nodes))).val.g
              (reaperCands false cfg view.pods nowMock (nodesOf false st0 .tainted view.nodes))).j ++
            (scaleDownTaint o (tryDelete o (tryDelete o k g (forceCands false view.pods (nodesOf false st0 .force view.nodes))).k
              (tryDelete o k g (forceCands false view.pods (nodesOf false st0 .force view.nodes))).val.g
              (reaperCands false cfg view.pods nowMock (nodesOf false st0 .tainted view.nodes))).k false cfg st (nowReal / 1000000000) h.old
              (nodesOf false st0 .untainted view.nodes) (-delta)).j)
        · left; exact hxa
        · right
          intro y hy
          by_cases hyt : y.name ∈ taintedNames view (mj ++ (tryDelete o k g (forceCands false view.pods (nodesOf false st0 .force view.nodes))).j ++
            (tryDelete o (tryDelete o k g (forceCands false view.pods (nodesOf false st0 .force view.nodes))).k
              (tryDelete o k g (forceCands false view.pods (nodesOf false st0 .force view.nodes))).val.g
              (reaperCands false cfg view.pods nowMock (nodesOf false st0 .tainted view.nodes))).j ++
            (scaleDownTaint o (tryDelete o (tryDelete o k g (forceCands false view.pods (nodesOf false st0 .force view.nodes))).k
              (tryDelete o k g (forceCands false view.pods (nodesOf false st0 .force view.nodes))).val.g
              (reaperCands false cfg view.pods nowMock (nodesOf false st0 .tainted view.nodes))).k false cfg st (nowReal / 1000000000) h.old
              (nodesOf false st0 .untainted view.nodes) (-delta)).j)
          · right
            -- reduce to the taint loop
            generalize hk' : (tryDelete o (tryDelete o k g (forceCands false view.pods (nodesOf false st0 .force view.nodes))).k
              (tryDelete o k g (forceCands false view.pods (nodesOf false st0 .force view.nodes))).val.g
              (reaperCands false cfg view.pods nowMock (nodesOf false st0 .tainted view.nodes))).k = k' at hxa hyt
            have hyok := taintedNames_sub_okUpdate view _ y.name hyt
            simp only [okUpdateNames_append] at hyok
            simp only [getNames_append, List.mem_append, not_or] at hxa
            have hnoUpd : ∀ (j' : Journal), j'.countP isOkUpdate = 0 → okUpdateNames j' = [] := by
              intro j' hc
              unfold okUpdateNames
              rw [List.filterMap_eq_nil_iff]
              intro e he
              have := List.countP_eq_zero.mp hc e he
              unfold isOkUpdate at this
              generalize e.call = cc at this ⊢
              cases cc <;> simp at this ⊢
              simp [this]
            rw [hnoUpd _ (metrics_noUpdate hmj), hnoUpd _ (tryDelete_noUpdate o _ _ _), hnoUpd _ (tryDelete_noUpdate o _ _ _)] at hyok
            simp only [List.nil_append] at hyok
            -- unfold scaleDownTaint to its loop
            unfold scaleDownTaint at hyok hxa; dsimp only at hyok hxa
            generalize clampRemove (↑(nodesOf false st0 Class.untainted view.nodes).length) st.minEff (-delta) = n at hyok hxa
            by_cases hn : n < 0
            · simp [hn, okUpdateNames] at hyok
            · simp only [hn, if_false] at hyok hxa
              have hord := orderBy_perm oldestFirst h.old (nodesOf false st0 .untainted view.nodes)
              have hsorted := orderBy_pairwise oldestFirst oldestFirst_trans oldestFirst_total h.old (nodesOf false st0 .untainted view.nodes)
              have hsub : ∀ z, z ∈ orderBy oldestFirst h.old (nodesOf false st0 .untainted view.nodes) → z ∈ view.nodes :=
                fun z hz => (nodesOf_mem (hord.mem_iff.mp hz)).1
              have hndo : ((orderBy oldestFirst h.old (nodesOf false st0 .untainted view.nodes)).map (·.name)).Nodup := by
                have hsubl : (nodesOf false st0 .untainted view.nodes).Sublist view.nodes := by unfold nodesOf; exact List.filter_sublist
                have : ((nodesOf false st0 .untainted view.nodes).map (·.name)).Nodup := List.Nodup.sublist (hsubl.map _) hnd
                exact (hord.map _).nodup_iff.mpr this
              exact taintLoop_oldest o (nowReal / 1000000000) cfg.taintEffect _ k' n.toNat st.taintTracker hsorted hndo
                x (hord.mem_iff.mpr hx) hxa.2 y (hord.mem_iff.mpr hy) hyok
          · left; exact hyt
    · rw [hj]; exact holds_of_noTaint _ _ (taintedNames_nil_of_count (by simp [List.countP_append, hm0, hf0, scaleUp_noTaintAdd hnd]))
    · rw [hj]; exact holds_of_noTaint _ _ (taintedNames_nil_of_count (by simp [List.countP_append, hm0, hf0]))

/-- **C08, histories.** -/
theorem C08_history (rnd : Rat → Rat) (ctl : Ctl) (s : Option CState) (es : List Event) :
    ∀ out ∈ runEvents rnd ctl s es, ∀ r ∈ out.recs, UniqueNames r.view →
      C08.holds ⟨ctl.globalDry, r.cfg, r.pre, r.preG, r.view, r.nowMock, r.nowReal⟩ r.j = true := by
  intro out ho r hr hu
  obtain ⟨o, k, h, hj⟩ := runEvents_recs rnd ctl es s out ho r hr
  rw [hj]
  exact C08_oldest rnd o k ctl.globalDry r.cfg r.pre r.preG r.view h r.nowMock r.nowReal hu

/-- **C08 (no silent skip).** The only exemption of the property is a taint write that "was attempted and failed". A node
    whose fetch succeeded and whose fetched copy carries no escalator taint always gets its write attempted: the
    journal of `AddToBeRemovedTaint` contains an UPDATE of that very object with the stamped taint appended, and the
    reported outcome is the outcome of that UPDATE — such a node is never counted as tainted without a write, whatever
    other taints (with whatever keys) it carries. (The implementation-side oracle `C08.skippedBad` is this statement.) -/
theorem C08_clean_fetch_is_written (o : Oracle) (k : Nat) (nowSec : Int) (effect : String) (c u : Node)
    (hg : (k8sGet o k c.name).val = some u) (hclean : hasTaint escKey u = false) :
    ∃ b, (⟨.updateNode { u with taints := u.taints ++ [newEscTaint nowSec effect] }, b⟩ : Entry) ∈ (addTaint o k nowSec effect c).j ∧
      (addTaint o k nowSec effect c).val = b := by
  obtain ⟨b, hj, hv⟩ := doPlain_j o (k8sGet o k c.name).k (.updateNode { u with taints := u.taints ++ [newEscTaint nowSec effect] })
  refine ⟨b, ?_, ?_⟩
  · unfold addTaint; dsimp only
    simp only [hg, hclean, Bool.false_eq_true, if_false]
    rw [hj]; simp
  · unfold addTaint; dsimp only
    simp only [hg, hclean, Bool.false_eq_true, if_false]
    exact hv

end Esc.P
