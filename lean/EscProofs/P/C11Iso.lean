/-
  C11, last clause: "enabling dry mode on one group does not change another group's actions".
-/
import EscProofs.P.C11
import EscProofs.P.C12
namespace Esc.P
open Esc Esc.Spec

/-- **C11 (dry mode of one group is invisible to the others).** In a `RunOnce`, the calls recorded for group `c` are
    those of `scanGroup` run on the global dry flag, `c`'s *own* configuration (its own `dry_mode` included), its own
    controller state, its own cached cloud group and its own view. No other group's configuration occurs on the right-hand
    side: switching `dry_mode` of another group on or off can reach `c` only through the number of calls made before `c`'s
    turn (the index `k'` at which the environment is consulted), never through what `c` decides or writes for a given
    environment. This is `C12_frame`, read for the `dryMode` field. -/
theorem C11_other_groups_dry_mode_irrelevant (rnd : Rat → Rat) (o : Oracle) (ctl : Ctl) (views : String → View)
    (hints : String → Hints) (nowMock nowReal : Int) (c : GroupCfg) (gst : GState) (pg : PGroup)
    (cs : List GroupCfg) (k : Nat) (ls : LoopState)
    (huniq : ∀ c' ∈ cs, c'.name = c.name → c' = c)
    (hcloud : ∀ c' ∈ cs, c'.name ≠ c.name → c'.cloudGroup ≠ c.cloudGroup)
    (hs : findState ls.st.groups c.name = some gst) (hp : findProv ls.st.prov c.cloudGroup = some pg)
    (hone : (cs.filter (fun c' => c' == c)).length ≤ 1) :
    ∀ r ∈ (groupLoop rnd o ctl views hints nowMock nowReal k cs ls).val.recs, r ∉ ls.recs → r.name = c.name →
      ∃ k', r.j = (scanGroup rnd o k' ctl.globalDry c
        (if autoDiscover c then { gst with minEff := pg.asg.min, maxEff := pg.asg.max } else gst) pg (views c.name) (hints c.name) nowMock nowReal).j :=
  fun r hr hnr hrn => C12_frame rnd o ctl views hints nowMock nowReal c gst pg cs k ls huniq hcloud hs hp r hr hnr hrn hone

end Esc.P
