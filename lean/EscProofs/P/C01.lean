/-
  C01 — Nodes are removed only after taint, grace period and drain conditions are met.
  Property theorems only; helper lemmas are in EscProofs/Lemmas.
-/
import EscProofs.P.GenTaintTime
import EscProofs.P.GenReap
import EscProofs.Lemmas.Run
import EscProofs.Lemmas.Classify
namespace Esc.P
open Esc Esc.Spec

/-- Every readable escalator taint value in the view is small enough for `time.Unix` not to wrap. -/
def InRange (view : View) : Prop :=
  ∀ n ∈ view.nodes, ∀ v, taintStamp? n = some v → v ≤ 2^63 - 1 - unixToInternal

/-- Executable form of `InRange`. -/
def inRangeB (view : View) : Bool :=
  view.nodes.all (fun n => match taintStamp? n with
    | none => true
    | some v => decide (v ≤ 2^63 - 1 - unixToInternal))

theorem InRange_of_inRangeB (view : View) (h : inRangeB view = true) : InRange view := by
  intro n hn v hv
  unfold inRangeB at h
  have := List.all_eq_true.mp h n hn
  simpa [hv] using this

theorem parseInt64_lower (s : String) (v : Int) (h : parseInt64 s = some v) : -(2:Int)^63 ≤ v := by
  unfold parseInt64 at h; dsimp only at h
  generalize digitsOf s.toList = ds at h
  generalize signedVal (s.toList.head? == some '-') (digitsVal ds) = r at h
  split at h
  · exact absurd h (by simp)
  · split at h
    · exact absurd h (by simp)
    · injection h with h; subst h; omega

/-- What `parseTaintTime` accepts lies in the accepted range (the guard added by the repair of finding T1). -/
theorem parseTaintTime_range (s : String) (v : Int) (h : parseTaintTime s = some v) : minTaintUnix ≤ v ∧ v ≤ maxTaintUnix := by
  unfold parseTaintTime at h
  split at h
  · simp at h
  · split at h
    · simp at h
    · rename_i hr
      injection h with h; subst h
      omega

theorem taintStamp_range (n : Node) (v : Int) (h : taintStamp? n = some v) : minTaintUnix ≤ v ∧ v ≤ maxTaintUnix := by
  unfold taintStamp? at h
  split at h
  · simp at h
  · exact parseTaintTime_range _ _ h

theorem taintStamp_lower (n : Node) (v : Int) (h : taintStamp? n = some v) : -(2:Int)^63 ≤ v := by
  have := (taintStamp_range n v h).1
  unfold minTaintUnix at this
  omega

/-- Since the repair, every readable taint time is in the range where `time.Unix` does not wrap: the hypothesis of
    the `_partial` theorems holds of every view. -/
theorem inRange_all (view : View) : InRange view := by
  intro n _ v hv
  have := (taintStamp_range n v hv).2
  unfold maxTaintUnix at this
  unfold unixToInternal
  omega

/-- Without wrap-around, Go's age is the true age clamped to the range of `time.Duration`. -/
theorem goAge_eq_clamp (now v : Int) (hlo : -(2:Int)^63 ≤ v) (hhi : v ≤ 2^63 - 1 - unixToInternal) :
    goAgeNs now v = (if trueAgeNs now v > maxDur then maxDur else if trueAgeNs now v < minDur then minDur else trueAgeNs now v) := by
  unfold goAgeNs trueAgeNs wrap64 maxDur minDur unixToInternal at *
  simp only
  have h2 : (v + 62135596800 + 2 ^ 63) % 2 ^ 64 - 2 ^ 63 = v + 62135596800 := by omega
  rw [h2]
  have h3 : (now / 1000000000 + 62135596800 - (v + 62135596800)) * 1000000000 + now % 1000000000 = now - v * 1000000000 := by omega
  rw [h3]

theorem goAge_gt (now v s : Int) (hs : 0 ≤ s) (hlo : -(2:Int)^63 ≤ v) (hhi : v ≤ 2^63 - 1 - unixToInternal)
    (h : goAgeNs now v > s) : trueAgeNs now v > s := by
  rw [goAge_eq_clamp now v hlo hhi] at h
  unfold maxDur minDur at h
  split at h
  · omega
  · split at h <;> omega

/-- Candidates of the force reaper are eligible under clause (c). -/
theorem forceCand_eligible {globalDry : Bool} {cfg : GroupCfg} {st0 : GState} {g : PGroup} {view : View} {nowMock nowReal : Int}
    {n : Node} (hn : n ∈ forceCands (globalDry || cfg.dryMode) view.pods (nodesOf (globalDry || cfg.dryMode) st0 .force view.nodes)) :
    n ∈ view.nodes ∧ eligible ⟨globalDry, cfg, st0, g, view, nowMock, nowReal⟩ n = true := by
  unfold forceCands at hn
  split at hn
  · simp at hn
  · rename_i hdry
    have hdry' : (globalDry || cfg.dryMode) = false := by simpa using hdry
    rw [List.mem_filter] at hn
    obtain ⟨hmem, hempty⟩ := hn
    rw [hdry'] at hmem
    obtain ⟨hin, hcl⟩ := nodesOf_mem hmem
    obtain ⟨hu, hf⟩ := classify_force hcl
    refine ⟨hin, ?_⟩
    unfold eligible
    simp [hu, hf, hempty]

/-- Candidates of the grace reaper are eligible under clause (a) or (b), if their stamp is in range. -/
theorem reaperCand_eligible {globalDry : Bool} {cfg : GroupCfg} {st0 : GState} {g : PGroup} {view : View} {nowMock nowReal : Int}
    (hsoft : 0 ≤ cfg.softNs) (hhard : 0 ≤ cfg.hardNs) (hr : InRange view)
    {n : Node} (hn : n ∈ reaperCands (globalDry || cfg.dryMode) cfg view.pods nowMock (nodesOf (globalDry || cfg.dryMode) st0 .tainted view.nodes)) :
    n ∈ view.nodes ∧ eligible ⟨globalDry, cfg, st0, g, view, nowMock, nowReal⟩ n = true := by
  unfold reaperCands at hn
  split at hn
  · simp at hn
  · rename_i hdry
    have hdry' : (globalDry || cfg.dryMode) = false := by simpa using hdry
    rw [List.mem_filter] at hn
    obtain ⟨hmem, hcond⟩ := hn
    rw [hdry'] at hmem
    obtain ⟨hin, hcl⟩ := nodesOf_mem hmem
    obtain ⟨hu, _, _⟩ := classify_tainted hcl
    refine ⟨hin, ?_⟩
    simp only [Bool.and_eq_true] at hcond
    obtain ⟨_, hg⟩ := hcond
    unfold graceExpired at hg
    unfold eligible
    cases hst : taintStamp? n with
    | none => simp [hst] at hg
    | some v =>
      simp only [hst, Bool.and_eq_true, decide_eq_true_eq, Bool.or_eq_true] at hg
      have hlo := taintStamp_lower n v hst
      have hhi := hr n hin v hst
      have hs := goAge_gt nowMock v cfg.softNs hsoft hlo hhi hg.1
      simp only [hu, Bool.not_false, Bool.true_and, Bool.or_eq_true, Bool.and_eq_true, decide_eq_true_eq]
      right
      rcases hg.2 with he | hh
      · left; exact ⟨hs, he⟩
      · right; exact goAge_gt nowMock v cfg.hardNs hhard hlo hhi hh

/-- **C01, one scan** (partial: taint values within the range where `time.Unix` does not wrap; see
    `C01_full_fails`). Whatever the configuration (with non-negative grace periods), controller
    state, provider state, view, clocks, ordering hints and environment responses, every terminate
    or delete call of the scan is backed by an eligible node of the view. -/
theorem C01_scan_partial (rnd : Rat → Rat) (o : Oracle) (k : Nat) (globalDry : Bool) (cfg : GroupCfg) (st0 : GState)
    (g : PGroup) (view : View) (h : Hints) (nowMock nowReal : Int)
    (hsoft : 0 ≤ cfg.softNs) (hhard : 0 ≤ cfg.hardNs) (hr : InRange view) :
    C01.holds ⟨globalDry, cfg, st0, g, view, nowMock, nowReal⟩
      (scanGroup rnd o k globalDry cfg st0 g view h nowMock nowReal).j = true := by
  unfold C01.holds
  rw [List.all_eq_true]
  intro e he
  have := scanGroup_entries rnd o k globalDry cfg st0 g view h nowMock nowReal e he
  cases this with
  | metrics n hn b => rfl
  | force hf => exact removalEntry_backed (c := ⟨globalDry, cfg, st0, g, view, nowMock, nowReal⟩) (fun n hn => forceCand_eligible hn) hf
  | reap hf => exact removalEntry_backed (c := ⟨globalDry, cfg, st0, g, view, nowMock, nowReal⟩) (fun n hn => reaperCand_eligible hsoft hhard hr hn) hf
  | taint hd c hc ha => cases ha <;> rfl
  | up hd hu =>
    cases hu with
    | untaint c hc hh hdl => cases hdl <;> rfl
    | increase hi => exact increase_not_removal hi

/-- The context a recorded group scan started from. -/
def ctxOfRec (globalDry : Bool) (r : GroupRec) : Ctx := ⟨globalDry, r.cfg, r.pre, r.preG, r.view, r.nowMock, r.nowReal⟩

/-- **C01, histories** (partial, same range hypothesis, stated per scan). For every history of
    scans and restarts — any clocks, any views, any environment responses, any controller state the
    history leads to, restarts at any scan boundary — every removal call of every group scan is
    backed by a node that is eligible in *that* scan's view at *that* scan's clock. -/
theorem C01_history_partial (rnd : Rat → Rat) (ctl : Ctl) (s : Option CState) (es : List Event)
    (hcfg : ∀ c ∈ ctl.cfgs, 0 ≤ c.softNs ∧ 0 ≤ c.hardNs) :
    ∀ out ∈ runEvents rnd ctl s es, ∀ r ∈ out.recs, r.cfg ∈ ctl.cfgs → InRange r.view →
      C01.holds (ctxOfRec ctl.globalDry r) r.j = true := by
  intro out ho r hr hc hrange
  obtain ⟨o, k, h, hj⟩ := runEvents_recs rnd ctl es s out ho r hr
  rw [hj]
  exact C01_scan_partial rnd o k ctl.globalDry r.cfg r.pre r.preG r.view h r.nowMock r.nowReal (hcfg _ hc).1 (hcfg _ hc).2 hrange

/-- **C01, one scan, in full** (since the repair of T1: `GetToBeRemovedTime` refuses values outside the years
    1–9999, so no readable taint time can wrap). Whatever the configuration (with non-negative grace periods),
    controller state, provider state, view — any taint values whatsoever —, clocks, ordering hints and environment
    responses, every terminate or delete call of the scan is backed by an eligible node of the view. -/
theorem C01_scan (rnd : Rat → Rat) (o : Oracle) (k : Nat) (globalDry : Bool) (cfg : GroupCfg) (st0 : GState)
    (g : PGroup) (view : View) (h : Hints) (nowMock nowReal : Int)
    (hsoft : 0 ≤ cfg.softNs) (hhard : 0 ≤ cfg.hardNs) :
    C01.holds ⟨globalDry, cfg, st0, g, view, nowMock, nowReal⟩
      (scanGroup rnd o k globalDry cfg st0 g view h nowMock nowReal).j = true :=
  C01_scan_partial rnd o k globalDry cfg st0 g view h nowMock nowReal hsoft hhard (inRange_all view)

/-- **C01, histories, in full.** For every history of scans and restarts, every removal call of every group scan is
    backed by a node that is eligible in that scan's view at that scan's clock. -/
theorem C01_history (rnd : Rat → Rat) (ctl : Ctl) (s : Option CState) (es : List Event)
    (hcfg : ∀ c ∈ ctl.cfgs, 0 ≤ c.softNs ∧ 0 ≤ c.hardNs) :
    ∀ out ∈ runEvents rnd ctl s es, ∀ r ∈ out.recs, r.cfg ∈ ctl.cfgs →
      C01.holds (ctxOfRec ctl.globalDry r) r.j = true :=
  fun out ho r hr hc => C01_history_partial rnd ctl s es hcfg out ho r hr hc (inRange_all r.view)

/-- A node whose taint time cannot be read (absent or unparsable) and that is not force-tainted is
    not eligible, so by the theorems above no removal call can be justified by it. -/
theorem C01_unreadable (c : Ctx) (n : Node) (h1 : taintStamp? n = none) (h2 : hasTaint forceKey n = false) :
    eligible c n = false := by
  unfold eligible; simp [h1, h2]

/-- An untainted node is not eligible. -/
theorem C01_untainted (c : Ctx) (n : Node) (h1 : hasTaint escKey n = false) (h2 : hasTaint forceKey n = false) :
    eligible c n = false := by
  apply C01_unreadable c n _ h2
  unfold taintStamp? escTaint?
  have : n.taints.find? (fun t => t.key == escKey) = none := by
    rw [List.find?_eq_none]
    unfold hasTaint at h1
    intro t ht hk
    have := List.any_eq_false.mp h1 t ht
    simp [hk] at this
  simp [this]

/-- A cordoned node is never eligible. -/
theorem C01_cordoned (c : Ctx) (n : Node) (h : n.unschedulable = true) : eligible c n = false := by
  unfold eligible; simp [h]

/-! ### The witness of the former finding T1 (now a regression example) -/

def wNode : Node :=
  { name := "n1"
    providerID := "aws:///az/i-1"
    labels := []
    annotations := []
    taints := [⟨escKey, "9223372036854775807", "NoSchedule"⟩]
    unschedulable := false
    created := 0
    allocCPU := 1000
    allocMem := 1000
    extra := "" }
def wNode2 : Node := { wNode with name := "n2", providerID := "aws:///az/i-2", taints := [] }
def wCfg : GroupCfg :=
  { name := "g", labelKey := "k", labelValue := "v", cloudGroup := "asg", minNodes := 0, maxNodes := 5, dryMode := false
    scaleOnStarve := false, upper := 40, lower := 20, scaleUp := 70, slow := 0, fast := 0, softNs := 60000000000
    hardNs := 600000000000, coolNs := 60000000000, maxAgeNs := 0, taintEffect := "", aws := ⟨"", "", 0, "", [], false⟩ }
def wSt : GState :=
  { lock := ⟨false, 0, none⟩, scaleDelta := 0, lastScaleOut := none, cachedCPU := 0, cachedMem := 0, taintTracker := []
    forceTaintTracker := [], minEff := 0, maxEff := 5 }
def wG : PGroup := ⟨"asg", ⟨"asg", 0, 5, 2, [⟨"i-1", "az"⟩, ⟨"i-2", "az"⟩], "s", false⟩, 0⟩
def wView : View := ⟨[], [wNode, wNode2]⟩
def wO : Oracle := fun _ _ => .ok
def wNow : Int := 1790000000000000000

/-- The witness of the former finding T1 — a taint value of 2⁶³−1, ~292 billion years in the *future*, which
    `time.Unix` used to wrap into the distant past so that the node was terminated and deleted at once — is now
    unreadable: the scan removes nothing. -/
theorem C01_T1_witness_repaired :
    (scanGroup id wO 0 false wCfg wSt wG wView ⟨[], []⟩ wNow wNow).j = [] ∧
    C01.holds ⟨false, wCfg, wSt, wG, wView, wNow, wNow⟩ (scanGroup id wO 0 false wCfg wSt wG wView ⟨[], []⟩ wNow wNow).j = true := by
  constructor <;> decide +kernel

/-- Why the guard is needed: without it Go's age computation wraps for that value (the age comes out as the
    maximal duration although the recorded time is in the future). -/
theorem goAge_wraps_without_guard : goAgeNs wNow 9223372036854775807 = maxDur ∧ trueAgeNs wNow 9223372036854775807 < 0 := by
  constructor <;> decide +kernel

/-! ### Non-vacuity -/

def vNode (name id value : String) (extraTaints : List Taint) : Node :=
  { wNode with name := name, providerID := "aws:///az/" ++ id, taints := extraTaints ++ [⟨escKey, value, "NoSchedule"⟩] }
/-- soft-expired and empty (a), hard-expired and busy (b), force-tainted and empty (c), fresh (kept). -/
def vView : View :=
  ⟨[{ name := "p", nodeName := "b", nodeSelector := [], affinity := none, ownerKinds := [], annotations := [], containers := [⟨100, 100⟩],
      initContainers := [], overhead := ⟨0, 0⟩, phase := "Running", scheduled := some true }],
   [vNode "a" "i-1" "1789999900" [], vNode "b" "i-2" "1789990000" [],
    { wNode with name := "c", providerID := "aws:///az/i-3", taints := [⟨forceKey, "x", "NoSchedule"⟩] },
    vNode "d" "i-4" "1789999990" [], wNode2]⟩
def vG : PGroup := ⟨"asg", ⟨"asg", 0, 9, 5, [⟨"i-1", "az"⟩, ⟨"i-2", "az"⟩, ⟨"i-3", "az"⟩, ⟨"i-4", "az"⟩], "s", false⟩, 0⟩
def vSt : GState := { wSt with maxEff := 9 }

/-- The hypotheses of `C01_scan_partial` are satisfiable by a scan that removes three nodes, one
    through each clause, and the conclusion holds on it. -/
example :
    InRange vView ∧ 0 ≤ wCfg.softNs ∧ 0 ≤ wCfg.hardNs ∧
    ((scanGroup id wO 0 false wCfg vSt vG vView ⟨[], []⟩ wNow wNow).j.map (fun e => e.call)) =
      [.terminateInAsg "i-3" true, .deleteNode "c", .terminateInAsg "i-1" true, .terminateInAsg "i-2" true,
       .deleteNode "a", .deleteNode "b"] ∧
    C01.holds ⟨false, wCfg, vSt, vG, vView, wNow, wNow⟩ (scanGroup id wO 0 false wCfg vSt vG vView ⟨[], []⟩ wNow wNow).j = true := by
  exact ⟨InRange_of_inRangeB _ (by decide +kernel), by decide, by decide, by decide +kernel, by decide +kernel⟩

end Esc.P
