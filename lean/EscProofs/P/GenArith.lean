/-
  Tie B for the arithmetic of pkg/controller/util.go: the definitions under `Esc.Gen` (Arith.lean) are REGENERATED from
  the Go source on every run by extract/arith.go; the theorems below prove them equal to the hand-written model
  `Esc.calcPercent` / `Esc.calcScaleUpDelta` (lean/Esc/Arith.lean) for every rounding function and every input. Every
  theorem about the model's arithmetic (C05, C05Float, C06, C06Float, C13) is thereby a theorem about what the translator
  read in the source — not only about what the `arith` stream sampled.
-/
import Esc.Arith
import Esc.Gen.Arith
namespace Esc.P
open Esc

/-- The triple `calcPercentUsage` returns, for each outcome of the model. -/
def pctTriple : Pct → Gen.F × Gen.F × Bool
  | .vals c m => (.fin c, .fin m, false)
  | .sentinel => (.maxFloat, .maxFloat, false)
  | .err => (.fin 0, .fin 0, true)

/-- **Tie B, `calcPercentUsage`.** What the translator read in util.go computes, for every rounding function and all
    milli values, exactly the model's `calcPercent`. -/
theorem gen_calcPercentUsage_eq (rnd : Rat → Rat) (cpuReq memReq cpuCap memCap n : Int) :
    Gen.calcPercentUsage rnd cpuReq memReq cpuCap memCap n = pctTriple (calcPercent rnd cpuReq memReq cpuCap memCap n) := by
  unfold Gen.calcPercentUsage calcPercent pctTriple pct1 Gen.allEqual
  by_cases h0 : cpuReq = 0 ∧ memReq = 0 ∧ cpuCap = 0 ∧ memCap = 0 ∧ n = 0
  · obtain ⟨h1, h2, h3, h4, h5⟩ := h0
    simp [h1, h2, h3, h4, h5]
  · have hall : ([cpuReq, memReq, cpuCap, memCap, n].all fun x => decide (x = 0)) = false := by
      simp only [List.all_cons, List.all_nil, Bool.and_true, Bool.and_eq_false_iff, decide_eq_false_iff_not]
      by_cases a : cpuReq = 0 <;> by_cases b : memReq = 0 <;> by_cases c : cpuCap = 0 <;> by_cases d : memCap = 0 <;>
        by_cases e : n = 0 <;> simp_all
    simp only [hall, if_neg h0]
    by_cases hc : cpuCap = 0 ∨ memCap = 0
    · have : (decide (cpuCap = 0) || decide (memCap = 0)) = true := by simpa using hc
      simp only [this, if_pos hc]
      by_cases hn : n = 0 <;> simp [hn]
    · have : (decide (cpuCap = 0) || decide (memCap = 0)) = false := by
        simp only [Bool.or_eq_false_iff, decide_eq_false_iff_not]; exact ⟨fun h => hc (Or.inl h), fun h => hc (Or.inr h)⟩
      simp [this, if_neg hc]

/-- `calcPercentUsage` never returns the sentinel for one resource only: the mixed case of `calcScaleUpDelta`'s test
    (`cpuPercent == MaxFloat64 || memPercent == MaxFloat64`) does not arise. -/
theorem gen_calcPercentUsage_sentinel_both (rnd : Rat → Rat) (cpuReq memReq cpuCap memCap n : Int) :
    ((Gen.calcPercentUsage rnd cpuReq memReq cpuCap memCap n).1 = .maxFloat ↔
     (Gen.calcPercentUsage rnd cpuReq memReq cpuCap memCap n).2.1 = .maxFloat) := by
  rw [gen_calcPercentUsage_eq]
  cases calcPercent rnd cpuReq memReq cpuCap memCap n <;> simp [pctTriple]

private theorem tail_eq (d : Int) : (if decide (d < 0) = true then (d, true) else (d, false)) = (d, decide (d < 0)) := by
  by_cases h : d < 0 <;> simp [h]

/-- **Tie B, `calcScaleUpDelta`, ordinary percentages.** -/
theorem gen_calcScaleUpDelta_vals (rnd : Rat → Rat) (n : Int) (c m : Rat) (cpuReq memReq cachedCPU cachedMem T : Int) :
    Gen.calcScaleUpDelta rnd n (.fin c) (.fin m) cpuReq memReq cachedCPU cachedMem T =
      ((calcScaleUpDelta rnd n (.vals c m) cpuReq memReq cachedCPU cachedMem T).delta,
       (calcScaleUpDelta rnd n (.vals c m) cpuReq memReq cachedCPU cachedMem T).err) := by
  simp only [Gen.calcScaleUpDelta, calcScaleUpDelta, neededFromPct, Gen.F.val]
  simp only [reduceCtorEq, decide_false, Bool.or_self, Bool.false_eq_true, if_false]
  exact tail_eq _

/-- **Tie B, `calcScaleUpDelta`, from zero** (both percentages are the sentinel). -/
theorem gen_calcScaleUpDelta_sentinel (rnd : Rat → Rat) (n : Int) (cpuReq memReq cachedCPU cachedMem T : Int) :
    Gen.calcScaleUpDelta rnd n .maxFloat .maxFloat cpuReq memReq cachedCPU cachedMem T =
      ((calcScaleUpDelta rnd n .sentinel cpuReq memReq cachedCPU cachedMem T).delta,
       (calcScaleUpDelta rnd n .sentinel cpuReq memReq cachedCPU cachedMem T).err) := by
  simp only [Gen.calcScaleUpDelta, calcScaleUpDelta, neededFromZero]
  by_cases hc : cachedCPU = 0 ∨ cachedMem = 0
  · have : (decide (cachedCPU = 0) || decide (cachedMem = 0)) = true := by simpa using hc
    simp [this, hc]
  · have : (decide (cachedCPU = 0) || decide (cachedMem = 0)) = false := by
      simp only [Bool.or_eq_false_iff, decide_eq_false_iff_not]; exact ⟨fun h => hc (Or.inl h), fun h => hc (Or.inr h)⟩
    simp only [this, if_neg hc]
    simp only [decide_true, Bool.or_self, if_true, Bool.false_eq_true, if_false]
    exact tail_eq _

/-- Nothing of util.go was left untranslated, and `allEqual` was read as "every value equals the first argument". -/
theorem gen_arith_translation_complete : Gen.numArithUnknown = 0 ∧ Gen.allEqualRead = true := by decide

end Esc.P
