/-
  `TryDeleteNodes` (pkg/controller/scale_down.go) as translated on every run (`Esc.Gen.tryDelete`, Gen/TryDelete.lean;
  extract/reap.go, genTryDelete): the look-up of the cloud group and the two `DeleteNodes` calls are parameters (what they
  returned), each call is recorded. The ordering clause of C19 — and with it C01's "terminates … or deletes a Node object only
  for …" being about one and the same candidate list — is decided by this skeleton, for all inputs.
-/
import Esc.Gen.TryDelete
namespace Esc.P
open Esc

/-- **C19 on the source: Node objects are deleted from Kubernetes only after the cloud accepted the termination of the entire
    batch.** The Kubernetes call is made iff there is a candidate, the cloud group is known, the cloud call was made and returned
    no error; with no candidate nothing is called; an error of either call (or an unknown group) is returned to the caller, who
    gets 0; success returns minus the number of nodes. -/
theorem C19_source_delete_order (count : Int) (groupFound cloudErr k8sErr : Bool) :
    let r := Gen.tryDelete count groupFound cloudErr k8sErr
    (r.2.2.2 = true ↔ (count > 0 ∧ groupFound = true ∧ cloudErr = false)) ∧
    (r.2.2.2 = true → r.2.2.1 = true) ∧
    (r.2.2.1 = true ↔ (count > 0 ∧ groupFound = true)) ∧
    (r.2.1 = true ↔ (count > 0 ∧ (groupFound = false ∨ cloudErr = true ∨ k8sErr = true))) ∧
    (r.2.1 = true → r.1 = 0) ∧ (r.2.1 = false → r.1 = -count) := by
  intro r
  simp only [r, Gen.tryDelete]
  by_cases h : count > 0 <;> cases groupFound <;> cases cloudErr <;> cases k8sErr <;> simp [h]

theorem gen_tryDelete_translation_complete : Gen.numTryDeleteUnknown = 0 := by decide

end Esc.P
