/-
  C16 — Start-up validation admits only configurations that are safe to run.
  The definitions under `Esc.Gen` are REGENERATED from /repo on every run (extract/): deleting or
  weakening a validation conjunct in the source breaks `C16_sound` below.
-/
import EscProofs.P.Assemble
import Esc.Gen.Validate
import Esc.Gen.Keys
namespace Esc.P
open Esc Esc.Gen

/-- What the property demands of an accepted configuration (written from the property statement,
    independently of the source). -/
structure Safe (c : RawCfg) : Prop where
  name : c.name ≠ ""
  labelKey : c.labelKey ≠ ""
  labelValue : c.labelValue ≠ ""
  cloudGroup : c.cloudGroup ≠ ""
  thresholds : 0 < c.lower ∧ c.lower < c.upper ∧ c.upper < c.scaleUp
  rates : 0 ≤ c.slow ∧ c.slow ≤ c.fast
  grace : 0 < c.softNs ∧ c.softNs < c.hardNs
  cool : 0 < c.coolNs
  bounds : (0 ≤ c.minNodes ∧ c.minNodes < c.maxNodes) ∨ (c.minNodes = 0 ∧ c.maxNodes = 0)
  effect : c.taintEffect = "" ∨ c.taintEffect ∈ ["NoSchedule", "NoExecute", "PreferNoSchedule"]
  lifecycle : c.lifecycle = "" ∨ c.lifecycle = "on-demand" ∨ c.lifecycle = "spot"
  maxNodeAge : c.maxNodeAgeParses = true

theorem length_pos_ne_empty (s : String) (h : (0 : Int) < (s.length : Int)) : s ≠ "" := by
  intro he; subst he; simp at h

theorem length_zero_eq_empty (s : String) (h : (s.length : Int) = 0) : s = "" := by
  have : s.length = 0 := by omega
  exact String.length_eq_zero_iff.mp this

/-- **C16 (soundness of validation).** Every configuration the (current) validator accepts is safe. -/
theorem C16_sound (c : RawCfg) (h : validate c = true) : Safe c := by
  unfold validate checks at h
  simp only [List.all_cons, List.all_nil, Bool.and_true, Bool.and_eq_true, id, decide_eq_true_eq, Bool.or_eq_true,
    Bool.not_eq_true', Bool.not_eq_false'] at h
  obtain ⟨h1, h2, h3, h4, h5, h6, h7, h8, h9, h10, h11, h12, h13, h14, h15, h16, h17, h18, h19, h20, h21, h22, h23, h24⟩ := h
  have hauto : autoDiscover c = true ↔ (c.minNodes = 0 ∧ c.maxNodes = 0) := by
    unfold autoDiscover; simp
  refine ⟨length_pos_ne_empty _ h1, length_pos_ne_empty _ h2, length_pos_ne_empty _ h3, length_pos_ne_empty _ h4,
    ⟨h6, h8, h9⟩, ⟨h13, h14⟩, ⟨h17, h19⟩, h21, ?_, ?_, ?_, h24⟩
  · by_cases ha : autoDiscover c = true
    · right; exact hauto.mp ha
    · left
      have ha' : autoDiscover c = false := by simpa using ha
      rcases h10 with h | h
      · rw [ha'] at h; cases h
      · rcases h12 with h' | h'
        · rw [ha'] at h'; cases h'
        · exact ⟨h', h⟩
  · unfold validTaintEffect at h22
    simp only [Bool.or_eq_true, beq_iff_eq, List.contains_eq_mem, decide_eq_true_eq] at h22
    rcases h22 with h | h
    · left; exact length_zero_eq_empty _ h
    · right
      revert h
      unfold taintEffects
      simp only [List.mem_cons, List.mem_nil_iff, or_false]
      rintro (h | h | h) <;> simp [h]
  · unfold validAWSLifecycle at h23
    simp only [Bool.or_eq_true, beq_iff_eq] at h23
    rcases h23 with (h | h) | h
    · left; exact length_zero_eq_empty _ h
    · right; left; rw [h]; rfl
    · right; right; rw [h]; rfl

/-- **C16 at start-up.** The program starts on a configuration file only if every node group in it passes validation
    (`cmd/main.go` `setupNodeGroups`; tied to the built program by the `startup` stream, duplicate names and invalid
    entries in any position included) — so every group it starts with is safe. -/
theorem C16_startup_sound (cs : List RawCfg) (h : cs.all validate = true) : ∀ c ∈ cs, Safe c :=
  fun c hc => C16_sound c (List.all_eq_true.mp h c hc)

/-- The translator understood every construct of the validator (none was replaced by `unknown`). -/
theorem C16_translation_complete : numUnknown = 0 := by decide

/-- Non-vacuity: the documented example configuration is accepted (and therefore safe). -/
def exampleCfg : RawCfg :=
  { name := "shared", labelKey := "customer", labelValue := "shared", cloudGroup := "shared-nodes", minNodes := 1, maxNodes := 30,
    upper := 40, lower := 10, scaleUp := 70, slow := 2, fast := 5, softStr := "1m", hardStr := "10m", coolStr := "2m",
    softNs := 60000000000, hardNs := 600000000000, coolNs := 120000000000, maxAgeNs := 86400000000000, taintEffect := "NoExecute",
    lifecycle := "on-demand", maxNodeAge := "24h", maxNodeAgeParses := true }
example : validate exampleCfg = true := by decide

/-! ### option keys -/

def jsonKeys : List String := optionKeys.map (fun r => r.2.1)
def awsJsonKeys : List String := awsOptionKeys.map (fun r => r.2.1)

/-- The json keys of the options (which is what the YAML-or-JSON decoder uses for both syntaxes) are
    pairwise distinct, at both levels. -/
theorem C16_keys_distinct : jsonKeys.Nodup ∧ awsJsonKeys.Nodup := by decide

/-- **C16 (documented keys, partial).** Every key of the documented example configuration other than
    `scale_up_cool_down_timeout` is the json key of an option field. -/
theorem C16_keys_partial :
    (docExampleKeys.filter (· != "scale_up_cool_down_timeout")).all (fun k => jsonKeys.contains k) = true ∧
    docExampleAwsKeys.all (fun k => awsJsonKeys.contains k) = true := by decide

/-- The full statement fails: `scale_up_cool_down_timeout` is documented but no option decodes it
    (finding T4). -/
theorem C16_keys_full_fails : docExampleKeys.all (fun k => jsonKeys.contains k) = false := by decide

end Esc.P
