/-
  C05 — Scale-up size is sufficient and at most one node above the minimum needed.
  Layer L0 (exact arithmetic, `rnd = id`): the formula is exactly the minimal sufficient node count.
  The float layer is tied to Go bit-for-bit by the `arith` stream (model `rne64`); see DESIGN.md §4.
-/
import Mathlib.Tactic.FieldSimp
import Mathlib.Tactic.Ring
import Mathlib.Tactic.Linarith
import Mathlib.Algebra.Order.Field.Rat
import Esc.Spec
namespace Esc.P
open Esc

theorem ceil_sub_int (x : Rat) (n : Int) : (x - (n : Rat)).ceil = x.ceil - n := by
  have := Rat.ceil_add_intCast (x := x) (y := -n)
  simp only [Int.cast_neg] at this
  rw [← sub_eq_add_neg] at this
  rw [this]; ring

/-- **C05 (exact formula).** With exact arithmetic, for `n > 0` untainted nodes of equal size `s`
    (so capacity `n·s`), request `R` and threshold `T`, the node count after the scale-up,
    `n + ⌈n·((pct − T)/T)⌉` with `pct = 100·R/(n·s)`, is `⌈100·R/(s·T)⌉`. -/
theorem C05_exact_formula (n s T R : Int) (hn : 0 < n) (hs : 0 < s) (hT : 0 < T) :
    n + neededFromPct id n (pct1 id R (n * s)) T = ((100 * R : Int) / ((s * T : Int) : Rat) : Rat).ceil := by
  unfold neededFromPct pct1
  simp only [id]
  have hn' : (n : Rat) ≠ 0 := by exact_mod_cast hn.ne'
  have hs' : (s : Rat) ≠ 0 := by exact_mod_cast hs.ne'
  have hT' : (T : Rat) ≠ 0 := by exact_mod_cast hT.ne'
  have key : (n : Rat) * ((((R : Rat) / ((n * s : Int) : Rat)) * 100 - (T : Rat)) / (T : Rat)) =
      ((100 * R : Int) : Rat) / ((s * T : Int) : Rat) - (n : Rat) := by
    push_cast
    field_simp
  rw [key, ceil_sub_int]
  ring

/-- **C05 (sufficient and minimal).** `N = ⌈100·R/(s·T)⌉` nodes of size `s` put the request `R` at or
    below `T` percent (`100·R ≤ N·s·T`), and no smaller count does. -/
theorem C05_ceil_sufficient_minimal (R s T N : Int) (hs : 0 < s) (hT : 0 < T)
    (hN : N = ((100 * R : Int) / ((s * T : Int) : Rat) : Rat).ceil) :
    100 * R ≤ N * (s * T) ∧ ∀ M : Int, M < N → M * (s * T) < 100 * R := by
  have hst : (0 : Rat) < ((s * T : Int) : Rat) := by
    have : 0 < s * T := Int.mul_pos hs hT
    exact_mod_cast this
  constructor
  · have h := Rat.le_ceil (x := ((100 * R : Int) / ((s * T : Int) : Rat) : Rat))
    rw [← hN] at h
    have h2 : ((100 * R : Int) : Rat) ≤ (N : Rat) * ((s * T : Int) : Rat) := (div_le_iff₀ hst).mp h
    exact_mod_cast h2
  · intro M hM
    rw [hN] at hM
    have h := (Rat.lt_ceil_iff (x := ((100 * R : Int) / ((s * T : Int) : Rat) : Rat)) (y := M)).mp hM
    have h2 : (M : Rat) * ((s * T : Int) : Rat) < ((100 * R : Int) : Rat) := (lt_div_iff₀ hst).mp h
    exact_mod_cast h2

/-- Both resources: the delta is the larger of the two needs, so the resulting count is sufficient for
    both and minimal for the binding one. -/
theorem C05_delta_is_max (n : Int) (c m : Rat) (cpuReq memReq cachedCPU cachedMem T : Int) :
    (calcScaleUpDelta id n (.vals c m) cpuReq memReq cachedCPU cachedMem T).delta =
      max (neededFromPct id n c T) (neededFromPct id n m T) := rfl

/-- **C05 (from zero, exact).** Scaling up from zero untainted nodes uses the last observed node size:
    `⌈100·R/(c·T)⌉` with exact arithmetic … -/
theorem C05_from_zero_exact (R c T : Int) (hc : 0 < c) (hT : 0 < T) :
    neededFromZero id R c T = ((100 * R : Int) / ((c * T : Int) : Rat) : Rat).ceil := by
  unfold neededFromZero
  simp only [id]
  have hc' : (c : Rat) ≠ 0 := by exact_mod_cast hc.ne'
  have hT' : (T : Rat) ≠ 0 := by exact_mod_cast hT.ne'
  congr 1
  push_cast
  field_simp

/-- … and exactly one node when no node was ever observed. -/
theorem C05_from_zero_no_cache (rnd : Rat → Rat) (n cpuReq memReq cachedCPU cachedMem T : Int)
    (h : cachedCPU = 0 ∨ cachedMem = 0) :
    calcScaleUpDelta rnd n .sentinel cpuReq memReq cachedCPU cachedMem T = ⟨1, false⟩ := by
  unfold calcScaleUpDelta
  simp [h]

/-- Non-vacuity / sanity: 7000m requested on 4 nodes of 1000m at 70 % needs 10 nodes: delta 6. -/
example : (calcScaleUpDelta id 4 (calcPercent id 7000 0 4000 4000 4) 7000 0 1000 1000 70).delta = 6 := by
  decide +kernel

end Esc.P

namespace Esc.P
open Esc

/-- **The full sufficiency statement fails under float64 rounding (finding T2).** 426 nodes of
    4 249 870 139 392 000 milli-bytes, 3 420 210 490 779 894 000 milli-bytes requested, threshold 18 %:
    the binary64 pipeline (`rne64`, bit-exact with Go) yields 4045 although 4046 more nodes are needed. -/
theorem C05_float_short_witness :
    (calcScaleUpDelta rne64 426 (calcPercent rne64 1 3420210490779894000 1000 (426 * 4249870139392000) 426)
        1 3420210490779894000 0 0 18).delta = 4045 ∧
    ((100 * 3420210490779894000 : Int) / ((4249870139392000 * 18 : Int) : Rat) : Rat).ceil - 426 = 4046 := by
  constructor <;> decide +kernel

end Esc.P
