/-
  C17 — AWS scale-up requests ask for exactly the delta, within ASG bounds.
-/
import EscProofs.P.C18
namespace Esc.P
open Esc Esc.Spec

theorem mkOverrides_types (subnets types : List String) :
    C17.overridesOk types (mkOverrides subnets types) = true := by
  unfold mkOverrides C17.overridesOk
  rw [List.all_eq_true]
  intro ov hov
  split at hov
  · rename_i he
    simp only [List.mem_map] at hov
    obtain ⟨s, _, rfl⟩ := hov
    simp [he]
  · rename_i hne
    simp only [List.mem_flatMap, List.mem_map] at hov
    obtain ⟨s, _, t, ht, rfl⟩ := hov
    simp [hne, ht]

/-- `createFleetInput` asks for exactly `d`, all-or-nothing, instant, default lifecycle on-demand. -/
theorem mkFleetReq_ok (cfg : AwsCfg) (subnets : List String) (d : Int) :
    C17.fleetReqOk cfg d (mkFleetReq cfg subnets d) = true := by
  have hov := mkOverrides_types subnets cfg.instanceTypeOverrides
  unfold C17.fleetReqOk mkFleetReq
  by_cases hl : cfg.lifecycle = "" <;> simp [hl, hov]

theorem attachPhase_fleetEntryOk {cfg : AwsCfg} {gid : String} {d : Int} {e : Entry} (h : isAttachPhaseCall gid e.call = true) :
    C17.fleetEntryOk cfg gid d e = true ∧ isFleetReq e = false := by
  unfold C17.fleetEntryOk isFleetReq
  generalize e.call = c at h ⊢
  cases c <;> simp [isAttachPhaseCall] at h ⊢ <;> exact h

theorem attachInstances_notRejected (o : Oracle) (k : Nat) (cfg : AwsCfg) (g : PGroup) (ids : List String) :
    (attachInstances o k cfg g ids).val.err ≠ .rejected := by
  unfold attachInstances; dsimp only
  split
  · split
    · simp
    · split <;> simp
  · split <;> simp

/-- Fleet mode, completely enough for C17: head, per-entry check, at most one fleet request, never
    `rejected`. -/
theorem oneShot_ok (o : Oracle) (k : Nat) (cfg : AwsCfg) (g : PGroup) (d : Int) :
    (oneShot o k cfg g d).j.head?.map (·.call) = some (Call.describeAsgs [g.id]) ∧
    (oneShot o k cfg g d).j.all (C17.fleetEntryOk cfg g.id d) = true ∧
    ((oneShot o k cfg g d).j.filter isFleetReq).length ≤ 1 ∧
    (oneShot o k cfg g d).val.err ≠ .rejected := by
  have hdesc : ∀ b, C17.fleetEntryOk cfg g.id d ⟨.describeAsgs [g.id], b⟩ = true ∧ isFleetReq ⟨.describeAsgs [g.id], b⟩ = false := by
    intro b; simp [C17.fleetEntryOk, isFleetReq]
  have hfl : ∀ s b, C17.fleetEntryOk cfg g.id d ⟨.createFleet (mkFleetReq cfg s d), b⟩ = true ∧ isFleetReq ⟨.createFleet (mkFleetReq cfg s d), b⟩ = true := by
    intro s b; simp [C17.fleetEntryOk, isFleetReq, mkFleetReq_ok]
  unfold oneShot; dsimp only
  split
  · split
    · simp [doCall_j, hdesc]
    · split
      · split
        · simp [doCall_j, hdesc, hfl, List.filter]
        · have hatt := fun k' ids => attachInstances_phase o k' cfg g ids
          refine ⟨by simp [doCall_j], ?_, ?_, attachInstances_notRejected o _ cfg g _⟩
          · simp only [doCall_j, List.all_append, List.all_cons, List.all_nil, Bool.and_true, Bool.and_eq_true]
            refine ⟨⟨(hdesc _).1, (hfl _ _).1⟩, ?_⟩
            rw [List.all_eq_true]
            exact fun e he => (attachPhase_fleetEntryOk (hatt _ _ e he)).1
          · have : ∀ k' ids, List.filter isFleetReq (attachInstances o k' cfg g ids).j = [] := by
              intro k' ids
              rw [List.filter_eq_nil_iff]
              intro e he
              simp [(attachPhase_fleetEntryOk (cfg := cfg) (d := d) (hatt k' ids e he)).2]
            simp [doCall_j, List.filter_append, this, List.filter, (hdesc _).2, (hfl _ _).2]
      · simp [doCall_j, hdesc, hfl, List.filter]
  · simp [doCall_j, hdesc]

/-- **C17 (request).** For every cached group, delta and environment: a non-positive delta or one
    that would exceed the ASG maximum is rejected without any AWS call; otherwise, outside fleet
    mode, the single call is `SetDesiredCapacity(current + d)`; in fleet mode there is never a
    `SetDesiredCapacity`, and the (at most one) fleet request asks for exactly `d` instances with
    minimum target `d` (all-or-nothing), type `instant`, the configured template, the default
    lifecycle `on-demand`, and overrides drawn from the configured instance types. -/
theorem C17_increase (o : Oracle) (k : Nat) (cfg : AwsCfg) (g : PGroup) (d : Int) :
    C17.increaseHolds cfg g d (increaseSize o k cfg g d).j (increaseSize o k cfg g d).val.err = true := by
  unfold C17.increaseHolds increaseSize
  by_cases h1 : d ≤ 0
  · simp [h1]
  · by_cases h2 : g.asg.desired + d > g.asg.max
    · simp [h1, h2]
    · simp only [h1, h2, decide_false, Bool.or_false, Bool.false_eq_true, if_false]
      by_cases h3 : cfg.launchTemplateID = ""
      · obtain ⟨b, hj, hv⟩ := doPlain_j o k (.setDesired g.id (g.asg.desired + d))
        simp only [h3, ne_eq, not_true_eq_false, if_false, beq_self_eq_true, if_true, hj, hv]
        cases b <;> simp
      · have hne : (cfg.launchTemplateID == "") = false := by simpa using h3
        simp only [ne_eq, h3, not_false_eq_true, if_true, hne, Bool.false_eq_true, if_false]
        obtain ⟨s1, s2, s3, s4⟩ := oneShot_ok o k cfg g d
        simp [s1, s2, s3, s4]

/-- **C17 (rejection makes no call)**, as a plain statement. -/
theorem C17_reject (o : Oracle) (k : Nat) (cfg : AwsCfg) (g : PGroup) (d : Int) (h : d ≤ 0 ∨ g.asg.desired + d > g.asg.max) :
    (increaseSize o k cfg g d).j = [] ∧ (increaseSize o k cfg g d).val.err = .rejected := by
  unfold increaseSize
  rcases h with h | h
  · simp [h]
  · by_cases h1 : d ≤ 0 <;> simp [h1, h]

/-- **C17 (never lowers).** Any `SetDesiredCapacity` issued by `IncreaseSize` asks for strictly more
    than the cached desired capacity. -/
theorem C17_never_lowers (o : Oracle) (k : Nat) (cfg : AwsCfg) (g : PGroup) (d : Int) :
    ∀ e ∈ (increaseSize o k cfg g d).j, ∀ gid v, e.call = .setDesired gid v → v > g.asg.desired := by
  intro e he gid v hc
  have hex := increaseSize_exact o k cfg g d e he
  have hpos : 0 < d := by
    unfold increaseSize at he
    split at he
    · simp at he
    · omega
  rw [hc] at hex
  simp only [isIncreaseCallExact, Bool.and_eq_true, beq_iff_eq] at hex
  omega

/-- The two API batch limits of the source (regenerated from /repo) are within what AWS accepts. -/
theorem C17_batch_limits : Gen.batchSize ≤ 20 ∧ 0 < Gen.batchSize ∧ Gen.terminateBatchSize ≤ 1000 ∧ 0 < Gen.terminateBatchSize := by
  decide

end Esc.P

namespace Esc.P
open Esc Esc.Spec

/-- The attach loop issues one call per batch of a prefix of the batch list, all accepted but
    possibly the last. -/
theorem attachBatches_calls (o : Oracle) (gid : String) : ∀ (bs : List (List String)) (k : Nat),
    ∃ m, m ≤ bs.length ∧ (attachBatches o gid k bs).j.map (·.call) = (bs.take m).map (fun b => Call.attach gid b) ∧
      (attachBatches o gid k bs).j.dropLast.all (·.ok) = true := by
  intro bs
  induction bs with
  | nil => intro k; exact ⟨0, by simp [attachBatches]⟩
  | cons b bs ih =>
    intro k
    unfold attachBatches; dsimp only
    obtain ⟨b', hj, hv⟩ := doPlain_j o k (.attach gid b)
    split
    · rename_i hok
      rw [hv] at hok; subst hok
      obtain ⟨m, hm, h1, h2⟩ := ih (doPlain o k (Call.attach gid b)).k
      generalize attachBatches o gid (doPlain o k (Call.attach gid b)).k bs = r at h1 h2
      refine ⟨m + 1, by simp; omega, by simp [hj, h1], ?_⟩
      cases hr : r.j with
      | nil => simp [hj]
      | cons e es => rw [hr] at h2; simpa [hj] using h2
    · exact ⟨1, by simp, by simp [hj], by simp [hj]⟩

theorem filter_attach_of_phase_noattach {j : Journal} (h : ∀ e ∈ j, isAttachEntry e = false) : j.filter isAttachEntry = [] := by
  rw [List.filter_eq_nil_iff]; intro e he; simp [h e he]

theorem readyLoop_noAttach (o : Oracle) (ids : List String) : ∀ (t k : Nat), ∀ e ∈ (readyLoop o ids t k).j, isAttachEntry e = false := by
  intro t
  induction t with
  | zero => intro k e he; simp [readyLoop] at he
  | succ t ih =>
    intro k e he
    unfold readyLoop at he; dsimp only at he
    split at he
    · simp [doCall_j] at he; subst he; rfl
    · simp only [List.mem_append, doCall_j, List.mem_singleton] at he
      rcases he with rfl | he
      · rfl
      · exact ih _ e he

theorem terminateChunks_noAttach (o : Oracle) : ∀ (cs : List (List String)) (k : Nat), ∀ e ∈ (terminateChunks o k cs).j, isAttachEntry e = false := by
  intro cs
  induction cs with
  | nil => intro k e he; simp [terminateChunks] at he
  | cons c cs ih =>
    intro k e he
    unfold terminateChunks at he; dsimp only at he
    obtain ⟨b, hj, _⟩ := doPlain_j o k (.terminateInstances c)
    simp only [hj, List.mem_append, List.mem_singleton] at he
    rcases he with rfl | he
    · rfl
    · exact ih _ e he

theorem terminateOrphans_noAttach (o : Oracle) (k : Nat) (g : PGroup) (ids : List String) :
    ∀ e ∈ (terminateOrphans o k g ids).j, isAttachEntry e = false := by
  intro e he
  unfold terminateOrphans at he; dsimp only at he
  split at he
  · simp at he
  · exact terminateChunks_noAttach o _ _ e he

theorem attachBatches_allAttach (o : Oracle) (gid : String) (bs : List (List String)) (k : Nat) :
    (attachBatches o gid k bs).j.filter isAttachEntry = (attachBatches o gid k bs).j := by
  rw [List.filter_eq_self]
  intro e he
  obtain ⟨m, _, hcalls, _⟩ := attachBatches_calls o gid bs k
  have : e.call ∈ (attachBatches o gid k bs).j.map (·.call) := List.mem_map_of_mem he
  rw [hcalls] at this
  simp only [List.mem_map] at this
  obtain ⟨b, _, hb⟩ := this
  unfold isAttachEntry; rw [← hb]

/-- The attach calls of a whole `attachInstancesToASG` run are exactly those of its attach loop. -/
theorem attachInstances_attachCalls (o : Oracle) (k : Nat) (cfg : AwsCfg) (g : PGroup) (ids : List String) :
    (attachInstances o k cfg g ids).j.filter isAttachEntry = [] ∨
    ∃ k', (attachInstances o k cfg g ids).j.filter isAttachEntry = (attachBatches o g.id k' (attachChunks Gen.batchSize ids.length ids)).j := by
  unfold attachInstances; dsimp only
  have hr := filter_attach_of_phase_noattach (readyLoop_noAttach o ids cfg.readyTicks k)
  split
  · right
    refine ⟨(readyLoop o ids cfg.readyTicks k).k, ?_⟩
    split
    · simp [List.filter_append, hr, attachBatches_allAttach]
    · have ht := fun k' g' i' => filter_attach_of_phase_noattach (terminateOrphans_noAttach o k' g' i')
      simp [List.filter_append, hr, ht, attachBatches_allAttach]
  · left
    have ht := fun k' g' i' => filter_attach_of_phase_noattach (terminateOrphans_noAttach o k' g' i')
    simp [List.filter_append, hr, ht]

theorem mem_dropLast_take {α} (l : List α) (m : Nat) (x : α) (h : x ∈ (l.take m).dropLast) : x ∈ l.dropLast := by
  rw [List.dropLast_eq_take, List.take_take] at h
  rw [List.dropLast_eq_take]
  refine List.take_subset_take_left l ?_ h
  simp only [List.length_take]
  omega

theorem flatten_take_prefix (l : List (List String)) (m : Nat) :
    (l.take m).flatten = l.flatten.take (l.take m).flatten.length := by
  have : l.flatten = (l.take m).flatten ++ (l.drop m).flatten := by
    rw [← List.flatten_append, List.take_append_drop]
  rw [this, List.take_left']
  rfl

/-- **C17 (attach partition).** The AttachInstances calls carry consecutive batches of the acquired
    ids, in order — so each id at most once —, at most `batchSize` ids per call, only the last batch
    shorter, every call but possibly the last accepted. For every fleet size and environment. -/
theorem C17_attach_partition (o : Oracle) (k : Nat) (cfg : AwsCfg) (g : PGroup) (ids : List String) :
    C17.attachHolds g.id ids (attachInstances o k cfg g ids).j = true := by
  unfold C17.attachHolds
  simp only
  rcases attachInstances_attachCalls o k cfg g ids with h0 | ⟨k', hk⟩
  · rw [h0]; simp
  · rw [hk]
    obtain ⟨c1, c2⟩ := attachChunks_sizes Gen.batchSize (by decide) ids.length ids (Nat.le_refl _)
    have cf := attachChunks_flatten Gen.batchSize ids.length ids
    generalize attachChunks Gen.batchSize ids.length ids = chunks at c1 c2 cf
    obtain ⟨m, hm, hcalls, hoks⟩ := attachBatches_calls o g.id chunks k'
    generalize (attachBatches o g.id k' chunks).j = j at hcalls hoks
    have hids : j.map attachIdsOf = chunks.take m := by
      have h1 : j.map attachIdsOf = (j.map (·.call)).map (fun c => match c with | .attach _ ids => ids | _ => []) := by
        rw [List.map_map]; rfl
      rw [h1, hcalls, List.map_map]
      have : ((fun c => match c with | Call.attach _ ids => ids | _ => []) ∘ fun b => Call.attach g.id b) = (id : List String → List String) := by
        funext b; rfl
      rw [this, List.map_id]
    simp only [hids, Bool.and_eq_true, List.all_eq_true, decide_eq_true_eq, beq_iff_eq]
    refine ⟨⟨⟨⟨?_, ?_⟩, ?_⟩, ?_⟩, by simpa [List.all_eq_true] using hoks⟩
    · intro e he
      have : e.call ∈ j.map (·.call) := List.mem_map_of_mem he
      rw [hcalls] at this
      simp only [List.mem_map] at this
      obtain ⟨b, _, hb⟩ := this
      rw [← hb]; simp
    · intro b hb; exact c1 b (List.mem_of_mem_take hb)
    · intro b hb; exact c2 b (mem_dropLast_take chunks m b hb)
    · rw [← cf]; exact flatten_take_prefix chunks m

end Esc.P
