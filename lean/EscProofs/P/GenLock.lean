/-
  Tie B for pkg/controller/scale_lock.go: `Esc.Gen.lockLocked`, `lockUnlock`, `lockLock` (Gen/Lock.lean) are REGENERATED from
  the three methods of `scaleLock` on every run (extract/reap.go, genLock; the call of `unlock()` inside `locked()` is spliced in)
  and proved equal to the model's `lockedNow` / `lockAfterCheck` / `unlock` / `lockWith`. C02's two halves are restated on them:
  inside the cool-down `locked()` says yes and changes nothing; once it has elapsed `locked()` says no *and leaves the lock
  released* — the lock never outlives its cool-down.
-/
import Esc.Controller
import Esc.Gen.Lock
namespace Esc.P
open Esc

/-- `time.Since(lockTime)` for the model's optional lock time: a zero `lockTime` (never locked) is older than any cool-down. -/
def sinceOf (l : Lock) (coolNs nowReal : Int) : Int :=
  match l.lockTime with
  | none => coolNs          -- any value that is not below the cool-down
  | some t => nowReal - t

/-- **Tie B, `locked()`.** Answer and lock afterwards are the model's. -/
theorem gen_lockLocked_eq (l : Lock) (coolNs nowReal : Int) :
    Gen.lockLocked (sinceOf l coolNs nowReal) coolNs l.isLocked l.requested =
      (lockedNow l coolNs nowReal, (lockAfterCheck l coolNs nowReal).isLocked, (lockAfterCheck l coolNs nowReal).requested) := by
  unfold Gen.lockLocked lockedNow lockAfterCheck lockHeld sinceOf unlock
  cases hl : l.lockTime with
  | none => cases hi : l.isLocked <;> simp [hi]
  | some t =>
    by_cases h : nowReal - t < coolNs
    · simp [h]
    · cases hi : l.isLocked <;> simp [h, hi]

/-- `locked()` never touches the lock time. -/
theorem lockAfterCheck_lockTime (l : Lock) (coolNs nowReal : Int) : (lockAfterCheck l coolNs nowReal).lockTime = l.lockTime := by
  unfold lockAfterCheck unlock; split <;> (try split) <;> rfl

/-- **Tie B, `unlock()`.** -/
theorem gen_lockUnlock_eq (l : Lock) :
    Gen.lockUnlock l.isLocked l.requested = ((unlock l).isLocked, (unlock l).requested) := by
  unfold Gen.lockUnlock unlock
  cases hi : l.isLocked <;> simp [hi]

/-- **Tie B, `lock(nodes)`.** -/
theorem gen_lockLock_eq (nodes nowReal : Int) (isLocked : Bool) (requested lockTime : Int) :
    Gen.lockLock nodes nowReal isLocked requested lockTime =
      ((lockWith nowReal nodes).isLocked, (lockWith nowReal nodes).requested, nowReal) ∧
    (lockWith nowReal nodes).lockTime = some nowReal := ⟨rfl, rfl⟩

/-- **C02 on the source.** With `since = time.Since(lockTime)`: while `since < cool-down`, `locked()` answers true and leaves
    the lock as it is (the group is skipped); as soon as `since ≥ cool-down` it answers false and the lock is released
    afterwards — whatever `isLocked` said before. -/
theorem C02_source_lock (since dur : Int) (isLocked : Bool) (requested : Int) :
    (since < dur → Gen.lockLocked since dur isLocked requested = (true, isLocked, requested)) ∧
    (¬ since < dur → (Gen.lockLocked since dur isLocked requested).1 = false ∧
                     (Gen.lockLocked since dur isLocked requested).2.1 = false) := by
  unfold Gen.lockLocked
  constructor
  · intro h; simp [h]
  · intro h; cases isLocked <;> simp [h]

/-- Taking the lock and asking again `d` nanoseconds later: held iff `d` is less than the cool-down (on the source, through the
    model's reading of the lock time `lock` stamps). -/
theorem C02_source_lock_then_locked (nodes nowReal d coolNs : Int) :
    (Gen.lockLocked (sinceOf (lockWith nowReal nodes) coolNs (nowReal + d)) coolNs true nodes).1 = decide (d < coolNs) := by
  have hs : sinceOf (lockWith nowReal nodes) coolNs (nowReal + d) = d := by
    simp only [sinceOf, lockWith]; omega
  rw [hs]
  unfold Gen.lockLocked
  by_cases h : d < coolNs <;> simp [h]

theorem gen_lock_translation_complete : Gen.numLockUnknown = 0 := by decide

end Esc.P
