/-
  The program's assembly of its configuration (`cmd/main.go`: `setupNodeGroups`, `setupCloudProvider`), model
  `Esc.assemble`. Facts used by C11 (dry mode of a group is its own switch or the master flag, whatever stands next to it
  in the file), C12 (the cloud configuration of a group is made from its own entry, and from nothing else), C16 (nothing
  is lost or invented) and C17 (the fleet ready-timeout handed to the provider).
-/
import Esc.Assemble
namespace Esc.P
open Esc

/-- **Assembly, C11.** The dry-mode predicate of the i-th assembled group is "master flag or the i-th entry's own
    switch": no other entry of the file occurs. -/
theorem assemble_dry (master : Bool) (cfgs : List ACfg) (i : Nat) (hi : i < cfgs.length) :
    (assemble master cfgs).dryOf i = (master || cfgs[i].dry) := by
  simp [assemble, Assembled.dryOf, List.getElem?_map, List.getElem?_eq_getElem hi]

/-- **Assembly, C11 (isolation).** Replacing any *other* entry of the file — switching its dry mode on or off, or anything
    else — leaves the dry-mode predicate of group i as it was. -/
theorem assemble_dry_other_entries_irrelevant (master : Bool) (cfgs : List ACfg) (i j : Nat) (c' : ACfg)
    (hi : i < cfgs.length) (hij : j ≠ i) :
    (assemble master (cfgs.set j c')).dryOf i = (assemble master cfgs).dryOf i := by
  have hi' : i < (cfgs.set j c').length := by simpa using hi
  rw [assemble_dry master _ i hi', assemble_dry master _ i hi]
  simp [hij]

/-- **Assembly, C12.** The i-th cloud configuration is a function of the i-th entry alone (`cloudOf`), carries that
    entry's node-group name and cloud-group name, and there is exactly one per entry. -/
theorem assemble_cloud_own (master : Bool) (cfgs : List ACfg) :
    (assemble master cfgs).cloud.length = cfgs.length ∧
    ∀ i (hi : i < cfgs.length), (assemble master cfgs).cloud[i]? = some (cloudOf cfgs[i]) ∧
      (cloudOf cfgs[i]).name = cfgs[i].name ∧ (cloudOf cfgs[i]).groupID = cfgs[i].cloudGroup := by
  refine ⟨by simp [assemble], fun i hi => ⟨?_, rfl, rfl⟩⟩
  simp [assemble, List.getElem?_map, List.getElem?_eq_getElem hi]

/-- **Assembly, C12 (isolation).** Replacing another entry leaves the cloud configuration of group i as it was. -/
theorem assemble_cloud_other_entries_irrelevant (master : Bool) (cfgs : List ACfg) (i j : Nat) (c' : ACfg)
    (hi : i < cfgs.length) (hij : j ≠ i) :
    (assemble master (cfgs.set j c')).cloud[i]? = (assemble master cfgs).cloud[i]? := by
  have hi' : i < (cfgs.set j c').length := by simpa using hi
  rw [((assemble_cloud_own master _).2 i hi').1, ((assemble_cloud_own master _).2 i hi).1]
  simp [hij]

/-- **Assembly, C16.** Names and dry-mode switches of the groups handed to the controller are those of the file, in file
    order: nothing is dropped, duplicated, reordered or invented. -/
theorem assemble_groups (master : Bool) (cfgs : List ACfg) :
    (assemble master cfgs).master = master ∧
    (assemble master cfgs).groups = cfgs.map (fun c => (c.name, c.dry)) := ⟨rfl, rfl⟩

/-- **Assembly, C17.** The ready-timeout handed to the provider is the documented one: one minute when the option is
    omitted, otherwise what the option string parses to. -/
theorem assemble_ready_timeout (c : ACfg) :
    (cloudOf c).timeoutNs = (if c.timeoutStr = "" then 60000000000 else c.timeoutNs) := rfl

/-- Non-vacuity: a dry group listed before a live one (the shape of seeded change C11-o) — the live group stays live. -/
example :
    let a : ACfg := { name := "a", cloudGroup := "asg-a", dry := true, ltID := "lt-1", ltVer := "", timeoutStr := "", timeoutNs := 0,
                      lifecycle := "", overrides := [], tagging := false }
    let b : ACfg := { a with name := "b", cloudGroup := "asg-b", dry := false, ltID := "" }
    (assemble false [a, b]).dryOf 0 = true ∧ (assemble false [a, b]).dryOf 1 = false ∧
    ((assemble false [a, b]).cloud.map (·.groupID)) = ["asg-a", "asg-b"] ∧
    ((assemble false [a, b]).cloud.map (·.timeoutNs)) = [60000000000, 60000000000] := by decide

end Esc.P
