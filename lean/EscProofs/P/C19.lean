/-
  C19 — AWS node removal hits only the right instances and respects the ASG minimum.
-/
import EscProofs.Lemmas.Run
import EscProofs.Lemmas.Count
namespace Esc.P
open Esc Esc.Spec

theorem termCall_congr (g g' : PGroup) (h : g'.asg.instances = g.asg.instances) (n : Node) : termCall g' n = termCall g n := by
  unfold termCall; rw [instanceIdFor_congr g g' h n]

/-- The terminate loop, completely: the calls are those of a prefix of the node list, in order, all
    for members, all accepted except possibly the last; the result says which of the three ways the
    loop ended. -/
theorem terminateLoop_spec (o : Oracle) : ∀ (ns : List Node) (k : Nat) (g : PGroup),
    let r := terminateLoop o k g ns
    let m := r.j.length
    m ≤ ns.length ∧
    r.j.map (·.call) = (ns.take m).map (termCall g) ∧
    (ns.take m).all (belongs g) = true ∧
    r.j.dropLast.all (·.ok) = true ∧
    (match r.val.err with
     | .none => m = ns.length ∧ r.j.all (·.ok) = true
     | .notInGroup => r.j.all (·.ok) = true ∧ (∃ x, ns[m]? = some x ∧ belongs g x = false)
     | .failed => (∃ e, r.j.getLast? = some e ∧ e.ok = false)
     | .refused => False) := by
  intro ns
  induction ns with
  | nil => intro k g; simp [terminateLoop]
  | cons n ns ih =>
    intro k g
    unfold terminateLoop; dsimp only
    split
    · rename_i hb
      obtain ⟨b, hj, hv⟩ := doPlain_j o k (.terminateInAsg (instanceIdFor g n) true)
      split
      · rename_i hok
        rw [hv] at hok; subst hok
        have hinst := decDesired_instances g
        obtain ⟨h1, h2, h3, h4, h5⟩ := ih (doPlain o k (Call.terminateInAsg (instanceIdFor g n) true)).k (decDesired g)
        simp only at h1 h2 h3 h4 h5
        generalize terminateLoop o (doPlain o k (Call.terminateInAsg (instanceIdFor g n) true)).k (decDesired g) ns = r at h1 h2 h3 h4 h5
        have hbel : ∀ x, belongs (decDesired g) x = belongs g x := fun x => belongs_congr g (decDesired g) hinst x
        have htc : ∀ x, termCall (decDesired g) x = termCall g x := fun x => termCall_congr g (decDesired g) hinst x
        simp only [hj, List.singleton_append, List.length_cons, List.take_succ_cons, List.map_cons, List.all_cons, hb, Bool.true_and]
        refine ⟨by omega, ?_, ?_, ?_, ?_⟩
        · rw [h2]; have : termCall (decDesired g) = termCall g := funext htc
          rw [this]; simp [termCall]
        · simpa [hbel] using h3
        · cases hr : r.j with
          | nil => simp
          | cons e es =>
            rw [hr] at h4
            simp only [List.dropLast_cons_cons, List.all_cons, Bool.true_and]
            exact h4
        · cases herr : r.val.err with
          | none => rw [herr] at h5; simp only at h5 ⊢; exact ⟨by omega, by simpa using h5.2⟩
          | notInGroup =>
            rw [herr] at h5; simp only at h5 ⊢
            obtain ⟨ha, x, hx, hbx⟩ := h5
            exact ⟨by simpa using ha, x, by simpa using hx, by rw [← hbx, hbel]⟩
          | failed =>
            rw [herr] at h5; simp only at h5 ⊢
            obtain ⟨e, he, hok⟩ := h5
            refine ⟨e, ?_, hok⟩
            cases hr : r.j with
            | nil => rw [hr] at he; simp at he
            | cons e' es => rw [hr] at he; simpa using he
          | refused => rw [herr] at h5; exact h5.elim
      · rename_i hok
        rw [hv] at hok
        have hb2 : b = false := by simpa using hok
        subst hb2
        simp [hj, termCall, hb]
    · rename_i hb
      simp only [List.length_nil, List.take_zero, List.map_nil, List.all_nil, List.dropLast_nil, Nat.zero_le, true_and]
      exact ⟨n, by simp, by simpa using hb⟩

/-- **C19 (provider).** For every cached group, node list and environment, `DeleteNodes` either
    refuses the whole request without any call (it would breach the minimum), or terminates —
    always with decrement — exactly the instances backing a prefix of the given nodes, in order,
    stopping at the first non-member (not-in-group) or at the first failed call. -/
theorem C19_delete (o : Oracle) (k : Nat) (g : PGroup) (nodes : List Node) :
    C19.deleteHolds g nodes (awsDeleteNodes o k g nodes).j (awsDeleteNodes o k g nodes).val.err = true := by
  unfold C19.deleteHolds awsDeleteNodes
  by_cases h1 : g.asg.desired ≤ g.asg.min
  · simp [h1]
  · by_cases h2 : g.asg.desired - ↑nodes.length < g.asg.min
    · simp [h1, h2]
    · simp only [h1, h2, decide_false, Bool.or_false, Bool.false_eq_true, if_false]
      obtain ⟨s1, s2, s3, s4, s5⟩ := terminateLoop_spec o nodes k g
      simp only at s1 s2 s3 s4 s5
      generalize terminateLoop o k g nodes = r at s1 s2 s3 s4 s5
      simp only [Bool.and_eq_true, decide_eq_true_eq, beq_iff_eq]
      refine ⟨⟨⟨⟨s1, s2⟩, s3⟩, s4⟩, ?_⟩
      cases herr : r.val.err with
      | none => rw [herr] at s5; simp only at s5 ⊢; simp [s5.1, s5.2]
      | notInGroup =>
        rw [herr] at s5; simp only at s5 ⊢
        obtain ⟨ha, x, hx, hbx⟩ := s5
        simp [ha, hx, hbx]
      | failed =>
        rw [herr] at s5; simp only at s5 ⊢
        obtain ⟨e, he, hok⟩ := s5
        simp [he, hok]
      | refused => rw [herr] at s5; exact s5.elim

/-- **C19 (count).** The number of terminate calls never exceeds `desired − min`. -/
theorem C19_count (o : Oracle) (k : Nat) (g : PGroup) (nodes : List Node) :
    ((awsDeleteNodes o k g nodes).j.length : Int) ≤ max 0 (g.asg.desired - g.asg.min) := by
  unfold awsDeleteNodes
  split
  · simp only [List.length_nil]; omega
  · split
    · simp only [List.length_nil]; omega
    · have := (terminateLoop_spec o nodes k g).1
      omega

/-- **C19 (refuse).** A request that would breach the minimum makes no call at all. -/
theorem C19_refuse (o : Oracle) (k : Nat) (g : PGroup) (nodes : List Node)
    (h : g.asg.desired ≤ g.asg.min ∨ g.asg.desired - nodes.length < g.asg.min) :
    (awsDeleteNodes o k g nodes).j = [] ∧ (awsDeleteNodes o k g nodes).val.err = .refused := by
  unfold awsDeleteNodes
  rcases h with h | h
  · simp [h]
  · by_cases h1 : g.asg.desired ≤ g.asg.min <;> simp [h1, h]

end Esc.P

namespace Esc.P
open Esc Esc.Spec

theorem takeWhile_append_all {α} (p : α → Bool) : ∀ (l1 l2 : List α), l1.all p = true → l2.all (fun x => !p x) = true →
    (l1 ++ l2).takeWhile p = l1 ∧ (l1 ++ l2).dropWhile p = l2 := by
  intro l1
  induction l1 with
  | nil =>
    intro l2 _ h2
    cases l2 with
    | nil => simp
    | cons x xs =>
      simp only [List.all_cons, Bool.and_eq_true, Bool.not_eq_true'] at h2
      simp [List.takeWhile, List.dropWhile, h2.1]
  | cons x xs ih =>
    intro l2 h1 h2
    simp only [List.all_cons, Bool.and_eq_true] at h1
    obtain ⟨i1, i2⟩ := ih l2 h1.2 h2
    simp [List.takeWhile, List.dropWhile, h1.1, i1, i2]

/-- The Kubernetes delete loop, completely. -/
theorem deleteNodesK8s_spec (o : Oracle) : ∀ (ns : List Node) (k : Nat),
    let r := deleteNodesK8s o k ns
    r.j.length ≤ ns.length ∧
    r.j.map (·.call) = (ns.take r.j.length).map (fun n => Call.deleteNode n.name) ∧
    r.j.dropLast.all (·.ok) = true ∧ r.j.all isDeleteEntry = true := by
  intro ns
  induction ns with
  | nil => intro k; simp [deleteNodesK8s]
  | cons n ns ih =>
    intro k
    unfold deleteNodesK8s; dsimp only
    obtain ⟨b, hj, hv⟩ := doPlain_j o k (.deleteNode n.name)
    split
    · rename_i hok
      rw [hv] at hok; subst hok
      obtain ⟨h1, h2, h3, h4⟩ := ih (doPlain o k (Call.deleteNode n.name)).k
      generalize deleteNodesK8s o (doPlain o k (Call.deleteNode n.name)).k ns = r at h1 h2 h3 h4
      simp only [hj, List.singleton_append, List.length_cons, List.take_succ_cons, List.map_cons, List.all_cons]
      refine ⟨by omega, by rw [h2], ?_, by simpa [isDeleteEntry] using h4⟩
      cases hr : r.j with
      | nil => simp
      | cons e es => rw [hr] at h3; simpa using h3
    · simp [hj, isDeleteEntry]

/-- **C19 (Kubernetes after cloud).** In one `TryDeleteNodes` batch all cloud terminations come
    first; Node objects are deleted only if every termination of the batch was accepted (so a failure
    of the k-th terminate call, for any k, leaves zero deletions), in candidate order. -/
theorem C19_k8s_after_cloud (o : Oracle) (k : Nat) (g : PGroup) (cands : List Node) :
    C19.batchHolds g cands (tryDelete o k g cands).j = true := by
  have hd := C19_delete o k g cands
  have hcount := C19_count o k g cands
  have hterm : (awsDeleteNodes o k g cands).j.all isTerminateEntry = true := by
    rw [List.all_eq_true]
    intro e he
    obtain ⟨n, _, _, b, rfl⟩ := awsDeleteNodes_entries o k g cands e he
    rfl
  have hspecJ : (awsDeleteNodes o k g cands).j.map (·.call) = (cands.take (awsDeleteNodes o k g cands).j.length).map (termCall g) := by
    unfold C19.deleteHolds at hd
    split at hd
    · simp only [Bool.and_eq_true, List.isEmpty_iff] at hd; simp [hd.1]
    · simp only [Bool.and_eq_true, decide_eq_true_eq, beq_iff_eq] at hd
      exact hd.1.1.1.2
  unfold tryDelete; dsimp only
  split
  · rename_i hemp
    have : cands = [] := by simpa using hemp
    subst this
    simp only [C19.batchHolds, List.takeWhile_nil, List.dropWhile_nil, List.all_nil, List.isEmpty_nil, Bool.true_or, List.map_nil,
      List.length_nil, List.take_zero, List.dropLast_nil, Bool.true_and, Int.natCast_zero]
    have : (0:Int) ≤ max 0 (g.asg.desired - g.asg.min) := by omega
    simp [this]
  · rename_i hne
    have hne' : cands ≠ [] := by simpa using hne
    generalize awsDeleteNodes o k g cands = a at hd hcount hterm hspecJ
    split
    · rename_i herr
      obtain ⟨d1, d2, d3, d4⟩ := deleteNodesK8s_spec o cands a.k
      generalize deleteNodesK8s o a.k cands = d at d1 d2 d3 d4
      have hnt : d.j.all (fun x => !isTerminateEntry x) = true := by
        rw [List.all_eq_true] at d4 ⊢
        intro e he
        have := d4 e he
        unfold isDeleteEntry at this
        unfold isTerminateEntry
        generalize e.call = c at this ⊢
        cases c <;> simp at this ⊢
      obtain ⟨t1, t2⟩ := takeWhile_append_all isTerminateEntry a.j d.j hterm hnt
      -- from the provider spec: success means the whole batch was accepted
      have hfull : a.j.length = cands.length ∧ a.j.all (·.ok) = true := by
        unfold C19.deleteHolds at hd
        rw [herr] at hd
        split at hd
        · simp at hd
        · simp only [Bool.and_eq_true, decide_eq_true_eq, beq_iff_eq] at hd
          exact ⟨hd.2.1, hd.2.2⟩
      unfold C19.batchHolds
      simp only [t1, t2, Bool.and_eq_true, decide_eq_true_eq, beq_iff_eq, Bool.or_eq_true, List.isEmpty_iff, Bool.not_eq_true']
      refine ⟨⟨⟨⟨⟨d4, Or.inr ⟨⟨hfull.1, hfull.2⟩, by simpa using hne'⟩⟩, d2⟩, d3⟩, hspecJ⟩, hcount⟩
    all_goals
      have ⟨t1, t2⟩ := takeWhile_append_all isTerminateEntry a.j [] hterm (by simp)
      simp only [List.append_nil] at t1 t2
      unfold C19.batchHolds
      simp only [t1, t2, List.all_nil, List.isEmpty_nil, Bool.true_or, List.map_nil, List.length_nil, List.take_zero, List.dropLast_nil,
        Bool.true_and, Bool.and_eq_true, decide_eq_true_eq, beq_iff_eq]
      exact ⟨⟨⟨trivial, trivial⟩, hspecJ⟩, hcount⟩

end Esc.P

namespace Esc.P
open Esc Esc.Spec

theorem filter_removal_tryDelete (o : Oracle) (k : Nat) (g : PGroup) (c : List Node) :
    (tryDelete o k g c).j.filter isRemovalEntry = (tryDelete o k g c).j := by
  rw [List.filter_eq_self]
  intro e he
  cases tryDelete_entries o k g c e he <;> rfl

theorem filter_removal_nil {j : Journal} (h : ∀ e ∈ j, isRemovalEntry e = false) : j.filter isRemovalEntry = [] := by
  rw [List.filter_eq_nil_iff]; intro e he; simp [h e he]

theorem scaleUp_noRemoval (o : Oracle) (k : Nat) (dry : Bool) (cfg : GroupCfg) (st : GState) (g : PGroup)
    (nowReal : Int) (hint : List Nat) (tainted : List Node) (want : Int) :
    ∀ e ∈ (scaleUp o k dry cfg st g nowReal hint tainted want).j, isRemovalEntry e = false := by
  intro e he
  obtain ⟨_, hs⟩ := scaleUp_entries o k dry cfg st g nowReal hint tainted want e he
  cases hs with
  | untaint c _ _ hd => cases hd <;> rfl
  | increase hi =>
    unfold isRemovalEntry isTerminateEntry isDeleteEntry
    generalize e.call = c at hi ⊢
    cases c <;> simp [isIncreaseCall] at hi ⊢

theorem scaleDownTaint_noRemoval (o : Oracle) (k : Nat) (dry : Bool) (cfg : GroupCfg) (st : GState) (nowSec : Int)
    (hint : List Nat) (untainted : List Node) (n : Int) :
    ∀ e ∈ (scaleDownTaint o k dry cfg st nowSec hint untainted n).j, isRemovalEntry e = false := by
  intro e he
  obtain ⟨_, c, _, ha⟩ := scaleDownTaint_entries o k dry cfg st nowSec hint untainted n e he
  cases ha <;> rfl

theorem metrics_noRemoval {mj : Journal} (h : ∀ e ∈ mj, ∃ id b, e = ⟨.describeInstances id, b⟩) : ∀ e ∈ mj, isRemovalEntry e = false := by
  intro e he; obtain ⟨id, b, rfl⟩ := h e he; rfl

/-- **C19 (controller level, ordering).** The removal calls of a whole group scan are two
    `TryDeleteNodes` batches — force-removal candidates, then grace-period candidates against the
    cached desired size as decremented by the first batch — each of which puts all cloud
    terminations first and deletes Node objects only after the entire batch was accepted. -/
theorem C19_scan_batches (rnd : Rat → Rat) (o : Oracle) (k : Nat) (globalDry : Bool) (cfg : GroupCfg) (st0 : GState)
    (g : PGroup) (view : View) (h : Hints) (nowMock nowReal : Int) :
    let dry := globalDry || cfg.dryMode
    let fc := forceCands dry view.pods (nodesOf dry st0 .force view.nodes)
    let rc := reaperCands dry cfg view.pods nowMock (nodesOf dry st0 .tainted view.nodes)
    ∃ b1 b2 g2, (scanGroup rnd o k globalDry cfg st0 g view h nowMock nowReal).j.filter isRemovalEntry = b1 ++ b2 ∧
      C19.batchHolds g fc b1 = true ∧ C19.batchHolds g2 rc b2 = true ∧ g2.asg.instances = g.asg.instances := by
  intro dry fc rc
  have hempty : ∀ g' c, C19.batchHolds g' c [] = true := by
    intro g' c
    have : (0:Int) ≤ max 0 (g'.asg.desired - g'.asg.min) := by omega
    simp [C19.batchHolds, this]
  have hshape := scanGroup_shape rnd o k globalDry cfg st0 g view h nowMock nowReal
  simp only at hshape
  rcases hshape with hj | ⟨st, _, _, hj⟩ | ⟨st, mj, hsb, hmj, hge, hj | ⟨delta, hj⟩⟩
  · exact ⟨[], [], g, by rw [hj]; rfl, hempty _ _, hempty _ _, rfl⟩
  · exact ⟨[], [], g, by rw [hj]; exact filter_removal_nil (scaleUp_noRemoval o k _ cfg st g nowReal h.new _ _), hempty _ _, hempty _ _, rfl⟩
  · exact ⟨[], [], g, by rw [hj]; exact filter_removal_nil (metrics_noRemoval hmj), hempty _ _, hempty _ _, rfl⟩
  · have hact := scanAct_shape o k dry cfg st g view.pods h nowMock nowReal
      (nodesOf dry st0 .untainted view.nodes) (nodesOf dry st0 .tainted view.nodes) (nodesOf dry st0 .force view.nodes) mj delta
    simp only at hact
    have hm := filter_removal_nil (metrics_noRemoval hmj)
    have hb1 := C19_k8s_after_cloud o k g fc
    have hg := tryDelete_g o k g fc
    generalize hf : tryDelete o k g fc = f at hact hb1 hg
    have hb2 := C19_k8s_after_cloud o f.k f.val.g rc
    rcases hact with hj2 | ⟨_, hj2 | hj2⟩ | ⟨_, hj2⟩ | ⟨_, hj2⟩
    · refine ⟨f.j, [], g, ?_, hb1, hempty _ _, rfl⟩
      rw [hj, hj2, List.filter_append, hm, ← hf, filter_removal_tryDelete]; simp only [List.nil_append, List.append_nil, List.append_assoc]; try rfl
    · refine ⟨f.j, _, f.val.g, ?_, hb1, hb2, hg.1⟩
      rw [hj, hj2, List.filter_append, List.filter_append, hm, filter_removal_tryDelete, ← hf, filter_removal_tryDelete]; simp only [List.nil_append, List.append_nil, List.append_assoc]; try rfl
    · refine ⟨f.j, _, f.val.g, ?_, hb1, hb2, hg.1⟩
      rw [hj, hj2, List.filter_append, List.filter_append, List.filter_append, hm, filter_removal_tryDelete, ← hf, filter_removal_tryDelete,
        filter_removal_nil (scaleDownTaint_noRemoval o _ _ cfg st _ h.old _ _)]; simp only [List.nil_append, List.append_nil, List.append_assoc]; try rfl
    · refine ⟨f.j, [], g, ?_, hb1, hempty _ _, rfl⟩
      rw [hj, hj2, List.filter_append, List.filter_append, hm, ← hf, filter_removal_tryDelete,
        filter_removal_nil (scaleUp_noRemoval o _ _ cfg st _ nowReal h.new _ _)]; simp only [List.nil_append, List.append_nil, List.append_assoc]; try rfl
    · refine ⟨f.j, _, f.val.g, ?_, hb1, hb2, hg.1⟩
      rw [hj, hj2, List.filter_append, List.filter_append, hm, filter_removal_tryDelete, ← hf, filter_removal_tryDelete]; simp only [List.nil_append, List.append_nil, List.append_assoc]; try rfl

/-- **C19 (not-in-group stops the controller).** If either removal batch of the acting phase ends
    with the not-in-group error, the group scan returns that error … -/
theorem C19_not_member_scan (o : Oracle) (k : Nat) (dry : Bool) (cfg : GroupCfg) (st : GState) (g : PGroup) (pods : List Pod)
    (h : Hints) (nowMock nowReal : Int) (untainted tainted force : List Node) (mj : Journal) (delta : Int) :
    let f := tryDelete o k g (forceCands dry pods force)
    let r := tryDelete o f.k f.val.g (reaperCands dry cfg pods nowMock tainted)
    (f.val.err = .notInGroup ∨ (delta ≤ 0 ∧ r.val.err = .notInGroup)) →
    (scanAct o k dry cfg st g pods h nowMock nowReal untainted tainted force mj delta).val.err = .notInGroup := by
  intro f r hcase
  simp only [f, r] at hcase
  unfold scanAct; dsimp only
  rcases hcase with hf | ⟨hd, hr⟩
  · simp [hf]
  · split
    · rfl
    · split
      · simp [hr]
      · split
        · omega
        · simp [hr]

/-- … and `RunOnce` turns that error into a fatal outcome: later groups are not processed and the
    process exits. -/
theorem C19_not_member_fatal (rnd : Rat → Rat) (o : Oracle) (ctl : Ctl) (views : String → View) (hints : String → Hints)
    (nowMock nowReal : Int) (k : Nat) (c : GroupCfg) (cs : List GroupCfg) (ls : LoopState) (pg : PGroup) (gst : GState)
    (hp : findProv ls.st.prov c.cloudGroup = some pg) (hs : findState ls.st.groups c.name = some gst)
    (herr : (scanGroup rnd o k ctl.globalDry c
        (if autoDiscover c then { gst with minEff := pg.asg.min, maxEff := pg.asg.max } else gst) pg (views c.name) (hints c.name) nowMock nowReal).val.err = .notInGroup) :
    (groupLoop rnd o ctl views hints nowMock nowReal k (c :: cs) ls).val.outcome = .fatal "not-in-group" := by
  unfold groupLoop
  simp only [hp, hs]
  split <;> rename_i h2 <;> simp_all

end Esc.P
