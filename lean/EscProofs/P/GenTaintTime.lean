/-
  Tie B for `k8s.GetToBeRemovedTime` (pkg/k8s/taint.go): `Esc.Gen.taintTime` (Gen/TaintTime.lean) is REGENERATED on every run
  (extract/reap.go, genTaintTime; the two range constants are read from the source) and proved to be the model's `taintStamp?`.
  It feeds the reaper (`Gen.reapAppend`: `timeNil`, `timeErr`, and the second `age` is computed from).
-/
import Esc.K8s
import Esc.Gen.TaintTime
namespace Esc.P
open Esc

/-- **Tie B, `GetToBeRemovedTime`.** With `strconv.ParseInt` read as the model's `parseInt64`: a time is returned exactly when
    the model's `taintStamp?` has a value, and it is that value; an error or a nil time otherwise. -/
theorem gen_taintTime_eq (n : Node) :
    let r := match escTaint? n with
      | none => Gen.taintTime false false 0
      | some t => (match parseInt64 t.value with
          | none => Gen.taintTime true true 0
          | some v => Gen.taintTime true false v)
    (taintStamp? n = none → (r.1 = true ∨ r.2.1 = true)) ∧
    (∀ v, taintStamp? n = some v → r = (false, false, v)) := by
  unfold taintStamp? parseTaintTime
  cases he : escTaint? n with
  | none => simp [Gen.taintTime]
  | some t =>
    cases hp : parseInt64 t.value with
    | none => simp [Gen.taintTime, hp]
    | some v =>
      simp only [Gen.taintTime, minTaintUnix, maxTaintUnix, hp]
      by_cases h : v < -62135596800 ∨ v > 253402300799
      · have hb : (decide (v < -62135596800) || decide (v > 253402300799)) = true := by simpa using h
        simp only [hb, if_true]
        simp
        omega
      · have hb : (decide (v < -62135596800) || decide (v > 253402300799)) = false := by
          simp only [Bool.or_eq_false_iff, decide_eq_false_iff_not]
          exact ⟨fun h' => h (Or.inl h'), fun h' => h (Or.inr h')⟩
        simp only [hb, Bool.false_eq_true, if_false]
        simp
        omega

/-- **C01 on the source: "one whose taint time cannot be read is never removed".** A time is handed to the reaper only for a
    node that carries the escalator taint with a value that parses and lies in the years 1–9999 (where `time.Unix` does not
    wrap), and it is that value; in every other case the result is a nil time or an error — which `Gen.reapAppend` answers with
    "not appended" (`gen_reapAppend_unreadable`). -/
theorem C01_source_taint_time (hasEsc parseErr : Bool) (v : Int) :
    let r := Gen.taintTime hasEsc parseErr v
    (r.1 = false ∧ r.2.1 = false ↔ hasEsc = true ∧ parseErr = false ∧ -62135596800 ≤ v ∧ v ≤ 253402300799) ∧
    (r.1 = false → r.2.2 = v) := by
  intro r
  simp only [r, Gen.taintTime]
  cases hasEsc <;> cases parseErr <;> by_cases h1 : v < -62135596800 <;> by_cases h2 : v > 253402300799 <;>
    simp [h1, h2] <;> omega

theorem gen_taintTime_translation_complete : Gen.numTaintTimeUnknown = 0 := by decide

end Esc.P
