/-
  C09 — Cordoned nodes are never touched and never counted.
-/
import EscProofs.P.GenClassify
import EscProofs.Lemmas.Run
import EscProofs.Lemmas.Classify
namespace Esc.P
open Esc Esc.Spec

theorem nameBacked {view : View} {c : Node} {name : String} (hin : c ∈ view.nodes) (hu : c.unschedulable = false) (hn : name = c.name) :
    view.nodes.any (fun n => n.name == name && !n.unschedulable) = true := by
  rw [List.any_eq_true]
  exact ⟨c, hin, by simp [hn, hu]⟩

/-- **C09 (never touched), one scan.** Outside dry mode, every GET / UPDATE / DELETE names an
    uncordoned node of the view and every terminate is backed by one — whatever taints or
    annotations the cordoned nodes carry. -/
theorem C09_untouched (rnd : Rat → Rat) (o : Oracle) (k : Nat) (globalDry : Bool) (cfg : GroupCfg) (st0 : GState)
    (g : PGroup) (view : View) (h : Hints) (nowMock nowReal : Int) :
    C09.holds ⟨globalDry, cfg, st0, g, view, nowMock, nowReal⟩
      (scanGroup rnd o k globalDry cfg st0 g view h nowMock nowReal).j = true := by
  unfold C09.holds Ctx.dry
  cases hd : (globalDry || cfg.dryMode) with
  | true => simp
  | false =>
    simp only [Bool.false_or]
    rw [List.all_eq_true]
    intro e he
    have := scanGroup_entries rnd o k globalDry cfg st0 g view h nowMock nowReal e he
    have backed : ∀ {cands : List Node}, (∀ n ∈ cands, n ∈ view.nodes ∧ n.unschedulable = false) →
        RemovalEntry g cands e → C09.okEntry ⟨globalDry, cfg, st0, g, view, nowMock, nowReal⟩ e = true := by
      intro cands hc hr
      unfold C09.okEntry
      rw [Bool.and_eq_true]
      refine ⟨?_, removalEntry_backed (c := ⟨globalDry, cfg, st0, g, view, nowMock, nowReal⟩) (fun n hn => ⟨(hc n hn).1, by simp [(hc n hn).2]⟩) hr⟩
      cases hr with
      | terminate n hn hb b => rfl
      | delete n hn b => exact nameBacked (hc n hn).1 (hc n hn).2 rfl
    cases this with
    | metrics n hn b => rfl
    | force hf =>
      exact backed (fun n hn => by obtain ⟨_, hin, hu, _⟩ := forceCands_mem hn; exact ⟨hin, hu⟩) hf
    | reap hf =>
      exact backed (fun n hn => by obtain ⟨_, hin, hu, _⟩ := reaperCands_mem hn; exact ⟨hin, hu⟩) hf
    | taint hdry c hc ha =>
      rw [hd] at hc
      obtain ⟨hin, hcl⟩ := nodesOf_mem hc
      obtain ⟨hu, _, _⟩ := classify_untainted hcl
      unfold C09.okEntry
      cases ha with
      | get b => simp [targetName, removalBackedBy, nameBacked hin hu rfl]
      | upd u b hn hno => simp [targetName, removalBackedBy, nameBacked hin hu hn]
    | up hdry hu =>
      cases hu with
      | untaint c hc hh hdl =>
        rw [hd] at hc
        obtain ⟨hin, hcl⟩ := nodesOf_mem hc
        obtain ⟨hu, _, _⟩ := classify_tainted hcl
        unfold C09.okEntry
        cases hdl with
        | get b => simp [targetName, removalBackedBy, nameBacked hin hu rfl]
        | upd u b hn hhas => simp [targetName, removalBackedBy, nameBacked hin hu hn]
      | increase hi =>
        unfold C09.okEntry
        rw [Bool.and_eq_true]
        refine ⟨?_, increase_not_removal hi⟩
        simp only [targetName]
        generalize e.call = c at hi ⊢
        cases c <;> simp [isIncreaseCall] at hi ⊢

/-- **C09, histories**: cordon / uncordon at any point of a node's life. -/
theorem C09_history (rnd : Rat → Rat) (ctl : Ctl) (s : Option CState) (es : List Event) :
    ∀ out ∈ runEvents rnd ctl s es, ∀ r ∈ out.recs,
      C09.holds ⟨ctl.globalDry, r.cfg, r.pre, r.preG, r.view, r.nowMock, r.nowReal⟩ r.j = true := by
  intro out ho r hr
  obtain ⟨o, k, h, hj⟩ := runEvents_recs rnd ctl es s out ho r hr
  rw [hj]
  exact C09_untouched rnd o k ctl.globalDry r.cfg r.pre r.preG r.view h r.nowMock r.nowReal

/-- **C09 (never counted).** Outside dry mode a cordoned node is in none of the three working lists,
    in particular not in the untainted list whose allocatable sums up to the capacity. -/
theorem C09_uncounted (st : GState) (nodes : List Node) (n : Node) (hc : n.unschedulable = true) (c : Class)
    (hne : c ≠ .cordoned) : n ∉ nodesOf false st c nodes := by
  intro hmem
  obtain ⟨_, hcl⟩ := nodesOf_mem hmem
  unfold classify at hcl
  simp [hc] at hcl
  exact hne hcl.symm

/-- **C09 (never counted, size cache).** The node size remembered for scaling up from zero is taken
    from the first listed node that is not cordoned: it is the same whether or not the cordoned nodes
    are listed at all. -/
theorem C09_cache_uncounted (st : GState) (nodes : List Node) :
    withCache st (nodes.filter (fun n => !n.unschedulable)) = withCache st nodes := by
  unfold withCache
  have : (nodes.filter (fun n => !n.unschedulable)).find? (fun n => !n.unschedulable) = nodes.find? (fun n => !n.unschedulable) := by
    induction nodes with
    | nil => rfl
    | cons n ns ih =>
      cases hn : n.unschedulable
      · simp [List.filter_cons, hn]
      · simp [List.filter_cons, hn, ih]
  rw [this]

/-- Capacity is summed over the untainted list, which (outside dry mode) contains no cordoned node:
    it is unchanged by dropping the cordoned nodes from the listing. -/
theorem C09_lists_uncounted (st : GState) (nodes : List Node) (c : Class) (hne : c ≠ .cordoned) :
    nodesOf false st c (nodes.filter (fun n => !n.unschedulable)) = nodesOf false st c nodes := by
  unfold nodesOf
  rw [List.filter_filter]
  apply List.filter_congr
  intro n _
  cases hn : n.unschedulable
  · simp
  · have : classify false st n = .cordoned := by unfold classify; simp [hn]
    simp [this, hne.symm]

/-! ### The whole scan is blind to what a cordoned node offers -/

/-- Replace the allocatable resources of every cordoned node by arbitrary other values. -/
def reAlloc (f : Node → Int × Int) (n : Node) : Node :=
  if n.unschedulable then { n with allocCPU := (f n).1, allocMem := (f n).2 } else n

theorem reAlloc_unsched (f : Node → Int × Int) (n : Node) : (reAlloc f n).unschedulable = n.unschedulable := by
  unfold reAlloc; split <;> rfl

theorem classify_reAlloc (f : Node → Int × Int) (st : GState) (n : Node) :
    classify false st (reAlloc f n) = classify false st n := by
  unfold reAlloc
  split
  · rename_i h; unfold classify; simp [h]
  · rfl

theorem nodesOf_reAlloc (f : Node → Int × Int) (st : GState) (c : Class) (hne : c ≠ .cordoned) (nodes : List Node) :
    nodesOf false st c (nodes.map (reAlloc f)) = nodesOf false st c nodes := by
  unfold nodesOf
  induction nodes with
  | nil => rfl
  | cons n ns ih =>
    simp only [List.map_cons, List.filter_cons, classify_reAlloc]
    by_cases hc : classify false st n = c
    · have hu : n.unschedulable = false := by
        cases hn : n.unschedulable
        · rfl
        · exfalso; apply hne; rw [← hc]; unfold classify; simp [hn]
      have : reAlloc f n = n := by unfold reAlloc; simp [hu]
      simp [hc, this, ih]
    · simp [hc, ih]

theorem withCache_reAlloc (f : Node → Int × Int) (st : GState) (nodes : List Node) :
    withCache st (nodes.map (reAlloc f)) = withCache st nodes := by
  unfold withCache
  have : (nodes.map (reAlloc f)).find? (fun n => !n.unschedulable) = nodes.find? (fun n => !n.unschedulable) := by
    induction nodes with
    | nil => rfl
    | cons n ns ih =>
      simp only [List.map_cons, List.find?_cons, reAlloc_unsched]
      cases hn : n.unschedulable
      · have : reAlloc f n = n := by unfold reAlloc; simp [hn]
        simp [this]
      · simpa using ih
  rw [this]

theorem filter_map_inv {α β : Type} (r : α → α) (P : α → Bool) (G : α → β) (hP : ∀ a, P (r a) = P a) (hG : ∀ a, G (r a) = G a)
    (l : List α) : ((l.map r).filter P).map G = (l.filter P).map G := by
  induction l with
  | nil => rfl
  | cons a as ih =>
    simp only [List.map_cons, List.filter_cons, hP]
    split
    · simp only [List.map_cons, hG, ih]
    · exact ih

theorem newNodeMetrics_reAlloc (f : Node → Int × Int) (o : Oracle) (k : Nat) (st : GState) (nodes : List Node) :
    newNodeMetrics o k st (nodes.map (reAlloc f)) = newNodeMetrics o k st nodes := by
  have hc : ∀ n, (reAlloc f n).created = n.created := by intro n; unfold reAlloc; split <;> rfl
  have hp : ∀ n, (reAlloc f n).providerID = n.providerID := by intro n; unfold reAlloc; split <;> rfl
  unfold newNodeMetrics
  split
  · exact filter_map_inv (reAlloc f) _ _ (by intro a; simp only [hc, hp]) (by intro a; simp only [hp]) nodes
  · rfl

/-- **C09 (never counted, whole scan).** Outside dry mode the complete result of a group scan — decision,
    every call, new controller state, provider state — is the same whatever allocatable CPU and memory
    the cordoned nodes of the listing report. -/
theorem C09_alloc_irrelevant (rnd : Rat → Rat) (o : Oracle) (k : Nat) (cfg : GroupCfg) (st0 : GState) (g : PGroup)
    (pods : List Pod) (nodes : List Node) (h : Hints) (nowMock nowReal : Int) (f : Node → Int × Int)
    (hdry : cfg.dryMode = false) :
    scanGroup rnd o k false cfg st0 g ⟨pods, nodes.map (reAlloc f)⟩ h nowMock nowReal =
      scanGroup rnd o k false cfg st0 g ⟨pods, nodes⟩ h nowMock nowReal := by
  unfold scanGroup
  simp only [hdry, Bool.or_self, withCache_reAlloc, List.length_map]
  rw [nodesOf_reAlloc f _ .untainted (by decide), nodesOf_reAlloc f _ .tainted (by decide), nodesOf_reAlloc f _ .force (by decide)]
  unfold scanDecide
  simp only [newNodeMetrics_reAlloc]

end Esc.P
