/-
  C03 — Tainting never leaves fewer than min_nodes schedulable nodes.
-/
import EscProofs.P.GenLoopsModel
import EscProofs.P.GenLoops
import EscProofs.P.GenReap
import EscProofs.Lemmas.Run
import EscProofs.Lemmas.Count
namespace Esc.P
open Esc Esc.Spec

/-- Node names are unique in a view (Kubernetes object names are). -/
def UniqueNames (view : View) : Prop := (view.nodes.map (·.name)).Nodup

theorem find_by_name {nodes : List Node} (hnd : (nodes.map (·.name)).Nodup) {c : Node} (hc : c ∈ nodes) :
    nodes.find? (fun n => n.name == c.name) = some c := by
  induction nodes with
  | nil => cases hc
  | cons x xs ih =>
    simp only [List.map_cons, List.nodup_cons] at hnd
    rw [List.find?_cons]
    rcases List.mem_cons.mp hc with rfl | hc'
    · simp
    · have hne : x.name ≠ c.name := by
        intro heq
        exact hnd.1 (heq ▸ List.mem_map_of_mem hc')
      have hb : (x.name == c.name) = false := by simp [hne]
      simp [hb, ih hnd.2 hc']

theorem taintAdd_isOkUpdate {view : View} {e : Entry} (h : isTaintAdd view e = true) : isOkUpdate e = true := by
  unfold isTaintAdd at h
  unfold isOkUpdate
  split at h
  · rename_i heq
    simp only [Bool.and_eq_true] at h; simp [h.1.1, heq]
  · cases h

theorem countP_taintAdd_le (view : View) (j : Journal) : j.countP (isTaintAdd view) ≤ j.countP isOkUpdate :=
  List.countP_mono_left (fun _ _ h => taintAdd_isOkUpdate h)

/-- `ScaleUp` never adds the escalator taint to a node the view shows without it. -/
theorem scaleUp_noTaintAdd {view : View} (hnd : UniqueNames view) {dry : Bool} {st0 : GState} (o : Oracle) (k : Nat) (cfg : GroupCfg)
    (st : GState) (g : PGroup) (nowReal : Int) (hint : List Nat) (want : Int) :
    (scaleUp o k dry cfg st g nowReal hint (nodesOf dry st0 .tainted view.nodes) want).j.countP (isTaintAdd view) = 0 := by
  apply countP_zero_of_forall
  intro e he
  obtain ⟨hd, hs⟩ := scaleUp_entries o k dry cfg st g nowReal hint _ want e he
  cases hs with
  | untaint c hc hh hdl =>
    cases hdl with
    | get b => rfl
    | upd u b hn hhas =>
      obtain ⟨hin, _⟩ := nodesOf_mem hc
      have hf : view.nodes.find? (fun n => n.name == u.name) = some c := by rw [hn]; exact find_by_name hnd hin
      simp [isTaintAdd, hf, hh]
  | increase hi =>
    unfold isTaintAdd
    generalize e.call = c at hi ⊢
    cases c <;> simp [isIncreaseCall] at hi ⊢

theorem noUpdate_noTaintAdd {view : View} {j : Journal} (h : j.countP isOkUpdate = 0) : j.countP (isTaintAdd view) = 0 := by
  have := countP_taintAdd_le view j; omega

/-- **C03 (floor), one scan.** For every rate (also larger than the group), every effective minimum
    (configured or auto-discovered), every state, view with unique node names, clock and
    environment: if the scan puts the escalator taint on any node, then the untainted uncordoned
    nodes it saw minus the nodes it tainted is still at least the minimum. -/
theorem C03_floor (rnd : Rat → Rat) (o : Oracle) (k : Nat) (globalDry : Bool) (cfg : GroupCfg) (st0 : GState)
    (g : PGroup) (view : View) (h : Hints) (nowMock nowReal : Int) (hnd : UniqueNames view) :
    C03.holds ⟨globalDry, cfg, st0, g, view, nowMock, nowReal⟩
      (scanGroup rnd o k globalDry cfg st0 g view h nowMock nowReal).j = true := by
  unfold C03.holds untaintedCount Ctx.dry
  simp only [← List.countP_eq_length_filter]
  have zero : ∀ j : Journal, j.countP (isTaintAdd view) = 0 →
      ((j.countP (isTaintAdd view) == 0) ||
        decide ((↑(nodesOf (globalDry || cfg.dryMode) st0 Class.untainted view.nodes).length : Int) - ↑(j.countP (isTaintAdd view)) ≥ st0.minEff)) = true := by
    intro j hz; simp [hz]
  have hshape := scanGroup_shape rnd o k globalDry cfg st0 g view h nowMock nowReal
  simp only at hshape
  rcases hshape with hj | ⟨st, _, _, hj⟩ | ⟨st, mj, hsb, hmj, hge, hj | ⟨delta, hj⟩⟩
  · rw [hj]; exact zero _ (by simp)
  · rw [hj]; exact zero _ (scaleUp_noTaintAdd hnd o k cfg st g nowReal h.new _)
  · rw [hj]; exact zero _ (noUpdate_noTaintAdd (metrics_noUpdate hmj))
  · rw [hj]
    have hact := scanAct_shape o k (globalDry || cfg.dryMode) cfg st g view.pods h nowMock nowReal
      (nodesOf (globalDry || cfg.dryMode) st0 .untainted view.nodes) (nodesOf (globalDry || cfg.dryMode) st0 .tainted view.nodes)
      (nodesOf (globalDry || cfg.dryMode) st0 .force view.nodes) mj delta
    simp only at hact
    have hm0 := noUpdate_noTaintAdd (view := view) (metrics_noUpdate hmj)
    have hf0 := fun k' g' c => noUpdate_noTaintAdd (view := view) (tryDelete_noUpdate o k' g' c)
    rcases hact with hj | ⟨hneg, hj | hj⟩ | ⟨hpos, hj⟩ | ⟨hz, hj⟩
    · rw [hj]; exact zero _ (by simp [List.countP_append, hm0, hf0])
    · rw [hj]; exact zero _ (by simp [List.countP_append, hm0, hf0])
    · rw [hj]
      simp only [List.countP_append, hm0, hf0, Nat.zero_add]
      have hc := scaleDownTaint_count o
        (tryDelete o (tryDelete o k g (forceCands (globalDry || cfg.dryMode) view.pods (nodesOf (globalDry || cfg.dryMode) st0 .force view.nodes))).k
          (tryDelete o k g (forceCands (globalDry || cfg.dryMode) view.pods (nodesOf (globalDry || cfg.dryMode) st0 .force view.nodes))).val.g
          (reaperCands (globalDry || cfg.dryMode) cfg view.pods nowMock (nodesOf (globalDry || cfg.dryMode) st0 .tainted view.nodes))).k
        (globalDry || cfg.dryMode) cfg st (nowReal / 1000000000) h.old (nodesOf (globalDry || cfg.dryMode) st0 .untainted view.nodes) (-delta)
      have hle := countP_taintAdd_le view (scaleDownTaint o
        (tryDelete o (tryDelete o k g (forceCands (globalDry || cfg.dryMode) view.pods (nodesOf (globalDry || cfg.dryMode) st0 .force view.nodes))).k
          (tryDelete o k g (forceCands (globalDry || cfg.dryMode) view.pods (nodesOf (globalDry || cfg.dryMode) st0 .force view.nodes))).val.g
          (reaperCands (globalDry || cfg.dryMode) cfg view.pods nowMock (nodesOf (globalDry || cfg.dryMode) st0 .tainted view.nodes))).k
        (globalDry || cfg.dryMode) cfg st (nowReal / 1000000000) h.old (nodesOf (globalDry || cfg.dryMode) st0 .untainted view.nodes) (-delta)).j
      rw [hsb.1] at hc
      unfold clampRemove at hc
      simp only [Bool.or_eq_true, beq_iff_eq, decide_eq_true_eq]
      split at hc <;> omega
    · rw [hj]
      exact zero _ (by simp [List.countP_append, hm0, hf0, scaleUp_noTaintAdd hnd])
    · rw [hj]; exact zero _ (by simp [List.countP_append, hm0, hf0])

/-- **C03 (below minimum).** When the scan sees fewer untainted nodes than the minimum (node count
    within bounds) it adds the escalator taint to nothing: its journal is that of `ScaleUp`
    (untaint attempts, then at most the cloud increase — see C07 for the order and the amounts). -/
theorem C03_below_min (rnd : Rat → Rat) (o : Oracle) (k : Nat) (globalDry : Bool) (cfg : GroupCfg) (st0 : GState)
    (g : PGroup) (view : View) (h : Hints) (nowMock nowReal : Int) (hnd : UniqueNames view)
    (hlt : ((nodesOf (globalDry || cfg.dryMode) st0 .untainted view.nodes).length : Int) < st0.minEff) :
    (scanGroup rnd o k globalDry cfg st0 g view h nowMock nowReal).j.countP (isTaintAdd view) = 0 := by
  have hshape := scanGroup_shape rnd o k globalDry cfg st0 g view h nowMock nowReal
  simp only at hshape
  rcases hshape with hj | ⟨st, _, _, hj⟩ | ⟨st, mj, _, _, hge, _⟩
  · rw [hj]; rfl
  · rw [hj]; exact scaleUp_noTaintAdd hnd o k cfg st g nowReal h.new _
  · omega

/-- **C03 (restore).** The other half of the below-minimum clause: with a node count within `[min, max]`, fewer
    untainted nodes than the minimum and no cool-down running, the scan *is* `ScaleUp(min − untainted)` on the tainted
    nodes of this view — untainting first, newest first, and asking the cloud for the rest (`C07_order`,
    `C07_remainder`, `C07_on_top`); in particular it does not return early. -/
theorem C03_restore (rnd : Rat → Rat) (o : Oracle) (k : Nat) (globalDry : Bool) (cfg : GroupCfg) (st0 : GState)
    (g : PGroup) (view : View) (h : Hints) (nowMock nowReal : Int)
    (hne : ¬ (view.nodes.length = 0 ∧ view.pods.length = 0))
    (hmin : ¬ ((view.nodes.length : Int) < (withCache st0 view.nodes).minEff))
    (hmax : ¬ ((view.nodes.length : Int) > (withCache st0 view.nodes).maxEff))
    (hlt : ((nodesOf (globalDry || cfg.dryMode) (withCache st0 view.nodes) .untainted view.nodes).length : Int) < (withCache st0 view.nodes).minEff)
    (hfree : lockedNow (withCache st0 view.nodes).lock cfg.coolNs nowReal = false) :
    (scanGroup rnd o k globalDry cfg st0 g view h nowMock nowReal).j =
      (scaleUp o k (globalDry || cfg.dryMode) cfg
        { withCache st0 view.nodes with lock := lockAfterCheck (withCache st0 view.nodes).lock cfg.coolNs nowReal } g nowReal h.new
        (nodesOf (globalDry || cfg.dryMode) (withCache st0 view.nodes) .tainted view.nodes)
        ((withCache st0 view.nodes).minEff - (nodesOf (globalDry || cfg.dryMode) (withCache st0 view.nodes) .untainted view.nodes).length)).j ∧
    (scanGroup rnd o k globalDry cfg st0 g view h nowMock nowReal).val.branch = "min-scaleup" := by
  unfold scanGroup
  simp only [hne, hmin, hmax, hlt, hfree, if_false, if_true, Bool.false_eq_true, and_self]

/-- **C03, histories**: several scans tainting in succession each re-count what they see. -/
theorem C03_history (rnd : Rat → Rat) (ctl : Ctl) (s : Option CState) (es : List Event) :
    ∀ out ∈ runEvents rnd ctl s es, ∀ r ∈ out.recs, UniqueNames r.view →
      C03.holds ⟨ctl.globalDry, r.cfg, r.pre, r.preG, r.view, r.nowMock, r.nowReal⟩ r.j = true := by
  intro out ho r hr hu
  obtain ⟨o, k, h, hj⟩ := runEvents_recs rnd ctl es s out ho r hr
  rw [hj]
  exact C03_floor rnd o k ctl.globalDry r.cfg r.pre r.preG r.view h r.nowMock r.nowReal hu

end Esc.P
