/-
  C20 — A scan never panics or wedges on odd objects or failing APIs.

  What a theorem can carry here: every model function is total and terminates (Lean accepted the
  definitions: all loops are structural recursions, the fleet readiness wait is bounded by its tick
  budget); the ways a `RunOnce` can end are enumerated; errors confined to a node or a group do not
  stop the run; the one Go operation on the decision path that can index out of range is guarded.
  That the *implementation* does not panic or hang on odd shapes and failing calls is observed by the
  correspondence (outcome class of every scan, under injected faults), not proved.
-/
import EscProofs.P.Forever
import EscProofs.P.C12
namespace Esc.P
open Esc Esc.Spec

/-- **C20 (outcomes).** A `RunOnce` ends in exactly one of five ways, whatever the objects listed and
    whichever calls fail: normally, or fatally because of (1) the not-in-group condition, (2) the third
    consecutive failed fleet provisioning, (3) a failed refresh followed by a failed provider rebuild,
    (4) a rebuilt provider that no longer knows a configured cloud group. -/
theorem C20_outcomes (rnd : Rat → Rat) (o : Oracle) (k : Nat) (ctl : Ctl) (st : CState) (views : String → View)
    (hints : String → Hints) (nowMock nowReal : Int) :
    let out := (runOnce rnd o k ctl st views hints nowMock nowReal).val.outcome
    out = .ok ∨ out = .fatal "not-in-group" ∨ out = .fatal "fleet-strikes" ∨ out = .fatal "group-missing" ∨ out = .fatal "rebuild-failed" := by
  intro out
  simp only [out]
  unfold runOnce; dsimp only
  split
  · right; right; right; right; rfl
  · rcases C12_fatal_kinds rnd o ctl views hints nowMock nowReal ctl.cfgs _ ⟨_, [], .ok⟩ rfl with h | h | h | h
    · left; exact h
    · right; left; exact h
    · right; right; left; exact h
    · right; right; right; left; exact h

/-- **C20 (only not-in-group stops the controller — partial).** If the refresh succeeds (no rebuild
    is attempted) and no group is in fleet mode hitting its third consecutive failure, the only fatal
    outcome is not-in-group. Partial: the two other stop conditions exist in the code (findings T5,
    T8): see `C20_outcomes`. -/
theorem C20_fatal_only_partial (rnd : Rat → Rat) (o : Oracle) (k : Nat) (ctl : Ctl) (st : CState) (views : String → View)
    (hints : String → Hints) (nowMock nowReal : Int)
    (hrefresh : (refresh o k st.prov).val.isSome = true)
    (hout : (runOnce rnd o k ctl st views hints nowMock nowReal).val.outcome ≠ .ok)
    (hnf : (runOnce rnd o k ctl st views hints nowMock nowReal).val.outcome ≠ .fatal "fleet-strikes")
    (hgm : (runOnce rnd o k ctl st views hints nowMock nowReal).val.outcome ≠ .fatal "group-missing") :
    (runOnce rnd o k ctl st views hints nowMock nowReal).val.outcome = .fatal "not-in-group" := by
  have h := C20_outcomes rnd o k ctl st views hints nowMock nowReal
  simp only at h
  rcases h with h | h | h | h | h
  · exact absurd h hout
  · exact h
  · exact absurd h hnf
  · exact absurd h hgm
  · -- rebuild-failed needs a failed refresh
    exfalso
    unfold runOnce at h; dsimp only at h
    cases hr : (refresh o k st.prov).val with
    | none => rw [hr] at hrefresh; cases hrefresh
    | some p =>
      simp only [hr] at h
      rcases C12_fatal_kinds rnd o ctl views hints nowMock nowReal ctl.cfgs (refresh o k st.prov).k ⟨{ st with prov := p }, [], .ok⟩ rfl with h' | h' | h' | h' <;>
        (rw [h'] at h; simp at h)

/-- **C20 (errors are contained).** Node-count out of bounds, division by zero, a negative delta, a
    failed or refused cloud/Kubernetes call: none of them ends the run — see `C12_containment`; and a
    failed increase leaves the lock untouched (`C18_no_lock`), so the next scan proceeds normally. -/
theorem C20_contained (rnd : Rat → Rat) (o : Oracle) (ctl : Ctl) (views : String → View) (hints : String → Hints)
    (nowMock nowReal : Int) (cs : List GroupCfg) (k : Nat) (ls : LoopState)
    (h : (groupLoop rnd o ctl views hints nowMock nowReal k cs ls).val.outcome = .ok) :
    (groupLoop rnd o ctl views hints nowMock nowReal k cs ls).val.recs.map (·.name) = ls.recs.map (·.name) ++ cs.map (·.name) :=
  C12_containment rnd o ctl views hints nowMock nowReal cs k ls h

/-- **C20 (the index guard).** `GetInstance` is asked only for nodes whose provider id has at least
    five `/`-separated parts, so taking the fifth part cannot go out of range. -/
theorem C20_provider_id_guard (o : Oracle) (k : Nat) (st : GState) (nodes : List Node) :
    ∀ e ∈ newNodeMetrics o k st nodes, ∃ n ∈ nodes, providerIdWellFormed n.providerID = true ∧
      e.call = .describeInstances (instanceIdOfProviderId n.providerID) := by
  intro e he
  unfold newNodeMetrics at he
  split at he
  · simp only [List.mem_map, List.mem_filter, Bool.and_eq_true] at he
    obtain ⟨n, ⟨hn, _, hw⟩, rfl⟩ := he
    exact ⟨n, hn, hw, rfl⟩
  · simp at he

/-- The readiness wait is bounded: at most `readyTicks` status calls. -/
theorem C20_ready_bounded (o : Oracle) (ids : List String) : ∀ (t k : Nat), (readyLoop o ids t k).j.length ≤ t := by
  intro t
  induction t with
  | zero => intro k; simp [readyLoop]
  | succ t ih =>
    intro k
    unfold readyLoop; dsimp only
    split
    · simp [doCall_j]
    · have := ih (doCall o k (Call.describeStatus ids)).k
      simp [doCall_j]; omega

/-! ### The not-in-group stop is always founded -/

theorem belongs_decDesired (g : PGroup) (n : Node) : belongs (decDesired g) n = belongs g n := rfl

theorem terminateLoop_notInGroup (o : Oracle) : ∀ (nodes : List Node) (k : Nat) (g : PGroup),
    (terminateLoop o k g nodes).val.err = .notInGroup → ∃ x ∈ nodes, belongs g x = false := by
  intro nodes
  induction nodes with
  | nil => intro k g h; simp [terminateLoop] at h
  | cons n ns ih =>
    intro k g h
    unfold terminateLoop at h
    by_cases hb : belongs g n = true
    · simp only [hb, if_true] at h
      split at h
      · obtain ⟨x, hx, hbx⟩ := ih _ _ h
        exact ⟨x, List.mem_cons_of_mem _ hx, by rw [← belongs_decDesired]; exact hbx⟩
      · simp at h
    · exact ⟨n, List.mem_cons_self, by simpa using hb⟩

theorem tryDelete_notInGroup (o : Oracle) (k : Nat) (g : PGroup) (cands : List Node)
    (h : (tryDelete o k g cands).val.err = .notInGroup) : ∃ x ∈ cands, belongs g x = false := by
  unfold tryDelete at h
  split at h
  · simp at h
  · dsimp only at h
    split at h
    · split at h <;> simp at h
    · rename_i ha
      unfold awsDeleteNodes at ha
      split at ha
      · simp at ha
      · split at ha
        · simp at ha
        · exact terminateLoop_notInGroup o cands k g ha
    · simp at h

theorem scaleUp_not_notInGroup (o : Oracle) (k : Nat) (dry : Bool) (cfg : GroupCfg) (st : GState) (g : PGroup)
    (nowReal : Int) (hint : List Nat) (tainted : List Node) (want : Int) :
    (scaleUp o k dry cfg st g nowReal hint tainted want).val.err ≠ .notInGroup := by
  unfold scaleUp; dsimp only
  split
  · split
    · simp
    · split
      · simp
      · split <;> simp
  · simp

/-- **C20 (the one documented stop is founded).** Whenever the acting half of a group scan ends with the
    not-in-group error — the only error of a scan that stops the controller (`C20_outcomes`, `C19_not_member_fatal`) —
    one of its removal candidates (an empty force-tainted node, or a tainted node past its grace period) really is not
    a member of the cloud group as described at the start of the scan. An API failure, a refused request, a failed
    cloud increase can never surface as this stop. -/
theorem C20_stop_founded (o : Oracle) (k : Nat) (dry : Bool) (cfg : GroupCfg) (st : GState) (g : PGroup) (pods : List Pod)
    (h : Hints) (nowMock nowReal : Int) (untainted tainted force : List Node) (mj : Journal) (delta : Int)
    (herr : (scanAct o k dry cfg st g pods h nowMock nowReal untainted tainted force mj delta).val.err = .notInGroup) :
    ∃ x ∈ forceCands dry pods force ++ reaperCands dry cfg pods nowMock tainted, belongs g x = false := by
  have hg : ∀ x, belongs (tryDelete o k g (forceCands dry pods force)).val.g x = belongs g x := by
    intro x; unfold belongs; rw [(tryDelete_g o k g _).1]
  unfold scanAct at herr; dsimp only at herr
  split at herr
  · rename_i hf
    obtain ⟨x, hx, hb⟩ := tryDelete_notInGroup o k g _ hf
    exact ⟨x, List.mem_append_left _ hx, hb⟩
  · split at herr
    · split at herr
      · rename_i hr
        obtain ⟨x, hx, hb⟩ := tryDelete_notInGroup o _ _ _ hr
        exact ⟨x, List.mem_append_right _ hx, by rw [← hg]; exact hb⟩
      · simp at herr
    · split at herr
      · split at herr
        · simp at herr
        · rename_i hu
          exact absurd hu (scaleUp_not_notInGroup o _ dry cfg st _ nowReal h.new tainted delta)
        · simp at herr
      · split at herr
        · rename_i hr
          obtain ⟨x, hx, hb⟩ := tryDelete_notInGroup o _ _ _ hr
          exact ⟨x, List.mem_append_right _ hx, by rw [← hg]; exact hb⟩
        · simp at herr

end Esc.P
