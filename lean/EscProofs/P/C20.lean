/-
  C20 — A scan never panics or wedges on odd objects or failing APIs.

  What a theorem can carry here: every model function is total and terminates (Lean accepted the
  definitions: all loops are structural recursions, the fleet readiness wait is bounded by its tick
  budget); the ways a `RunOnce` can end are enumerated; errors confined to a node or a group do not
  stop the run; the one Go operation on the decision path that can index out of range is guarded.
  That the *implementation* does not panic or hang on odd shapes and failing calls is observed by the
  correspondence (outcome class of every scan, under injected faults), not proved.
-/
import EscProofs.P.C12
namespace Esc.P
open Esc Esc.Spec

/-- **C20 (outcomes).** A `RunOnce` ends in exactly one of five ways, whatever the objects listed and
    whichever calls fail: normally, or fatally because of (1) the not-in-group condition, (2) the third
    consecutive failed fleet provisioning, (3) a failed refresh followed by a failed provider rebuild,
    (4) a rebuilt provider that no longer knows a configured cloud group. -/
theorem C20_outcomes (rnd : Rat → Rat) (o : Oracle) (k : Nat) (ctl : Ctl) (st : CState) (views : String → View)
    (hints : String → Hints) (nowMock nowReal : Int) :
    let out := (runOnce rnd o k ctl st views hints nowMock nowReal).val.outcome
    out = .ok ∨ out = .fatal "not-in-group" ∨ out = .fatal "fleet-strikes" ∨ out = .fatal "group-missing" ∨ out = .fatal "rebuild-failed" := by
  intro out
  simp only [out]
  unfold runOnce; dsimp only
  split
  · right; right; right; right; rfl
  · rcases C12_fatal_kinds rnd o ctl views hints nowMock nowReal ctl.cfgs _ ⟨_, [], .ok⟩ rfl with h | h | h | h
    · left; exact h
    · right; left; exact h
    · right; right; left; exact h
    · right; right; right; left; exact h

/-- **C20 (only not-in-group stops the controller — partial).** If the refresh succeeds (no rebuild
    is attempted) and no group is in fleet mode hitting its third consecutive failure, the only fatal
    outcome is not-in-group. Partial: the two other stop conditions exist in the code (findings T5,
    T8): see `C20_outcomes`. -/
theorem C20_fatal_only_partial (rnd : Rat → Rat) (o : Oracle) (k : Nat) (ctl : Ctl) (st : CState) (views : String → View)
    (hints : String → Hints) (nowMock nowReal : Int)
    (hrefresh : (refresh o k st.prov).val.isSome = true)
    (hout : (runOnce rnd o k ctl st views hints nowMock nowReal).val.outcome ≠ .ok)
    (hnf : (runOnce rnd o k ctl st views hints nowMock nowReal).val.outcome ≠ .fatal "fleet-strikes")
    (hgm : (runOnce rnd o k ctl st views hints nowMock nowReal).val.outcome ≠ .fatal "group-missing") :
    (runOnce rnd o k ctl st views hints nowMock nowReal).val.outcome = .fatal "not-in-group" := by
  have h := C20_outcomes rnd o k ctl st views hints nowMock nowReal
  simp only at h
  rcases h with h | h | h | h | h
  · exact absurd h hout
  · exact h
  · exact absurd h hnf
  · exact absurd h hgm
  · -- rebuild-failed needs a failed refresh
    exfalso
    unfold runOnce at h; dsimp only at h
    cases hr : (refresh o k st.prov).val with
    | none => rw [hr] at hrefresh; cases hrefresh
    | some p =>
      simp only [hr] at h
      rcases C12_fatal_kinds rnd o ctl views hints nowMock nowReal ctl.cfgs (refresh o k st.prov).k ⟨{ st with prov := p }, [], .ok⟩ rfl with h' | h' | h' | h' <;>
        (rw [h'] at h; simp at h)

/-- **C20 (errors are contained).** Node-count out of bounds, division by zero, a negative delta, a
    failed or refused cloud/Kubernetes call: none of them ends the run — see `C12_containment`; and a
    failed increase leaves the lock untouched (`C18_no_lock`), so the next scan proceeds normally. -/
theorem C20_contained (rnd : Rat → Rat) (o : Oracle) (ctl : Ctl) (views : String → View) (hints : String → Hints)
    (nowMock nowReal : Int) (cs : List GroupCfg) (k : Nat) (ls : LoopState)
    (h : (groupLoop rnd o ctl views hints nowMock nowReal k cs ls).val.outcome = .ok) :
    (groupLoop rnd o ctl views hints nowMock nowReal k cs ls).val.recs.map (·.name) = ls.recs.map (·.name) ++ cs.map (·.name) :=
  C12_containment rnd o ctl views hints nowMock nowReal cs k ls h

/-- **C20 (the index guard).** `GetInstance` is asked only for nodes whose provider id has at least
    five `/`-separated parts, so taking the fifth part cannot go out of range. -/
theorem C20_provider_id_guard (o : Oracle) (k : Nat) (st : GState) (nodes : List Node) :
    ∀ e ∈ newNodeMetrics o k st nodes, ∃ n ∈ nodes, providerIdWellFormed n.providerID = true ∧
      e.call = .describeInstances (instanceIdOfProviderId n.providerID) := by
  intro e he
  unfold newNodeMetrics at he
  split at he
  · simp only [List.mem_map, List.mem_filter, Bool.and_eq_true] at he
    obtain ⟨n, ⟨hn, _, hw⟩, rfl⟩ := he
    exact ⟨n, hn, hw, rfl⟩
  · simp at he

/-- The readiness wait is bounded: at most `readyTicks` status calls. -/
theorem C20_ready_bounded (o : Oracle) (ids : List String) : ∀ (t k : Nat), (readyLoop o ids t k).j.length ≤ t := by
  intro t
  induction t with
  | zero => intro k; simp [readyLoop]
  | succ t ih =>
    intro k
    unfold readyLoop; dsimp only
    split
    · simp [doCall_j]
    · have := ih (doCall o k (Call.describeStatus ids)).k
      simp [doCall_j]; omega

end Esc.P
