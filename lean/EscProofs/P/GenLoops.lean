/-
  The loops of `taintOldestN` (scale_down.go) and `untaintNewestN` (scale_up.go), one iteration each as translated on every run
  (`Esc.Gen.taintStep`, `Esc.Gen.untaintStep`; Gen/Loops.lean, extract/reap.go genLoops): state = the number of nodes done so far,
  the API helpers are parameters (what they returned). Running a step function over ANY list of per-candidate outcomes — an
  induction over the list, no bound on its length — gives the counting clauses of C03/C06 ("exactly min(rate, untainted − min_nodes)
  nodes": never more than asked, every candidate tried until then) and C07 ("untaints up to N").
-/
import Esc.Gen.Loops
namespace Esc.P
open Esc

/-- Run a translated loop: fold the step over the candidates' outcomes, honouring `break`. Returns the final count. -/
def runLoop {α : Type} (step : Int → α → Bool × Int × Bool) : Int → List α → Int
  | count, [] => count
  | count, x :: xs =>
    let r := step count x
    if r.1 then count else runLoop step r.2.1 xs

/-- One step of the taint loop never lowers the count, raises it by at most one, stops exactly when the count has reached `n`,
    and raises it exactly when the node was written (not dry: the write succeeded; dry: always). -/
theorem taintStep_spec (count n : Int) (dry addErr : Bool) :
    let r := Gen.taintStep count n dry addErr
    (r.1 = true ↔ count ≥ n) ∧ (r.1 = true → r.2.1 = count) ∧
    (r.1 = false → r.2.1 = count + (if dry || !addErr then 1 else 0)) := by
  intro r
  simp only [r, Gen.taintStep]
  by_cases h : count ≥ n <;> cases dry <;> cases addErr <;> simp [h]

/-- **C03 / C06 on the source: the taint loop taints at most `n` nodes**, whatever the candidates and whichever writes fail —
    for every list of outcomes, from any starting count not above `n`. -/
theorem C06_source_taint_at_most_n (n : Int) (dry : Bool) (outcomes : List Bool) (count : Int) (h : count ≤ n) :
    count ≤ runLoop (fun c e => Gen.taintStep c n dry e) count outcomes ∧
    runLoop (fun c e => Gen.taintStep c n dry e) count outcomes ≤ n := by
  induction outcomes generalizing count with
  | nil => exact ⟨Int.le_refl _, h⟩
  | cons e es ih =>
    have sp := taintStep_spec count n dry e
    simp only [runLoop]
    by_cases hs : (Gen.taintStep count n dry e).1 = true
    · simp only [hs, if_true]; exact ⟨Int.le_refl _, h⟩
    · have hs' : (Gen.taintStep count n dry e).1 = false := by simpa using hs
      simp only [hs', Bool.false_eq_true, if_false]
      have hlt : ¬ count ≥ n := fun hc => by have := sp.1.mpr hc; rw [hs'] at this; cases this
      have hc := sp.2.2 hs'
      have hle : (Gen.taintStep count n dry e).2.1 ≤ n := by
        rw [hc]; split <;> omega
      have hge : count ≤ (Gen.taintStep count n dry e).2.1 := by
        rw [hc]; split <;> omega
      have := ih _ hle
      exact ⟨Int.le_trans hge this.1, this.2⟩

/-- **… and exactly `n` when enough writes succeed**: if every write succeeds (or the group is dry), the loop taints
    `min(n, number of candidates)` nodes — the "exactly" of C06. -/
theorem C06_source_taint_exact (n : Int) (dry : Bool) (outcomes : List Bool) (count : Int) (h : count ≤ n)
    (hall : ∀ e ∈ outcomes, dry = true ∨ e = false) :
    runLoop (fun c e => Gen.taintStep c n dry e) count outcomes = min n (count + outcomes.length) := by
  induction outcomes generalizing count with
  | nil => simp [runLoop]; omega
  | cons e es ih =>
    have sp := taintStep_spec count n dry e
    simp only [runLoop]
    by_cases hs : (Gen.taintStep count n dry e).1 = true
    · simp only [hs, if_true]
      have : count ≥ n := sp.1.mp hs
      simp only [List.length_cons]; omega
    · have hs' : (Gen.taintStep count n dry e).1 = false := by simpa using hs
      simp only [hs', Bool.false_eq_true, if_false]
      have hlt : ¬ count ≥ n := fun hc => by have := sp.1.mpr hc; rw [hs'] at this; cases this
      have hc := sp.2.2 hs'
      have hone : (if (dry || !e) = true then (1 : Int) else 0) = 1 := by
        rcases hall e (List.mem_cons_self) with hd | he
        · simp [hd]
        · simp [he]
      rw [hone] at hc
      have := ih ((Gen.taintStep count n dry e).2.1) (by rw [hc]; omega) (fun x hx => hall x (List.mem_cons_of_mem _ hx))
      rw [this, hc]; simp only [List.length_cons]; omega

/-- One step of the untaint loop: stops exactly at `n`; raises the count by one exactly when the node was handed back (not dry:
    it carries the taint and the removal succeeded; dry: the tracker had it). -/
theorem untaintStep_spec (count n : Int) (dry hasEsc delErr inTracker : Bool) :
    let r := Gen.untaintStep count n dry hasEsc delErr inTracker
    (r.1 = true ↔ count ≥ n) ∧ (r.1 = true → r.2.1 = count) ∧
    (r.1 = false → r.2.1 = count + (if (!dry && hasEsc && !delErr) || (dry && inTracker) then 1 else 0)) ∧
    (r.2.2 = true → r.1 = false) := by
  intro r
  simp only [r, Gen.untaintStep]
  by_cases h : count ≥ n <;> cases dry <;> cases hasEsc <;> cases delErr <;> cases inTracker <;> simp [h]

/-- **C07 on the source: at most `N` tainted nodes are handed back**, for every list of candidates and outcomes. -/
theorem C07_source_untaint_at_most_n (n : Int) (dry : Bool) (outcomes : List (Bool × Bool × Bool)) (count : Int) (h : count ≤ n) :
    count ≤ runLoop (fun c e => Gen.untaintStep c n dry e.1 e.2.1 e.2.2) count outcomes ∧
    runLoop (fun c e => Gen.untaintStep c n dry e.1 e.2.1 e.2.2) count outcomes ≤ n := by
  induction outcomes generalizing count with
  | nil => exact ⟨Int.le_refl _, h⟩
  | cons e es ih =>
    have sp := untaintStep_spec count n dry e.1 e.2.1 e.2.2
    simp only [runLoop]
    by_cases hs : (Gen.untaintStep count n dry e.1 e.2.1 e.2.2).1 = true
    · simp only [hs, if_true]; exact ⟨Int.le_refl _, h⟩
    · have hs' : (Gen.untaintStep count n dry e.1 e.2.1 e.2.2).1 = false := by simpa using hs
      simp only [hs', Bool.false_eq_true, if_false]
      have hlt : ¬ count ≥ n := fun hc => by have := sp.1.mpr hc; rw [hs'] at this; cases this
      have hc := sp.2.2.1 hs'
      have hle : (Gen.untaintStep count n dry e.1 e.2.1 e.2.2).2.1 ≤ n := by
        rw [hc]; split <;> omega
      have hge : count ≤ (Gen.untaintStep count n dry e.1 e.2.1 e.2.2).2.1 := by
        rw [hc]; split <;> omega
      have := ih _ hle
      exact ⟨Int.le_trans hge this.1, this.2⟩

/-- A candidate of the untaint loop is handed back: live, it carries the taint and the removal succeeds; dry, the tracker has it. -/
def untaintOk (dry : Bool) (e : Bool × Bool × Bool) : Bool := (!dry && e.1 && !e.2.1) || (dry && e.2.2)

/-- **C07 on the source, exact count**: the translated loop of `untaintNewestN` hands back exactly
    `min(N, count + number of candidates that can be handed back)` — failures and untainted candidates are walked past, the loop
    stops at `N` — for every list of candidates and outcomes (induction; subsumes `C07_source_untaint_at_most_n`). -/
theorem C07_source_untaint_exact (n : Int) (dry : Bool) (outcomes : List (Bool × Bool × Bool)) (count : Int) (h : count ≤ n) :
    runLoop (fun c e => Gen.untaintStep c n dry e.1 e.2.1 e.2.2) count outcomes
      = min n (count + (outcomes.countP (untaintOk dry) : Nat)) := by
  induction outcomes generalizing count with
  | nil => simp [runLoop]; omega
  | cons e es ih =>
    have sp := untaintStep_spec count n dry e.1 e.2.1 e.2.2
    simp only [runLoop]
    by_cases hs : (Gen.untaintStep count n dry e.1 e.2.1 e.2.2).1 = true
    · simp only [hs, if_true]
      have : count ≥ n := sp.1.mp hs
      omega
    · have hs' : (Gen.untaintStep count n dry e.1 e.2.1 e.2.2).1 = false := by simpa using hs
      simp only [hs', Bool.false_eq_true, if_false]
      have hlt : ¬ count ≥ n := fun hc => by have := sp.1.mpr hc; rw [hs'] at this; cases this
      have hc := sp.2.2.1 hs'
      have hle : (Gen.untaintStep count n dry e.1 e.2.1 e.2.2).2.1 ≤ n := by
        rw [hc]; split <;> omega
      rw [ih _ hle, hc, List.countP_cons]
      by_cases hk : untaintOk dry e = true
      · have hk' : ((!dry && e.1 && !e.2.1) || (dry && e.2.2)) = true := hk
        simp only [hk', hk, if_true]; omega
      · have hk' : ((!dry && e.1 && !e.2.1) || (dry && e.2.2)) = false := Bool.eq_false_iff.mpr hk
        have hk2 : untaintOk dry e = false := Bool.eq_false_iff.mpr hk
        simp only [hk', hk2, Bool.false_eq_true, if_false]; omega

/-- **C03 / C06 on the source, exact count with failures**: the taint loop taints exactly `min(n, count + number of candidates whose
    write succeeds)` — a failed write is walked past, not counted (subsumes `C06_source_taint_exact`). -/
theorem C06_source_taint_exact_failures (n : Int) (dry : Bool) (outcomes : List Bool) (count : Int) (h : count ≤ n) :
    runLoop (fun c e => Gen.taintStep c n dry e) count outcomes
      = min n (count + (outcomes.countP (fun e => dry || !e) : Nat)) := by
  induction outcomes generalizing count with
  | nil => simp [runLoop]; omega
  | cons e es ih =>
    have sp := taintStep_spec count n dry e
    simp only [runLoop]
    by_cases hs : (Gen.taintStep count n dry e).1 = true
    · simp only [hs, if_true]
      have : count ≥ n := sp.1.mp hs
      omega
    · have hs' : (Gen.taintStep count n dry e).1 = false := by simpa using hs
      simp only [hs', Bool.false_eq_true, if_false]
      have hlt : ¬ count ≥ n := fun hc => by have := sp.1.mpr hc; rw [hs'] at this; cases this
      have hc := sp.2.2 hs'
      have hle : (Gen.taintStep count n dry e).2.1 ≤ n := by
        rw [hc]; split <;> omega
      rw [ih _ hle, hc, List.countP_cons]
      by_cases hk : (dry || !e) = true
      · simp only [hk, if_true]; omega
      · have hk2 : (dry || !e) = false := Bool.eq_false_iff.mpr hk
        simp only [hk2, Bool.false_eq_true, if_false]; omega

/-- Non-vacuity (untaint): live group, candidates [untainted, tainted+removal fails, tainted ok, tainted ok, tainted ok], two wanted. -/
example : runLoop (fun c e => Gen.untaintStep c 2 false e.1 e.2.1 e.2.2) 0
    [(false, false, false), (true, true, false), (true, false, false), (true, false, false), (true, false, false)] = 2 := by decide

/-- Non-vacuity: three candidates, the second write fails, two wanted: the loop taints the first and the third and then stops. -/
example : runLoop (fun c e => Gen.taintStep c 2 false e) 0 [false, true, false, false] = 2 := by decide

theorem gen_loops_translation_complete : Gen.numLoopsUnknown = 0 := by decide

end Esc.P
