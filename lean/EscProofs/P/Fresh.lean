/-
  Freshness of the cloud description (C04, C07, C19: "the group's current desired size", "the cloud group's own
  maximum", "a member of the group").

  Every group scan of a `RunOnce` starts from a description of its cloud group that the cloud gave *in this very scan*:
  the answer to a `DescribeAutoScalingGroups` call made at or after the scan's first call — the refresh, or, when
  the refresh fails, the describe of the provider rebuild or the refresh after it. Nothing is carried over from an
  earlier scan for a group the cloud still reports. (A change that lets a scan work from an older description —
  swallowing a refresh error, keeping a node-group handle across a rebuild, carrying attributes over — breaks this.)
-/
import EscProofs.P.C12
import EscProofs.P.C07
import EscProofs.P.C06
namespace Esc.P
open Esc Esc.Spec

/-- The provider entry `g` for cloud group `id` is the one the answer `l` describes, if `l` describes that group at all. -/
def FreshAsg (l : List Asg) (id : String) (g : PGroup) : Prop :=
  (∃ a ∈ l, a.name = id) → g.asg ∈ l ∧ g.asg.name = id

/-! ### `Refresh` -/

theorem findProv_setProv_hit (prov : List PGroup) (g p : PGroup) (h : findProv prov g.id = some p) :
    findProv (setProv prov g) g.id = some g := by
  unfold findProv setProv at *
  induction prov with
  | nil => simp at h
  | cons q qs ih =>
    rw [List.map_cons, List.find?_cons]
    rw [List.find?_cons] at h
    by_cases hq : (q.id == g.id) = true
    · simp [hq]
    · have hq' : (q.id == g.id) = false := by simpa using hq
      simp only [hq', Bool.false_eq_true, if_false] at h ⊢
      exact ih h

/-- One step of `refreshWith`. -/
def refreshStep (acc : List PGroup) (a : Asg) : List PGroup :=
  match findProv acc a.name with
  | some p => setProv acc { p with asg := a }
  | none => acc

theorem refreshWith_eq (prov : List PGroup) (l : List Asg) : refreshWith prov l = l.foldl refreshStep prov := rfl

theorem refreshStep_hit (acc : List PGroup) (a : Asg) (p : PGroup) (hp : findProv acc a.name = some p) :
    findProv (refreshStep acc a) a.name = some { p with asg := a } := by
  have hpid : p.id = a.name := findProv_id hp
  have hh := findProv_setProv_hit acc { p with asg := a } p (by show findProv acc p.id = some p; rw [hpid]; exact hp)
  have e : ({ p with asg := a } : PGroup).id = a.name := hpid
  unfold refreshStep
  rw [hp]
  dsimp only
  rw [← e]
  exact hh

theorem refreshStep_other (acc : List PGroup) (a : Asg) (id : String) (hid : a.name ≠ id) :
    findProv (refreshStep acc a) id = findProv acc id := by
  unfold refreshStep
  split
  · rename_i p hp
    have hpid : p.id = a.name := findProv_id hp
    exact findProv_setProv_other _ _ _ (by show p.id ≠ id; rw [hpid]; exact hid)
  · rfl

theorem refreshStep_find (acc : List PGroup) (a : Asg) (id : String) (pg : PGroup)
    (h : findProv (refreshStep acc a) id = some pg) :
    (a.name = id ∧ pg.asg = a) ∨ findProv acc id = some pg := by
  by_cases hid : a.name = id
  · cases hp : findProv acc a.name with
    | none =>
      right
      unfold refreshStep at h; rw [hp] at h; exact h
    | some p =>
      left
      rw [← hid, refreshStep_hit acc a p hp] at h
      exact ⟨hid, by rw [← Option.some.inj h]⟩
  · right; rw [refreshStep_other acc a id hid] at h; exact h

theorem refreshStep_keeps (acc : List PGroup) (a : Asg) (id : String) (h : (findProv acc id).isSome = true) :
    (findProv (refreshStep acc a) id).isSome = true := by
  by_cases hid : a.name = id
  · obtain ⟨p, hp⟩ := Option.isSome_iff_exists.mp h
    rw [← hid] at hp ⊢
    rw [refreshStep_hit acc a p hp]; rfl
  · rw [refreshStep_other acc a id hid]; exact h

/-- Whatever the fold leaves for `id` is either taken from the answer or what was there before. -/
theorem refreshFold_find : ∀ (l : List Asg) (acc : List PGroup) (id : String) (pg : PGroup),
    findProv (l.foldl refreshStep acc) id = some pg →
    (pg.asg ∈ l ∧ pg.asg.name = id) ∨ findProv acc id = some pg := by
  intro l
  induction l with
  | nil => intro acc id pg h; right; simpa using h
  | cons a l ih =>
    intro acc id pg h
    rw [List.foldl_cons] at h
    rcases ih _ id pg h with h1 | h1
    · left; exact ⟨List.mem_cons_of_mem _ h1.1, h1.2⟩
    · rcases refreshStep_find acc a id pg h1 with h2 | h2
      · left; rw [h2.2]; exact ⟨List.mem_cons_self, h2.1⟩
      · right; exact h2

/-- If the answer describes the group, the entry after the refresh is taken from the answer. -/
theorem refreshFold_fresh : ∀ (l : List Asg) (acc : List PGroup) (id : String) (pg : PGroup),
    findProv (l.foldl refreshStep acc) id = some pg → (∃ a ∈ l, a.name = id) → (findProv acc id).isSome = true →
    pg.asg ∈ l ∧ pg.asg.name = id := by
  intro l
  induction l with
  | nil => intro acc id pg _ ⟨a, ha, _⟩ _; simp at ha
  | cons a l ih =>
    intro acc id pg h hex hsome
    rw [List.foldl_cons] at h
    by_cases hid : a.name = id
    · -- taken here; whatever follows either overrides it from `l` or keeps it
      rcases refreshFold_find l _ id pg h with h1 | h1
      · exact ⟨List.mem_cons_of_mem _ h1.1, h1.2⟩
      · -- nothing later in the answer names the group again: the entry is the one this step wrote
        obtain ⟨p, hp⟩ := Option.isSome_iff_exists.mp hsome
        rw [← hid] at hp h1
        rw [refreshStep_hit acc a p hp] at h1
        have : pg.asg = a := by rw [← Option.some.inj h1]
        rw [this]; exact ⟨List.mem_cons_self, hid⟩
    · have hex' : ∃ a' ∈ l, a'.name = id := by
        obtain ⟨a', ha', hn⟩ := hex
        rcases List.mem_cons.mp ha' with e | e
        · exact absurd (e ▸ hn) hid
        · exact ⟨a', e, hn⟩
      have := ih _ id pg h hex' (refreshStep_keeps acc a id hsome)
      exact ⟨List.mem_cons_of_mem _ this.1, this.2⟩

theorem refreshWith_fresh (prov : List PGroup) (l : List Asg) (id : String) (pg : PGroup)
    (h : findProv (refreshWith prov l) id = some pg) (hsome : (findProv prov id).isSome = true) : FreshAsg l id pg := by
  intro hex
  rw [refreshWith_eq] at h
  exact refreshFold_fresh l prov id pg h hex hsome

theorem refreshFold_isSome : ∀ (l : List Asg) (acc : List PGroup) (id : String),
    (findProv (l.foldl refreshStep acc) id).isSome = true → (findProv acc id).isSome = true := by
  intro l
  induction l with
  | nil => intro acc id h; simpa using h
  | cons a l ih =>
    intro acc id h
    rw [List.foldl_cons] at h
    have h1 := ih _ id h
    obtain ⟨pg, hpg⟩ := Option.isSome_iff_exists.mp h1
    rcases refreshStep_find acc a id pg hpg with h2 | h2
    · -- the step wrote it, so an entry was there
      cases hf : findProv acc id with
      | some _ => rfl
      | none =>
        exfalso
        have hnone : findProv acc a.name = none := by rw [h2.1]; exact hf
        have : refreshStep acc a = acc := by unfold refreshStep; rw [hnone]
        rw [this, hf] at hpg
        simp at hpg
    · rw [h2]; rfl

theorem refresh_some (o : Oracle) (k : Nat) (prov p' : List PGroup) (h : (refresh o k prov).val = some p') :
    ∃ l, o k (.describeAsgs (sortStrs (prov.map (·.id)))) = .asgs l ∧ p' = refreshWith prov l := by
  unfold refresh doCall at h
  dsimp only at h
  split at h
  · rename_i l hl
    exact ⟨l, hl, (Option.some.inj h).symm⟩
  · simp at h

theorem refresh_k (o : Oracle) (k : Nat) (prov : List PGroup) : (refresh o k prov).k = k + 1 := by
  unfold refresh doCall
  dsimp only
  split <;> rfl

/-! ### `Build` -/

/-- Every entry describes its own group with an element of `L`. -/
def AllFrom (L : List Asg) (prov : List PGroup) : Prop := ∀ p ∈ prov, p.asg ∈ L ∧ p.asg.name = p.id

theorem setProv_allFrom (L : List Asg) (acc : List PGroup) (g : PGroup) (h : AllFrom L acc) (hg : g.asg ∈ L ∧ g.asg.name = g.id) :
    AllFrom L (setProv acc g) := by
  intro p hp
  unfold setProv at hp
  obtain ⟨q, hq, e⟩ := List.mem_map.mp hp
  split at e
  · rw [← e]; exact hg
  · rw [← e]; exact h q hq

theorem registerNew_allFrom (o : Oracle) (cfgs : List GroupCfg) (L : List Asg) : ∀ (as : List Asg) (k : Nat) (acc : List PGroup),
    (∀ a ∈ as, a ∈ L) → AllFrom L acc → AllFrom L (registerNew o cfgs k as acc).val := by
  intro as
  induction as with
  | nil => intro k acc _ h; simpa [registerNew] using h
  | cons a as ih =>
    intro k acc hsub h
    have ha : a ∈ L := hsub a List.mem_cons_self
    have hsub' : ∀ a' ∈ as, a' ∈ L := fun a' h' => hsub a' (List.mem_cons_of_mem _ h')
    have hnew : AllFrom L (acc ++ [⟨a.name, a, 0⟩]) := by
      intro p hp
      rcases List.mem_append.mp hp with h1 | h1
      · exact h p h1
      · simp only [List.mem_singleton] at h1; subst h1; exact ⟨ha, rfl⟩
    unfold registerNew
    split
    · exact ih _ _ hsub' (setProv_allFrom L acc _ h ⟨ha, rfl⟩)
    · exact ih _ _ hsub' h
    · split
      · exact ih _ _ hsub' hnew
      · exact ih _ _ hsub' hnew

theorem registerNew_k (o : Oracle) (cfgs : List GroupCfg) : ∀ (as : List Asg) (k : Nat) (acc : List PGroup),
    k ≤ (registerNew o cfgs k as acc).k := by
  intro as
  induction as with
  | nil => intro k acc; simp [registerNew]
  | cons a as ih =>
    intro k acc
    unfold registerNew
    split
    · exact ih _ _
    · exact ih _ _
    · split
      · dsimp only
        have h1 : k ≤ (doPlain o k (.createTags a.name)).k := by unfold doPlain; split <;> simp
        exact Nat.le_trans h1 (ih _ _)
      · exact ih _ _

theorem build_some (o : Oracle) (k : Nat) (cfgs : List GroupCfg) (prov : List PGroup) (h : (build o k cfgs).val = some prov) :
    ∃ l, o k (.describeAsgs (sortStrs (cfgs.map (·.cloudGroup)))) = .asgs l ∧ AllFrom l prov := by
  unfold build doCall at h
  dsimp only at h
  split at h
  · rename_i l hl
    refine ⟨l, hl, ?_⟩
    rw [← Option.some.inj h]
    exact registerNew_allFrom o cfgs l l _ [] (fun a ha => ha) (by intro p hp; simp at hp)
  · simp at h

theorem build_k (o : Oracle) (k : Nat) (cfgs : List GroupCfg) : k ≤ (build o k cfgs).k := by
  unfold build doCall
  dsimp only
  split
  · exact Nat.le_trans (Nat.le_succ k) (registerNew_k o cfgs _ _ _)
  · exact Nat.le_succ k

theorem allFrom_fresh {l : List Asg} {prov : List PGroup} (h : AllFrom l prov) (id : String) (pg : PGroup)
    (hf : findProv prov id = some pg) : FreshAsg l id pg := by
  intro _
  have hm : pg ∈ prov := by unfold findProv at hf; exact List.mem_of_find?_eq_some hf
  have := h pg hm
  exact ⟨this.1, by rw [this.2]; exact findProv_id hf⟩

/-! ### The prologue of `RunOnce` -/

/-- `prov` describes every group it knows from an answer given at or after call `k0`. -/
def FreshProv (o : Oracle) (k0 : Nat) (prov : List PGroup) : Prop :=
  ∃ i names l, k0 ≤ i ∧ o i (.describeAsgs names) = .asgs l ∧ ∀ id pg, findProv prov id = some pg → FreshAsg l id pg

theorem refreshLoop_fresh (o : Oracle) (cfgs : List GroupCfg) (k0 : Nat) : ∀ (t k : Nat) (prov0 prov : List PGroup),
    k0 ≤ k → (t = 0 → FreshProv o k0 prov0) → (refreshLoop o cfgs t k prov0).val = some prov → FreshProv o k0 prov := by
  intro t
  induction t with
  | zero =>
    intro k prov0 prov _ h0 h
    simp only [refreshLoop] at h
    rw [← Option.some.inj h]; exact h0 rfl
  | succ t ih =>
    intro k prov0 prov hk _ h
    unfold refreshLoop at h
    dsimp only at h
    split at h
    · simp at h
    · rename_i prov' hb
      obtain ⟨l1, hl1, hall⟩ := build_some o k cfgs prov' hb
      have hfp' : FreshProv o k0 prov' := ⟨k, _, l1, hk, hl1, fun id pg hf => allFrom_fresh hall id pg hf⟩
      split at h
      · rename_i p hr
        dsimp only at h
        obtain ⟨l2, hl2, hp⟩ := refresh_some o _ prov' p hr
        rw [← Option.some.inj h]
        refine ⟨_, _, l2, Nat.le_trans hk (build_k o k cfgs), hl2, ?_⟩
        intro id pg hf
        rw [hp] at hf
        refine refreshWith_fresh prov' l2 id pg hf ?_
        rw [refreshWith_eq] at hf
        exact refreshFold_isSome l2 prov' id (by rw [hf]; rfl)
      · dsimp only at h
        refine ih _ prov' prov ?_ (fun _ => hfp') h
        rw [refresh_k]
        exact Nat.le_trans hk (Nat.le_trans (build_k o k cfgs) (Nat.le_succ _))

/-! ### The group loop -/

theorem groupLoop_fresh (rnd : Rat → Rat) (o : Oracle) (ctl : Ctl) (views : String → View) (hints : String → Hints)
    (nowMock nowReal : Int) (l : List Asg) :
    ∀ (cs : List GroupCfg) (k : Nat) (ls : LoopState),
      cs.Pairwise (fun a b => a.cloudGroup ≠ b.cloudGroup) →
      (∀ c ∈ cs, ∀ pg, findProv ls.st.prov c.cloudGroup = some pg → FreshAsg l c.cloudGroup pg) →
      (∀ r ∈ ls.recs, FreshAsg l r.cfg.cloudGroup r.preG) →
      ∀ r ∈ (groupLoop rnd o ctl views hints nowMock nowReal k cs ls).val.recs, FreshAsg l r.cfg.cloudGroup r.preG := by
  intro cs
  induction cs with
  | nil => intro k ls _ _ h r hr; simp only [groupLoop] at hr; exact h r hr
  | cons c cs ih =>
    intro k ls hpw hprov hrecs r hr
    unfold groupLoop at hr
    split at hr
    · rename_i pg gst hp hs
      dsimp only at hr
      generalize hg : (if autoDiscover c = true then { gst with minEff := pg.asg.min, maxEff := pg.asg.max } else gst) = g0 at hr
      generalize hscan : scanGroup rnd o k ctl.globalDry c g0 pg (views c.name) (hints c.name) nowMock nowReal = sc at hr
      have hnew : ∀ r' ∈ ls.recs ++ [(⟨c.name, sc.j, sc.val.delta, sc.val.err, sc.val.branch, c, g0, pg, views c.name, nowMock, nowReal⟩ : GroupRec)],
          FreshAsg l r'.cfg.cloudGroup r'.preG := by
        intro r' hr'
        rcases List.mem_append.mp hr' with h1 | h1
        · exact hrecs r' h1
        · simp only [List.mem_singleton] at h1; subst h1
          exact hprov c List.mem_cons_self pg hp
      split at hr
      · exact hnew r hr
      · exact hnew r hr
      · refine ih _ _ (List.Pairwise.of_cons hpw) ?_ hnew r hr
        intro c' hc' pg' hf
        have hgid : sc.val.g.id = c.cloudGroup := by rw [← hscan, scanGroup_gid, findProv_id hp]
        have hne : c.cloudGroup ≠ c'.cloudGroup := List.rel_of_pairwise_cons hpw hc'
        dsimp only at hf
        rw [findProv_setProv_other _ _ _ (by rw [hgid]; exact hne)] at hf
        exact hprov c' (List.mem_cons_of_mem _ hc') pg' hf
    · exact hrecs r hr

/-- **Freshness (C04 / C07 / C19).** In a `RunOnce` over groups with pairwise distinct cloud groups, every group scan
    starts from the description of its cloud group contained in an answer the cloud gave to a
    `DescribeAutoScalingGroups` call of this same scan (call index ≥ the scan's first), provided that answer
    describes the group at all: its desired size, bounds and members are not remembered from an earlier scan. -/
theorem runOnce_fresh (rnd : Rat → Rat) (o : Oracle) (k : Nat) (ctl : Ctl) (st : CState) (views : String → View)
    (hints : String → Hints) (nowMock nowReal : Int)
    (hpw : ctl.cfgs.Pairwise (fun a b => a.cloudGroup ≠ b.cloudGroup)) :
    ∃ i names l, k ≤ i ∧ (o i (.describeAsgs names) = .asgs l ∨ (runOnce rnd o k ctl st views hints nowMock nowReal).val.recs = []) ∧
      ∀ r ∈ (runOnce rnd o k ctl st views hints nowMock nowReal).val.recs, FreshAsg l r.cfg.cloudGroup r.preG := by
  unfold runOnce
  dsimp only
  cases hr0 : (refresh o k st.prov).val with
  | some p =>
    dsimp only
    obtain ⟨l, hl, hp⟩ := refresh_some o k st.prov p hr0
    refine ⟨k, _, l, Nat.le_refl _, Or.inl hl, ?_⟩
    refine groupLoop_fresh rnd o ctl views hints nowMock nowReal l _ _ _ hpw ?_ (by simp)
    intro c _ pg hf
    dsimp only at hf
    rw [hp] at hf
    refine refreshWith_fresh st.prov l _ pg hf ?_
    rw [refreshWith_eq] at hf
    exact refreshFold_isSome l st.prov _ (by rw [hf]; rfl)
  | none =>
    dsimp only
    cases hl : (refreshLoop o ctl.cfgs 2 (refresh o k st.prov).k st.prov).val with
    | none => exact ⟨k, [], [], Nat.le_refl _, Or.inr rfl, by simp⟩
    | some prov =>
      dsimp only
      obtain ⟨i, names, l, hi, hans, hfresh⟩ := refreshLoop_fresh o ctl.cfgs k 2 _ st.prov prov
        (by rw [refresh_k]; exact Nat.le_succ k) (by simp) hl
      refine ⟨i, names, l, hi, Or.inl hans, ?_⟩
      exact groupLoop_fresh rnd o ctl views hints nowMock nowReal l _ _ _ hpw (fun c _ pg hf => hfresh _ pg hf) (by simp)

/-- Every output of a history is the `RunOnce` of one of its scan events on some controller state. -/
theorem runEvents_out (rnd : Rat → Rat) (ctl : Ctl) : ∀ (es : List Event) (s : Option CState), ∀ out ∈ runEvents rnd ctl s es,
    ∃ st i, Event.scan i ∈ es ∧ out = (runOnce rnd i.o 0 ctl st i.views i.hints i.nowMock i.nowReal).val := by
  intro es
  induction es with
  | nil => intro s out ho; simp [runEvents] at ho
  | cons e es ih =>
    intro s out ho
    cases e with
    | restart o =>
      unfold runEvents at ho
      obtain ⟨st, i, hi, h⟩ := ih _ out ho
      exact ⟨st, i, List.mem_cons_of_mem _ hi, h⟩
    | scan i =>
      cases s with
      | none =>
        unfold runEvents at ho
        obtain ⟨st, i', hi, h⟩ := ih _ out ho
        exact ⟨st, i', List.mem_cons_of_mem _ hi, h⟩
      | some st =>
        unfold runEvents at ho; dsimp only at ho
        rcases List.mem_cons.mp ho with h | h
        · exact ⟨st, i, List.mem_cons_self, h⟩
        · obtain ⟨st', i', hi, h'⟩ := ih _ out h
          exact ⟨st', i', List.mem_cons_of_mem _ hi, h'⟩

/-- **Freshness along histories.** In every scan of every history (restarts, fatal endings and whatever the earlier
    scans did included) each group scan starts from what the cloud answered to a describe call of *that* scan's own
    environment, whenever that answer describes the group. -/
theorem C07_fresh_history (rnd : Rat → Rat) (ctl : Ctl) (hpw : ctl.cfgs.Pairwise (fun a b => a.cloudGroup ≠ b.cloudGroup))
    (s : Option CState) (es : List Event) :
    ∀ out ∈ runEvents rnd ctl s es, ∃ i, Event.scan i ∈ es ∧ ∃ idx names l,
      (i.o idx (.describeAsgs names) = .asgs l ∨ out.recs = []) ∧ ∀ r ∈ out.recs, FreshAsg l r.cfg.cloudGroup r.preG := by
  intro out ho
  obtain ⟨st, i, hi, h⟩ := runEvents_out rnd ctl es s out ho
  obtain ⟨idx, names, l, _, hans, hfresh⟩ := runOnce_fresh rnd i.o 0 ctl st i.views i.hints i.nowMock i.nowReal hpw
  refine ⟨i, hi, idx, names, l, ?_, ?_⟩
  · rw [h]; exact hans
  · rw [h]; exact hfresh

/-- Combined with `C07_on_top`: the amount is added to the desired size the cloud reported in this scan. -/
theorem C07_on_top_of_reported (l : List Asg) (id : String) (g : PGroup) (hf : FreshAsg l id g) (hex : ∃ a ∈ l, a.name = id)
    (o : Oracle) (k : Nat) (cfg : AwsCfg) (d : Int) :
    ∃ a ∈ l, a.name = id ∧ ∀ e ∈ (increaseSize o k cfg g d).j, ∀ gid v, e.call = .setDesired gid v → v = a.desired + d := by
  obtain ⟨hm, hn⟩ := hf hex
  exact ⟨g.asg, hm, hn, fun e he gid v hc => (C07_on_top o k cfg g d e he).1 gid v hc⟩

/-- **C02, within the scan itself.** In a scan that decides to scale up, whatever is asked of the cloud comes last: the
    journal of the acting half is `mj ++ force batch ++ untaint attempts ++ increase`, so after the call that gets the
    increase accepted the scan makes no further change to the group (no taint, untaint, termination, deletion). -/
theorem C02_increase_is_last (o : Oracle) (k : Nat) (cfg : GroupCfg) (st : GState) (g : PGroup) (pods : List Pod)
    (h : Hints) (nowMock nowReal : Int) (untainted tainted force : List Node) (mj : Journal) (delta : Int) (hd : delta > 0)
    (hf : (tryDelete o k g (forceCands false pods force)).val.err ≠ .notInGroup)
    (hall : ∀ c ∈ tainted, hasTaint escKey c = true) :
    let f := tryDelete o k g (forceCands false pods force)
    let u := scaleUpUntaint o f.k false st h.new tainted delta
    (scanAct o k false cfg st g pods h nowMock nowReal untainted tainted force mj delta).j = mj ++ f.j ++ u.j ∨
    ∃ add, (scanAct o k false cfg st g pods h nowMock nowReal untainted tainted force mj delta).j =
      mj ++ f.j ++ u.j ++ (increaseSize o u.k cfg.aws f.val.g add).j := by
  intro f u
  have hshape := C06_up_shape o k false cfg st g pods h nowMock nowReal untainted tainted force mj delta hd hf
  obtain ⟨_, _, _, hj⟩ := C07_remainder o f.k cfg st f.val.g nowReal h.new tainted delta (by omega) hall
  rcases hj with hj | ⟨_, _, hj⟩
  · left; rw [hshape, hj]
  · right
    refine ⟨nodesToAdd (delta - (scaleUpUntaint o f.k false st h.new tainted delta).val.count) f.val.g.asg.desired st.maxEff f.val.g.asg.max, ?_⟩
    rw [hshape, hj]
    simp only [f, u, List.append_assoc]

/-- Non-vacuity: a provider that remembers desired size 3 for `asg0` and is told 7 by the cloud starts the scan from 7. -/
example :
    let old : Asg := ⟨"asg0", 0, 10, 3, [], "", false⟩
    let new : Asg := ⟨"asg0", 0, 10, 7, [⟨"i-1", "az"⟩], "", false⟩
    findProv (refreshWith [⟨"asg0", old, 0⟩] [new]) "asg0" = some ⟨"asg0", new, 0⟩ ∧
    FreshAsg [new] "asg0" ⟨"asg0", new, 0⟩ ∧ (∃ a ∈ [new], a.name = "asg0") := by
  refine ⟨by decide, fun _ => ⟨by simp, rfl⟩, ⟨_, List.mem_cons_self, rfl⟩⟩

end Esc.P
