/-
  C18 — Fleet scale-up never leaks instances, whatever step fails.
  (Also the list lemmas about batching used by C17.)
-/
import EscProofs.P.GenScaleUp
import EscProofs.Lemmas.Run
import EscProofs.Lemmas.Count
namespace Esc.P
open Esc Esc.Spec

/-! ### batching -/

theorem attachChunks_flatten (sz : Nat) : ∀ (f : Nat) (l : List String), (attachChunks sz f l).flatten = l := by
  intro f
  induction f with
  | zero => intro l; simp [attachChunks]
  | succ f ih =>
    intro l
    unfold attachChunks
    split
    · simp [ih]
    · simp

theorem attachChunks_sizes (sz : Nat) (hsz : 0 < sz) : ∀ (f : Nat) (l : List String), l.length ≤ f →
    (∀ b ∈ attachChunks sz f l, b.length ≤ sz) ∧ (∀ b ∈ (attachChunks sz f l).dropLast, b.length = sz) := by
  intro f
  induction f with
  | zero =>
    intro l hl
    have : l = [] := by cases l <;> simp_all
    subst this
    simp [attachChunks]
  | succ f ih =>
    intro l hl
    unfold attachChunks
    split
    · rename_i hlt
      have hlen : (l.drop sz).length ≤ f := by simp; omega
      obtain ⟨i1, i2⟩ := ih (l.drop sz) hlen
      constructor
      · intro b hb
        rcases List.mem_cons.mp hb with rfl | hb
        · simp; omega
        · exact i1 b hb
      · intro b hb
        have hne : attachChunks sz f (List.drop sz l) ≠ [] := by
          cases f <;> (unfold attachChunks; try split) <;> simp
        rw [List.dropLast_cons_of_ne_nil hne] at hb
        rcases List.mem_cons.mp hb with rfl | hb
        · simp; omega
        · exact i2 b hb
    · rename_i hge
      constructor
      · intro b hb; simp at hb; subst hb; omega
      · intro b hb; simp at hb

theorem termChunks_flatten (sz : Nat) (hsz : 0 < sz) : ∀ (f : Nat) (l : List String), l.length ≤ f →
    (termChunks sz f l).flatten = l ∧ ∀ b ∈ termChunks sz f l, b.length ≤ sz := by
  intro f
  induction f with
  | zero =>
    intro l hl
    have : l = [] := by cases l <;> simp_all
    subst this
    simp [termChunks]
  | succ f ih =>
    intro l hl
    unfold termChunks
    split
    · rename_i he
      have : l = [] := by simpa using he
      subst this; simp
    · rename_i hne
      have hpos : 0 < l.length := by
        cases l with
        | nil => simp at hne
        | cons _ _ => simp
      have hlen : (l.drop sz).length ≤ f := by simp; omega
      obtain ⟨i1, i2⟩ := ih (l.drop sz) hlen
      constructor
      · simp [i1]
      · intro b hb
        rcases List.mem_cons.mp hb with rfl | hb
        · simp; omega
        · exact i2 b hb

/-! ### what the phases contribute -/

theorem readyLoop_noIds (o : Oracle) (ids : List String) : ∀ (t k : Nat),
    attachedIds (readyLoop o ids t k).j = [] ∧ terminatedIds (readyLoop o ids t k).j = [] ∧
    (readyLoop o ids t k).j.all (fun e => decide ((termIdsOf e).length ≤ Gen.terminateBatchSize)) = true := by
  intro t
  induction t with
  | zero => intro k; simp [readyLoop, attachedIds, terminatedIds]
  | succ t ih =>
    intro k
    unfold readyLoop; dsimp only
    split
    · simp [doCall_j, attachedIds, terminatedIds, attachIdsOf, termIdsOf]
    · obtain ⟨h1, h2, h3⟩ := ih (doCall o k (Call.describeStatus ids)).k
      unfold attachedIds terminatedIds at *
      simp only [doCall_j, List.filter_append, List.flatMap_append, h1, h2, List.all_append, h3]
      simp [attachIdsOf, termIdsOf, List.filter]
      split <;> simp [attachIdsOf]

theorem terminateChunks_ids (o : Oracle) : ∀ (cs : List (List String)) (k : Nat),
    attachedIds (terminateChunks o k cs).j = [] ∧ terminatedIds (terminateChunks o k cs).j = cs.flatten ∧
    ((∀ c ∈ cs, c.length ≤ Gen.terminateBatchSize) →
      (terminateChunks o k cs).j.all (fun e => decide ((termIdsOf e).length ≤ Gen.terminateBatchSize)) = true) := by
  intro cs
  induction cs with
  | nil => intro k; simp [terminateChunks, attachedIds, terminatedIds]
  | cons c cs ih =>
    intro k
    unfold terminateChunks; dsimp only
    obtain ⟨b, hj, _⟩ := doPlain_j o k (.terminateInstances c)
    obtain ⟨h1, h2, h3⟩ := ih (doPlain o k (Call.terminateInstances c)).k
    unfold attachedIds terminatedIds at *
    refine ⟨?_, ?_, ?_⟩
    · simp only [hj, List.filter_append, List.flatMap_append, h1, List.append_nil]
      cases b <;> simp [List.filter, attachIdsOf]
    · simp [hj, h2, termIdsOf]
    · intro hc
      simp only [hj, List.all_append, Bool.and_eq_true]
      exact ⟨by simp [termIdsOf, hc c List.mem_cons_self], h3 (fun c' hc' => hc c' (List.mem_cons_of_mem _ hc'))⟩

theorem terminateOrphans_ids (o : Oracle) (k : Nat) (g : PGroup) (ids : List String) :
    attachedIds (terminateOrphans o k g ids).j = [] ∧ terminatedIds (terminateOrphans o k g ids).j = ids ∧
    (terminateOrphans o k g ids).j.all (fun e => decide ((termIdsOf e).length ≤ Gen.terminateBatchSize)) = true := by
  unfold terminateOrphans; dsimp only
  split
  · rename_i he
    have : ids = [] := by simpa using he
    subst this
    simp [attachedIds, terminatedIds]
  · obtain ⟨f1, f2⟩ := termChunks_flatten Gen.terminateBatchSize (by decide) ids.length ids (Nat.le_refl _)
    obtain ⟨h1, h2, h3⟩ := terminateChunks_ids o (termChunks Gen.terminateBatchSize ids.length ids) k
    exact ⟨h1, by rw [h2, f1], h3 f2⟩

/-- The attach loop: what was attached plus what is left over is what was to be attached. -/
theorem attachBatches_ids (o : Oracle) (gid : String) : ∀ (bs : List (List String)) (k : Nat),
    let r := attachBatches o gid k bs
    terminatedIds r.j = [] ∧
    (attachedIds r.j ++ r.val.orphans).Perm bs.flatten ∧
    (r.val.ok = true → r.val.orphans = []) ∧
    r.j.all (fun e => decide ((termIdsOf e).length ≤ Gen.terminateBatchSize)) = true := by
  intro bs
  induction bs with
  | nil => intro k; simp [attachBatches, attachedIds, terminatedIds]
  | cons b bs ih =>
    intro k
    unfold attachBatches; dsimp only
    obtain ⟨b', hj, hv⟩ := doPlain_j o k (.attach gid b)
    split
    · rename_i hok
      rw [hv] at hok; subst hok
      obtain ⟨h1, h2, h3, h5⟩ := ih (doPlain o k (Call.attach gid b)).k
      generalize attachBatches o gid (doPlain o k (Call.attach gid b)).k bs = r at h1 h2 h3 h5
      unfold attachedIds terminatedIds at *
      refine ⟨?_, ?_, h3, ?_⟩
      · simp [hj, h1, termIdsOf]
      · simp only [hj, List.filter_append, List.flatMap_append, List.flatten_cons]
        have : (List.filter (fun x => x.ok) [({ call := Call.attach gid b, ok := true } : Entry)]).flatMap attachIdsOf = b := by
          simp [List.filter, attachIdsOf]
        rw [this, List.append_assoc]
        exact List.Perm.append_left b h2
      · simp only [hj, List.all_append, h5, Bool.and_true]; simp [termIdsOf]
    · rename_i hok
      rw [hv] at hok
      have hb2 : b' = false := by simpa using hok
      subst hb2
      unfold attachedIds terminatedIds
      refine ⟨by simp [hj, termIdsOf], ?_, by simp, by simp [hj, termIdsOf]⟩
      · simp only [hj]
        have : (List.filter (fun x => x.ok) [({ call := Call.attach gid b, ok := false } : Entry)]).flatMap attachIdsOf = [] := by
          simp [List.filter]
        rw [this, List.nil_append, List.flatten_cons]
        exact List.perm_append_comm

end Esc.P

namespace Esc.P
open Esc Esc.Spec

theorem ids_append (a b : Journal) : attachedIds (a ++ b) = attachedIds a ++ attachedIds b ∧
    terminatedIds (a ++ b) = terminatedIds a ++ terminatedIds b := by
  simp [attachedIds, terminatedIds, List.filter_append, List.flatMap_append]

/-- **C18.** Whatever step fails after the fleet request returned `ids` — readiness never reached,
    the k-th attach call for any k, any terminate call — every acquired instance is either attached
    to the ASG or submitted for termination, never both, never neither; termination calls carry at
    most `terminateBatchSize` ids; and success (`none`) is reported only when nothing had to be
    terminated. For every environment, fleet size and batch position. -/
theorem C18_no_leak (o : Oracle) (k : Nat) (cfg : AwsCfg) (g : PGroup) (ids : List String) :
    C18.holds ids (attachInstances o k cfg g ids).j (attachInstances o k cfg g ids).val.err = true := by
  unfold C18.holds attachInstances; dsimp only
  obtain ⟨r1, r2, r3⟩ := readyLoop_noIds o ids cfg.readyTicks k
  generalize readyLoop o ids cfg.readyTicks k = rd at r1 r2 r3
  split
  · obtain ⟨a1, a2, a3, a4⟩ := attachBatches_ids o g.id (attachChunks Gen.batchSize ids.length ids) rd.k
    rw [attachChunks_flatten] at a2
    generalize attachBatches o g.id rd.k (attachChunks Gen.batchSize ids.length ids) = a at a1 a2 a3 a4
    split
    · rename_i hok
      have horph := a3 hok
      rw [horph, List.append_nil] at a2
      simp only [(ids_append rd.j a.j).1, (ids_append rd.j a.j).2, r1, r2, a1, List.nil_append, List.append_nil,
        List.all_append, r3, a4, Bool.and_eq_true, List.isEmpty_nil, Bool.or_true, and_true, Bool.true_and]
      exact List.isPerm_iff.mpr a2
    · obtain ⟨t1, t2, t3⟩ := terminateOrphans_ids o a.k g a.val.orphans
      generalize terminateOrphans o a.k g a.val.orphans = t at t1 t2 t3
      have e1 := ids_append (rd.j ++ a.j) t.j
      have e2 := ids_append rd.j a.j
      simp only [e1.1, e1.2, e2.1, e2.2, r1, r2, a1, t1, t2, List.nil_append, List.append_nil, List.all_append, r3, a4, t3,
        Bool.and_eq_true, and_true, Bool.true_and]
      refine ⟨List.isPerm_iff.mpr a2, ?_⟩
      split <;> simp
  · obtain ⟨t1, t2, t3⟩ := terminateOrphans_ids o rd.k g ids
    generalize terminateOrphans o rd.k g ids = t at t1 t2 t3
    have e1 := ids_append rd.j t.j
    simp only [e1.1, e1.2, r1, r2, t1, t2, List.nil_append, List.all_append, r3, t3, Bool.and_eq_true, and_true, Bool.true_and]
    refine ⟨List.isPerm_iff.mpr (List.Perm.refl _), ?_⟩
    split <;> simp

/-- The failure is reported: whenever anything was submitted for termination the result is an error
    (so the controller takes no cool-down lock; see `C18_no_lock`). -/
theorem C18_error_reported (o : Oracle) (k : Nat) (cfg : AwsCfg) (g : PGroup) (ids : List String)
    (h : (attachInstances o k cfg g ids).val.err = .none) : terminatedIds (attachInstances o k cfg g ids).j = [] := by
  have := C18_no_leak o k cfg g ids
  unfold C18.holds at this
  simp only [Bool.and_eq_true, Bool.or_eq_true, h] at this
  simpa using this.2

/-- **C18 (no lock).** A failed cloud increase leaves the scale lock exactly as it was. -/
theorem C18_no_lock (o : Oracle) (k : Nat) (dry : Bool) (cfg : GroupCfg) (st : GState) (g : PGroup)
    (nowReal : Int) (hint : List Nat) (tainted : List Node) (want : Int)
    (h : (scaleUp o k dry cfg st g nowReal hint tainted want).val.err ≠ .none) :
    (scaleUp o k dry cfg st g nowReal hint tainted want).val.st.lock = st.lock := by
  revert h
  unfold scaleUp; dsimp only
  generalize scaleUpUntaint o k dry st hint tainted want = u
  split
  · split
    · intro _; rfl
    · split
      · intro h; simp at h
      · split
        · intro h; simp at h
        · intro _; rfl
        · intro _; rfl
  · intro h; simp at h

end Esc.P
