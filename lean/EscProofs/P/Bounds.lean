/-
  The effective bounds of a group along histories (C03, C04: "min_nodes", "max_nodes", "with auto-discovery the bound is
  the cloud group's own").

  The per-scan theorems (`C03_floor`, `C04_bound`, …) speak of `st.minEff` / `st.maxEff`, two fields of the controller
  state. Here: in every scan of every history of a controller built by `NewController` (restarts included), those
  fields are the *configured* `min_nodes` / `max_nodes` of the group — nothing a scan does, and nothing the cloud
  reports, moves them — unless the group auto-discovers its bounds, and then they are the minimum and maximum of the
  cloud description the scan starts from (which `runOnce_fresh` shows to be an answer of that same scan).
-/
import EscProofs.P.GenDecide
import EscProofs.P.Fresh
import EscProofs.P.C04
namespace Esc.P
open Esc Esc.Spec

/-! ### A group scan leaves the bounds alone -/

theorem scaleUp_bounds (o : Oracle) (k : Nat) (dry : Bool) (cfg : GroupCfg) (st : GState) (g : PGroup)
    (nowReal : Int) (hint : List Nat) (tainted : List Node) (want : Int) :
    (scaleUp o k dry cfg st g nowReal hint tainted want).val.st.minEff = st.minEff ∧
    (scaleUp o k dry cfg st g nowReal hint tainted want).val.st.maxEff = st.maxEff := by
  unfold scaleUp; dsimp only
  split
  · split
    · exact ⟨rfl, rfl⟩
    · split
      · exact ⟨rfl, rfl⟩
      · split <;> exact ⟨rfl, rfl⟩
  · exact ⟨rfl, rfl⟩

theorem withCache_bounds (st0 : GState) (nodes : List Node) :
    (withCache st0 nodes).minEff = st0.minEff ∧ (withCache st0 nodes).maxEff = st0.maxEff := by
  unfold withCache; split <;> exact ⟨rfl, rfl⟩

theorem scanGroup_bounds (rnd : Rat → Rat) (o : Oracle) (k : Nat) (globalDry : Bool) (cfg : GroupCfg) (st0 : GState)
    (g : PGroup) (view : View) (h : Hints) (nowMock nowReal : Int) :
    (scanGroup rnd o k globalDry cfg st0 g view h nowMock nowReal).val.st.minEff = st0.minEff ∧
    (scanGroup rnd o k globalDry cfg st0 g view h nowMock nowReal).val.st.maxEff = st0.maxEff := by
  have hw := withCache_bounds st0 view.nodes
  unfold scanGroup; dsimp only
  split
  · exact hw
  split
  · exact hw
  split
  · exact hw
  split
  · split
    · exact hw
    · have := scaleUp_bounds o k (globalDry || cfg.dryMode) cfg
        { withCache st0 view.nodes with lock := lockAfterCheck (withCache st0 view.nodes).lock cfg.coolNs nowReal } g nowReal h.new
        (nodesOf (globalDry || cfg.dryMode) (withCache st0 view.nodes) .tainted view.nodes)
        ((withCache st0 view.nodes).minEff - (nodesOf (globalDry || cfg.dryMode) (withCache st0 view.nodes) .untainted view.nodes).length)
      exact ⟨this.1.trans hw.1, this.2.trans hw.2⟩
  split
  · exact hw
  split
  · exact hw
  unfold scanDecide; dsimp only
  split
  · exact hw
  unfold scanAct; dsimp only
  split
  · exact hw
  split
  · split
    · exact hw
    · exact hw
  split
  · generalize hu : scaleUp o _ (globalDry || cfg.dryMode) cfg _ _ nowReal h.new _ _ = u
    have hb := scaleUp_bounds o (tryDelete o k g (forceCands (globalDry || cfg.dryMode) view.pods
        (nodesOf (globalDry || cfg.dryMode) (withCache st0 view.nodes) .force view.nodes))).k (globalDry || cfg.dryMode) cfg
    split <;> (subst hu; dsimp only; exact ⟨(hb _ _ _ _ _ _).1.trans hw.1, (hb _ _ _ _ _ _).2.trans hw.2⟩)
  · split
    · exact hw
    · exact hw

/-! ### The invariant -/

/-- The bounds a record of group `c` must start from. -/
def BoundsOf (c : GroupCfg) (pre : GState) (g : PGroup) : Prop :=
  (autoDiscover c = true → pre.minEff = g.asg.min ∧ pre.maxEff = g.asg.max) ∧
  (autoDiscover c = false → pre.minEff = c.minNodes ∧ pre.maxEff = c.maxNodes)

/-- Controller-state invariant: the stored bounds of every explicitly configured group are the configured ones. -/
def BoundsInv (ctl : Ctl) (gs : List (String × GState)) : Prop :=
  ∀ c ∈ ctl.cfgs, autoDiscover c = false → ∀ gst, findState gs c.name = some gst → gst.minEff = c.minNodes ∧ gst.maxEff = c.maxNodes

/-- Node-group names identify configurations. -/
def UniqueCfgNames (ctl : Ctl) : Prop := ∀ c ∈ ctl.cfgs, ∀ c' ∈ ctl.cfgs, c.name = c'.name → c = c'

theorem groupLoop_bounds (rnd : Rat → Rat) (o : Oracle) (ctl : Ctl) (hu : UniqueCfgNames ctl) (views : String → View) (hints : String → Hints)
    (nowMock nowReal : Int) :
    ∀ (cs : List GroupCfg) (k : Nat) (ls : LoopState), (∀ c ∈ cs, c ∈ ctl.cfgs) →
      BoundsInv ctl ls.st.groups → (∀ r ∈ ls.recs, BoundsOf r.cfg r.pre r.preG) →
      BoundsInv ctl (groupLoop rnd o ctl views hints nowMock nowReal k cs ls).val.st.groups ∧
      ∀ r ∈ (groupLoop rnd o ctl views hints nowMock nowReal k cs ls).val.recs, BoundsOf r.cfg r.pre r.preG := by
  intro cs
  induction cs with
  | nil => intro k ls _ hi hr; simp only [groupLoop]; exact ⟨hi, hr⟩
  | cons c cs ih =>
    intro k ls hsub hi hr
    have hc : c ∈ ctl.cfgs := hsub c List.mem_cons_self
    unfold groupLoop
    split
    · rename_i pg gst hp hs
      dsimp only
      generalize hg : (if autoDiscover c = true then { gst with minEff := pg.asg.min, maxEff := pg.asg.max } else gst) = g0
      generalize hscan : scanGroup rnd o k ctl.globalDry c g0 pg (views c.name) (hints c.name) nowMock nowReal = sc
      have hb : sc.val.st.minEff = g0.minEff ∧ sc.val.st.maxEff = g0.maxEff := by
        rw [← hscan]; exact scanGroup_bounds rnd o k ctl.globalDry c g0 pg _ _ nowMock nowReal
      -- the bounds this scan started from
      have hpre : BoundsOf c g0 pg := by
        constructor
        · intro ha; rw [← hg]; simp [ha]
        · intro ha; rw [← hg]; simp only [ha, Bool.false_eq_true, if_false]; exact hi c hc ha gst hs
      have hrecs : ∀ r ∈ ls.recs ++ [(⟨c.name, sc.j, sc.val.delta, sc.val.err, sc.val.branch, c, g0, pg, views c.name, nowMock, nowReal⟩ : GroupRec)],
          BoundsOf r.cfg r.pre r.preG := by
        intro r h
        rcases List.mem_append.mp h with h1 | h1
        · exact hr r h1
        · simp only [List.mem_singleton] at h1; subst h1; exact hpre
      -- the stored state afterwards
      have hinv : BoundsInv ctl (setState ls.st.groups c.name { sc.val.st with scaleDelta := sc.val.delta }) := by
        intro c' hc' ha gst' hf
        by_cases hn : c'.name = c.name
        · have hcc : c' = c := hu c' hc' c hc hn
          subst hcc
          unfold findState setState at hf
          rw [lookup_map_same _ _ _ (by unfold findState at hs; rw [hs]; rfl)] at hf
          have e := Option.some.inj hf
          rw [← e]
          show sc.val.st.minEff = c'.minNodes ∧ sc.val.st.maxEff = c'.maxNodes
          rw [hb.1, hb.2]
          exact hpre.2 ha
        · unfold findState setState at hf
          rw [lookup_map_other _ _ _ _ hn] at hf
          exact hi c' hc' ha gst' hf
      split
      · exact ⟨hinv, hrecs⟩
      · exact ⟨hinv, hrecs⟩
      · exact ih _ _ (fun x hx => hsub x (List.mem_cons_of_mem _ hx)) hinv hrecs
    · exact ⟨hi, hr⟩

theorem runOnce_bounds (rnd : Rat → Rat) (o : Oracle) (k : Nat) (ctl : Ctl) (hu : UniqueCfgNames ctl) (st : CState) (views : String → View)
    (hints : String → Hints) (nowMock nowReal : Int) (hi : BoundsInv ctl st.groups) :
    BoundsInv ctl (runOnce rnd o k ctl st views hints nowMock nowReal).val.st.groups ∧
    ∀ r ∈ (runOnce rnd o k ctl st views hints nowMock nowReal).val.recs, BoundsOf r.cfg r.pre r.preG := by
  unfold runOnce; dsimp only
  split
  · exact ⟨hi, by simp⟩
  · exact groupLoop_bounds rnd o ctl hu views hints nowMock nowReal _ _ _ (fun _ h => h) hi (by simp)

/-! ### `NewController` establishes it, histories keep it -/

theorem initStates_lookup (prov : List PGroup) : ∀ (cs : List GroupCfg) (gs : List (String × GState)),
    cs.mapM (fun c => (findProv prov c.cloudGroup).map (fun pg => (c.name, initGState c pg))) = some gs →
    ∀ n gst, gs.lookup n = some gst → ∃ c ∈ cs, c.name = n ∧ ∃ pg, gst = initGState c pg := by
  intro cs
  induction cs with
  | nil =>
    intro gs h n gst hl
    simp at h
    subst h
    simp at hl
  | cons c cs ih =>
    intro gs h n gst hl
    rw [List.mapM_cons] at h
    cases hf : findProv prov c.cloudGroup with
    | none => simp [hf] at h
    | some pg =>
      cases hm : cs.mapM (fun c => (findProv prov c.cloudGroup).map (fun pg => (c.name, initGState c pg))) with
      | none => simp [hf, hm] at h
      | some gs' =>
        simp [hf, hm] at h
        subst h
        rw [List.lookup_cons] at hl
        by_cases hn : (n == c.name) = true
        · simp only [hn] at hl
          have e := Option.some.inj hl
          exact ⟨c, List.mem_cons_self, (by simpa using hn : n = c.name).symm, pg, e.symm⟩
        · have hn' : (n == c.name) = false := by simpa using hn
          simp only [hn'] at hl
          obtain ⟨c', hc', h1, h2⟩ := ih gs' hm n gst hl
          exact ⟨c', List.mem_cons_of_mem _ hc', h1, h2⟩

theorem newController_bounds (o : Oracle) (k : Nat) (ctl : Ctl) (hu : UniqueCfgNames ctl) (st : CState)
    (h : (newController o k ctl).val = some st) : BoundsInv ctl st.groups := by
  unfold newController at h
  dsimp only at h
  split at h
  · simp at h
  · rename_i prov _
    split at h
    · simp at h
    · rename_i gs hgs
      have e := Option.some.inj h
      rw [← e]
      intro c hc ha gst hf
      unfold initStates at hgs
      obtain ⟨c', hc', hn, pg, hg⟩ := initStates_lookup prov ctl.cfgs gs hgs c.name gst hf
      have : c' = c := hu c' hc' c hc hn
      subst this
      rw [hg]
      unfold initGState
      simp [ha]

/-- `none`, or a state that satisfies the invariant. -/
def OptInv (ctl : Ctl) : Option CState → Prop
  | none => True
  | some st => BoundsInv ctl st.groups

/-- **Effective bounds along histories (C03 / C04).** For a controller whose node-group names are distinct, started by
    `NewController` (or from any state satisfying the invariant): in every scan of every history, every group scan
    starts with `min_nodes` / `max_nodes` exactly as configured, or — for an auto-discovering group — equal to the
    minimum and maximum of the cloud description that scan starts from. -/
theorem bounds_history (rnd : Rat → Rat) (ctl : Ctl) (hu : UniqueCfgNames ctl) :
    ∀ (es : List Event) (s : Option CState), OptInv ctl s →
      ∀ out ∈ runEvents rnd ctl s es, ∀ r ∈ out.recs, BoundsOf r.cfg r.pre r.preG := by
  intro es
  induction es with
  | nil => intro s _ out ho; simp [runEvents] at ho
  | cons e es ih =>
    intro s hs out ho r hr
    cases e with
    | restart o =>
      unfold runEvents at ho
      refine ih _ ?_ out ho r hr
      cases hn : (newController o 0 ctl).val with
      | none => trivial
      | some st => exact newController_bounds o 0 ctl hu st hn
    | scan i =>
      cases s with
      | none => unfold runEvents at ho; exact ih none trivial out ho r hr
      | some st =>
        unfold runEvents at ho; dsimp only at ho
        have hb := runOnce_bounds rnd i.o 0 ctl hu st i.views i.hints i.nowMock i.nowReal hs
        rcases List.mem_cons.mp ho with h | h
        · subst h; exact hb.2 r hr
        · refine ih _ ?_ out h r hr
          split
          · exact hb.1
          · trivial

/-- **C04 with the configured bound.** Along every history from `NewController`, every resize request of a group scan
    lands at or below `min(max_nodes as configured, maximum of the cloud description the scan starts from)` for an
    explicitly configured group (and at or below that cloud maximum for an auto-discovering one): `C04_history` with
    the state fields replaced by what they are. -/
theorem C04_history_configured (rnd : Rat → Rat) (ctl : Ctl) (hu : UniqueCfgNames ctl) (es : List Event) (o : Oracle) :
    ∀ out ∈ runEvents rnd ctl none (.restart o :: es), ∀ r ∈ out.recs,
      C04.holds ⟨ctl.globalDry, r.cfg, r.pre, r.preG, r.view, r.nowMock, r.nowReal⟩ r.j = true ∧
      (autoDiscover r.cfg = false → r.pre.maxEff = r.cfg.maxNodes ∧ r.pre.minEff = r.cfg.minNodes) ∧
      (autoDiscover r.cfg = true → r.pre.maxEff = r.preG.asg.max ∧ r.pre.minEff = r.preG.asg.min) := by
  intro out ho r hr
  have hb := bounds_history rnd ctl hu (.restart o :: es) none trivial out ho r hr
  exact ⟨C04_history rnd ctl none (.restart o :: es) out ho r hr,
         fun ha => ⟨(hb.2 ha).2, (hb.2 ha).1⟩, fun ha => ⟨(hb.1 ha).2, (hb.1 ha).1⟩⟩

end Esc.P
