/-
  C05, float layer (L1): error bound for the scale-up formula under any rounding function that
  satisfies the standard model of floating-point arithmetic with unit round-off `u`
  (|rnd x − x| ≤ u·|x|; integers of magnitude ≤ 2^53 are exact).  `rne64` satisfies it with
  u = 2⁻⁵³ on the normal range (not proved here: tied to Go bit-for-bit by the arith stream).
-/
import Mathlib.Tactic.FieldSimp
import Mathlib.Tactic.Ring
import Mathlib.Tactic.Linarith
import Mathlib.Tactic.Positivity
import Mathlib.Algebra.Order.Field.Rat
import Mathlib.Algebra.Order.AbsoluteValue.Basic
import EscProofs.P.C05
namespace Esc.P
open Esc

/-- The standard model: relative error at most `u` per operation; small integers are exact. -/
structure StdModel (rnd : Rat → Rat) (u : Rat) : Prop where
  u_nonneg : 0 ≤ u
  u_small : u ≤ 1 / 1000
  rel : ∀ x : Rat, |rnd x - x| ≤ u * |x|
  exactInt : ∀ z : Int, |z| ≤ 2 ^ 53 → rnd (z : Rat) = (z : Rat)

theorem StdModel_id : StdModel id 0 := ⟨le_refl _, by norm_num, by intro x; simp, by intro z _; rfl⟩

/-- The value the float pipeline ceils: `rnd(n · rnd(rnd(pct − T)/T))` with `pct = rnd(rnd(R/C)·100)`. -/
def rawNeeded (rnd : Rat → Rat) (n R C T : Int) : Rat :=
  rnd ((n : Rat) * rnd (rnd (rnd (rnd ((R : Rat) / (C : Rat)) * 100) - (T : Rat)) / (T : Rat)))

theorem neededFromPct_eq_ceil_raw (rnd : Rat → Rat) (u : Rat) (h : StdModel rnd u) (n R C T : Int)
    (hn : |n| ≤ 2 ^ 53) (hR : |R| ≤ 2 ^ 53) (hC : |C| ≤ 2 ^ 53) (hT : |T| ≤ 2 ^ 53) :
    neededFromPct rnd n (pct1 rnd R C) T = (rawNeeded rnd n R C T).ceil := by
  unfold neededFromPct pct1 rawNeeded
  simp only [h.exactInt n hn, h.exactInt R hR, h.exactInt C hC, h.exactInt T hT]

/-- One rounding: `rnd x = x + d` with `|d| ≤ u·|x|`. -/
theorem rnd_err {rnd : Rat → Rat} {u : Rat} (h : StdModel rnd u) (x : Rat) : ∃ d, rnd x = x + d ∧ |d| ≤ u * |x| :=
  ⟨rnd x - x, by ring, h.rel x⟩


/-! ### The error analysis on rationals (no casts) -/

private theorem abs_add3 (a b c d : Rat) : |a + b + c + d| ≤ |a| + |b| + |c| + |d| := by
  have h1 := abs_add_le (a + b + c) d
  have h2 := abs_add_le (a + b) c
  have h3 := abs_add_le a b
  linarith

/-- After the two roundings of `pct1`: `|p − P| ≤ 3u·P` (P = 100·q0). -/
theorem err_p (u q0 q p d1 d2 : Rat) (hu : 0 ≤ u) (hu3 : u ≤ 1 / 1000) (hq0 : 0 ≤ q0)
    (e1 : q = q0 + d1) (b1 : |d1| ≤ u * q0) (e2 : p = q * 100 + d2) (b2 : |d2| ≤ u * |q * 100|) :
    |p - 100 * q0| ≤ 3 * u * (100 * q0) := by
  have hq : |q| ≤ q0 + u * q0 := by
    rw [e1]; have := abs_add_le q0 d1; rw [abs_of_nonneg hq0] at this; linarith
  have hq100 : |q * 100| = 100 * |q| := by rw [abs_mul]; norm_num; ring
  rw [hq100] at b2
  have b2' : |d2| ≤ u * (100 * (q0 + u * q0)) := by
    have : u * (100 * |q|) ≤ u * (100 * (q0 + u * q0)) := by
      apply mul_le_mul_of_nonneg_left _ hu; linarith
    linarith
  have h1 : p - 100 * q0 = 100 * d1 + d2 := by rw [e2, e1]; ring
  rw [h1]
  have h100 : |100 * d1| = 100 * |d1| := by rw [abs_mul]; norm_num
  have := abs_add_le (100 * d1) d2
  rw [h100] at this
  have huu : u * u * q0 ≤ u * q0 * (1 / 1000) := by
    have : u * u * q0 = u * q0 * u := by ring
    rw [this]; exact mul_le_mul_of_nonneg_left hu3 (mul_nonneg hu hq0)
  have huq : 0 ≤ u * q0 := mul_nonneg hu hq0
  nlinarith

private theorem err_pT (u q0 T p : Rat) (hq0 : 0 ≤ q0) (hT : 0 < T)
    (hp : |p - 100 * q0| ≤ 3 * u * (100 * q0)) :
    |p - T| ≤ 100 * q0 + T + 3 * u * (100 * q0) := by
  have e : p - T = (p - 100 * q0) + (100 * q0 - T) := by ring
  rw [e]
  have h1 := abs_add_le (p - 100 * q0) (100 * q0 - T)
  have h2 : |100 * q0 - T| ≤ 100 * q0 + T := by
    have := abs_sub (100 * q0) T
    rw [abs_of_nonneg (by positivity : (0 : Rat) ≤ 100 * q0), abs_of_pos hT] at this
    exact this
  linarith

/-- The three roundings after `p`: the absolute errors, each as a multiple of `(n/T)·|p − T|`. -/
private theorem err_tail (u T n p dd ee d3 d4 d5 : Rat) (hu : 0 ≤ u) (hT : 0 < T) (hn : 0 < n)
    (e3 : dd = p - T + d3) (b3 : |d3| ≤ u * |p - T|)
    (e4 : ee = dd / T + d4) (b4 : |d4| ≤ u * |dd / T|)
    (b5 : |d5| ≤ u * |n * ee|) :
    |n / T * d3| ≤ n / T * (u * |p - T|) ∧
    |n * d4| ≤ n / T * (u * ((1 + u) * |p - T|)) ∧
    |d5| ≤ n / T * (u * ((1 + u) * ((1 + u) * |p - T|))) := by
  have hnT : 0 ≤ n / T := by positivity
  have hdd : |dd| ≤ (1 + u) * |p - T| := by
    rw [e3]; have := abs_add_le (p - T) d3; linarith
  have hdT : |dd / T| = |dd| / T := by rw [abs_div, abs_of_pos hT]
  rw [hdT] at b4
  have hee : |ee| ≤ (1 + u) * (|dd| / T) := by
    rw [e4]; have := abs_add_le (dd / T) d4; rw [hdT] at this; linarith
  have hne : |n * ee| = n * |ee| := by rw [abs_mul, abs_of_pos hn]
  rw [hne] at b5
  refine ⟨?_, ?_, ?_⟩
  · rw [abs_mul, abs_of_nonneg hnT]; exact mul_le_mul_of_nonneg_left b3 hnT
  · rw [abs_mul, abs_of_pos hn]
    calc n * |d4| ≤ n * (u * (|dd| / T)) := mul_le_mul_of_nonneg_left b4 (le_of_lt hn)
      _ = n / T * (u * |dd|) := by field_simp
      _ ≤ n / T * (u * ((1 + u) * |p - T|)) :=
          mul_le_mul_of_nonneg_left (mul_le_mul_of_nonneg_left hdd hu) hnT
  · calc |d5| ≤ u * (n * |ee|) := b5
      _ ≤ u * (n * ((1 + u) * (|dd| / T))) :=
          mul_le_mul_of_nonneg_left (mul_le_mul_of_nonneg_left hee (le_of_lt hn)) hu
      _ = n / T * (u * ((1 + u) * |dd|)) := by field_simp
      _ ≤ n / T * (u * ((1 + u) * ((1 + u) * |p - T|))) :=
          mul_le_mul_of_nonneg_left
            (mul_le_mul_of_nonneg_left (mul_le_mul_of_nonneg_left hdd (by linarith)) hu) hnT

private theorem err_sum (u P T a : Rat) (hu : 0 ≤ u) (hu3 : u ≤ 1 / 1000) (hP : 0 ≤ P) (hT : 0 < T)
    (ha0 : 0 ≤ a) (ha : a ≤ P + T + 3 * u * P) :
    3 * u * P + u * (1 + (1 + u) + (1 + u) * (1 + u)) * a ≤ 8 * u * P + 4 * u * T := by
  have hk : u * (1 + (1 + u) + (1 + u) * (1 + u)) ≤ u * (3 + 4 / 1000) := by
    apply mul_le_mul_of_nonneg_left _ hu; nlinarith
  have h1 : u * (1 + (1 + u) + (1 + u) * (1 + u)) * a ≤ u * (3 + 4 / 1000) * (P + T + 3 * u * P) :=
    mul_le_mul hk ha ha0 (by positivity)
  have huP : 0 ≤ u * P := mul_nonneg hu hP
  have huT : 0 ≤ u * T := mul_nonneg hu (le_of_lt hT)
  have huuP : u * (u * P) ≤ (1 / 1000) * (u * P) := mul_le_mul_of_nonneg_right hu3 huP
  nlinarith

theorem err_core (u q0 T n q p dd ee x d1 d2 d3 d4 d5 : Rat) (hu : 0 ≤ u) (hu3 : u ≤ 1 / 1000)
    (hq0 : 0 ≤ q0) (hT : 0 < T) (hn : 0 < n)
    (e1 : q = q0 + d1) (b1 : |d1| ≤ u * q0) (e2 : p = q * 100 + d2) (b2 : |d2| ≤ u * |q * 100|)
    (e3 : dd = p - T + d3) (b3 : |d3| ≤ u * |p - T|)
    (e4 : ee = dd / T + d4) (b4 : |d4| ≤ u * |dd / T|)
    (e5 : x = n * ee + d5) (b5 : |d5| ≤ u * |n * ee|) :
    |x - n * ((100 * q0 - T) / T)| ≤ n / T * (8 * u * (100 * q0) + 4 * u * T) := by
  have hp := err_p u q0 q p d1 d2 hu hu3 hq0 e1 b1 e2 b2
  have hpT := err_pT u q0 T p hq0 hT hp
  obtain ⟨B3, B4, B5⟩ := err_tail u T n p dd ee d3 d4 d5 hu hT hn e3 b3 e4 b4 b5
  have hnT : 0 ≤ n / T := by positivity
  have key : x - n * ((100 * q0 - T) / T) = n / T * (p - 100 * q0) + n / T * d3 + n * d4 + d5 := by
    rw [e5, e4, e3]; field_simp; ring
  have B1 : |n / T * (p - 100 * q0)| ≤ n / T * (3 * u * (100 * q0)) := by
    rw [abs_mul, abs_of_nonneg hnT]; exact mul_le_mul_of_nonneg_left hp hnT
  rw [key]
  have hs := abs_add3 (n / T * (p - 100 * q0)) (n / T * d3) (n * d4) d5
  have hfin := err_sum u (100 * q0) T |p - T| hu hu3 (by positivity) hT (abs_nonneg _) hpT
  have hmul := mul_le_mul_of_nonneg_left hfin hnT
  have hexp : n / T * (3 * u * (100 * q0) + u * (1 + (1 + u) + (1 + u) * (1 + u)) * |p - T|) =
      n / T * (3 * u * (100 * q0)) + n / T * (u * |p - T|) + n / T * (u * ((1 + u) * |p - T|)) +
        n / T * (u * ((1 + u) * ((1 + u) * |p - T|))) := by ring
  rw [hexp] at hmul
  linarith

/-- **C05 (float error bound).** With `P = 100·R/C` the exact utilisation, `X = n·(P − T)/T` the exact
    value to be ceiled and `x` the value the float pipeline ceils:
    `|x − X| ≤ (n/T)·(8·u·P + 4·u·T)`, i.e. `8u·N* + 4u·n` with `N* = n·P/T` the exact node count needed. -/
theorem C05_float_error (rnd : Rat → Rat) (u : Rat) (h : StdModel rnd u) (n R C T : Int)
    (hn : 1 ≤ n) (hR : 0 ≤ R) (hC : 1 ≤ C) (hT : 1 ≤ T) :
    |rawNeeded rnd n R C T - (n : Rat) * ((100 * ((R : Rat) / C) - T) / T)| ≤
      (n : Rat) / T * (8 * u * (100 * ((R : Rat) / C)) + 4 * u * T) := by
  have hnq : (1 : Rat) ≤ n := by exact_mod_cast hn
  have hCq : (1 : Rat) ≤ C := by exact_mod_cast hC
  have hTq : (1 : Rat) ≤ T := by exact_mod_cast hT
  have hRq : (0 : Rat) ≤ R := by exact_mod_cast hR
  have hq0nn : (0 : Rat) ≤ (R : Rat) / C := by positivity
  unfold rawNeeded
  generalize (R : Rat) / C = q0 at hq0nn ⊢
  obtain ⟨d1, e1, b1⟩ := rnd_err h q0
  obtain ⟨d2, e2, b2⟩ := rnd_err h (rnd q0 * 100)
  obtain ⟨d3, e3, b3⟩ := rnd_err h (rnd (rnd q0 * 100) - T)
  obtain ⟨d4, e4, b4⟩ := rnd_err h (rnd (rnd (rnd q0 * 100) - T) / T)
  obtain ⟨d5, e5, b5⟩ := rnd_err h ((n : Rat) * rnd (rnd (rnd (rnd q0 * 100) - T) / T))
  rw [abs_of_nonneg hq0nn] at b1
  exact err_core u q0 T n _ _ _ _ _ d1 d2 d3 d4 d5 h.u_nonneg h.u_small hq0nn (by linarith) (by linarith)
    e1 b1 e2 b2 e3 b3 e4 b4 e5 b5

/-- Two rationals less than 1 apart have ceilings at most 1 apart. -/
theorem ceil_within_one (x y : Rat) (h : |x - y| < 1) : y.ceil - 1 ≤ x.ceil ∧ x.ceil ≤ y.ceil + 1 := by
  have hx := Rat.le_ceil (x := x)
  have hy := Rat.le_ceil (x := y)
  have habs := abs_lt.mp h
  constructor
  · -- y < x + 1 ≤ ⌈x⌉ + 1
    have : y ≤ ((x.ceil + 1 : Int) : Rat) := by push_cast; linarith
    have := Rat.ceil_le_iff.mpr this
    omega
  · have : x ≤ ((y.ceil + 1 : Int) : Rat) := by push_cast; linarith
    exact Rat.ceil_le_iff.mpr this

/-- **C05 (float result within one node).** Whenever the error budget `(n/T)(8uP + 4uT)` is below one
    node — with u = 2⁻⁵³ that is every group whose exact need plus size is below ~10¹⁴ nodes — the node
    count the float pipeline requests differs from the exact (sufficient and minimal) count by at most 1. -/
theorem C05_float_within_one (rnd : Rat → Rat) (u : Rat) (h : StdModel rnd u) (n R C T : Int)
    (hn : 1 ≤ n) (hn' : n ≤ 2 ^ 53) (hR : 0 ≤ R) (hR' : R ≤ 2 ^ 53) (hC : 1 ≤ C) (hC' : C ≤ 2 ^ 53)
    (hT : 1 ≤ T) (hT' : T ≤ 2 ^ 53)
    (hbudget : (n : Rat) / T * (8 * u * (100 * ((R : Rat) / C)) + 4 * u * T) < 1) :
    let exact := ((n : Rat) * ((100 * ((R : Rat) / C) - T) / T)).ceil
    exact - 1 ≤ neededFromPct rnd n (pct1 rnd R C) T ∧ neededFromPct rnd n (pct1 rnd R C) T ≤ exact + 1 := by
  intro exact
  have e := neededFromPct_eq_ceil_raw rnd u h n R C T
    (by rw [abs_of_nonneg (by omega)]; exact hn') (by rw [abs_of_nonneg hR]; exact hR')
    (by rw [abs_of_nonneg (by omega)]; exact hC') (by rw [abs_of_nonneg (by omega)]; exact hT')
  rw [e]
  exact ceil_within_one _ _ (lt_of_le_of_lt (C05_float_error rnd u h n R C T hn hR hC hT) hbudget)

/-- Non-vacuity: a realistic group (20 nodes × 4000m, 70 % threshold, 97 000m requested) meets the
    budget hypothesis with u = 2⁻⁵³ by a margin of eleven orders of magnitude. -/
example : ((20 : Int) : Rat) / (70 : Int) * (8 * (1 / 2 ^ 53) * (100 * (((97000 : Int) : Rat) / (80000 : Int))) + 4 * (1 / 2 ^ 53) * (70 : Int)) < 1 / 10 ^ 11 := by
  norm_num

/-! ### Scale-up from zero: `ceil(rnd(rnd(rnd(R/c)/T)·100))` -/

/-- The value the from-zero pipeline ceils. -/
def rawFromZero (rnd : Rat → Rat) (R c T : Int) : Rat :=
  rnd (rnd (rnd ((R : Rat) / (c : Rat)) / (T : Rat)) * 100)

theorem neededFromZero_eq_ceil_raw (rnd : Rat → Rat) (u : Rat) (h : StdModel rnd u) (R c T : Int)
    (hR : |R| ≤ 2 ^ 53) (hc : |c| ≤ 2 ^ 53) (hT : |T| ≤ 2 ^ 53) :
    neededFromZero rnd R c T = (rawFromZero rnd R c T).ceil := by
  unfold neededFromZero rawFromZero
  simp only [h.exactInt R hR, h.exactInt c hc, h.exactInt T hT]

private theorem err_zero_core (u q0 T q r x d1 d2 d3 : Rat) (hu : 0 ≤ u) (hu3 : u ≤ 1 / 1000)
    (hq0 : 0 ≤ q0) (hT : 0 < T)
    (e1 : q = q0 + d1) (b1 : |d1| ≤ u * q0) (e2 : r = q / T + d2) (b2 : |d2| ≤ u * |q / T|)
    (e3 : x = r * 100 + d3) (b3 : |d3| ≤ u * |r * 100|) :
    |x - q0 / T * 100| ≤ 4 * u * (q0 / T * 100) := by
  have hX : 0 ≤ q0 / T := by positivity
  have hq : |q| ≤ (1 + u) * q0 := by
    rw [e1]; have := abs_add_le q0 d1; rw [abs_of_nonneg hq0] at this; linarith
  have hqT : |q / T| = |q| / T := by rw [abs_div, abs_of_pos hT]
  have hqT' : |q / T| ≤ (1 + u) * (q0 / T) := by
    rw [hqT]; have := div_le_div_of_nonneg_right hq (le_of_lt hT)
    calc |q| / T ≤ (1 + u) * q0 / T := this
      _ = (1 + u) * (q0 / T) := by ring
  have b2' : |d2| ≤ u * ((1 + u) * (q0 / T)) := le_trans b2 (mul_le_mul_of_nonneg_left hqT' hu)
  have hr : |r| ≤ (1 + u) * ((1 + u) * (q0 / T)) := by
    rw [e2]; have := abs_add_le (q / T) d2
    calc |q / T + d2| ≤ |q / T| + |d2| := this
      _ ≤ (1 + u) * (q0 / T) + u * ((1 + u) * (q0 / T)) := by linarith
      _ = (1 + u) * ((1 + u) * (q0 / T)) := by ring
  have hr100 : |r * 100| = 100 * |r| := by rw [abs_mul]; norm_num; ring
  have b3' : |d3| ≤ u * (100 * ((1 + u) * ((1 + u) * (q0 / T)))) := by
    rw [hr100] at b3
    exact le_trans b3 (mul_le_mul_of_nonneg_left (by linarith) hu)
  have b1' : |d1 / T * 100| ≤ u * (q0 / T) * 100 := by
    rw [abs_mul, abs_div, abs_of_pos hT]
    have : |(100 : Rat)| = 100 := by norm_num
    rw [this]
    have := div_le_div_of_nonneg_right b1 (le_of_lt hT)
    calc |d1| / T * 100 ≤ u * q0 / T * 100 := by linarith
      _ = u * (q0 / T) * 100 := by ring
  have key : x - q0 / T * 100 = d1 / T * 100 + d2 * 100 + d3 := by rw [e3, e2, e1]; field_simp; ring
  rw [key]
  have h1 := abs_add_le (d1 / T * 100 + d2 * 100) d3
  have h2 := abs_add_le (d1 / T * 100) (d2 * 100)
  have h3 : |d2 * 100| = 100 * |d2| := by rw [abs_mul]; norm_num; ring
  generalize q0 / T = X at *
  have huX : 0 ≤ u * X := mul_nonneg hu hX
  have huuX : u * (u * X) ≤ (1 / 1000) * (u * X) := mul_le_mul_of_nonneg_right hu3 huX
  have huuuX : u * (u * (u * X)) ≤ (1 / 1000) * ((1 / 1000) * (u * X)) := by
    calc u * (u * (u * X)) ≤ u * ((1 / 1000) * (u * X)) := mul_le_mul_of_nonneg_left huuX hu
      _ ≤ (1 / 1000) * ((1 / 1000) * (u * X)) := mul_le_mul_of_nonneg_right hu3 (by positivity)
  nlinarith

/-- **C05 (from zero, float error bound).** `|x − 100·R/(c·T)| ≤ 4u · 100·R/(c·T)`. -/
theorem C05_from_zero_float_error (rnd : Rat → Rat) (u : Rat) (h : StdModel rnd u) (R c T : Int)
    (hR : 0 ≤ R) (hc : 1 ≤ c) (hT : 1 ≤ T) :
    |rawFromZero rnd R c T - (R : Rat) / c / T * 100| ≤ 4 * u * ((R : Rat) / c / T * 100) := by
  have hcq : (1 : Rat) ≤ c := by exact_mod_cast hc
  have hTq : (1 : Rat) ≤ T := by exact_mod_cast hT
  have hRq : (0 : Rat) ≤ R := by exact_mod_cast hR
  have hq0nn : (0 : Rat) ≤ (R : Rat) / c := by positivity
  unfold rawFromZero
  generalize (R : Rat) / c = q0 at hq0nn ⊢
  obtain ⟨d1, e1, b1⟩ := rnd_err h q0
  obtain ⟨d2, e2, b2⟩ := rnd_err h (rnd q0 / T)
  obtain ⟨d3, e3, b3⟩ := rnd_err h (rnd (rnd q0 / T) * 100)
  rw [abs_of_nonneg hq0nn] at b1
  exact err_zero_core u q0 T _ _ _ d1 d2 d3 h.u_nonneg h.u_small hq0nn (by linarith) e1 b1 e2 b2 e3 b3

/-- From zero, within one node whenever `4u·100R/(cT) < 1`. -/
theorem C05_from_zero_within_one (rnd : Rat → Rat) (u : Rat) (h : StdModel rnd u) (R c T : Int)
    (hR : 0 ≤ R) (hR' : R ≤ 2 ^ 53) (hc : 1 ≤ c) (hc' : c ≤ 2 ^ 53) (hT : 1 ≤ T) (hT' : T ≤ 2 ^ 53)
    (hbudget : 4 * u * ((R : Rat) / c / T * 100) < 1) :
    let exact := ((R : Rat) / c / T * 100).ceil
    exact - 1 ≤ neededFromZero rnd R c T ∧ neededFromZero rnd R c T ≤ exact + 1 := by
  intro exact
  rw [neededFromZero_eq_ceil_raw rnd u h R c T (by rw [abs_of_nonneg hR]; exact hR')
    (by rw [abs_of_nonneg (by omega)]; exact hc') (by rw [abs_of_nonneg (by omega)]; exact hT')]
  exact ceil_within_one _ _ (lt_of_le_of_lt (C05_from_zero_float_error rnd u h R c T hR hc hT) hbudget)

/-! ### Sufficiency of the float result inside the granularity region -/

/-- If `y` is within `e` of `x`, and `x` exceeds every integer below its ceiling by more than `e`,
    then `⌈y⌉ ≥ ⌈x⌉`. -/
theorem ceil_le_of_gap (x y e : Rat) (h : |y - x| ≤ e) (hgap : e < x - ((x.ceil - 1 : Int) : Rat)) : x.ceil ≤ y.ceil := by
  have hy := Rat.le_ceil (x := y)
  have habs := abs_le.mp h
  -- x.ceil - 1 < y ≤ ⌈y⌉
  have h1 : ((x.ceil - 1 : Int) : Rat) < y := by linarith
  have h2 : ((x.ceil - 1 : Int) : Rat) < ((y.ceil : Int) : Rat) := lt_of_lt_of_le h1 hy
  have : x.ceil - 1 < y.ceil := by exact_mod_cast h2
  omega

/-- The exact value to be ceiled, for `n` equal nodes of size `s`: `X = 100R/(sT) − n`; it exceeds
    every integer below it by at least `1/(sT)` (the numerator is an integer). -/
theorem exact_gap (n s T R : Int) (hn : 1 ≤ n) (hs : 1 ≤ s) (hT : 1 ≤ T) :
    let X : Rat := (n : Rat) * ((100 * ((R : Rat) / ((n * s : Int) : Rat)) - T) / T)
    1 / ((s : Rat) * T) ≤ X - ((X.ceil - 1 : Int) : Rat) := by
  intro X
  have hnq : (1 : Rat) ≤ n := by exact_mod_cast hn
  have hsq : (1 : Rat) ≤ s := by exact_mod_cast hs
  have hTq : (1 : Rat) ≤ T := by exact_mod_cast hT
  have hn0 : (n : Rat) ≠ 0 := by linarith
  have hs0 : (s : Rat) ≠ 0 := by linarith
  have hT0 : (T : Rat) ≠ 0 := by linarith
  have hsT : (0 : Rat) < (s : Rat) * T := by positivity
  have hX : X = ((100 * R - n * (s * T) : Int) : Rat) / ((s : Rat) * T) := by
    simp only [X]; push_cast; field_simp
  -- k = ⌈X⌉ − 1 < X
  have hk : ((X.ceil - 1 : Int) : Rat) < X := by
    have := (Rat.lt_ceil_iff (x := X) (y := X.ceil - 1)).mp (by omega)
    exact this
  generalize X.ceil - 1 = k at hk ⊢
  -- numerator of X − k
  have hnum : X - (k : Rat) = ((100 * R - n * (s * T) - k * (s * T) : Int) : Rat) / ((s : Rat) * T) := by
    rw [hX]; push_cast; field_simp
  rw [hnum]
  have hpos : (0 : Rat) < ((100 * R - n * (s * T) - k * (s * T) : Int) : Rat) / ((s : Rat) * T) := by
    rw [← hnum]; linarith
  have hM : (0 : Rat) < ((100 * R - n * (s * T) - k * (s * T) : Int) : Rat) := by
    by_contra hcon
    have : ((100 * R - n * (s * T) - k * (s * T) : Int) : Rat) / ((s : Rat) * T) ≤ 0 :=
      div_nonpos_of_nonpos_of_nonneg (not_lt.mp hcon) (le_of_lt hsT)
    linarith
  have hM1 : (1 : Rat) ≤ ((100 * R - n * (s * T) - k * (s * T) : Int) : Rat) := by
    have : (0 : Int) < 100 * R - n * (s * T) - k * (s * T) := by exact_mod_cast hM
    have : (1 : Int) ≤ 100 * R - n * (s * T) - k * (s * T) := by omega
    exact_mod_cast this
  exact div_le_div_of_nonneg_right hM1 (le_of_lt hsT)

/-- **C05 (float result sufficient).** For `n` equal nodes of size `s`: whenever the error budget is
    below the granularity `1/(s·T)` of the exact value — with u = 2⁻⁵³: `(8·N* + 4·n)·s·T < 2⁵³` — the
    float pipeline never requests fewer nodes than the exact minimal sufficient count. Outside that
    region it can (finding T2, `C05_float_short_witness`). -/
theorem C05_float_sufficient (rnd : Rat → Rat) (u : Rat) (h : StdModel rnd u) (n R s T : Int)
    (hn : 1 ≤ n) (hn' : n ≤ 2 ^ 53) (hR : 0 ≤ R) (hR' : R ≤ 2 ^ 53) (hs : 1 ≤ s) (hC' : n * s ≤ 2 ^ 53)
    (hT : 1 ≤ T) (hT' : T ≤ 2 ^ 53)
    (hgran : (n : Rat) / T * (8 * u * (100 * ((R : Rat) / ((n * s : Int) : Rat))) + 4 * u * T) < 1 / ((s : Rat) * T)) :
    ((n : Rat) * ((100 * ((R : Rat) / ((n * s : Int) : Rat)) - T) / T)).ceil ≤ neededFromPct rnd n (pct1 rnd R (n * s)) T := by
  have hC : 1 ≤ n * s := by nlinarith
  have e := neededFromPct_eq_ceil_raw rnd u h n R (n * s) T
    (by rw [abs_of_nonneg (by omega)]; exact hn') (by rw [abs_of_nonneg hR]; exact hR')
    (by rw [abs_of_nonneg (by omega)]; exact hC') (by rw [abs_of_nonneg (by omega)]; exact hT')
  rw [e]
  apply ceil_le_of_gap _ _ _ (C05_float_error rnd u h n R (n * s) T hn hR hC hT)
  exact lt_of_lt_of_le hgran (exact_gap n s T R hn hs hT)

/-- **C05 for the float pipeline, inside the region:** the count after the scale-up, `n + delta`, lies
    in `[N, N+1]` for `N = ⌈100·R/(s·T)⌉`, the minimal sufficient count (`C05_ceil_sufficient_minimal`). -/
theorem C05_float_full_in_region (rnd : Rat → Rat) (u : Rat) (h : StdModel rnd u) (n R s T : Int)
    (hn : 1 ≤ n) (hn' : n ≤ 2 ^ 53) (hR : 0 ≤ R) (hR' : R ≤ 2 ^ 53) (hs : 1 ≤ s) (hC' : n * s ≤ 2 ^ 53)
    (hT : 1 ≤ T) (hT' : T ≤ 2 ^ 53)
    (hgran : (n : Rat) / T * (8 * u * (100 * ((R : Rat) / ((n * s : Int) : Rat))) + 4 * u * T) < 1 / ((s : Rat) * T)) :
    let N := ((100 * R : Int) / ((s * T : Int) : Rat) : Rat).ceil
    N ≤ n + neededFromPct rnd n (pct1 rnd R (n * s)) T ∧ n + neededFromPct rnd n (pct1 rnd R (n * s)) T ≤ N + 1 := by
  intro N
  have hsq : (1 : Rat) ≤ s := by exact_mod_cast hs
  have hTq : (1 : Rat) ≤ T := by exact_mod_cast hT
  have hnq : (1 : Rat) ≤ n := by exact_mod_cast hn
  have hsT1 : 1 / ((s : Rat) * T) ≤ 1 := by
    rw [div_le_one (by positivity)]; nlinarith
  have hC : 1 ≤ n * s := by nlinarith
  have hsuf := C05_float_sufficient rnd u h n R s T hn hn' hR hR' hs hC' hT hT' hgran
  have hone := (C05_float_within_one rnd u h n R (n * s) T hn hn' hR hR' hC hC' hT hT' (lt_of_lt_of_le hgran hsT1)).2
  -- the exact ceiling is N − n
  have hn0 : (n : Rat) ≠ 0 := by linarith
  have hs0 : (s : Rat) ≠ 0 := by linarith
  have hT0 : (T : Rat) ≠ 0 := by linarith
  have key : (n : Rat) * ((100 * ((R : Rat) / ((n * s : Int) : Rat)) - T) / T) =
      ((100 * R : Int) : Rat) / ((s * T : Int) : Rat) - (n : Rat) := by
    push_cast; field_simp
  rw [key, ceil_sub_int] at hsuf
  simp only [key, ceil_sub_int] at hone
  constructor
  · simp only [N]; omega
  · simp only [N]; omega

end Esc.P
