/-
  C17 at scan level: a scale-up never lowers the desired size the provider holds for the group.
  (The implementation-side oracle `Spec.loweringRequests` is the negation of this statement, judged against the cloud's
  own description.)
-/
import EscProofs.P.GenAws
import EscProofs.P.Assemble
import EscProofs.P.C17
import EscProofs.Lemmas.Journal
namespace Esc.P
open Esc Esc.Spec

theorem scaleUpUntaint_no_setDesired (o : Oracle) (k : Nat) (dry : Bool) (st : GState) (hint : List Nat)
    (tainted : List Node) (want : Int) :
    ∀ e ∈ (scaleUpUntaint o k dry st hint tainted want).j, ∀ gid v, e.call ≠ .setDesired gid v := by
  intro e he gid v hc
  unfold scaleUpUntaint at he
  split at he
  · simp at he
  · obtain ⟨_, c, _, _, h2⟩ := untaintLoop_entries o dry _ _ _ _ e he
    cases h2 <;> simp_all

/-- **C17 (a scale-up never lowers).** Every `SetDesiredCapacity` in the journal of `ScaleUp` asks for strictly more than
    the desired size of the provider's description of the group at that moment (`g`: the description of this scan's
    refresh, lowered by one for every termination-with-decrement the same scan had accepted before). Escalator shrinks
    a group only by naming instances; it never hands the choice of victims to the cloud. -/
theorem C17_scan_never_lowers (o : Oracle) (k : Nat) (dry : Bool) (cfg : GroupCfg) (st : GState) (g : PGroup)
    (nowReal : Int) (hint : List Nat) (tainted : List Node) (want : Int) :
    ∀ e ∈ (scaleUp o k dry cfg st g nowReal hint tainted want).j, ∀ gid v, e.call = .setDesired gid v → v > g.asg.desired := by
  intro e he gid v hc
  have hu := scaleUpUntaint_no_setDesired o k dry st hint tainted want
  unfold scaleUp at he; dsimp only at he
  generalize scaleUpUntaint o k dry st hint tainted want = u at he hu
  split at he
  · split at he
    · exact absurd hc (hu e he gid v)
    · split at he
      · exact absurd hc (hu e he gid v)
      · have key : e ∈ u.j ++ (increaseSize o u.k cfg.aws g (nodesToAdd (want - u.val.count) g.asg.desired st.maxEff g.asg.max)).j := by
          split at he <;> exact he
        rcases List.mem_append.mp key with h | h
        · exact absurd hc (hu e h gid v)
        · exact C17_never_lowers o u.k cfg.aws g _ e h gid v hc
  · exact absurd hc (hu e he gid v)

end Esc.P
