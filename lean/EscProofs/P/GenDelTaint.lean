/-
  `k8s.DeleteToBeRemovedTaint` (pkg/k8s/taint.go) as translated on every run (`Esc.Gen.delTaint`, Gen/DelTaint.lean; extract/reap.go,
  genDelTaint): GET and UPDATE are parameters, the loop over the fetched taints is read as "find the first one with the escalator
  key", the two statements of the swap-delete are recognised word for word.
-/
import Esc.Gen.DelTaint
namespace Esc.P
open Esc

/-- **C15 on the source, untaint** (`DeleteToBeRemovedTaint` as translated, `Esc.Gen.delTaint`). The UPDATE is sent iff the GET
    returned a node without error and that copy carries a taint with the escalator key; in front of it stand, word for word, the
    two statements that move the last taint into the place of the first one with the escalator key and drop the last slot
    (`swapRemoveFirst` in the model); an error is reported iff the GET or the UPDATE failed; a copy without the taint is success
    without a write. -/
theorem C15_source_delete (getNil getErr hasEsc updNil updErr : Bool) :
    let r := Gen.delTaint getNil getErr hasEsc updNil updErr
    (r.2.1 = true ↔ (getNil = false ∧ getErr = false ∧ hasEsc = true)) ∧
    (r.2.1 = true → r.2.2 = 2) ∧
    (r.1 = true ↔ ((getErr = true ∨ getNil = true) ∨ (hasEsc = true ∧ (updErr = true ∨ updNil = true)))) ∧
    (getNil = false → getErr = false → hasEsc = false → r = (false, false, 0)) := by
  intro r
  simp only [r, Gen.delTaint]
  cases getNil <;> cases getErr <;> cases hasEsc <;> cases updNil <;> cases updErr <;> simp

theorem gen_delTaint_translation_complete : Gen.numDelTaintUnknown = 0 := by decide

end Esc.P
