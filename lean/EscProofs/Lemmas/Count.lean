/-
  Counting lemmas: how many accepted node updates the loops can issue.
-/
import EscProofs.Lemmas.Shape
namespace Esc
open Spec

def isOkUpdate (e : Entry) : Bool :=
  e.ok && (match e.call with | .updateNode _ => true | _ => false)

theorem k8sGet_noUpdate (o : Oracle) (k : Nat) (name : String) : (k8sGet o k name).j.countP isOkUpdate = 0 := by
  obtain ⟨b, hb⟩ := k8sGet_j o k name
  rw [hb]; simp [isOkUpdate]

/-- Complete description of one `AddToBeRemovedTaint` call. -/
theorem addTaint_cases (o : Oracle) (k : Nat) (nowSec : Int) (effect : String) (c : Node) :
    (∃ b, (addTaint o k nowSec effect c).j = [⟨.getNode c.name, b⟩] ∧ (addTaint o k nowSec effect c).val = false) ∨
    (∃ b, (addTaint o k nowSec effect c).j = [⟨.getNode c.name, b⟩] ∧ (addTaint o k nowSec effect c).val = true) ∨
    (∃ b u b2, u.name = c.name ∧ hasTaint escKey u = false ∧
      (addTaint o k nowSec effect c).j = [⟨.getNode c.name, b⟩, ⟨.updateNode { u with taints := u.taints ++ [newEscTaint nowSec effect] }, b2⟩] ∧
      (addTaint o k nowSec effect c).val = b2) := by
  obtain ⟨b, hb⟩ := k8sGet_j o k c.name
  unfold addTaint; dsimp only
  split
  · left; exact ⟨b, hb, rfl⟩
  · rename_i u hu
    split
    · right; left; exact ⟨b, hb, rfl⟩
    · rename_i hno
      right; right
      obtain ⟨b2, hj, hv⟩ := doPlain_j o (k8sGet o k c.name).k (.updateNode { u with taints := u.taints ++ [newEscTaint nowSec effect] })
      exact ⟨b, u, b2, k8sGet_name o k c.name u hu, by simpa using hno, by simp [hb, hj], hv⟩

theorem addTaint_count (o : Oracle) (k : Nat) (nowSec : Int) (effect : String) (c : Node) :
    (addTaint o k nowSec effect c).j.countP isOkUpdate ≤ (if (addTaint o k nowSec effect c).val then 1 else 0) := by
  rcases addTaint_cases o k nowSec effect c with ⟨b, hj, hv⟩ | ⟨b, hj, hv⟩ | ⟨b, u, b2, _, _, hj, hv⟩
  · simp [hj, hv, isOkUpdate]
  · simp [hj, hv, isOkUpdate]
  · rw [hj, hv]; cases b2 <;> simp [isOkUpdate]

theorem taintLoop_count (o : Oracle) (dry : Bool) (nowSec : Int) (effect : String) :
    ∀ (cs : List Node) (k need : Nat) (tr : List String),
    (taintLoop o dry nowSec effect k cs need tr).j.countP isOkUpdate ≤ need := by
  intro cs
  induction cs with
  | nil => intro k need tr; simp [taintLoop]
  | cons c cs ih =>
    intro k need tr
    unfold taintLoop; dsimp only
    split
    · simp
    · rename_i hne
      split
      · have := ih k (need - 1) (tr ++ [c.name])
        show List.countP isOkUpdate (taintLoop o dry nowSec effect k cs (need - 1) (tr ++ [c.name])).j ≤ need
        omega
      · have h1 := addTaint_count o k nowSec effect c
        simp only [List.countP_append]
        cases hv : (addTaint o k nowSec effect c).val with
        | true =>
          simp only [hv, if_true] at h1 ⊢
          have := ih (addTaint o k nowSec effect c).k (need - 1) tr
          omega
        | false =>
          simp only [hv, Bool.false_eq_true, if_false] at h1 ⊢
          have := ih (addTaint o k nowSec effect c).k need tr
          omega

theorem scaleDownTaint_count (o : Oracle) (k : Nat) (dry : Bool) (cfg : GroupCfg) (st : GState) (nowSec : Int)
    (hint : List Nat) (untainted : List Node) (n : Int) :
    ((scaleDownTaint o k dry cfg st nowSec hint untainted n).j.countP isOkUpdate : Int) ≤
      max 0 (clampRemove untainted.length st.minEff n) := by
  unfold scaleDownTaint; dsimp only
  generalize clampRemove (↑untainted.length) st.minEff n = m
  split
  · simp only [List.countP_nil]; omega
  · rename_i hm
    have := taintLoop_count o dry nowSec cfg.taintEffect (orderBy oldestFirst hint untainted) k m.toNat st.taintTracker
    show (List.countP isOkUpdate (taintLoop o dry nowSec cfg.taintEffect k (orderBy oldestFirst hint untainted) m.toNat st.taintTracker).j : Int) ≤ max 0 m
    omega

theorem countP_zero_of_forall {p : Entry → Bool} {j : Journal} (h : ∀ e ∈ j, p e = false) : j.countP p = 0 := by
  rw [List.countP_eq_zero]
  intro e he
  simp [h e he]

theorem removal_noUpdate {g : PGroup} {cands : List Node} {e : Entry} (h : RemovalEntry g cands e) : isOkUpdate e = false := by
  cases h <;> simp [isOkUpdate]

theorem tryDelete_noUpdate (o : Oracle) (k : Nat) (g : PGroup) (cands : List Node) :
    (tryDelete o k g cands).j.countP isOkUpdate = 0 :=
  countP_zero_of_forall (fun e he => removal_noUpdate (tryDelete_entries o k g cands e he))

theorem metrics_noUpdate {mj : Journal} (h : ∀ e ∈ mj, ∃ id b, e = ⟨.describeInstances id, b⟩) : mj.countP isOkUpdate = 0 :=
  countP_zero_of_forall (fun e he => by obtain ⟨id, b, rfl⟩ := h e he; simp [isOkUpdate])

end Esc
