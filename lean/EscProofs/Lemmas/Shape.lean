/-
  Shape of a group scan's journal: which sub-journals it is the concatenation of, branch by branch.
-/
import EscProofs.Lemmas.Classify
namespace Esc
open Spec

/-- The journal of `scanAct`, by sign of the decided delta. -/
theorem scanAct_shape (o : Oracle) (k : Nat) (dry : Bool) (cfg : GroupCfg) (st : GState) (g : PGroup) (pods : List Pod)
    (h : Hints) (nowMock nowReal : Int) (untainted tainted force : List Node) (mj : Journal) (delta : Int) :
    let f := tryDelete o k g (forceCands dry pods force)
    let r := tryDelete o f.k f.val.g (reaperCands dry cfg pods nowMock tainted)
    let j := (scanAct o k dry cfg st g pods h nowMock nowReal untainted tainted force mj delta).j
    (j = mj ++ f.j) ∨
    (delta < 0 ∧ (j = mj ++ f.j ++ r.j ∨
        j = mj ++ f.j ++ r.j ++ (scaleDownTaint o r.k dry cfg st (nowReal / 1000000000) h.old untainted (-delta)).j)) ∨
    (delta > 0 ∧ j = mj ++ f.j ++ (scaleUp o f.k dry cfg st f.val.g nowReal h.new tainted delta).j) ∨
    (delta = 0 ∧ j = mj ++ f.j ++ r.j) := by
  intro f r j
  show _ ∨ _ ∨ _ ∨ _
  simp only [j]
  unfold scanAct; dsimp only
  split
  · left; rfl
  right
  split
  · rename_i hneg
    left
    refine ⟨hneg, ?_⟩
    split
    · left; rfl
    · right; rfl
  · rename_i hnneg
    split
    · rename_i hpos
      right; left
      refine ⟨hpos, ?_⟩
      split <;> rfl
    · rename_i hnpos
      right; right
      refine ⟨by omega, ?_⟩
      split <;> rfl

/-- State facts that survive the lock check and the cache update. -/
def SameBounds (st st0 : GState) : Prop :=
  st.minEff = st0.minEff ∧ st.maxEff = st0.maxEff ∧ st.taintTracker = st0.taintTracker ∧
  st.forceTaintTracker = st0.forceTaintTracker

theorem sameBounds_withCache_lock (st0 : GState) (nodes : List Node) (l : Lock) :
    SameBounds { withCache st0 nodes with lock := l } st0 := by
  obtain ⟨h1, h2, h3, h4, _⟩ := withCache_trackers st0 nodes
  exact ⟨h3, h4, h1, h2⟩

/-- The journal of a whole group scan is empty, or that of the below-minimum `ScaleUp`, or
    new-node-metric reads alone, or that of `scanAct`. -/
theorem scanGroup_shape (rnd : Rat → Rat) (o : Oracle) (k : Nat) (globalDry : Bool) (cfg : GroupCfg)
    (st0 : GState) (g : PGroup) (view : View) (h : Hints) (nowMock nowReal : Int) :
    let dry := globalDry || cfg.dryMode
    let untainted := nodesOf dry st0 .untainted view.nodes
    let tainted := nodesOf dry st0 .tainted view.nodes
    let force := nodesOf dry st0 .force view.nodes
    let j := (scanGroup rnd o k globalDry cfg st0 g view h nowMock nowReal).j
    j = [] ∨
    (∃ st, SameBounds st st0 ∧ (untainted.length : Int) < st0.minEff ∧
        j = (scaleUp o k dry cfg st g nowReal h.new tainted (st.minEff - untainted.length)).j) ∨
    (∃ st mj, SameBounds st st0 ∧ (∀ e ∈ mj, ∃ id b, e = ⟨.describeInstances id, b⟩) ∧ (st0.minEff ≤ (untainted.length : Int)) ∧
        (j = mj ∨ ∃ delta, j = (scanAct o k dry cfg st g view.pods h nowMock nowReal untainted tainted force mj delta).j)) := by
  intro dry untainted tainted force j
  show _ ∨ _ ∨ _
  simp only [j, dry, untainted, tainted, force]
  unfold scanGroup; dsimp only
  rw [nodesOf_withCache, nodesOf_withCache, nodesOf_withCache]
  obtain ⟨_, _, hmin, _⟩ := withCache_trackers st0 view.nodes
  split
  · left; rfl
  split
  · left; rfl
  split
  · left; rfl
  split
  · rename_i hlt
    rw [hmin] at hlt
    split
    · left; rfl
    · right; left
      exact ⟨_, sameBounds_withCache_lock st0 view.nodes _, hlt, rfl⟩
  rename_i hge
  rw [hmin] at hge
  split
  · left; rfl
  split
  · left; rfl
  right; right
  refine ⟨{ withCache st0 view.nodes with lock := lockAfterCheck (withCache st0 view.nodes).lock cfg.coolNs nowReal },
    newNodeMetrics o k { withCache st0 view.nodes with lock := lockAfterCheck (withCache st0 view.nodes).lock cfg.coolNs nowReal } view.nodes,
    sameBounds_withCache_lock st0 view.nodes _, newNodeMetrics_entries o k _ view.nodes, by omega, ?_⟩
  unfold scanDecide; dsimp only
  split
  · left; rfl
  · right; exact ⟨_, rfl⟩

end Esc
