/-
  Facts about classification, candidate lists and backing of removal calls, shared by several
  property files.
-/
import EscProofs.Lemmas.Journal
namespace Esc
open Spec

theorem nodesOf_mem {dry : Bool} {st : GState} {c : Class} {nodes : List Node} {n : Node} (h : n ∈ nodesOf dry st c nodes) :
    n ∈ nodes ∧ classify dry st n = c := by
  unfold nodesOf at h
  simpa using h

theorem classify_force {st : GState} {n : Node} (h : classify false st n = .force) :
    n.unschedulable = false ∧ hasTaint forceKey n = true := by
  unfold classify at h
  simp only [Bool.false_eq_true, if_false] at h
  split at h
  · simp at h
  · split at h
    · rename_i h1 h2; exact ⟨by simpa using h1, h2⟩
    · split at h <;> simp at h

theorem classify_tainted {st : GState} {n : Node} (h : classify false st n = .tainted) :
    n.unschedulable = false ∧ hasTaint forceKey n = false ∧ hasTaint escKey n = true := by
  unfold classify at h
  simp only [Bool.false_eq_true, if_false] at h
  split at h
  · simp at h
  · split at h
    · simp at h
    · split at h
      · rename_i h1 h2 h3; exact ⟨by simpa using h1, by simpa using h2, h3⟩
      · simp at h

theorem classify_untainted {st : GState} {n : Node} (h : classify false st n = .untainted) :
    n.unschedulable = false ∧ hasTaint forceKey n = false ∧ hasTaint escKey n = false := by
  unfold classify at h
  simp only [Bool.false_eq_true, if_false] at h
  split at h
  · simp at h
  · split at h
    · simp at h
    · split at h
      · simp at h
      · rename_i h1 h2 h3; exact ⟨by simpa using h1, by simpa using h2, by simpa using h3⟩

/-- A member node's instance id resolves to an instance of the cached group with that provider id. -/
theorem instance_backs {g : PGroup} {n : Node} (hb : belongs g n = true) :
    g.asg.instances.any (fun i => i.id == instanceIdFor g n && providerIdOf i == n.providerID) = true := by
  unfold belongs at hb
  unfold instanceIdFor
  rw [List.any_eq_true] at hb
  obtain ⟨i, hi, hp⟩ := hb
  cases hfind : g.asg.instances.find? (fun i => providerIdOf i == n.providerID) with
  | none =>
    have := List.find?_eq_none.mp hfind i hi
    simp [hp] at this
  | some i' =>
    have hmem := List.mem_of_find?_eq_some hfind
    have hpred := List.find?_some hfind
    rw [List.any_eq_true]
    exact ⟨i', hmem, by simp [hpred]⟩


theorem removalEntry_backed {c : Ctx} {p : Node → Bool} {cands : List Node} {e : Entry}
    (hc : ∀ n ∈ cands, n ∈ c.view.nodes ∧ p n = true) (he : RemovalEntry c.g cands e) : removalBackedBy c p e = true := by
  cases he with
  | terminate n hn hb b =>
    obtain ⟨hin, hel⟩ := hc n hn
    unfold removalBackedBy
    simp only [List.any_eq_true]
    exact ⟨n, hin, by simp [hel, instance_backs hb]⟩
  | delete n hn b =>
    obtain ⟨hin, hel⟩ := hc n hn
    unfold removalBackedBy
    simp only [List.any_eq_true]
    exact ⟨n, hin, by simp [hel]⟩

theorem increase_not_removal {c : Ctx} {p : Node → Bool} {gid : String} {e : Entry} (hi : isIncreaseCall gid e.call = true) :
    removalBackedBy c p e = true := by
  unfold removalBackedBy
  revert hi
  cases e.call <;> simp [isIncreaseCall]

theorem forceCands_mem {dry : Bool} {pods : List Pod} {st : GState} {nodes : List Node} {n : Node}
    (hn : n ∈ forceCands dry pods (nodesOf dry st .force nodes)) :
    dry = false ∧ n ∈ nodes ∧ n.unschedulable = false ∧ hasTaint forceKey n = true ∧ nodeEmpty pods n = true := by
  unfold forceCands at hn
  split at hn
  · simp at hn
  · rename_i hdry
    have hdry' : dry = false := by simpa using hdry
    subst hdry'
    rw [List.mem_filter] at hn
    obtain ⟨hin, hcl⟩ := nodesOf_mem hn.1
    obtain ⟨hu, hf⟩ := classify_force hcl
    exact ⟨rfl, hin, hu, hf, hn.2⟩

theorem reaperCands_mem {dry : Bool} {cfg : GroupCfg} {pods : List Pod} {now : Int} {st : GState} {nodes : List Node} {n : Node}
    (hn : n ∈ reaperCands dry cfg pods now (nodesOf dry st .tainted nodes)) :
    dry = false ∧ n ∈ nodes ∧ n.unschedulable = false ∧ hasTaint forceKey n = false ∧ hasTaint escKey n = true ∧
    safeFromDeletion n = false ∧ graceExpired cfg pods now n = true := by
  unfold reaperCands at hn
  split at hn
  · simp at hn
  · rename_i hdry
    have hdry' : dry = false := by simpa using hdry
    subst hdry'
    rw [List.mem_filter] at hn
    obtain ⟨hin, hcl⟩ := nodesOf_mem hn.1
    obtain ⟨hu, hf, he⟩ := classify_tainted hcl
    have h2 := hn.2
    simp only [Bool.and_eq_true, Bool.not_eq_true'] at h2
    exact ⟨rfl, hin, hu, hf, he, h2.1, h2.2⟩

end Esc
