/-
  Order and accounting of the taint / untaint loops, and sortedness of the visiting order.
-/
import EscProofs.Lemmas.Count
namespace Esc
open Spec

/-! ### sortedness of `orderBy` -/

theorem sortedBy_pairwise (le : Node → Node → Bool) (htrans : ∀ a b c, le a b = true → le b c = true → le a c = true) :
    ∀ l, sortedBy le l = true → l.Pairwise (fun a b => le a b = true) := by
  intro l
  induction l with
  | nil => intro _; exact List.Pairwise.nil
  | cons x xs ih =>
    intro h
    cases xs with
    | nil => exact List.pairwise_singleton _ _
    | cons y ys =>
      simp only [sortedBy, Bool.and_eq_true] at h
      have hp := ih h.2
      refine List.Pairwise.cons ?_ hp
      intro z hz
      rcases List.mem_cons.mp hz with rfl | hz
      · exact h.1
      · exact htrans x y z h.1 ((List.pairwise_cons.mp hp).1 z hz)

theorem insertBy_pairwise (le : Node → Node → Bool) (htrans : ∀ a b c, le a b = true → le b c = true → le a c = true)
    (htotal : ∀ a b, le a b = true ∨ le b a = true) (x : Node) :
    ∀ l, l.Pairwise (fun a b => le a b = true) → (insertBy le x l).Pairwise (fun a b => le a b = true) := by
  intro l
  induction l with
  | nil => intro _; exact List.pairwise_singleton _ _
  | cons y ys ih =>
    intro hp
    unfold insertBy
    split
    · rename_i hxy
      refine List.Pairwise.cons ?_ hp
      intro z hz
      rcases List.mem_cons.mp hz with rfl | hz
      · exact hxy
      · exact htrans x y z hxy ((List.pairwise_cons.mp hp).1 z hz)
    · rename_i hxy
      have hyx : le y x = true := by
        rcases htotal x y with h | h
        · exact absurd h hxy
        · exact h
      obtain ⟨hy, hys⟩ := List.pairwise_cons.mp hp
      refine List.Pairwise.cons ?_ (ih hys)
      intro z hz
      have hperm := (insertBy_perm le x ys).mem_iff.mp hz
      rcases List.mem_cons.mp hperm with rfl | hz'
      · exact hyx
      · exact hy z hz'

theorem insertionSort_pairwise (le : Node → Node → Bool) (htrans : ∀ a b c, le a b = true → le b c = true → le a c = true)
    (htotal : ∀ a b, le a b = true ∨ le b a = true) : ∀ l, (insertionSort le l).Pairwise (fun a b => le a b = true) := by
  intro l
  induction l with
  | nil => exact List.Pairwise.nil
  | cons x xs ih => unfold insertionSort; exact insertBy_pairwise le htrans htotal x _ ih

/-- Whatever the hint, the visiting order is sorted. -/
theorem orderBy_pairwise (le : Node → Node → Bool) (htrans : ∀ a b c, le a b = true → le b c = true → le a c = true)
    (htotal : ∀ a b, le a b = true ∨ le b a = true) (hint : List Nat) (xs : List Node) :
    (orderBy le hint xs).Pairwise (fun a b => le a b = true) := by
  unfold orderBy; dsimp only
  split
  · rename_i h
    simp only [Bool.and_eq_true] at h
    exact sortedBy_pairwise le htrans _ h.2
  · exact insertionSort_pairwise le htrans htotal xs

theorem oldestFirst_trans : ∀ a b c : Node, oldestFirst a b = true → oldestFirst b c = true → oldestFirst a c = true := by
  intro a b c h1 h2; simp only [oldestFirst, decide_eq_true_eq] at *; omega
theorem oldestFirst_total : ∀ a b : Node, oldestFirst a b = true ∨ oldestFirst b a = true := by
  intro a b; simp only [oldestFirst, decide_eq_true_eq]; omega
theorem newestFirst_trans : ∀ a b c : Node, newestFirst a b = true → newestFirst b c = true → newestFirst a c = true := by
  intro a b c h1 h2; simp only [newestFirst, decide_eq_true_eq] at *; omega
theorem newestFirst_total : ∀ a b : Node, newestFirst a b = true ∨ newestFirst b a = true := by
  intro a b; simp only [newestFirst, decide_eq_true_eq]; omega

/-! ### the taint loop, completely -/

theorem getNames_append (a b : Journal) : getNames (a ++ b) = getNames a ++ getNames b := by simp [getNames]
theorem okUpdateNames_append (a b : Journal) : okUpdateNames (a ++ b) = okUpdateNames a ++ okUpdateNames b := by simp [okUpdateNames]

theorem addTaint_names (o : Oracle) (k : Nat) (nowSec : Int) (effect : String) (c : Node) :
    getNames (addTaint o k nowSec effect c).j = [c.name] ∧
    (okUpdateNames (addTaint o k nowSec effect c).j = [] ∨
      (okUpdateNames (addTaint o k nowSec effect c).j = [c.name] ∧ (addTaint o k nowSec effect c).val = true)) := by
  rcases addTaint_cases o k nowSec effect c with ⟨b, hj, _⟩ | ⟨b, hj, _⟩ | ⟨b, u, b2, hn, _, hj, hv⟩
  · simp [hj, getNames, okUpdateNames]
  · simp [hj, getNames, okUpdateNames]
  · rw [hj, hv]
    refine ⟨by simp [getNames], ?_⟩
    cases b2
    · left; simp [okUpdateNames]
    · right; simp [okUpdateNames, hn]

/-- The non-dry taint loop attempts a prefix of the ordered candidates, in order; nodes it tainted
    are among those attempted; it stops early only once `need` successes were reached. -/
theorem taintLoop_spec (o : Oracle) (nowSec : Int) (effect : String) :
    ∀ (cs : List Node) (k need : Nat) (tr : List String),
    ∃ m, m ≤ cs.length ∧
      getNames (taintLoop o false nowSec effect k cs need tr).j = (cs.take m).map (·.name) ∧
      (∀ x ∈ okUpdateNames (taintLoop o false nowSec effect k cs need tr).j, x ∈ (cs.take m).map (·.name)) ∧
      (taintLoop o false nowSec effect k cs need tr).val.count ≤ need ∧
      (taintLoop o false nowSec effect k cs need tr).val.count ≤ m ∧
      (m < cs.length → (taintLoop o false nowSec effect k cs need tr).val.count = need) := by
  intro cs
  induction cs with
  | nil => intro k need tr; exact ⟨0, by simp [taintLoop, getNames, okUpdateNames]⟩
  | cons c cs ih =>
    intro k need tr
    unfold taintLoop; dsimp only
    split
    · rename_i h0
      exact ⟨0, by simp [getNames, okUpdateNames, h0]⟩
    · rename_i hne
      simp only [Bool.false_eq_true, if_false]
      obtain ⟨hg, hu⟩ := addTaint_names o k nowSec effect c
      have hmem : ∀ (m : Nat) (rest : Journal), (∀ x ∈ okUpdateNames rest, x ∈ (cs.take m).map (·.name)) →
          ∀ x ∈ okUpdateNames ((addTaint o k nowSec effect c).j ++ rest), x ∈ ((c :: cs).take (m + 1)).map (·.name) := by
        intro m rest i2 x hx
        rw [okUpdateNames_append] at hx
        rcases List.mem_append.mp hx with hx | hx
        · rcases hu with h | ⟨h, _⟩
          · rw [h] at hx; cases hx
          · rw [h] at hx; simp at hx; simp [hx]
        · simp only [List.take_succ_cons, List.map_cons, List.mem_cons]
          right; exact i2 x hx
      cases hv : (addTaint o k nowSec effect c).val with
      | true =>
        simp only [if_true]
        obtain ⟨m, hm, i1, i2, i3, i4, i5⟩ := ih (addTaint o k nowSec effect c).k (need - 1) tr
        refine ⟨m + 1, by simp; omega, by simp [getNames_append, hg, i1], hmem m _ i2, by omega, by omega, ?_⟩
        intro hlt
        have := i5 (by simpa using hlt)
        omega
      | false =>
        simp only [Bool.false_eq_true, if_false, Nat.add_zero]
        obtain ⟨m, hm, i1, i2, i3, i4, i5⟩ := ih (addTaint o k nowSec effect c).k need tr
        refine ⟨m + 1, by simp; omega, by simp [getNames_append, hg, i1], hmem m _ i2, i3, by omega, ?_⟩
        intro hlt
        exact i5 (by simpa using hlt)

end Esc

namespace Esc
open Spec

/-! ### the untaint loop, completely -/

theorem deleteTaint_cases (o : Oracle) (k : Nat) (c : Node) :
    (∃ b, (deleteTaint o k c).j = [⟨.getNode c.name, b⟩]) ∨
    (∃ b u b2, u.name = c.name ∧ hasTaint escKey u = true ∧
      (deleteTaint o k c).j = [⟨.getNode c.name, b⟩, ⟨.updateNode { u with taints := swapRemoveFirst (fun t => t.key == escKey) u.taints }, b2⟩] ∧
      (deleteTaint o k c).val = b2) := by
  obtain ⟨b, hb⟩ := k8sGet_j o k c.name
  unfold deleteTaint; dsimp only
  split
  · left; exact ⟨b, hb⟩
  · rename_i u hu
    split
    · rename_i hhas
      right
      obtain ⟨b2, hj, hv⟩ := doPlain_j o (k8sGet o k c.name).k (.updateNode { u with taints := swapRemoveFirst (fun t => t.key == escKey) u.taints })
      exact ⟨b, u, b2, k8sGet_name o k c.name u hu, hhas, by simp [hb, hj], hv⟩
    · left; exact ⟨b, hb⟩

theorem deleteTaint_names (o : Oracle) (k : Nat) (c : Node) :
    getNames (deleteTaint o k c).j = [c.name] ∧
    (okUpdateNames (deleteTaint o k c).j = [] ∨ (okUpdateNames (deleteTaint o k c).j = [c.name] ∧ (deleteTaint o k c).val = true)) := by
  rcases deleteTaint_cases o k c with ⟨b, hj⟩ | ⟨b, u, b2, hn, _, hj, hv⟩
  · simp [hj, getNames, okUpdateNames]
  · rw [hj, hv]
    refine ⟨by simp [getNames], ?_⟩
    cases b2
    · left; simp [okUpdateNames]
    · right; simp [okUpdateNames, hn]

/-- The non-dry untaint loop over candidates that all carry the escalator taint in the view: it
    attempts a prefix of the ordered candidates, in order; it stops early only once `need` successes
    were reached; accepted UPDATEs are for attempted candidates. -/
theorem untaintLoop_spec (o : Oracle) :
    ∀ (cs : List Node) (k need : Nat) (tr : List String), (∀ c ∈ cs, hasTaint escKey c = true) →
    ∃ m, m ≤ cs.length ∧
      getNames (untaintLoop o false k cs need tr).j = (cs.take m).map (·.name) ∧
      (∀ x ∈ okUpdateNames (untaintLoop o false k cs need tr).j, x ∈ (cs.take m).map (·.name)) ∧
      (untaintLoop o false k cs need tr).val.count ≤ need ∧
      (untaintLoop o false k cs need tr).val.count ≤ m ∧
      (okUpdateNames (untaintLoop o false k cs need tr).j).length ≤ (untaintLoop o false k cs need tr).val.count ∧
      (m < cs.length → (untaintLoop o false k cs need tr).val.count = need) := by
  intro cs
  induction cs with
  | nil => intro k need tr _; exact ⟨0, by simp [untaintLoop, getNames, okUpdateNames]⟩
  | cons c cs ih =>
    intro k need tr hall
    have hc := hall c List.mem_cons_self
    have hrest : ∀ c' ∈ cs, hasTaint escKey c' = true := fun c' h => hall c' (List.mem_cons_of_mem _ h)
    unfold untaintLoop; dsimp only
    split
    · rename_i h0
      exact ⟨0, by simp [getNames, okUpdateNames, h0]⟩
    · rename_i hne
      simp only [Bool.false_eq_true, if_false, hc, if_true]
      obtain ⟨hg, hu⟩ := deleteTaint_names o k c
      have hmem : ∀ (m : Nat) (rest : Journal), (∀ x ∈ okUpdateNames rest, x ∈ (cs.take m).map (·.name)) →
          ∀ x ∈ okUpdateNames ((deleteTaint o k c).j ++ rest), x ∈ ((c :: cs).take (m + 1)).map (·.name) := by
        intro m rest i2 x hx
        rw [okUpdateNames_append] at hx
        rcases List.mem_append.mp hx with hx | hx
        · rcases hu with h | ⟨h, _⟩
          · rw [h] at hx; cases hx
          · rw [h] at hx; simp at hx; simp [hx]
        · simp only [List.take_succ_cons, List.map_cons, List.mem_cons]
          right; exact i2 x hx
      cases hv : (deleteTaint o k c).val with
      | true =>
        simp only [if_true]
        obtain ⟨m, hm, i1, i2, i3, i4, i6, i5⟩ := ih (deleteTaint o k c).k (need - 1) tr hrest
        refine ⟨m + 1, by simp; omega, by simp [getNames_append, hg, i1], hmem m _ i2, by omega, by omega, ?_, ?_⟩
        · rw [okUpdateNames_append, List.length_append]
          rcases hu with h | ⟨h, _⟩ <;> (rw [h]; simp; omega)
        · intro hlt
          have := i5 (by simpa using hlt)
          omega
      | false =>
        simp only [Bool.false_eq_true, if_false, Nat.add_zero]
        obtain ⟨m, hm, i1, i2, i3, i4, i6, i5⟩ := ih (deleteTaint o k c).k need tr hrest
        refine ⟨m + 1, by simp; omega, by simp [getNames_append, hg, i1], hmem m _ i2, i3, by omega, ?_, ?_⟩
        · rw [okUpdateNames_append, List.length_append]
          rcases hu with h | ⟨h, hv'⟩
          · rw [h]; simpa using i6
          · rw [hv] at hv'; cases hv'
        · intro hlt
          exact i5 (by simpa using hlt)

end Esc
