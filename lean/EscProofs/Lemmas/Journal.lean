/-
  Journal anatomy: for every effectful model function, what its journal can contain.
  Helper lemmas only; property theorems live in EscProofs/P/.
-/
import Esc.Spec
namespace Esc
open Spec

/-! ### primitives -/

theorem doPlain_j (o : Oracle) (k : Nat) (c : Call) : ∃ b, (doPlain o k c).j = [⟨c, b⟩] ∧ (doPlain o k c).val = b := by
  unfold doPlain; split <;> simp

theorem doCall_j (o : Oracle) (k : Nat) (c : Call) : (doCall o k c).j = [⟨c, o k c != .fail⟩] := rfl

theorem k8sGet_j (o : Oracle) (k : Nat) (name : String) : ∃ b, (k8sGet o k name).j = [⟨.getNode name, b⟩] := by
  unfold k8sGet; split <;> (try split) <;> simp

theorem k8sGet_name (o : Oracle) (k : Nat) (name : String) (u : Node) (h : (k8sGet o k name).val = some u) : u.name = name := by
  unfold k8sGet at h; split at h
  · split at h
    · simp at h; subst h; assumption
    · simp at h
  · simp at h

/-! ### taint operations -/

/-- What `addTaint` can put in the journal. -/
inductive AddTaintEntry (nowSec : Int) (effect : String) (c : Node) : Entry → Prop
  | get (b : Bool) : AddTaintEntry nowSec effect c ⟨.getNode c.name, b⟩
  | upd (u : Node) (b : Bool) (hn : u.name = c.name) (hno : hasTaint escKey u = false) :
      AddTaintEntry nowSec effect c ⟨.updateNode { u with taints := u.taints ++ [newEscTaint nowSec effect] }, b⟩

theorem addTaint_entries (o : Oracle) (k : Nat) (nowSec : Int) (effect : String) (c : Node) :
    ∀ e ∈ (addTaint o k nowSec effect c).j, AddTaintEntry nowSec effect c e := by
  intro e he
  unfold addTaint at he; dsimp only at he
  obtain ⟨b, hb⟩ := k8sGet_j o k c.name
  split at he
  · simp [hb] at he; subst he; exact .get b
  · rename_i u hu
    split at he
    · simp [hb] at he; subst he; exact .get b
    · rename_i hno
      obtain ⟨b2, hb2, _⟩ := doPlain_j o (k8sGet o k c.name).k (.updateNode { u with taints := u.taints ++ [newEscTaint nowSec effect] })
      simp [hb, hb2] at he
      rcases he with he | he
      · subst he; exact .get b
      · subst he; exact .upd u b2 (k8sGet_name o k c.name u hu) (by simpa using hno)

/-- What `deleteTaint` can put in the journal. -/
inductive DelTaintEntry (c : Node) : Entry → Prop
  | get (b : Bool) : DelTaintEntry c ⟨.getNode c.name, b⟩
  | upd (u : Node) (b : Bool) (hn : u.name = c.name) (hhas : hasTaint escKey u = true) :
      DelTaintEntry c ⟨.updateNode { u with taints := swapRemoveFirst (fun t => t.key == escKey) u.taints }, b⟩

theorem deleteTaint_entries (o : Oracle) (k : Nat) (c : Node) :
    ∀ e ∈ (deleteTaint o k c).j, DelTaintEntry c e := by
  intro e he
  unfold deleteTaint at he; dsimp only at he
  obtain ⟨b, hb⟩ := k8sGet_j o k c.name
  split at he
  · simp [hb] at he; subst he; exact .get b
  · rename_i u hu
    split at he
    · rename_i hhas
      obtain ⟨b2, hb2, _⟩ := doPlain_j o (k8sGet o k c.name).k (.updateNode { u with taints := swapRemoveFirst (fun t => t.key == escKey) u.taints })
      simp [hb, hb2] at he
      rcases he with he | he
      · subst he; exact .get b
      · subst he; exact .upd u b2 (k8sGet_name o k c.name u hu) hhas
    · simp [hb] at he; subst he; exact .get b

theorem taintLoop_entries (o : Oracle) (dry : Bool) (nowSec : Int) (effect : String) :
    ∀ (cs : List Node) (k need : Nat) (tr : List String),
    ∀ e ∈ (taintLoop o dry nowSec effect k cs need tr).j, dry = false ∧ ∃ c ∈ cs, AddTaintEntry nowSec effect c e := by
  intro cs
  induction cs with
  | nil => intro k need tr e he; simp [taintLoop] at he
  | cons c cs ih =>
    intro k need tr e he
    unfold taintLoop at he; dsimp only at he
    split at he
    · simp at he
    · split at he
      · obtain ⟨h1, c', hc', h2⟩ := ih _ _ _ e he
        exact ⟨h1, c', List.mem_cons_of_mem _ hc', h2⟩
      · rename_i hdry
        simp only [List.mem_append] at he
        rcases he with he | he
        · exact ⟨by simpa using hdry, c, List.mem_cons_self, addTaint_entries o k nowSec effect c e he⟩
        · obtain ⟨h1, c', hc', h2⟩ := ih _ _ _ e he
          exact ⟨h1, c', List.mem_cons_of_mem _ hc', h2⟩

theorem untaintLoop_entries (o : Oracle) (dry : Bool) :
    ∀ (cs : List Node) (k need : Nat) (tr : List String),
    ∀ e ∈ (untaintLoop o dry k cs need tr).j, dry = false ∧ ∃ c ∈ cs, hasTaint escKey c = true ∧ DelTaintEntry c e := by
  intro cs
  induction cs with
  | nil => intro k need tr e he; simp [untaintLoop] at he
  | cons c cs ih =>
    intro k need tr e he
    unfold untaintLoop at he; dsimp only at he
    split at he
    · simp at he
    · split at he
      · split at he
        · obtain ⟨h1, c', hc', h2⟩ := ih _ _ _ e he
          exact ⟨h1, c', List.mem_cons_of_mem _ hc', h2⟩
        · obtain ⟨h1, c', hc', h2⟩ := ih _ _ _ e he
          exact ⟨h1, c', List.mem_cons_of_mem _ hc', h2⟩
      · rename_i hdry
        split at he
        · rename_i hhas
          simp only [List.mem_append] at he
          rcases he with he | he
          · exact ⟨by simpa using hdry, c, List.mem_cons_self, hhas, deleteTaint_entries o k c e he⟩
          · obtain ⟨h1, c', hc', h2⟩ := ih _ _ _ e he
            exact ⟨h1, c', List.mem_cons_of_mem _ hc', h2⟩
        · obtain ⟨h1, c', hc', h2⟩ := ih _ _ _ e he
          exact ⟨h1, c', List.mem_cons_of_mem _ hc', h2⟩

end Esc

namespace Esc
open Spec

/-! ### removal path -/

theorem decDesired_instances (g : PGroup) : (decDesired g).asg.instances = g.asg.instances := rfl
theorem decDesired_id (g : PGroup) : (decDesired g).id = g.id := rfl

theorem belongs_congr (g g' : PGroup) (h : g'.asg.instances = g.asg.instances) (n : Node) : belongs g' n = belongs g n := by
  unfold belongs; rw [h]
theorem instanceIdFor_congr (g g' : PGroup) (h : g'.asg.instances = g.asg.instances) (n : Node) :
    instanceIdFor g' n = instanceIdFor g n := by
  unfold instanceIdFor; rw [h]

/-- Entries of the terminate loop: one terminate-with-decrement per member node, in order. -/
theorem terminateLoop_entries (o : Oracle) :
    ∀ (ns : List Node) (k : Nat) (g : PGroup),
    ∀ e ∈ (terminateLoop o k g ns).j, ∃ n ∈ ns, belongs g n = true ∧ ∃ b, e = ⟨.terminateInAsg (instanceIdFor g n) true, b⟩ := by
  intro ns
  induction ns with
  | nil => intro k g e he; simp [terminateLoop] at he
  | cons n ns ih =>
    intro k g e he
    unfold terminateLoop at he; dsimp only at he
    split at he
    · rename_i hb
      obtain ⟨b, hj, hv⟩ := doPlain_j o k (.terminateInAsg (instanceIdFor g n) true)
      split at he
      · simp only [List.mem_append, hj, List.mem_singleton] at he
        rcases he with he | he
        · exact ⟨n, List.mem_cons_self, hb, b, he⟩
        · obtain ⟨n', hn', hb', b', he'⟩ := ih _ _ e he
          refine ⟨n', List.mem_cons_of_mem _ hn', ?_, b', ?_⟩
          · rw [← hb']; exact (belongs_congr g (decDesired g) (decDesired_instances g) n').symm
          · rw [he', instanceIdFor_congr g (decDesired g) (decDesired_instances g) n']
      · simp only [hj, List.mem_singleton] at he
        exact ⟨n, List.mem_cons_self, hb, b, he⟩
    · simp at he

theorem terminateLoop_g (o : Oracle) :
    ∀ (ns : List Node) (k : Nat) (g : PGroup),
    (terminateLoop o k g ns).val.g.asg.instances = g.asg.instances ∧ (terminateLoop o k g ns).val.g.id = g.id := by
  intro ns
  induction ns with
  | nil => intro k g; simp [terminateLoop]
  | cons n ns ih =>
    intro k g
    unfold terminateLoop; dsimp only
    split
    · split
      · have := ih (doPlain o k (Call.terminateInAsg (instanceIdFor g n) true)).k (decDesired g)
        simpa [decDesired_instances, decDesired_id] using this
      · simp
    · simp

theorem awsDeleteNodes_entries (o : Oracle) (k : Nat) (g : PGroup) (ns : List Node) :
    ∀ e ∈ (awsDeleteNodes o k g ns).j, ∃ n ∈ ns, belongs g n = true ∧ ∃ b, e = ⟨.terminateInAsg (instanceIdFor g n) true, b⟩ := by
  intro e he
  unfold awsDeleteNodes at he
  split at he
  · simp at he
  · split at he
    · simp at he
    · exact terminateLoop_entries o ns k g e he

theorem awsDeleteNodes_g (o : Oracle) (k : Nat) (g : PGroup) (ns : List Node) :
    (awsDeleteNodes o k g ns).val.g.asg.instances = g.asg.instances ∧ (awsDeleteNodes o k g ns).val.g.id = g.id := by
  unfold awsDeleteNodes
  split
  · simp
  · split
    · simp
    · exact terminateLoop_g o ns k g

theorem deleteNodesK8s_entries (o : Oracle) :
    ∀ (ns : List Node) (k : Nat), ∀ e ∈ (deleteNodesK8s o k ns).j, ∃ n ∈ ns, ∃ b, e = ⟨.deleteNode n.name, b⟩ := by
  intro ns
  induction ns with
  | nil => intro k e he; simp [deleteNodesK8s] at he
  | cons n ns ih =>
    intro k e he
    unfold deleteNodesK8s at he; dsimp only at he
    obtain ⟨b, hj, _⟩ := doPlain_j o k (.deleteNode n.name)
    split at he
    · simp only [List.mem_append, hj, List.mem_singleton] at he
      rcases he with he | he
      · exact ⟨n, List.mem_cons_self, b, he⟩
      · obtain ⟨n', hn', b', he'⟩ := ih _ e he
        exact ⟨n', List.mem_cons_of_mem _ hn', b', he'⟩
    · simp only [hj, List.mem_singleton] at he
      exact ⟨n, List.mem_cons_self, b, he⟩

/-- What `TryDeleteNodes` can put in the journal, for candidate list `cands`. -/
inductive RemovalEntry (g : PGroup) (cands : List Node) : Entry → Prop
  | terminate (n : Node) (hn : n ∈ cands) (hb : belongs g n = true) (b : Bool) :
      RemovalEntry g cands ⟨.terminateInAsg (instanceIdFor g n) true, b⟩
  | delete (n : Node) (hn : n ∈ cands) (b : Bool) : RemovalEntry g cands ⟨.deleteNode n.name, b⟩

theorem tryDelete_entries (o : Oracle) (k : Nat) (g : PGroup) (cands : List Node) :
    ∀ e ∈ (tryDelete o k g cands).j, RemovalEntry g cands e := by
  intro e he
  unfold tryDelete at he; dsimp only at he
  split at he
  · simp at he
  · split at he
    · simp only [List.mem_append] at he
      rcases he with he | he
      · obtain ⟨n, hn, hb, b, rfl⟩ := awsDeleteNodes_entries o k g cands e he
        exact .terminate n hn hb b
      · obtain ⟨n, hn, b, rfl⟩ := deleteNodesK8s_entries o cands _ e he
        exact .delete n hn b
    · obtain ⟨n, hn, hb, b, rfl⟩ := awsDeleteNodes_entries o k g cands e he
      exact .terminate n hn hb b
    · obtain ⟨n, hn, hb, b, rfl⟩ := awsDeleteNodes_entries o k g cands e he
      exact .terminate n hn hb b

theorem tryDelete_g (o : Oracle) (k : Nat) (g : PGroup) (cands : List Node) :
    (tryDelete o k g cands).val.g.asg.instances = g.asg.instances ∧ (tryDelete o k g cands).val.g.id = g.id := by
  unfold tryDelete; dsimp only
  split
  · simp
  · split <;> exact awsDeleteNodes_g o k g cands

end Esc

namespace Esc
open Spec

/-! ### cloud increase path -/

/-- Calls the provider's IncreaseSize may issue. -/
def isIncreaseCall (gid : String) (c : Call) : Bool :=
  match c with
  | .setDesired g _ => g == gid
  | .describeAsgs names => names == [gid]
  | .createFleet _ | .describeStatus _ | .terminateInstances _ => true
  | .attach g _ => g == gid
  | _ => false

/-- Calls of the attach phase of a fleet scale-up (after CreateFleet). -/
def isAttachPhaseCall (gid : String) (c : Call) : Bool :=
  match c with
  | .describeStatus _ | .terminateInstances _ => true
  | .attach g _ => g == gid
  | _ => false

theorem attachPhase_isIncrease {gid : String} {c : Call} (h : isAttachPhaseCall gid c = true) : isIncreaseCall gid c = true := by
  cases c <;> simp [isAttachPhaseCall, isIncreaseCall] at h ⊢ <;> exact h

theorem terminateChunks_entries (o : Oracle) (gid : String) :
    ∀ (cs : List (List String)) (k : Nat), ∀ e ∈ (terminateChunks o k cs).j, isAttachPhaseCall gid e.call = true := by
  intro cs
  induction cs with
  | nil => intro k e he; simp [terminateChunks] at he
  | cons c cs ih =>
    intro k e he
    unfold terminateChunks at he; dsimp only at he
    obtain ⟨b, hj, _⟩ := doPlain_j o k (.terminateInstances c)
    simp only [List.mem_append, hj, List.mem_singleton] at he
    rcases he with he | he
    · subst he; rfl
    · exact ih _ e he

theorem terminateOrphans_entries (o : Oracle) (gid : String) (k : Nat) (g : PGroup) (ids : List String) :
    ∀ e ∈ (terminateOrphans o k g ids).j, isAttachPhaseCall gid e.call = true := by
  intro e he
  unfold terminateOrphans at he; dsimp only at he
  split at he
  · simp at he
  · exact terminateChunks_entries o gid _ _ e he

theorem readyLoop_entries (o : Oracle) (gid : String) (ids : List String) :
    ∀ (t k : Nat), ∀ e ∈ (readyLoop o ids t k).j, isAttachPhaseCall gid e.call = true := by
  intro t
  induction t with
  | zero => intro k e he; simp [readyLoop] at he
  | succ t ih =>
    intro k e he
    unfold readyLoop at he; dsimp only at he
    split at he
    · simp [doCall_j] at he; subst he; rfl
    · simp only [List.mem_append, doCall_j, List.mem_singleton] at he
      rcases he with he | he
      · subst he; rfl
      · exact ih _ e he

theorem attachBatches_entries (o : Oracle) (gid : String) :
    ∀ (bs : List (List String)) (k : Nat), ∀ e ∈ (attachBatches o gid k bs).j, isAttachPhaseCall gid e.call = true := by
  intro bs
  induction bs with
  | nil => intro k e he; simp [attachBatches] at he
  | cons b bs ih =>
    intro k e he
    unfold attachBatches at he; dsimp only at he
    obtain ⟨b', hj, _⟩ := doPlain_j o k (.attach gid b)
    split at he
    · simp only [List.mem_append, hj, List.mem_singleton] at he
      rcases he with he | he
      · subst he; simp [isAttachPhaseCall]
      · exact ih _ e he
    · simp only [hj, List.mem_singleton] at he
      subst he; simp [isAttachPhaseCall]

theorem attachInstances_phase (o : Oracle) (k : Nat) (cfg : AwsCfg) (g : PGroup) (ids : List String) :
    ∀ e ∈ (attachInstances o k cfg g ids).j, isAttachPhaseCall g.id e.call = true := by
  intro e he
  unfold attachInstances at he; dsimp only at he
  split at he
  · split at he
    · simp only [List.mem_append] at he
      rcases he with he | he
      · exact readyLoop_entries o g.id ids _ _ e he
      · exact attachBatches_entries o g.id _ _ e he
    · simp only [List.mem_append] at he
      rcases he with (he | he) | he
      · exact readyLoop_entries o g.id ids _ _ e he
      · exact attachBatches_entries o g.id _ _ e he
      · exact terminateOrphans_entries o g.id _ _ _ e he
  · simp only [List.mem_append] at he
    rcases he with he | he
    · exact readyLoop_entries o g.id ids _ _ e he
    · exact terminateOrphans_entries o g.id _ _ _ e he

theorem attachInstances_entries (o : Oracle) (k : Nat) (cfg : AwsCfg) (g : PGroup) (ids : List String) :
    ∀ e ∈ (attachInstances o k cfg g ids).j, isIncreaseCall g.id e.call = true :=
  fun e he => attachPhase_isIncrease (attachInstances_phase o k cfg g ids e he)

/-- Calls of `IncreaseSize g d`, with the exact amounts: a `SetDesiredCapacity` asks for the cached
    desired size plus `d`; a fleet request asks for `d` instances, all-or-nothing. -/
def isIncreaseCallExact (gid : String) (base d : Int) (c : Call) : Bool :=
  match c with
  | .setDesired g v => g == gid && v == base + d
  | .createFleet r => r.total == d && r.minTarget == d && r.fleetType == "instant"
  | .describeAsgs names => names == [gid]
  | c => isAttachPhaseCall gid c

theorem exact_isIncrease {gid : String} {base d : Int} {c : Call} (h : isIncreaseCallExact gid base d c = true) :
    isIncreaseCall gid c = true := by
  cases c <;> simp [isIncreaseCallExact, isIncreaseCall, isAttachPhaseCall] at h ⊢ <;> first | exact h | exact h.1

theorem attachPhase_isExact {gid : String} {base d : Int} {c : Call} (h : isAttachPhaseCall gid c = true) :
    isIncreaseCallExact gid base d c = true := by
  cases c <;> simp [isAttachPhaseCall, isIncreaseCallExact] at h ⊢ <;> exact h

theorem oneShot_exact (o : Oracle) (k : Nat) (cfg : AwsCfg) (g : PGroup) (d : Int) :
    ∀ e ∈ (oneShot o k cfg g d).j, isIncreaseCallExact g.id g.asg.desired d e.call = true := by
  intro e he
  unfold oneShot at he; dsimp only at he
  split at he
  · split at he
    · simp [doCall_j] at he; subst he; simp [isIncreaseCallExact]
    · split at he
      · split at he
        · simp only [List.mem_append, doCall_j, List.mem_singleton] at he
          rcases he with he | he <;> subst he <;> simp [isIncreaseCallExact, mkFleetReq]
        · simp only [List.mem_append, doCall_j, List.mem_singleton] at he
          rcases he with (he | he) | he
          · subst he; simp [isIncreaseCallExact]
          · subst he; simp [isIncreaseCallExact, mkFleetReq]
          · exact attachPhase_isExact (attachInstances_phase o _ cfg g _ e he)
      · simp only [List.mem_append, doCall_j, List.mem_singleton] at he
        rcases he with he | he <;> subst he <;> simp [isIncreaseCallExact, mkFleetReq]
  · simp [doCall_j] at he; subst he; simp [isIncreaseCallExact]

theorem increaseSize_exact (o : Oracle) (k : Nat) (cfg : AwsCfg) (g : PGroup) (d : Int) :
    ∀ e ∈ (increaseSize o k cfg g d).j, isIncreaseCallExact g.id g.asg.desired d e.call = true := by
  intro e he
  unfold increaseSize at he; dsimp only at he
  split at he
  · simp at he
  · split at he
    · simp at he
    · split at he
      · exact oneShot_exact o k cfg g d e he
      · obtain ⟨b, hj, _⟩ := doPlain_j o k (.setDesired g.id (g.asg.desired + d))
        simp only [hj, List.mem_singleton] at he
        subst he; simp [isIncreaseCallExact]

theorem oneShot_entries (o : Oracle) (k : Nat) (cfg : AwsCfg) (g : PGroup) (d : Int) :
    ∀ e ∈ (oneShot o k cfg g d).j, isIncreaseCall g.id e.call = true :=
  fun e he => exact_isIncrease (oneShot_exact o k cfg g d e he)

theorem increaseSize_entries (o : Oracle) (k : Nat) (cfg : AwsCfg) (g : PGroup) (d : Int) :
    ∀ e ∈ (increaseSize o k cfg g d).j, isIncreaseCall g.id e.call = true := by
  intro e he
  unfold increaseSize at he; dsimp only at he
  split at he
  · simp at he
  · split at he
    · simp at he
    · split at he
      · exact oneShot_entries o k cfg g d e he
      · obtain ⟨b, hj, _⟩ := doPlain_j o k (.setDesired g.id (g.asg.desired + d))
        simp only [hj, List.mem_singleton] at he
        subst he; simp [isIncreaseCall]

end Esc

namespace Esc
open Spec

/-! ### ordering -/

theorem insertBy_perm (le : Node → Node → Bool) (x : Node) : ∀ l, (insertBy le x l).Perm (x :: l) := by
  intro l
  induction l with
  | nil => simp [insertBy]
  | cons y ys ih =>
    unfold insertBy
    split
    · exact List.Perm.refl _
    · exact (List.Perm.cons y ih).trans (List.Perm.swap x y ys)

theorem insertionSort_perm (le : Node → Node → Bool) : ∀ l, (insertionSort le l).Perm l := by
  intro l
  induction l with
  | nil => simp [insertionSort]
  | cons x xs ih =>
    unfold insertionSort
    exact (insertBy_perm le x _).trans (List.Perm.cons x ih)

theorem orderBy_perm (le : Node → Node → Bool) (hint : List Nat) (xs : List Node) : (orderBy le hint xs).Perm xs := by
  unfold orderBy; dsimp only
  split
  · rename_i h
    simp only [Bool.and_eq_true] at h
    exact List.isPerm_iff.mp h.1
  · exact insertionSort_perm le xs

theorem orderBy_mem (le : Node → Node → Bool) (hint : List Nat) (xs : List Node) (c : Node) :
    c ∈ orderBy le hint xs ↔ c ∈ xs := (orderBy_perm le hint xs).mem_iff

/-! ### scale down / scale up -/

theorem scaleDownTaint_entries (o : Oracle) (k : Nat) (dry : Bool) (cfg : GroupCfg) (st : GState) (nowSec : Int)
    (hint : List Nat) (untainted : List Node) (n : Int) :
    ∀ e ∈ (scaleDownTaint o k dry cfg st nowSec hint untainted n).j,
      dry = false ∧ ∃ c ∈ untainted, AddTaintEntry nowSec cfg.taintEffect c e := by
  intro e he
  unfold scaleDownTaint at he; dsimp only at he
  generalize clampRemove (↑untainted.length) st.minEff n = m at he
  split at he
  · simp at he
  · obtain ⟨h1, c, hc, h2⟩ := taintLoop_entries o dry nowSec cfg.taintEffect _ _ _ _ e he
    exact ⟨h1, c, (orderBy_mem _ _ _ _).mp hc, h2⟩

/-- What `ScaleUp` can put in the journal. -/
inductive ScaleUpEntry (g : PGroup) (tainted : List Node) : Entry → Prop
  | untaint (c : Node) (hc : c ∈ tainted) (hhas : hasTaint escKey c = true) {e : Entry} (he : DelTaintEntry c e) : ScaleUpEntry g tainted e
  | increase {e : Entry} (he : isIncreaseCall g.id e.call = true) : ScaleUpEntry g tainted e

theorem scaleUpUntaint_entries (o : Oracle) (k : Nat) (dry : Bool) (st : GState) (g : PGroup) (hint : List Nat)
    (tainted : List Node) (want : Int) :
    ∀ e ∈ (scaleUpUntaint o k dry st hint tainted want).j, dry = false ∧ ScaleUpEntry g tainted e := by
  intro e he
  unfold scaleUpUntaint at he
  split at he
  · simp at he
  · obtain ⟨h1, c, hc, hh, h2⟩ := untaintLoop_entries o dry _ _ _ _ e he
    exact ⟨h1, .untaint c ((orderBy_mem _ _ _ _).mp hc) hh h2⟩

theorem scaleUp_entries (o : Oracle) (k : Nat) (dry : Bool) (cfg : GroupCfg) (st : GState) (g : PGroup)
    (nowReal : Int) (hint : List Nat) (tainted : List Node) (want : Int) :
    ∀ e ∈ (scaleUp o k dry cfg st g nowReal hint tainted want).j, dry = false ∧ ScaleUpEntry g tainted e := by
  intro e he
  have hu := scaleUpUntaint_entries o k dry st g hint tainted want
  unfold scaleUp at he; dsimp only at he
  generalize scaleUpUntaint o k dry st hint tainted want = u at he hu
  split at he
  · split at he
    · exact hu e he
    · split at he
      · exact hu e he
      · rename_i hdry
        have hdry' : dry = false := by simpa using hdry
        split at he <;>
        · simp only [List.mem_append] at he
          rcases he with he | he
          · exact hu e he
          · exact ⟨hdry', .increase (increaseSize_entries o _ cfg.aws g _ e he)⟩
  · exact hu e he

end Esc

namespace Esc
open Spec

/-! ### the whole group scan -/

theorem withCache_trackers (st0 : GState) (nodes : List Node) :
    (withCache st0 nodes).taintTracker = st0.taintTracker ∧ (withCache st0 nodes).forceTaintTracker = st0.forceTaintTracker ∧
    (withCache st0 nodes).minEff = st0.minEff ∧ (withCache st0 nodes).maxEff = st0.maxEff ∧
    (withCache st0 nodes).lock = st0.lock ∧ (withCache st0 nodes).scaleDelta = st0.scaleDelta ∧
    (withCache st0 nodes).lastScaleOut = st0.lastScaleOut := by
  unfold withCache; split <;> simp

theorem classify_withCache (dry : Bool) (st0 : GState) (nodes : List Node) (n : Node) :
    classify dry (withCache st0 nodes) n = classify dry st0 n := by
  obtain ⟨h1, h2, _⟩ := withCache_trackers st0 nodes
  unfold classify; rw [h1, h2]

theorem nodesOf_withCache (dry : Bool) (st0 : GState) (nodes : List Node) (c : Class) (l : List Node) :
    nodesOf dry (withCache st0 nodes) c l = nodesOf dry st0 c l := by
  unfold nodesOf; simp [classify_withCache]

theorem newNodeMetrics_entries' (o : Oracle) (k : Nat) (st : GState) (nodes : List Node) :
    ∀ e ∈ newNodeMetrics o k st nodes, ∃ n ∈ nodes, ∃ b, e = ⟨.describeInstances (instanceIdOfProviderId n.providerID), b⟩ := by
  intro e he
  unfold newNodeMetrics at he
  split at he
  · simp only [List.mem_map, List.mem_filter] at he
    obtain ⟨n, ⟨hn, _⟩, rfl⟩ := he
    exact ⟨n, hn, _, rfl⟩
  · simp at he

theorem newNodeMetrics_entries (o : Oracle) (k : Nat) (st : GState) (nodes : List Node) :
    ∀ e ∈ newNodeMetrics o k st nodes, ∃ id b, e = ⟨.describeInstances id, b⟩ := by
  intro e he
  obtain ⟨n, _, b, rfl⟩ := newNodeMetrics_entries' o k st nodes e he
  exact ⟨_, b, rfl⟩

theorem RemovalEntry_congr {g g' : PGroup} (h : g'.asg.instances = g.asg.instances) {cands : List Node} {e : Entry}
    (he : RemovalEntry g' cands e) : RemovalEntry g cands e := by
  cases he with
  | terminate n hn hb b =>
    rw [instanceIdFor_congr g g' h n]
    exact .terminate n hn (by rw [← hb]; exact (belongs_congr g g' h n).symm) b
  | delete n hn b => exact .delete n hn b

/-- Everything a group scan can put in its journal. -/
inductive ScanEntry (globalDry : Bool) (cfg : GroupCfg) (st0 : GState) (g : PGroup) (view : View)
    (nowMock nowReal : Int) : Entry → Prop
  | metrics (n : Node) (hn : n ∈ view.nodes) (b : Bool) :
      ScanEntry globalDry cfg st0 g view nowMock nowReal ⟨.describeInstances (instanceIdOfProviderId n.providerID), b⟩
  | force {e : Entry}
      (he : RemovalEntry g (forceCands (globalDry || cfg.dryMode) view.pods (nodesOf (globalDry || cfg.dryMode) st0 .force view.nodes)) e) :
      ScanEntry globalDry cfg st0 g view nowMock nowReal e
  | reap {e : Entry}
      (he : RemovalEntry g (reaperCands (globalDry || cfg.dryMode) cfg view.pods nowMock (nodesOf (globalDry || cfg.dryMode) st0 .tainted view.nodes)) e) :
      ScanEntry globalDry cfg st0 g view nowMock nowReal e
  | taint (hdry : (globalDry || cfg.dryMode) = false) (c : Node)
      (hc : c ∈ nodesOf (globalDry || cfg.dryMode) st0 .untainted view.nodes) {e : Entry}
      (he : AddTaintEntry (nowReal / 1000000000) cfg.taintEffect c e) :
      ScanEntry globalDry cfg st0 g view nowMock nowReal e
  | up (hdry : (globalDry || cfg.dryMode) = false) {e : Entry}
      (he : ScaleUpEntry g (nodesOf (globalDry || cfg.dryMode) st0 .tainted view.nodes) e) :
      ScanEntry globalDry cfg st0 g view nowMock nowReal e

theorem ScaleUpEntry_congr {g g' : PGroup} (h : g'.id = g.id) {tainted : List Node} {e : Entry}
    (he : ScaleUpEntry g' tainted e) : ScaleUpEntry g tainted e := by
  cases he with
  | untaint c hc hh he => exact .untaint c hc hh he
  | increase he => exact .increase (by rw [← h]; exact he)

theorem scanAct_entries (o : Oracle) (k : Nat) (globalDry : Bool) (cfg : GroupCfg) (st0 st : GState) (g : PGroup)
    (view : View) (h : Hints) (nowMock nowReal : Int) (mj : Journal) (delta : Int)
    (hmj : ∀ e ∈ mj, ScanEntry globalDry cfg st0 g view nowMock nowReal e) :
    ∀ e ∈ (scanAct o k (globalDry || cfg.dryMode) cfg st g view.pods h nowMock nowReal
            (nodesOf (globalDry || cfg.dryMode) st0 .untainted view.nodes)
            (nodesOf (globalDry || cfg.dryMode) st0 .tainted view.nodes)
            (nodesOf (globalDry || cfg.dryMode) st0 .force view.nodes) mj delta).j,
      ScanEntry globalDry cfg st0 g view nowMock nowReal e := by
  intro e he
  unfold scanAct at he; dsimp only at he
  have hF := tryDelete_entries o k g (forceCands (globalDry || cfg.dryMode) view.pods (nodesOf (globalDry || cfg.dryMode) st0 .force view.nodes))
  have hFg := tryDelete_g o k g (forceCands (globalDry || cfg.dryMode) view.pods (nodesOf (globalDry || cfg.dryMode) st0 .force view.nodes))
  generalize hf : tryDelete o k g (forceCands (globalDry || cfg.dryMode) view.pods (nodesOf (globalDry || cfg.dryMode) st0 .force view.nodes)) = f at he hF hFg
  have hR : ∀ e ∈ (tryDelete o f.k f.val.g (reaperCands (globalDry || cfg.dryMode) cfg view.pods nowMock (nodesOf (globalDry || cfg.dryMode) st0 .tainted view.nodes))).j,
      ScanEntry globalDry cfg st0 g view nowMock nowReal e := by
    intro e he
    exact .reap (RemovalEntry_congr hFg.1 (tryDelete_entries o _ _ _ e he))
  have hFe : ∀ e ∈ f.j, ScanEntry globalDry cfg st0 g view nowMock nowReal e := fun e he => .force (hF e he)
  have hU : ∀ e ∈ (scaleUp o f.k (globalDry || cfg.dryMode) cfg st f.val.g nowReal h.new (nodesOf (globalDry || cfg.dryMode) st0 .tainted view.nodes) delta).j,
      ScanEntry globalDry cfg st0 g view nowMock nowReal e := by
    intro e he
    obtain ⟨hd, hs⟩ := scaleUp_entries o _ _ cfg st _ nowReal h.new _ delta e he
    exact .up hd (ScaleUpEntry_congr hFg.2 hs)
  split at he
  · simp only [List.mem_append] at he
    rcases he with he | he
    · exact hmj e he
    · exact hFe e he
  split at he
  · split at he
    · simp only [List.mem_append] at he
      rcases he with (he | he) | he
      · exact hmj e he
      · exact hFe e he
      · exact hR e he
    · simp only [List.mem_append] at he
      rcases he with ((he | he) | he) | he
      · exact hmj e he
      · exact hFe e he
      · exact hR e he
      · obtain ⟨hd, c, hc, ht⟩ := scaleDownTaint_entries o _ _ cfg _ _ h.old _ _ e he
        exact .taint hd c hc ht
  · split at he
    · split at he <;>
      · simp only [List.mem_append] at he
        rcases he with (he | he) | he
        · exact hmj e he
        · exact hFe e he
        · exact hU e he
    · split at he <;>
      · simp only [List.mem_append] at he
        rcases he with (he | he) | he
        · exact hmj e he
        · exact hFe e he
        · exact hR e he

theorem scanDecide_entries (rnd : Rat → Rat) (o : Oracle) (k : Nat) (globalDry : Bool) (cfg : GroupCfg) (st0 st : GState)
    (g : PGroup) (view : View) (h : Hints) (nowMock nowReal : Int) (pu : PodUsage) (nc : NodeCap) (p : Pct) :
    ∀ e ∈ (scanDecide rnd o k (globalDry || cfg.dryMode) cfg st g view.pods view.nodes h nowMock nowReal
            (nodesOf (globalDry || cfg.dryMode) st0 .untainted view.nodes)
            (nodesOf (globalDry || cfg.dryMode) st0 .tainted view.nodes)
            (nodesOf (globalDry || cfg.dryMode) st0 .force view.nodes) pu nc p).j,
      ScanEntry globalDry cfg st0 g view nowMock nowReal e := by
  intro e he
  have hM : ∀ e ∈ newNodeMetrics o k st view.nodes, ScanEntry globalDry cfg st0 g view nowMock nowReal e := by
    intro e he
    obtain ⟨n, hn, b, rfl⟩ := newNodeMetrics_entries' o k st view.nodes e he
    exact .metrics n hn b
  unfold scanDecide at he; dsimp only at he
  split at he
  · exact hM e he
  · exact scanAct_entries o k globalDry cfg st0 st g view h nowMock nowReal _ _ hM e he

theorem scanGroup_entries (rnd : Rat → Rat) (o : Oracle) (k : Nat) (globalDry : Bool) (cfg : GroupCfg)
    (st0 : GState) (g : PGroup) (view : View) (h : Hints) (nowMock nowReal : Int) :
    ∀ e ∈ (scanGroup rnd o k globalDry cfg st0 g view h nowMock nowReal).j,
      ScanEntry globalDry cfg st0 g view nowMock nowReal e := by
  intro e he
  unfold scanGroup at he; dsimp only at he
  rw [nodesOf_withCache, nodesOf_withCache, nodesOf_withCache] at he
  split at he
  · simp at he
  split at he
  · simp at he
  split at he
  · simp at he
  split at he
  · split at he
    · simp at he
    · obtain ⟨hd, hs⟩ := scaleUp_entries o _ _ cfg _ _ nowReal h.new _ _ e he
      exact .up hd hs
  split at he
  · simp at he
  split at he
  · simp at he
  exact scanDecide_entries rnd o k globalDry cfg st0 _ g view h nowMock nowReal _ _ _ e he

end Esc
