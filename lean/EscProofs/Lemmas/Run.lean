/-
  Lifting per-group-scan facts to `RunOnce` and to histories.
-/
import EscProofs.Lemmas.Journal
namespace Esc

/-- A record of a group scan really is the journal of `scanGroup` on the recorded inputs. -/
def RecFromScan (rnd : Rat → Rat) (globalDry : Bool) (r : GroupRec) : Prop :=
  ∃ (o : Oracle) (k : Nat) (h : Hints),
    r.j = (scanGroup rnd o k globalDry r.cfg r.pre r.preG r.view h r.nowMock r.nowReal).j

theorem groupLoop_recs (rnd : Rat → Rat) (o : Oracle) (ctl : Ctl) (views : String → View) (hints : String → Hints)
    (nowMock nowReal : Int) :
    ∀ (cs : List GroupCfg) (k : Nat) (ls : LoopState),
      (∀ r ∈ ls.recs, RecFromScan rnd ctl.globalDry r) →
      ∀ r ∈ (groupLoop rnd o ctl views hints nowMock nowReal k cs ls).val.recs, RecFromScan rnd ctl.globalDry r := by
  intro cs
  induction cs with
  | nil => intro k ls h r hr; simpa [groupLoop] using h r hr
  | cons c cs ih =>
    intro k ls h r hr
    unfold groupLoop at hr
    split at hr
    · rename_i pg gst _ _
      dsimp only at hr
      have hnew : ∀ r ∈ ls.recs ++ [(⟨c.name,
            (scanGroup rnd o k ctl.globalDry c (if autoDiscover c = true then { gst with minEff := pg.asg.min, maxEff := pg.asg.max } else gst) pg (views c.name) (hints c.name) nowMock nowReal).j,
            (scanGroup rnd o k ctl.globalDry c (if autoDiscover c = true then { gst with minEff := pg.asg.min, maxEff := pg.asg.max } else gst) pg (views c.name) (hints c.name) nowMock nowReal).val.delta,
            (scanGroup rnd o k ctl.globalDry c (if autoDiscover c = true then { gst with minEff := pg.asg.min, maxEff := pg.asg.max } else gst) pg (views c.name) (hints c.name) nowMock nowReal).val.err,
            (scanGroup rnd o k ctl.globalDry c (if autoDiscover c = true then { gst with minEff := pg.asg.min, maxEff := pg.asg.max } else gst) pg (views c.name) (hints c.name) nowMock nowReal).val.branch,
            c, (if autoDiscover c = true then { gst with minEff := pg.asg.min, maxEff := pg.asg.max } else gst), pg, views c.name, nowMock, nowReal⟩ : GroupRec)],
          RecFromScan rnd ctl.globalDry r := by
        intro r hr
        rw [List.mem_append] at hr
        rcases hr with hr | hr
        · exact h r hr
        · simp only [List.mem_singleton] at hr
          subst hr
          exact ⟨o, k, hints c.name, rfl⟩
      split at hr
      · exact hnew r hr
      · exact hnew r hr
      · exact ih _ _ hnew r hr
    · exact h r hr

theorem runOnce_recs (rnd : Rat → Rat) (o : Oracle) (k : Nat) (ctl : Ctl) (st : CState) (views : String → View)
    (hints : String → Hints) (nowMock nowReal : Int) :
    ∀ r ∈ (runOnce rnd o k ctl st views hints nowMock nowReal).val.recs, RecFromScan rnd ctl.globalDry r := by
  intro r hr
  unfold runOnce at hr; dsimp only at hr
  split at hr
  · simp at hr
  · exact groupLoop_recs rnd o ctl views hints nowMock nowReal _ _ _ (by simp) r hr

theorem runEvents_recs (rnd : Rat → Rat) (ctl : Ctl) :
    ∀ (es : List Event) (s : Option CState), ∀ out ∈ runEvents rnd ctl s es, ∀ r ∈ out.recs, RecFromScan rnd ctl.globalDry r := by
  intro es
  induction es with
  | nil => intro s out ho; simp [runEvents] at ho
  | cons e es ih =>
    intro s out ho r hr
    cases e with
    | restart o => unfold runEvents at ho; exact ih _ out ho r hr
    | scan i =>
      cases s with
      | none => unfold runEvents at ho; exact ih _ out ho r hr
      | some st =>
        unfold runEvents at ho; dsimp only at ho
        rw [List.mem_cons] at ho
        rcases ho with ho | ho
        · subst ho; exact runOnce_recs rnd i.o 0 ctl st i.views i.hints i.nowMock i.nowReal r hr
        · exact ih _ out ho r hr

end Esc
