/-
  Model of controller construction (`NewController` + provider `Build`) and of `RunOnce`.
-/
import Esc.Controller
namespace Esc

/-- Insertion sort on strings (canonical order for the names of a DescribeAutoScalingGroups request:
    Go iterates a map there, so the request order is not meaningful). -/
def insertStr (x : String) : List String → List String
  | [] => [x]
  | y :: ys => if x ≤ y then x :: y :: ys else y :: insertStr x ys
def sortStrs : List String → List String
  | [] => []
  | x :: xs => insertStr x (sortStrs xs)

structure Ctl where
  cfgs : List GroupCfg
  globalDry : Bool
deriving Repr, Inhabited

structure CState where
  groups : List (String × GState)     -- by node-group name
  prov : List PGroup                  -- provider cache, by cloud group id
deriving Repr, Inhabited

def findProv (prov : List PGroup) (id : String) : Option PGroup := prov.find? (fun p => p.id == id)
def setProv (prov : List PGroup) (g : PGroup) : List PGroup := prov.map (fun p => if p.id == g.id then g else p)
def findState (gs : List (String × GState)) (name : String) : Option GState := gs.lookup name
def setState (gs : List (String × GState)) (name : String) (s : GState) : List (String × GState) :=
  gs.map (fun p => if p.1 == name then (name, s) else p)

def autoDiscover (c : GroupCfg) : Bool := c.minNodes == 0 && c.maxNodes == 0

def awsCfgFor (cfgs : List GroupCfg) (id : String) : Option AwsCfg :=
  (cfgs.find? (fun c => c.cloudGroup == id)).map (·.aws)

/-- `RegisterNodeGroups` on an empty provider (inside `Build`): one PGroup per returned ASG that was
    asked for, tagging it first when `aws.resource_tagging` is set and the tag is missing. -/
def registerNew (o : Oracle) (cfgs : List GroupCfg) : Nat → List Asg → List PGroup → Eff (List PGroup)
  | k, [], acc => ⟨acc, [], k⟩
  | k, a :: as, acc =>
    match findProv acc a.name, awsCfgFor cfgs a.name with
    | some p, _ => registerNew o cfgs k as (setProv acc ⟨a.name, a, p.tries⟩)
    | none, none => registerNew o cfgs k as acc       -- an ASG nobody asked for (cannot happen with AWS)
    | none, some ac =>
      if ac.resourceTagging && !a.tagged then
        let t := doPlain o k (.createTags a.name)
        let r := registerNew o cfgs t.k as (acc ++ [⟨a.name, a, 0⟩])
        ⟨r.val, t.j ++ r.j, r.k⟩
      else registerNew o cfgs k as (acc ++ [⟨a.name, a, 0⟩])

/-- `Builder.Build`: describe the configured groups, register what came back. -/
def build (o : Oracle) (k : Nat) (cfgs : List GroupCfg) : Eff (Option (List PGroup)) :=
  let d := doCall o k (.describeAsgs (sortStrs (cfgs.map (·.cloudGroup))))
  match d.val with
  | .asgs l =>
    let r := registerNew o cfgs d.k l []
    ⟨some r.val, d.j ++ r.j, r.k⟩
  | _ => ⟨none, d.j, d.k⟩

def initLock : Lock := ⟨false, 0, none⟩

def initGState (c : GroupCfg) (pg : PGroup) : GState :=
  { lock := initLock, scaleDelta := 0, lastScaleOut := none, cachedCPU := 0, cachedMem := 0,
    taintTracker := [], forceTaintTracker := [],
    minEff := if autoDiscover c then pg.asg.min else c.minNodes,
    maxEff := if autoDiscover c then pg.asg.max else c.maxNodes }

def initStates (cfgs : List GroupCfg) (prov : List PGroup) : Option (List (String × GState)) :=
  cfgs.mapM (fun c => (findProv prov c.cloudGroup).map (fun pg => (c.name, initGState c pg)))

/-- `NewController`: `none` when construction fails. -/
def newController (o : Oracle) (k : Nat) (ctl : Ctl) : Eff (Option CState) :=
  let b := build o k ctl.cfgs
  match b.val with
  | none => ⟨none, b.j, b.k⟩
  | some prov =>
    match initStates ctl.cfgs prov with
    | none => ⟨none, b.j, b.k⟩
    | some gs => ⟨some ⟨gs, prov⟩, b.j, b.k⟩

/-- `Refresh` on an existing provider: update the cached ASG of every known group that came back. -/
def refreshWith (prov : List PGroup) (l : List Asg) : List PGroup :=
  l.foldl (fun acc a => match findProv acc a.name with
    | some p => setProv acc { p with asg := a }
    | none => acc) prov

def refresh (o : Oracle) (k : Nat) (prov : List PGroup) : Eff (Option (List PGroup)) :=
  let d := doCall o k (.describeAsgs (sortStrs (prov.map (·.id))))
  match d.val with
  | .asgs l => ⟨some (refreshWith prov l), d.j, d.k⟩
  | _ => ⟨none, d.j, d.k⟩

inductive Outcome where
  | ok
  | fatal (kind : String)     -- RunOnce returned an error / the process exited
deriving DecidableEq, Repr, Inhabited

structure GroupRec where
  name : String
  j : Journal
  delta : Int
  err : ScanErr
  branch : String
  -- what the group scan started from (for stating properties per scan)
  cfg : GroupCfg
  pre : GState
  preG : PGroup
  view : View
  nowMock : Int
  nowReal : Int
deriving Repr, Inhabited

structure RunOut where
  outcome : Outcome
  st : CState
  pre : Journal             -- refresh / rebuild calls
  recs : List GroupRec
deriving Repr, Inhabited

/-- The refresh-and-rebuild prologue of `RunOnce` (`tries` rebuild attempts left). -/
def refreshLoop (o : Oracle) (cfgs : List GroupCfg) : Nat → Nat → List PGroup → Eff (Option (List PGroup))
  | 0, k, prov => ⟨some prov, [], k⟩             -- give up refreshing, carry on with the cached data
  | t + 1, k, _ =>
    let b := build o k cfgs
    match b.val with
    | none => ⟨none, b.j, b.k⟩                   -- Build failed: RunOnce returns the error
    | some prov' =>
      let r := refresh o b.k prov'
      match r.val with
      | some p => ⟨some p, b.j ++ r.j, r.k⟩
      | none =>
        let rest := refreshLoop o cfgs t r.k prov'
        ⟨rest.val, b.j ++ r.j ++ rest.j, rest.k⟩

structure LoopState where
  st : CState
  recs : List GroupRec
  outcome : Outcome
deriving Repr, Inhabited

/-- The per-group loop of `RunOnce`. -/
def groupLoop (rnd : Rat → Rat) (o : Oracle) (ctl : Ctl) (views : String → View) (hints : String → Hints)
    (nowMock nowReal : Int) : Nat → List GroupCfg → LoopState → Eff LoopState
  | k, [], ls => ⟨ls, [], k⟩
  | k, c :: cs, ls =>
    match findProv ls.st.prov c.cloudGroup, findState ls.st.groups c.name with
    | some pg, some gst =>
      let gst := if autoDiscover c then { gst with minEff := pg.asg.min, maxEff := pg.asg.max } else gst
      let r := scanGroup rnd o k ctl.globalDry c gst pg (views c.name) (hints c.name) nowMock nowReal
      let gst' := { r.val.st with scaleDelta := r.val.delta }
      let st' : CState := ⟨setState ls.st.groups c.name gst', setProv ls.st.prov r.val.g⟩
      let recs := ls.recs ++ [⟨c.name, r.j, r.val.delta, r.val.err, r.val.branch, c, gst, pg, views c.name, nowMock, nowReal⟩]
      match r.val.err with
      | .notInGroup => ⟨⟨st', recs, .fatal "not-in-group"⟩, r.j, r.k⟩
      | .fatalExit => ⟨⟨st', recs, .fatal "fleet-strikes"⟩, r.j, r.k⟩
      | _ =>
        let rest := groupLoop rnd o ctl views hints nowMock nowReal r.k cs ⟨st', recs, .ok⟩
        ⟨rest.val, r.j ++ rest.j, rest.k⟩
    | _, _ => ⟨{ ls with outcome := .fatal "group-missing" }, [], k⟩

/-- `RunOnce`. -/
def runOnce (rnd : Rat → Rat) (o : Oracle) (k : Nat) (ctl : Ctl) (st : CState) (views : String → View)
    (hints : String → Hints) (nowMock nowReal : Int) : Eff RunOut :=
  let r0 := refresh o k st.prov
  let pre : Eff (Option (List PGroup)) :=
    match r0.val with
    | some p => ⟨some p, r0.j, r0.k⟩
    | none =>
      let l := refreshLoop o ctl.cfgs 2 r0.k st.prov
      ⟨l.val, r0.j ++ l.j, l.k⟩
  match pre.val with
  | none => ⟨⟨.fatal "rebuild-failed", st, pre.j, []⟩, pre.j, pre.k⟩
  | some prov =>
    let g := groupLoop rnd o ctl views hints nowMock nowReal pre.k ctl.cfgs ⟨{ st with prov := prov }, [], .ok⟩
    ⟨⟨g.val.outcome, g.val.st, pre.j, g.val.recs⟩, pre.j ++ g.j, g.k⟩

/-! ### Histories -/

/-- Everything the environment supplies for one `RunOnce`. -/
structure ScanInput where
  o : Oracle
  views : String → View
  hints : String → Hints
  nowMock : Int
  nowReal : Int

/-- What can happen to a controller between and including scans. `restart` is a crash/restart at a
    scan boundary: all controller and provider state is rebuilt from scratch. -/
inductive Event where
  | scan (i : ScanInput)
  | restart (o : Oracle)

/-- Run a history; returns the output of every scan, oldest first. A fatal outcome ends the
    lifetime: the next scan happens only after a `restart`. -/
def runEvents (rnd : Rat → Rat) (ctl : Ctl) : Option CState → List Event → List RunOut
  | _, [] => []
  | _, .restart o :: es => runEvents rnd ctl (newController o 0 ctl).val es
  | none, .scan _ :: es => runEvents rnd ctl none es
  | some st, .scan i :: es =>
    let r := (runOnce rnd i.o 0 ctl st i.views i.hints i.nowMock i.nowReal).val
    r :: runEvents rnd ctl (if r.outcome = .ok then some r.st else none) es

/-- The view of one group: what its two filtered listers return from the cluster-wide lists. -/
def viewOf (c : GroupCfg) (allPods : List Pod) (allNodes : List Node) : View :=
  { pods := if c.name = Gen.defaultNodeGroup then allPods.filter podDefaultFilter
            else allPods.filter (podAffinityFilter c.labelKey c.labelValue),
    nodes := allNodes.filter (nodeLabelFilter c.labelKey c.labelValue) }

end Esc
