/-
  Data types of the executable model of atlassian/escalator.
  Core Lean only (no Mathlib) so that the driver links as a `lean_exe`.
-/
import Esc.Gen.Consts
namespace Esc

/-- `v1.Taint` (the three fields escalator reads or writes). -/
structure Taint where
  key : String
  value : String
  effect : String
deriving DecidableEq, Repr, Inhabited

abbrev KV := List (String × String)

/-- `v1.Node`, restricted to what the decision path reads, plus `extra`, an opaque digest of
    everything else on the object (used to state "every other field is preserved"). -/
structure Node where
  name : String
  providerID : String
  labels : KV
  annotations : KV
  taints : List Taint
  unschedulable : Bool
  created : Int          -- unix seconds
  allocCPU : Int         -- millicores  (`Allocatable.Cpu().MilliValue()`)
  allocMem : Int         -- bytes       (`Allocatable.Memory().Value()`)
  extra : String
deriving DecidableEq, Repr, Inhabited

/-- A pair of resource amounts: CPU in millicores, memory in bytes. -/
structure Res where
  cpu : Int
  mem : Int
deriving DecidableEq, Repr, Inhabited

structure MatchExpr where
  key : String
  op : String
  values : List String
deriving DecidableEq, Repr, Inhabited

/-- `v1.Affinity`: `required = none` is a nil `RequiredDuringSchedulingIgnoredDuringExecution`. -/
structure Affinity where
  hasNodeAffinity : Bool
  required : Option (List (List MatchExpr))
  hasPodAffinity : Bool
  hasPodAntiAffinity : Bool
deriving DecidableEq, Repr, Inhabited

structure Pod where
  name : String
  nodeName : String
  nodeSelector : KV
  affinity : Option Affinity
  ownerKinds : List String
  annotations : KV
  containers : List Res
  initContainers : List Res
  overhead : Res
  phase : String
  scheduled : Option Bool   -- status of the first PodScheduled condition (== "True"), if any
deriving DecidableEq, Repr, Inhabited

structure Inst where
  id : String
  az : String
deriving DecidableEq, Repr, Inhabited

/-- What `DescribeAutoScalingGroups` returns for one group. -/
structure Asg where
  name : String
  min : Int
  max : Int
  desired : Int
  instances : List Inst
  vpcZones : String
  tagged : Bool
deriving DecidableEq, Repr, Inhabited

structure AwsCfg where
  launchTemplateID : String
  launchTemplateVersion : String
  readyTicks : Nat      -- whole 1 s ticks that fit before `fleet_instance_ready_timeout` fires
  lifecycle : String
  instanceTypeOverrides : List String
  resourceTagging : Bool
deriving DecidableEq, Repr, Inhabited

/-- `NodeGroupOptions` with durations already parsed (nanoseconds). -/
structure GroupCfg where
  name : String
  labelKey : String
  labelValue : String
  cloudGroup : String
  minNodes : Int
  maxNodes : Int
  dryMode : Bool
  scaleOnStarve : Bool
  upper : Int
  lower : Int
  scaleUp : Int
  slow : Int
  fast : Int
  softNs : Int
  hardNs : Int
  coolNs : Int
  maxAgeNs : Int
  taintEffect : String
  aws : AwsCfg
deriving DecidableEq, Repr, Inhabited

structure Override where
  subnet : String
  instanceType : Option String
deriving DecidableEq, Repr, Inhabited

structure FleetReq where
  fleetType : String
  total : Int
  minTarget : Int
  defaultType : String
  onDemandOptions : Bool      -- true: OnDemandOptions set, false: SpotOptions set
  templateID : String
  templateVersion : String
  overrides : List Override
  tagged : Bool
deriving DecidableEq, Repr, Inhabited

/-- Every call the controller or the AWS provider issues to Kubernetes or AWS. -/
inductive Call where
  | getNode (name : String)
  | updateNode (obj : Node)
  | deleteNode (name : String)
  | describeAsgs (names : List String)
  | setDesired (group : String) (value : Int)
  | terminateInAsg (id : String) (decrement : Bool)
  | createFleet (req : FleetReq)
  | describeStatus (ids : List String)
  | attach (group : String) (ids : List String)
  | terminateInstances (ids : List String)
  | describeInstances (id : String)
  | createTags (group : String)
  | build
deriving DecidableEq, Repr, Inhabited

/-- What the environment answered. A response of the wrong kind counts as a failure. -/
inductive Resp where
  | fail
  | ok
  | node (n : Node)
  | asgs (l : List Asg)
  | fleet (ids : List (List String)) (errs : List String)
  | status (pages : List (List Bool))
  | instance (reservations : Nat) (instances : Nat)
deriving DecidableEq, Repr, Inhabited

/-- The environment: answer to the `k`-th call, which may depend on the request. -/
abbrev Oracle := Nat → Call → Resp

structure Entry where
  call : Call
  ok : Bool
deriving DecidableEq, Repr, Inhabited

abbrev Journal := List Entry

/-- Result of an effectful model function: value, journal produced, next call index. -/
structure Eff (α : Type) where
  val : α
  j : Journal
  k : Nat
deriving Repr

structure Lock where
  isLocked : Bool
  requested : Int
  lockTime : Option Int     -- ns
deriving DecidableEq, Repr, Inhabited

/-- Per-group controller state (`NodeGroupState` minus listers and options). -/
structure GState where
  lock : Lock
  scaleDelta : Int
  lastScaleOut : Option Int  -- ns
  cachedCPU : Int            -- milli
  cachedMem : Int            -- milli (bytes × 1000)
  taintTracker : List String
  forceTaintTracker : List String
  minEff : Int
  maxEff : Int
deriving DecidableEq, Repr, Inhabited

/-- The provider's cached view of one ASG (`aws.NodeGroup`). -/
structure PGroup where
  id : String
  asg : Asg
  tries : Nat
deriving DecidableEq, Repr, Inhabited

/-- What the (filtered) listers returned for one group, in order. -/
structure View where
  pods : List Pod
  nodes : List Node
deriving Repr, Inhabited

def escKey : String := Gen.escKey
def forceKey : String := Gen.forceKey
def noDeleteKey : String := Gen.noDeleteKey

end Esc
