/-
  Model of `pkg/k8s` (taint.go, util.go, node_state.go, scheduler/types.go) and of the attribution
  filters of `pkg/controller/node_group.go`.
-/
import Esc.Basic
namespace Esc

/-! ### Environment plumbing -/

/-- Issue call `c` as the `k`-th call: journal it with its fate. -/
def doCall (o : Oracle) (k : Nat) (c : Call) : Eff Resp :=
  let r := o k c
  ⟨r, [⟨c, r != .fail⟩], k + 1⟩

/-- A plain call that only succeeds or fails (UPDATE, DELETE, SetDesiredCapacity, …). -/
def doPlain (o : Oracle) (k : Nat) (c : Call) : Eff Bool :=
  match o k c with
  | .ok => ⟨true, [⟨c, true⟩], k + 1⟩
  | _ => ⟨false, [⟨c, false⟩], k + 1⟩

/-- `client.CoreV1().Nodes().Get`. An answer carrying another object's name is not an answer to
    this request and counts as a failure (environment assumption: the API returns what was asked). -/
def k8sGet (o : Oracle) (k : Nat) (name : String) : Eff (Option Node) :=
  match o k (.getNode name) with
  | .node n => if n.name = name then ⟨some n, [⟨.getNode name, true⟩], k + 1⟩
               else ⟨none, [⟨.getNode name, false⟩], k + 1⟩
  | _ => ⟨none, [⟨.getNode name, false⟩], k + 1⟩

/-! ### Taints -/

def hasTaint (key : String) (n : Node) : Bool := n.taints.any (fun t => t.key == key)

/-- `GetToBeRemovedTaint`: the first taint with the escalator key. -/
def escTaint? (n : Node) : Option Taint := n.taints.find? (fun t => t.key == escKey)

def isDigit (c : Char) : Bool := '0' ≤ c ∧ c ≤ '9'

def digitsVal (cs : List Char) : Nat := cs.foldl (fun a c => 10 * a + (c.toNat - '0'.toNat)) 0

def digitsOf (cs : List Char) : List Char :=
  if cs.head? = some '-' ∨ cs.head? = some '+' then cs.tail else cs

def signedVal (neg : Bool) (v : Nat) : Int := if neg then -(v : Int) else (v : Int)

/-- `strconv.ParseInt(s, 10, 64)`: optional sign, one or more ASCII digits, range of int64. -/
def parseInt64 (s : String) : Option Int :=
  let ds := digitsOf s.toList
  if ds.isEmpty ∨ !ds.all isDigit then none
  else
    let r := signedVal (s.toList.head? == some '-') (digitsVal ds)
    if r < -(2:Int)^63 ∨ r > (2:Int)^63 - 1 then none else some r

/-- wrap an integer into the int64 range -/
def wrap64 (x : Int) : Int := (x + 2^63) % 2^64 - 2^63

def maxDur : Int := 2^63 - 1
def minDur : Int := -(2^63)

/-- Seconds between year 1 and 1970 (`unixToInternal`). -/
def unixToInternal : Int := 62135596800

/-- `now.Sub(time.Unix(v, 0))` in nanoseconds, with Go's int64 behaviour: the internal second count
    of `time.Unix` wraps, and `Sub` saturates. `nowNs` is unix nanoseconds. -/
def goAgeNs (nowNs : Int) (v : Int) : Int :=
  let uSec := wrap64 (v + unixToInternal)            -- internal seconds of time.Unix(v,0)
  let nowSec := nowNs / 1000000000 + unixToInternal
  let nowFrac := nowNs % 1000000000
  let d := (nowSec - uSec) * 1000000000 + nowFrac
  if d > maxDur then maxDur else if d < minDur then minDur else d

/-- The age the property speaks about: true difference between now and the recorded second. -/
def trueAgeNs (nowNs : Int) (v : Int) : Int := nowNs - v * 1000000000

/-- 0001-01-01T00:00:00Z and 9999-12-31T23:59:59Z in Unix seconds: the range `GetToBeRemovedTime` accepts
    (outside it `time.Unix` may wrap; repaired in /repo by the `fix:` commit for finding T1). -/
def minTaintUnix : Int := -62135596800
def maxTaintUnix : Int := 253402300799

/-- The value part of `GetToBeRemovedTime`: parses as an int64 and lies in the accepted range. -/
def parseTaintTime (s : String) : Option Int :=
  match parseInt64 s with
  | none => none
  | some v => if v < minTaintUnix ∨ v > maxTaintUnix then none else some v

/-- `GetToBeRemovedTime`: `none` if there is no taint, its value does not parse, or it is out of range. -/
def taintStamp? (n : Node) : Option Int :=
  match escTaint? n with
  | none => none
  | some t => parseTaintTime t.value

def effectOrDefault (e : String) : String := if e.length > 0 then e else "NoSchedule"

/-- The taint `AddToBeRemovedTaint` appends. -/
def newEscTaint (nowSec : Int) (effect : String) : Taint :=
  ⟨escKey, toString nowSec, effectOrDefault effect⟩

/-- `AddToBeRemovedTaint`. Returns whether it reported success. `nowSec` is `time.Now().Unix()`. -/
def addTaint (o : Oracle) (k : Nat) (nowSec : Int) (effect : String) (n : Node) : Eff Bool :=
  let g := k8sGet o k n.name
  match g.val with
  | none => ⟨false, g.j, g.k⟩
  | some u =>
    if hasTaint escKey u then ⟨true, g.j, g.k⟩
    else
      let w := doPlain o g.k (.updateNode { u with taints := u.taints ++ [newEscTaint nowSec effect] })
      ⟨w.val, g.j ++ w.j, w.k⟩

/-- Delete-without-preserving-order of the first element satisfying `p`:
    `a[i] = a[len-1]; a = a[:len-1]`. -/
def swapRemoveFirst (p : Taint → Bool) (ts : List Taint) : List Taint :=
  match ts.findIdx? p with
  | none => ts
  | some i =>
    match ts.getLast? with
    | none => ts
    | some last => (ts.set i last).dropLast

/-- `DeleteToBeRemovedTaint`. Returns whether it reported success. -/
def deleteTaint (o : Oracle) (k : Nat) (n : Node) : Eff Bool :=
  let g := k8sGet o k n.name
  match g.val with
  | none => ⟨false, g.j, g.k⟩
  | some u =>
    if hasTaint escKey u then
      let w := doPlain o g.k (.updateNode { u with taints := swapRemoveFirst (fun t => t.key == escKey) u.taints })
      ⟨w.val, g.j ++ w.j, w.k⟩
    else ⟨true, g.j, g.k⟩

/-- `k8s.DeleteNodes`: stop at the first failure. -/
def deleteNodesK8s (o : Oracle) : Nat → List Node → Eff Bool
  | k, [] => ⟨true, [], k⟩
  | k, n :: ns =>
    let d := doPlain o k (.deleteNode n.name)
    if d.val then
      let r := deleteNodesK8s o d.k ns
      ⟨r.val, d.j ++ r.j, r.k⟩
    else ⟨false, d.j, d.k⟩

/-! ### Pods, resources -/

def isDaemonSet (p : Pod) : Bool := p.ownerKinds.any (· == "DaemonSet")

def isStatic (p : Pod) : Bool := p.annotations.lookup "kubernetes.io/config.source" == some "file"

/-- `scheduler.ComputePodResourceRequest`, as the same three passes. -/
def podRequest (p : Pod) : Res :=
  let s := p.containers.foldl (fun a c => ⟨a.cpu + c.cpu, a.mem + c.mem⟩) (⟨0, 0⟩ : Res)
  let m := p.initContainers.foldl (fun a c => ⟨max a.cpu c.cpu, max a.mem c.mem⟩) s
  ⟨m.cpu + p.overhead.cpu, m.mem + p.overhead.mem⟩

structure PodUsage where
  total : Res
  largestPendingMem : Res
  largestPendingCPU : Res
deriving Repr, DecidableEq, Inhabited

def podUsageStep (u : PodUsage) (p : Pod) : PodUsage :=
  let r := podRequest p
  let t : Res := ⟨u.total.cpu + r.cpu, u.total.mem + r.mem⟩
  if p.phase = "Pending" then
    { total := t,
      largestPendingMem := if r.mem > u.largestPendingMem.mem then r else u.largestPendingMem,
      largestPendingCPU := if r.cpu > u.largestPendingCPU.cpu then r else u.largestPendingCPU }
  else { u with total := t }

/-- `CalculatePodsRequestedUsage`. -/
def podsUsage (pods : List Pod) : PodUsage := pods.foldl podUsageStep ⟨⟨0,0⟩, ⟨0,0⟩, ⟨0,0⟩⟩

def usingNodeResources (p : Pod) : Bool :=
  p.scheduled == some true && (p.phase == "Pending" || p.phase == "Running")

/-- `getNodeAvailableResources`. -/
def nodeAvail (pods : List Pod) (n : Node) : Res :=
  let mine := pods.filter (fun p => p.nodeName == n.name && usingNodeResources p)
  let used := mine.foldl (fun a p => (⟨a.cpu + (podRequest p).cpu, a.mem + (podRequest p).mem⟩ : Res)) ⟨0, 0⟩
  ⟨n.allocCPU - used.cpu, n.allocMem - used.mem⟩

structure NodeCap where
  total : Res
  largestAvailMem : Res
  largestAvailCPU : Res
deriving Repr, DecidableEq, Inhabited

def nodeCapStep (pods : List Pod) (c : NodeCap) (n : Node) : NodeCap :=
  let a := nodeAvail pods n
  { total := ⟨c.total.cpu + n.allocCPU, c.total.mem + n.allocMem⟩,
    largestAvailCPU := if a.cpu > c.largestAvailCPU.cpu then a else c.largestAvailCPU,
    largestAvailMem := if a.mem > c.largestAvailMem.mem then a else c.largestAvailMem }

/-- `CalculateNodesCapacity`. -/
def nodesCapacity (nodes : List Node) (pods : List Pod) : NodeCap :=
  nodes.foldl (nodeCapStep pods) ⟨⟨0,0⟩, ⟨0,0⟩, ⟨0,0⟩⟩

/-- `NodePodsRemaining` for a node of the listed nodes (so it is always in the info map). -/
def podsRemaining (pods : List Pod) (n : Node) : Nat :=
  (pods.filter (fun p => p.nodeName == n.name && !isDaemonSet p)).length

/-- `NodeEmpty`. -/
def nodeEmpty (pods : List Pod) (n : Node) : Bool := podsRemaining pods n == 0

/-! ### Attribution filters -/

/-- `unwrapNodeSelectorTerms`. -/
def requiredTerms (p : Pod) : List (List MatchExpr) :=
  match p.affinity with
  | none => []
  | some a => if a.hasNodeAffinity then (a.required.getD []) else []

/-- `NewPodAffinityFilterFunc`. -/
def podAffinityFilter (key value : String) (p : Pod) : Bool :=
  if isDaemonSet p then false
  else if p.nodeSelector.lookup key == some value then true
  else (requiredTerms p).any (fun term =>
    term.any (fun e => e.key == key && e.op == "In" && e.values.any (· == value)))

/-- `NewPodDefaultFilterFunc`. -/
def podDefaultFilter (p : Pod) : Bool :=
  if isDaemonSet p then false
  else if isStatic p then false
  else p.nodeSelector.isEmpty &&
    (match p.affinity with
     | none => true
     | some a => !a.hasNodeAffinity && !a.hasPodAffinity && !a.hasPodAntiAffinity)

/-- `NewNodeLabelFilterFunc`. -/
def nodeLabelFilter (key value : String) (n : Node) : Bool := n.labels.lookup key == some value

end Esc
