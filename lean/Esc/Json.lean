/- JSON (de)serialisation for the line protocol. Kept out of the model files. -/
import Lean.Data.Json
import Esc.Spec
open Lean
namespace Esc

deriving instance FromJson, ToJson for Taint, Node, Res, MatchExpr, Affinity, Pod, Inst, Asg, AwsCfg,
  GroupCfg, Override, FleetReq, Call, Resp, Entry, Lock, GState, PGroup, Hints, Ctl, ScanErr

/-- What the harness observed for one group scan. -/
structure ObsRec where
  name : String
  j : Journal
  delta : Int
  err : Bool            -- scaleNodeGroup returned a non-nil error
deriving FromJson, ToJson, Repr, Inhabited

structure ObsState where
  name : String
  isLocked : Bool
  requested : Int
  lockTime : Option Int
  scaleDelta : Int
  lastScaleOut : Option Int
  cachedCPU : Int
  cachedMem : Int
  taintTracker : List String
  forceTaintTracker : List String
  minEff : Int
  maxEff : Int
deriving FromJson, ToJson, Repr, Inhabited, DecidableEq

structure ObsScan where
  outcome : String
  pre : Journal
  recs : List ObsRec
  states : List ObsState
deriving FromJson, ToJson, Repr, Inhabited

/-- What a group's own listers returned right after the scan (names, sorted). -/
structure ObsList where
  name : String
  pods : List String
  nodes : List String
deriving FromJson, ToJson, Repr, Inhabited

structure ScanCase where
  nowMock : Int
  nowReal : Int
  pods : List Pod
  nodes : List Node
  hints : List (String × Hints)
  resps : List Resp
  desc : List (String × Resp)
  obs : ObsScan
  lists : Option (List ObsList) := none
  mutated : Option (List String) := none
  /-- the cloud groups as the cloud itself holds them when the scan starts -/
  cloud : Option (List Asg) := none
  /-- groups whose pod or node listing failed in this scan (the scan of such a group ends before it starts) -/
  listfail : Option (List String) := none
deriving FromJson, ToJson, Repr, Inhabited

structure ObsInit where
  ok : Bool
  j : Journal
deriving FromJson, ToJson, Repr, Inhabited

structure InitCase where
  ctl : Ctl
  resps : List Resp
  obs : ObsInit
deriving FromJson, ToJson, Repr, Inhabited

end Esc
