/-
  Driver-side handlers for the direct-call streams (arith, taintop, filter, resources, awsop).
  Each returns the list of disagreements between model and observation and the list of monitor
  failures, plus a coverage tag.
-/
import Esc.Json
import Esc.Gen.Validate
import Esc.Gen.Keys
import Esc.Assemble
open Lean
namespace Esc

structure OpOut where
  diffs : List String := []
  mon : List String := []
  tag : String := ""
  model : Json := Json.null

def getD {α} [FromJson α] (j : Json) (k : String) (d : α) : α :=
  match j.getObjValAs? α k with | .ok v => v | .error _ => d

/-! ### arith -/

/-- Smallest total node count that puts `req` at or below `T` percent of `cnt × size`. -/
def neededExact (req size T : Int) : Int :=
  if size ≤ 0 ∨ T ≤ 0 then 0 else ((100 * req : Int) / (size * T : Int) : Rat).ceil

def handleArith (j : Json) : OpOut :=
  let cpuReq : Int := getD j "cpuReq" 0
  let memReq : Int := getD j "memReq" 0
  let cpuCap : Int := getD j "cpuCap" 0
  let memCap : Int := getD j "memCap" 0
  let n : Int := getD j "n" 0
  let cachedCPU : Int := getD j "cachedCPU" 0
  let cachedMem : Int := getD j "cachedMem" 0
  let T : Int := getD j "T" 0
  let obs := (j.getObjVal? "obs").toOption.getD Json.null
  let oPct : String := getD obs "pct" "?"
  let p := calcPercent rne64 cpuReq memReq cpuCap memCap n
  let (mPct, mC, mM) := match p with
    | .err => ("err", "", "")
    | .sentinel => ("sentinel", "", "")
    | .vals c m => ("vals", toString (bits64 c), toString (bits64 m))
  let d := calcScaleUpDelta rne64 n p cpuReq memReq cachedCPU cachedMem T
  let dPct := if mPct == oPct then [] else ["pct-kind"]
  let dBits := if mPct == "vals" && oPct == "vals" && (mC != getD obs "cpuBits" "" || mM != getD obs "memBits" "") then ["pct-bits"] else []
  let oDelta : Int := getD obs "delta" 0
  let oDerr : Bool := getD obs "derr" false
  let dDelta := if mPct == "err" || oPct == "err" then [] else
    (if d.delta == oDelta then [] else ["delta"]) ++ (if d.err == oDerr then [] else ["delta-err"])
  let dPanic := match obs.getObjVal? "panic" with | .ok _ => ["panic"] | .error _ => []
  -- monitor C13/C06 on the *observed* percentages: within 2⁻⁴⁰ (relative) of 100·R/C on exact rationals
  let offBy (bits : String) (r c : Int) (what : String) : List String :=
    if c ≤ 0 || r < 0 then [] else
    match bits.toNat? with
    | none => []
    | some b =>
      let exact : Rat := ((100 * r : Int) : Rat) / (c : Rat)
      match ofBits64 b with
      | none => ["C13:" ++ what ++ "-utilisation-not-finite", "C06:" ++ what ++ "-utilisation-not-finite"]
      | some v =>
        let err := if v ≥ exact then v - exact else exact - v
        if err ≤ exact / ((2 ^ 40 : Nat) : Rat) then [] else
          ["C13:" ++ what ++ "-utilisation-is-not-100*requests/capacity", "C06:" ++ what ++ "-utilisation-is-not-100*requests/capacity"]
  let monPct : List String :=
    if oPct == "vals" then offBy (getD obs "cpuBits" "") cpuReq cpuCap "cpu" ++ offBy (getD obs "memBits" "") memReq memCap "mem" else []
  -- monitor C05 on the *observed* delta, with exact rationals
  let mon : List String := monPct ++
    if oPct == "vals" && n > 0 then
      let over := 100 * cpuReq > T * cpuCap || 100 * memReq > T * memCap
      if over then
        let need := max (neededExact cpuReq (cpuCap / n) T) (neededExact memReq (memCap / n) T) - n
        (if oDelta < need then ["C05:short:" ++ toString (need - oDelta)] else []) ++
        (if oDelta > need + 1 then ["C05:over:" ++ toString (oDelta - need)] else [])
      else []
    else if oPct == "sentinel" then
      if cachedCPU == 0 || cachedMem == 0 then (if oDelta == 1 then [] else ["C05:zero-nocache:" ++ toString oDelta])
      else
        let need := max (neededExact cpuReq cachedCPU T) (neededExact memReq cachedMem T)
        (if oDelta < need then ["C05:short0:" ++ toString (need - oDelta)] else []) ++
        (if oDelta > need + 1 then ["C05:over0:" ++ toString (oDelta - need)] else [])
    else []
  { diffs := dPct ++ dBits ++ dDelta ++ dPanic, mon := mon, tag := "arith:" ++ mPct,
    model := Json.mkObj [("pct", toJson mPct), ("cpuBits", toJson mC), ("memBits", toJson mM), ("delta", toJson d.delta), ("derr", toJson d.err)] }

/-! ### taintop -/

def handleTaintOp (j : Json) : OpOut :=
  match j.getObjValAs? Node "node", j.getObjValAs? (List Resp) "resps" with
  | .ok node, .ok resps =>
    let kind : String := getD j "kind" ""
    let effect : String := getD j "effect" ""
    let nowSec : Int := getD j "nowSec" 0
    let obs := (j.getObjVal? "obs").toOption.getD Json.null
    let oJ : Journal := getD obs "j" []
    let o : Oracle := fun k _ => resps.toArray.getD k .fail
    let dPanic := match obs.getObjVal? "panic" with | .ok _ => ["panic"] | .error _ => []
    let m15 := (Spec.C15.bad nowSec effect none (oJ.zip resps)).map (fun n => "C15:imprecise:" ++ n)
    -- success reported although the job is not done: the fetched copy needed a write and none was accepted
    let fetched : Option Node := match oJ.head?, resps.head? with
      | some ⟨.getNode _, true⟩, some (.node n) => some n
      | _, _ => none
    let written : Bool := oJ.any (fun e => e.ok && (match e.call with | .updateNode _ => true | _ => false))
    let mDone : List String := match fetched with
      | some n =>
        if getD obs "ok" false && !written && kind == "add" && !hasTaint escKey n then ["C15:add reported success, yet the fetched node carries no escalator taint and nothing was written"]
        else if getD obs "ok" false && !written && kind == "delete" && hasTaint escKey n then ["C15:delete reported success, yet the fetched node still carries the escalator taint and nothing was written"]
        else []
      | none => []
    -- a write that drops the no-delete annotation the fetched copy carried takes the node's protection away
    let mAnn : List String := match fetched with
      | some n => match n.annotations.lookup noDeleteKey with
        | some v => if oJ.any (fun e => match e.call with | .updateNode o => o.annotations.lookup noDeleteKey != some v | _ => false)
                    then ["C10:a taint write drops or changes the no-delete annotation the API server's copy of the node carries"] else []
        | none => []
      | none => []
    let m15 := m15 ++ mDone ++ mAnn
    if kind == "add" then
      let r := addTaint o 0 nowSec effect node
      { diffs := (if Spec.canonTaints r.j == Spec.canonTaints oJ then [] else ["journal"]) ++ (if r.val == getD obs "ok" false then [] else ["ok"]) ++ dPanic,
        mon := m15,
        tag := "taintop:add", model := Json.mkObj [("j", toJson r.j), ("ok", toJson r.val)] }
    else if kind == "delete" then
      let r := deleteTaint o 0 node
      { diffs := (if Spec.canonTaints r.j == Spec.canonTaints oJ then [] else ["journal"]) ++ (if r.val == getD obs "ok" false then [] else ["ok"]) ++ dPanic,
        mon := m15,
        tag := "taintop:delete", model := Json.mkObj [("j", toJson r.j), ("ok", toJson r.val)] }
    else
      let oT : String := getD obs "time" "?"
      let m : String := match escTaint? node with
        | none => "none"
        | some t => match parseTaintTime t.value with
          | none => "err"
          | some v => toString v
      let ageD : List String := match taintStamp? node with
        | some v => if toString (goAgeNs (nowSec * 1000000000) v) == getD obs "ageNs" "" then [] else ["age"]
        | none => []
      { diffs := (if m == oT then [] else ["time"]) ++ ageD ++ dPanic, tag := "taintop:time:" ++ (if m == "none" || m == "err" then m else "ok"),
        model := Json.mkObj [("time", toJson m)] }
  | _, _ => { diffs := ["bad-case"] }

/-! ### filters -/

def handleFilter (j : Json) : OpOut :=
  match j.getObjValAs? Pod "pod" with
  | .ok pod =>
    let key : String := getD j "key" ""
    let value : String := getD j "value" ""
    let obs := (j.getObjVal? "obs").toOption.getD Json.null
    let a := podAffinityFilter key value pod
    let d := podDefaultFilter pod
    { diffs := (if a == getD obs "affinity" (!a) then [] else ["affinity"]) ++ (if d == getD obs "default" (!d) then [] else ["default"]),
      tag := "filter:" ++ toString a ++ ":" ++ toString d, model := Json.mkObj [("affinity", toJson a), ("default", toJson d)] }
  | .error e => { diffs := ["bad-case:" ++ e] }

def handleNodeFilter (j : Json) : OpOut :=
  match j.getObjValAs? Node "node" with
  | .ok node =>
    let m := nodeLabelFilter (getD j "key" "") (getD j "value" "") node
    let obs := (j.getObjVal? "obs").toOption.getD Json.null
    { diffs := if m == getD obs "match" (!m) then [] else ["match"], tag := "nodefilter:" ++ toString m, model := toJson m }
  | .error e => { diffs := ["bad-case:" ++ e] }

/-! ### resources -/

deriving instance FromJson, ToJson for PodUsage, NodeCap

def handleResources (j : Json) : OpOut :=
  match j.getObjValAs? (List Pod) "pods", j.getObjValAs? (List Node) "nodes" with
  | .ok pods, .ok nodes =>
    let obs := (j.getObjVal? "obs").toOption.getD Json.null
    let pu := podsUsage pods
    let nc := nodesCapacity nodes pods
    let z : Res := ⟨0, 0⟩
    let cmp (name : String) (m : Res) : List String := if m == getD obs name ⟨-1, -1⟩ then [] else [name]
    let rem : List (String × (Nat × Bool × Bool)) := nodes.map (fun n => (n.name, (podsRemaining pods n, true, nodeEmpty pods n)))
    let oRem : List (String × (Nat × Bool × Bool)) := getD obs "remaining" []
    let _ := z
    { diffs := cmp "podTotal" pu.total ++ cmp "lpMem" pu.largestPendingMem ++ cmp "lpCPU" pu.largestPendingCPU ++
               cmp "capTotal" nc.total ++ cmp "laMem" nc.largestAvailMem ++ cmp "laCPU" nc.largestAvailCPU ++
               (if rem == oRem then [] else ["remaining"]) ++
               (if getD obs "permEqual" true then [] else ["perm-invariance"]) ++
               (match obs.getObjVal? "panic" with | .ok _ => ["panic"] | .error _ => []),
      mon := if getD obs "permEqual" true then [] else ["C13:order-dependent"],
      tag := "resources:" ++ toString pods.length ++ ":" ++ toString nodes.length,
      model := Json.mkObj [("podTotal", toJson pu.total), ("capTotal", toJson nc.total), ("pu", toJson pu), ("nc", toJson nc)] }
  | _, _ => { diffs := ["bad-case"] }

/-! ### awsop -/

def incErrStr : IncErr → String
  | .none => "ok" | .rejected => "fatal:rebuild-failed" | .failed => "fatal:rebuild-failed" | .fatal => "fatal:fleet-strikes"

/-- The ids the fleet request returned, read off the recorded responses (ordered calls only). -/
def acquiredOf (oJ : Journal) (resps : List Resp) : Option (List String) :=
  let rec go (es : List Entry) (rs : List Resp) : Option (List String) :=
    match es, rs with
    | e :: es', r :: rs' =>
      match e.call, r with
      | .createFleet _, .fleet idss errs => if idss.isEmpty && !errs.isEmpty then none else some idss.flatten
      | _, _ => go es' rs'
    | _, _ => none
  go oJ resps

def incErrOfOutcome (s : String) (rejected : Bool) : IncErr :=
  if s == "ok" then .none else if s == "fatal:fleet-strikes" then .fatal else if rejected then .rejected else .failed

def handleAwsOp (prev : Option PGroup) (j : Json) : OpOut × Option PGroup :=
  match j.getObjValAs? PGroup "g", j.getObjValAs? AwsCfg "cfg", j.getObjValAs? (List Resp) "resps" with
  | .ok g0, .ok cfg, .ok resps =>
    -- in a sequence (seq > 0) the cached group is the one the model's previous operation left behind
    let seq : Nat := getD j "seq" 0
    let g := if seq > 0 then prev.getD g0 else g0
    let kind : String := getD j "kind" ""
    let obs := (j.getObjVal? "obs").toOption.getD Json.null
    let oJ : Journal := getD obs "j" []
    let oOut : String := getD obs "outcome" "?"
    let o : Oracle := fun k _ => resps.toArray.getD k .fail
    if kind == "increase" then
      let delta : Int := getD j "delta" 0
      let r := increaseSize o 0 cfg g delta
      -- the harness maps any returned error to "fatal:rebuild-failed" (it is just "an error" here)
      let mOut := incErrStr r.val.err
      -- monitors on the observed journal
      let oErr := incErrOfOutcome oOut (oJ.isEmpty)
      let m17 := if Spec.C17.increaseHolds cfg g delta oJ oErr then [] else
        (["C17:request", "C07:the cloud request is not the amount asked for on top of the desired size"] ++ (if seq > 0 then ["C07:not-on-top-of-current-desired"] else []))
      let m1718 := match acquiredOf oJ resps with
        | some acq =>
          (if Spec.C17.attachHolds g.id acq oJ then [] else ["C17:attach-partition"]) ++
          -- success reported for `delta` nodes, but not all of them were brought into the group: the scale-up the
          -- controller sized (and now locks for) is smaller than computed
          (if oOut == "ok" && !(Spec.C17.attachHolds g.id acq oJ && Spec.C18.holds acq oJ oErr) then
            ["C05:increase reported success although not every acquired instance was attached exactly once"] else []) ++
          (if Spec.C18.holds acq oJ oErr then [] else ["C18:leak"]) ++
          -- acquired, and then neither an attach nor a terminate call: "attaches each acquired instance" fails outright
          (if !acq.isEmpty && !oJ.any Spec.isAttachEntry &&
              !oJ.any (fun e => match e.call with | .terminateInstances _ => true | _ => false) then
            ["C17:acquired-instances-neither-attached-nor-handed-back:" ++ toString acq.length] else [])
        | none => []
      -- C04 at provider level: no request may take the group above the cloud maximum, counted from the desired
      -- size as it really stands (the model's cached group follows every accepted operation of the sequence)
      let m04 := oJ.filterMap (fun e => match e.call with
        | .createFleet req => if g.asg.desired + req.total > g.asg.max then some "C04:fleet-request-above-cloud-max" else none
        | .setDesired _ v => if v > g.asg.max then some "C04:desired-above-cloud-max" else none
        | _ => none)
      ({ diffs := (if r.j == oJ then [] else ["journal"]) ++ (if mOut == oOut then [] else ["outcome"]),
         mon := m17 ++ m1718 ++ m04,
         tag := "awsop:increase:" ++ (match r.val.err with | .none => "ok" | .rejected => "rejected" | .failed => "failed" | .fatal => "fatal") ++ (if seq > 0 then ":seq" else ""),
         model := Json.mkObj [("j", toJson r.j), ("outcome", toJson mOut)] }, some r.val.g)
    else
      match j.getObjValAs? (List Node) "nodes" with
      | .ok nodes =>
        let r := awsDeleteNodes o 0 g nodes
        let mOut := match r.val.err with | .none => "none" | .notInGroup => "notInGroup" | _ => "error"
        let oT : Int := getD obs "targetAfter" (-1)
        let oErr : DelErr := if oOut == "none" then .none else if oOut == "notInGroup" then .notInGroup
          else if oJ.isEmpty then .refused else .failed
        -- a refused request and a not-in-group on the first node both have an empty journal: accept either reading
        let m19 := if Spec.C19.deleteHolds g nodes oJ oErr || (oOut == "error" && oJ.isEmpty && Spec.C19.deleteHolds g nodes oJ .refused) then [] else ["C19:delete"]
        ({ diffs := (if r.j == oJ then [] else ["journal"]) ++ (if mOut == oOut then [] else ["outcome"]) ++
                    (if r.val.g.asg.desired == oT then [] else ["cached-desired"]),
           mon := m19,
           tag := "awsop:delete:" ++ (match r.val.err with | .none => "none" | .refused => "refused" | .notInGroup => "notInGroup" | .failed => "failed"),
           model := Json.mkObj [("j", toJson r.j), ("outcome", toJson mOut), ("desired", toJson r.val.g.asg.desired)] }, some r.val.g)
      | .error e => ({ diffs := ["bad-case:" ++ e] }, none)
  | _, _, _ => ({ diffs := ["bad-case"] }, none)

deriving instance FromJson, ToJson for Gen.RawCfg

/-! ### validate / decode (C16) -/

def handleValidate (j : Json) : OpOut :=
  match j.getObjValAs? Gen.RawCfg "cfg" with
  | .ok c =>
    let obs := (j.getObjVal? "obs").toOption.getD Json.null
    let failed := (Gen.checks c).filter (fun b => !b) |>.length
    let oN : Nat := getD obs "problems" 9999
    let idxs := (Gen.checks c).zipIdx.filterMap (fun (b, i) => if b then none else some i)
    -- the accessors the validator and the controller read must return what the option strings say
    let acc : List Int := getD obs "accessorNs" [c.softNs, c.hardNs, c.coolNs, c.maxAgeNs]
    let accBad := acc != [c.softNs, c.hardNs, c.coolNs, c.maxAgeNs]
    { diffs := (if failed == oN then [] else ["problems"]) ++ (if accBad then ["field"] else []) ++ (match obs.getObjVal? "panic" with | .ok _ => ["panic"] | .error _ => []),
      mon := if accBad then ["C16:a duration accessor does not return what the option string says: " ++ toString acc ++ " for " ++ toString [c.softNs, c.hardNs, c.coolNs, c.maxAgeNs]] else [],
      tag := if failed == 0 then "validate:accepted" else "validate:rejected:" ++ toString idxs,
      model := Json.mkObj [("failedChecks", toJson idxs)] }
  | .error e => { diffs := ["bad-case:" ++ e] }

/-- `startup`: the real binary on a configuration file with several node groups: it must refuse the file unless every
    entry passes validation. -/
def handleStartup (j : Json) : OpOut :=
  match j.getObjValAs? (List Gen.RawCfg) "cfgs" with
  | .ok cs =>
    let obs := (j.getObjVal? "obs").toOption.getD Json.null
    let oAcc : Bool := getD obs "accepted" false
    let mAcc := cs.all Gen.validate
    let badOnes := (cs.filter (fun c => !Gen.validate c)).map (·.name)
    { diffs := if mAcc == oAcc then [] else ["startup"],
      mon := if oAcc && !mAcc then ["C16:start-up-accepted-a-file-with-entries-that-fail-validation:" ++ toString badOnes] else [],
      tag := if mAcc then "startup:accepted" else "startup:refused",
      model := Json.mkObj [("accepted", toJson mAcc), ("failing", toJson badOnes)] }
  | .error e => { diffs := ["bad-case:" ++ e] }

deriving instance FromJson, ToJson for ACfg, ACloud

/-- `assemble`: what `setupNodeGroups` / `setupCloudProvider` of the built program made of a file of valid node groups,
    against `Esc.assemble`. Monitors: a group's dry-mode switch is its own (C11); its cloud configuration is made from
    its own entry (C12; the ready-timeout also C17); its options are what the file says (C16). -/
def handleAssemble (j : Json) : OpOut :=
  match j.getObjValAs? (List ACfg) "cfgs" with
  | .error e => { diffs := ["bad-case:" ++ e] }
  | .ok cfgs =>
    let master : Bool := getD j "master" false
    let obs := (j.getObjVal? "obs").toOption.getD Json.null
    let ok : Bool := getD obs "ok" false
    let m := assemble master cfgs
    if !ok then
      { diffs := ["assemble-no-dump"], tag := "assemble:no-dump", model := toJson (m.groups.map (·.1)) }
    else
      let oMaster : Bool := getD obs "master" false
      let oNames : List String := getD obs "names" []
      let oDries : List Bool := getD obs "dries" []
      let oChanged : List Nat := getD obs "optsChanged" []
      let oCloud : List ACloud := getD obs "cloud" []
      let oProvider : String := getD obs "provider" ""
      let idx := List.range cfgs.length
      let dryBad := idx.filter (fun i => (oMaster || (oDries[i]?).getD false) != m.dryOf i)
      let cloudBad := idx.filter (fun i => oCloud[i]? != m.cloud[i]?)
      let timeoutOnly := cloudBad.filter (fun i => match oCloud[i]?, m.cloud[i]? with
        | some a, some b => { a with timeoutNs := b.timeoutNs } == b
        | _, _ => false)
      let nm (i : Nat) : String := ((cfgs[i]?).map (·.name)).getD "?" ++ "#" ++ toString i
      { diffs := (if oMaster == m.master && oNames == m.groups.map (·.1) && oDries == m.groups.map (·.2) then [] else ["assemble-groups"])
              ++ (if oCloud == m.cloud && oProvider == "aws" then [] else ["assemble-cloud"])
              ++ (if oChanged.isEmpty then [] else ["assemble-opts"]),
        mon := dryBad.map (fun i => "C11:assembly-changes-dry-mode-of-group:" ++ nm i)
            ++ (if oNames.length != cfgs.length || oCloud.length != cfgs.length then
                  ["C12:assembly-loses-or-invents-groups", "C16:assembly-loses-or-invents-groups"] else [])
            ++ (cloudBad.filter (fun i => !timeoutOnly.contains i)).map (fun i => "C12:cloud-config-of-group-not-made-from-its-own-entry:" ++ nm i)
            ++ timeoutOnly.map (fun i => "C17:fleet-ready-timeout-differs-from-the-option:" ++ nm i)
            ++ oChanged.map (fun i => "C16:assembly-changes-options-of-group:" ++ nm i),
        tag := "assemble:" ++ toString cfgs.length ++ (if master then ":master" else ""),
        model := toJson m.cloud }

/-- `forever`: the real `RunForever` over a quiet world with the cloud failing for `failCount` consecutive calls from the
    refresh of scan `failFrom` on. The model's lifetime semantics (`runEvents`: a scan that `RunOnce` ends with an error ends
    the lifetime; any other scan is followed by the next one): one failed call is a transient failure — the loop must still be
    scanning; two in a row make the rebuild fail — `RunForever` must hand the error back (the recorded finding T5). -/
def handleForever (j : Json) : OpOut :=
  let failFrom : Nat := getD j "failFrom" 0
  let failCount : Nat := getD j "failCount" 0
  let obs := (j.getObjVal? "obs").toOption.getD Json.null
  let outcome : String := getD obs "outcome" "?"
  let scans : Nat := getD obs "scans" 0
  let foreign : Bool := getD j "foreign" false
  let expect := if failCount ≥ 2 || foreign then "returned" else "running"
  let kind := ((outcome.splitOn ":").head?).getD outcome
  { diffs := if kind == expect then [] else [if foreign then "forever-notingroup" else "forever-outcome"],
    mon := (if kind == "panic" then (if foreign then ["C19:panic:RunForever:" ++ outcome] else []) ++ ["C20:panic:RunForever:" ++ outcome ++ " (cloud calls " ++ toString failFrom ++ ".." ++ toString (failFrom + failCount - 1) ++ " failed)"] else [])
        ++ (if failCount == 1 && !foreign && kind == "returned" then ["C20:fatal:undocumented-stop:after a transient failure (one failed refresh, the rebuild accepted) RunForever stopped: " ++ outcome] else [])
        ++ (if failCount == 1 && !foreign && kind == "running" && scans ≤ failFrom + 3 then ["C20:wedged:after a transient failure no further scan was made (calls seen: " ++ toString scans ++ ")"] else [])
        ++ (if failCount ≥ 2 && kind == "returned" then ["C20:fatal:rebuild-failed"] else [])
        ++ (if foreign && kind != "returned" then ["C19:a node due for removal is not a member of the cloud group, yet RunForever goes on instead of handing the not-in-group error back: " ++ outcome] else []),
    tag := "forever:" ++ toString failFrom ++ ":" ++ toString failCount ++ ":" ++ kind,
    model := Json.mkObj [("expect", toJson expect)] }

def handleDecode (j : Json) : OpOut :=
  let key : String := getD j "key" ""
  let aws : Bool := getD j "aws" false
  let obs := (j.getObjVal? "obs").toOption.getD Json.null
  let table := if aws then Gen.awsOptionKeys else Gen.optionKeys
  let row := table.find? (fun r => r.2.1 == key)
  let expectField := match row with | some r => (if aws then "AWS." else "") ++ r.1 | none => ""
  let honoured : Bool := getD obs "honoured" false
  let same : Bool := getD obs "same" false
  { diffs := (if honoured == row.isSome then [] else ["honoured"]) ++ (if getD obs "field" "" == expectField then [] else ["field"]),
    mon := (if same then [] else ["C16:yaml-json-differ:" ++ key]) ++ (if honoured then [] else ["C16:key-not-honoured:" ++ key]),
    tag := "decode:" ++ key, model := Json.mkObj [("expectField", toJson expectField)] }

/-- `decode2`: a node group decodes to the same options whatever stands next to it in the file. -/
def handleDecode2 (j : Json) : OpOut :=
  let key : String := getD j "key" ""
  let form : String := getD j "form" ""
  let obs := (j.getObjVal? "obs").toOption.getD Json.null
  let ind : Bool := getD obs "independent" false
  let why : String := getD obs "why" ""
  { diffs := if ind then [] else ["field"],
    mon := if ind then [] else ["C16:decoded-options-depend-on-neighbouring-entries:" ++ key ++ ":" ++ form ++ ":" ++ why],
    tag := "decode2:" ++ form, model := Json.mkObj [("independent", toJson true)] }

end Esc
