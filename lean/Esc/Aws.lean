/-
  Model of `pkg/cloudprovider/aws/aws.go`: the provider's cached group, IncreaseSize (plain and
  fleet/one-shot), DeleteNodes, orphan termination, Refresh.
-/
import Esc.K8s
namespace Esc

/-- `instanceToProviderID`. -/
def providerIdOf (i : Inst) : String := "aws:///" ++ i.az ++ "/" ++ i.id

/-- `NodeGroup.Belongs`. -/
def belongs (g : PGroup) (n : Node) : Bool :=
  g.asg.instances.any (fun i => providerIdOf i == n.providerID)

/-- The instance id `DeleteNodes` sends for a node (first instance whose provider id matches). -/
def instanceIdFor (g : PGroup) (n : Node) : String :=
  match g.asg.instances.find? (fun i => providerIdOf i == n.providerID) with
  | some i => i.id
  | none => ""

inductive DelErr where
  | none        -- success
  | refused     -- would breach the ASG minimum: nothing was called
  | notInGroup  -- a node is not a member: `*cloudprovider.NodeNotInNodeGroup`
  | failed      -- a terminate call failed
deriving DecidableEq, Repr, Inhabited

structure DelRes where
  err : DelErr
  g : PGroup
deriving Repr, Inhabited

def decDesired (g : PGroup) : PGroup := { g with asg := { g.asg with desired := g.asg.desired - 1 } }

/-- The loop of `DeleteNodes`. -/
def terminateLoop (o : Oracle) : Nat → PGroup → List Node → Eff DelRes
  | k, g, [] => ⟨⟨.none, g⟩, [], k⟩
  | k, g, n :: ns =>
    if belongs g n then
      let t := doPlain o k (.terminateInAsg (instanceIdFor g n) true)
      if t.val then
        let r := terminateLoop o t.k (decDesired g) ns
        ⟨r.val, t.j ++ r.j, r.k⟩
      else ⟨⟨.failed, g⟩, t.j, t.k⟩
    else ⟨⟨.notInGroup, g⟩, [], k⟩

/-- `NodeGroup.DeleteNodes`. -/
def awsDeleteNodes (o : Oracle) (k : Nat) (g : PGroup) (nodes : List Node) : Eff DelRes :=
  if g.asg.desired ≤ g.asg.min then ⟨⟨.refused, g⟩, [], k⟩
  else if g.asg.desired - nodes.length < g.asg.min then ⟨⟨.refused, g⟩, [], k⟩
  else terminateLoop o k g nodes

/-! ### Scale up -/

/-- Go's `for sz < len(l) { batch = l[:sz]; l = l[sz:] }` followed by the remainder: every batch but
    the last has exactly `sz` elements, the last has between 1 and `sz` (0 only if `l` is empty). -/
def attachChunks (sz : Nat) : Nat → List String → List (List String)
  | 0, l => [l]
  | f + 1, l => if sz < l.length then l.take sz :: attachChunks sz f (l.drop sz) else [l]

/-- `for i := 0; i < n; i += sz { l[i:min(i+sz,n)] }`. -/
def termChunks (sz : Nat) : Nat → List String → List (List String)
  | 0, _ => []
  | f + 1, l => if l.isEmpty then [] else l.take sz :: termChunks sz f (l.drop sz)

/-- TerminateInstances for each chunk; errors are only logged. -/
def terminateChunks (o : Oracle) : Nat → List (List String) → Eff Unit
  | k, [] => ⟨(), [], k⟩
  | k, c :: cs =>
    let t := doPlain o k (.terminateInstances c)
    let r := terminateChunks o t.k cs
    ⟨(), t.j ++ r.j, r.k⟩

structure OrphanRes where
  g : PGroup
  fatal : Bool
deriving Repr, Inhabited

/-- `terminateOrphanedInstances`. -/
def terminateOrphans (o : Oracle) (k : Nat) (g : PGroup) (ids : List String) : Eff OrphanRes :=
  if ids.isEmpty then ⟨⟨g, false⟩, [], k⟩
  else
    let t := terminateChunks o k (termChunks Gen.terminateBatchSize ids.length ids)
    let tries := g.tries + 1
    ⟨⟨{ g with tries := tries }, tries ≥ Gen.maxTerminateInstancesTries⟩, t.j, t.k⟩

def pagesReady (r : Resp) : Bool :=
  match r with
  | .status pages => !pages.isEmpty && pages.all (fun p => p.all id)
  | _ => false

/-- The instance-ready loop: one DescribeInstanceStatusPages per tick until ready or the deadline. -/
def readyLoop (o : Oracle) (ids : List String) : Nat → Nat → Eff Bool
  | 0, k => ⟨false, [], k⟩
  | t + 1, k =>
    let s := doCall o k (.describeStatus ids)
    if pagesReady s.val then ⟨true, s.j, s.k⟩
    else
      let r := readyLoop o ids t s.k
      ⟨r.val, s.j ++ r.j, r.k⟩

structure AttachRes where
  ok : Bool
  orphans : List String
deriving Repr, Inhabited

/-- The AttachInstances calls; on the first failure the orphans are the not-yet-attached ids. -/
def attachBatches (o : Oracle) (gid : String) : Nat → List (List String) → Eff AttachRes
  | k, [] => ⟨⟨true, []⟩, [], k⟩
  | k, b :: bs =>
    let a := doPlain o k (.attach gid b)
    if a.val then
      let r := attachBatches o gid a.k bs
      ⟨r.val, a.j ++ r.j, r.k⟩
    else ⟨⟨false, bs.flatten ++ b⟩, a.j, a.k⟩

inductive IncErr where
  | none       -- accepted
  | rejected   -- non-positive delta or above the ASG maximum: no AWS call at all
  | failed     -- some call failed; reported to the caller
  | fatal      -- `log.Fatalf`: third consecutive failed fleet provisioning
deriving DecidableEq, Repr, Inhabited

structure IncRes where
  err : IncErr
  g : PGroup
deriving Repr, Inhabited

/-- `attachInstancesToASG` with the production terminate function. -/
def attachInstances (o : Oracle) (k : Nat) (cfg : AwsCfg) (g : PGroup) (ids : List String) : Eff IncRes :=
  let rd := readyLoop o ids cfg.readyTicks k
  if rd.val then
    let a := attachBatches o g.id rd.k (attachChunks Gen.batchSize ids.length ids)
    if a.val.ok then ⟨⟨.none, { g with tries := 0 }⟩, rd.j ++ a.j, a.k⟩
    else
      let t := terminateOrphans o a.k g a.val.orphans
      ⟨⟨if t.val.fatal then .fatal else .failed, t.val.g⟩, rd.j ++ a.j ++ t.j, t.k⟩
  else
    let t := terminateOrphans o rd.k g ids
    ⟨⟨if t.val.fatal then .fatal else .failed, t.val.g⟩, rd.j ++ t.j, t.k⟩

/-- `createTemplateOverrides`: subnets × instance types (or subnets alone). -/
def mkOverrides (subnets : List String) (types : List String) : List Override :=
  if types.isEmpty then subnets.map (fun s => ⟨s, none⟩)
  else subnets.flatMap (fun s => types.map (fun t => ⟨s, some t⟩))

/-- `createFleetInput`, given the subnet list. -/
def mkFleetReq (cfg : AwsCfg) (subnets : List String) (addCount : Int) : FleetReq :=
  let lifecycle := if cfg.lifecycle = "" then Gen.lifecycleOnDemand else cfg.lifecycle
  { fleetType := "instant", total := addCount, minTarget := addCount, defaultType := lifecycle,
    onDemandOptions := lifecycle == Gen.lifecycleOnDemand,
    templateID := cfg.launchTemplateID, templateVersion := cfg.launchTemplateVersion,
    overrides := mkOverrides subnets cfg.instanceTypeOverrides, tagged := cfg.resourceTagging }

/-- `setASGDesiredSizeOneShot`. -/
def oneShot (o : Oracle) (k : Nat) (cfg : AwsCfg) (g : PGroup) (addCount : Int) : Eff IncRes :=
  let d := doCall o k (.describeAsgs [g.id])
  match d.val with
  | .asgs (a :: _) =>
    if a.vpcZones = "" then ⟨⟨.failed, g⟩, d.j, d.k⟩
    else
      let f := doCall o d.k (.createFleet (mkFleetReq cfg (a.vpcZones.splitOn ",") addCount))
      match f.val with
      | .fleet idss errs =>
        if idss.isEmpty ∧ ¬ errs.isEmpty then ⟨⟨.failed, g⟩, d.j ++ f.j, f.k⟩
        else
          let r := attachInstances o f.k cfg g idss.flatten
          ⟨r.val, d.j ++ f.j ++ r.j, r.k⟩
      | _ => ⟨⟨.failed, g⟩, d.j ++ f.j, f.k⟩
  | _ => ⟨⟨.failed, g⟩, d.j, d.k⟩

/-- `NodeGroup.IncreaseSize`. -/
def increaseSize (o : Oracle) (k : Nat) (cfg : AwsCfg) (g : PGroup) (delta : Int) : Eff IncRes :=
  if delta ≤ 0 then ⟨⟨.rejected, g⟩, [], k⟩
  else if g.asg.desired + delta > g.asg.max then ⟨⟨.rejected, g⟩, [], k⟩
  else if cfg.launchTemplateID ≠ "" then oneShot o k cfg g delta
  else
    let s := doPlain o k (.setDesired g.id (g.asg.desired + delta))
    ⟨⟨if s.val then .none else .failed, g⟩, s.j, s.k⟩

/-! ### GetInstance -/

/-- `strings.Split(providerID, "/")` has at least five parts. -/
def providerIdWellFormed (pid : String) : Bool := (pid.splitOn "/").length ≥ 5

/-- `providerIDToInstanceID` (fifth part). -/
def instanceIdOfProviderId (pid : String) : String := (pid.splitOn "/").getD 4 ""

end Esc
