/-
  Arithmetic of `pkg/controller/util.go`: percent usage and scale-up delta.

  The Go code computes in float64. The model is written once, over exact rationals, and is
  parameterised by a rounding function `rnd : Rat → Rat` applied after every float operation and
  every int→float conversion.  The driver instantiates `rnd` with `rne64` (IEEE-754 binary64
  round-to-nearest-even on the normal range); theorems quantify over `rnd`.
-/
namespace Esc

/-- `2^e` as a rational, for any integer exponent. -/
def pow2 (e : Int) : Rat :=
  if e ≥ 0 then ((2 ^ e.toNat : Nat) : Rat) else 1 / ((2 ^ (-e).toNat : Nat) : Rat)

/-- Round a non-negative rational to the nearest integer, ties to even. -/
def roundHalfEven (x : Rat) : Int :=
  let f := x.floor
  let r := x - (f : Rat)
  if r < 1/2 then f
  else if r > 1/2 then f + 1
  else if f % 2 = 0 then f else f + 1

/-- Exponent `e` such that `2^52 ≤ x / 2^e < 2^53`, for `x > 0`. -/
def expOf (x : Rat) : Int :=
  let e0 : Int := (Nat.log2 x.num.natAbs : Int) - (Nat.log2 x.den : Int) - 52
  let e1 := if x / pow2 e0 ≥ ((2 ^ 53 : Nat) : Rat) then e0 + 1 else e0
  let e2 := if x / pow2 e1 < ((2 ^ 52 : Nat) : Rat) then e1 - 1 else e1
  e2

/-- binary64 round-to-nearest-even (no subnormals, no overflow: callers stay far inside the
    normal range). -/
def rne64 (q : Rat) : Rat :=
  if q = 0 then 0
  else
    let a := if q < 0 then -q else q
    let e := expOf a
    let m := roundHalfEven (a / pow2 e)
    let r := (m : Rat) * pow2 e
    if q < 0 then -r else r

/-- Outcome of `calcPercentUsage`. -/
inductive Pct where
  | vals (cpu mem : Rat)
  | sentinel            -- both `math.MaxFloat64`: no untainted node, scale up from zero
  | err                 -- "cannot divide by zero in percent calculation"
deriving Repr, Inhabited, DecidableEq

/-- `float64(a) / float64(b) * 100`. -/
def pct1 (rnd : Rat → Rat) (a b : Int) : Rat :=
  rnd (rnd (rnd (a : Rat) / rnd (b : Rat)) * 100)

/-- `calcPercentUsage` on milli values. -/
def calcPercent (rnd : Rat → Rat) (cpuReq memReq cpuCap memCap n : Int) : Pct :=
  if cpuReq = 0 ∧ memReq = 0 ∧ cpuCap = 0 ∧ memCap = 0 ∧ n = 0 then .vals 0 0
  else if cpuCap = 0 ∨ memCap = 0 then (if n = 0 then .sentinel else .err)
  else .vals (pct1 rnd cpuReq cpuCap) (pct1 rnd memReq memCap)

/-- `math.Ceil(nodeCount * ((pct - T) / T))`. -/
def neededFromPct (rnd : Rat → Rat) (n : Int) (pct : Rat) (T : Int) : Int :=
  let t := rnd (T : Rat)
  (rnd (rnd (n : Rat) * rnd (rnd (pct - t) / t))).ceil

/-- `math.Ceil(float64(req) / float64(cached) / T * 100)`. -/
def neededFromZero (rnd : Rat → Rat) (req cached T : Int) : Int :=
  let t := rnd (T : Rat)
  (rnd (rnd (rnd (rnd (req : Rat) / rnd (cached : Rat)) / t) * 100)).ceil

/-- `calcScaleUpDelta`: the delta and whether the "negative scale up delta" error is returned. -/
structure Delta where
  delta : Int
  err : Bool
deriving Repr, Inhabited, DecidableEq

def calcScaleUpDelta (rnd : Rat → Rat) (n : Int) (p : Pct) (cpuReq memReq cachedCPU cachedMem T : Int) : Delta :=
  match p with
  | .err => ⟨0, true⟩           -- unreachable: the caller returns on `err` first
  | .sentinel =>
      if cachedCPU = 0 ∨ cachedMem = 0 then ⟨1, false⟩
      else
        let d := max (neededFromZero rnd cpuReq cachedCPU T) (neededFromZero rnd memReq cachedMem T)
        ⟨d, d < 0⟩
  | .vals c m =>
      let d := max (neededFromPct rnd n c T) (neededFromPct rnd n m T)
      ⟨d, d < 0⟩

/-- IEEE-754 bit pattern of a value that `rne64` produced (normal range only); used to compare
    with Go's `math.Float64bits`. -/
def bits64 (q : Rat) : Nat :=
  if q = 0 then 0
  else
    let a := if q < 0 then -q else q
    let e := expOf a
    let m := (a / pow2 e).floor.toNat      -- exact: `a` is representable
    -- m may be 2^53 only if `a` was not normalised; renormalise
    let m' := if m ≥ 2 ^ 53 then m / 2 else m
    let e' := if m ≥ 2 ^ 53 then e + 1 else e
    let biased := (e' + 52 + 1023).toNat
    (if q < 0 then 2 ^ 63 else 0) + biased * 2 ^ 52 + (m' - 2 ^ 52)

/-- The rational a binary64 bit pattern denotes (`none` for infinities and NaN). -/
def ofBits64 (b : Nat) : Option Rat :=
  let neg : Bool := b / 2 ^ 63 % 2 == 1
  let biased : Nat := b / 2 ^ 52 % 2 ^ 11
  let frac : Nat := b % 2 ^ 52
  if biased == 2047 then none
  else
    let v : Rat :=
      if biased == 0 then ((frac : Nat) : Rat) * pow2 (-1074)
      else (((frac + 2 ^ 52 : Nat)) : Rat) * pow2 (((biased : Nat) : Int) - 1075)
    some (if neg then -v else v)

end Esc
