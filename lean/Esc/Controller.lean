/-
  Model of `pkg/controller`: controller.go (filterNodes, scaleNodeGroup, RunOnce),
  scale_up.go, scale_down.go, scale_lock.go, sort.go.
  One definition per Go function on the decision path, statement order preserved.
-/
import Esc.Arith
import Esc.Aws
namespace Esc

/-! ### Classification (`filterNodes`) -/

inductive Class where
  | cordoned | force | tainted | untainted
deriving DecidableEq, Repr, Inhabited

def classify (dry : Bool) (st : GState) (n : Node) : Class :=
  if dry then
    if st.forceTaintTracker.contains n.name then .force
    else if st.taintTracker.contains n.name then .tainted
    else .untainted
  else if n.unschedulable then .cordoned
  else if hasTaint forceKey n then .force
  else if hasTaint escKey n then .tainted
  else .untainted

def nodesOf (dry : Bool) (st : GState) (c : Class) (nodes : List Node) : List Node :=
  nodes.filter (fun n => classify dry st n = c)

/-! ### Scale lock (`scale_lock.go`) -/

/-- `time.Since(lockTime) < minimumLockDuration`; a zero lock time is infinitely old. -/
def lockHeld (l : Lock) (coolNs nowReal : Int) : Bool :=
  match l.lockTime with
  | none => false
  | some t => nowReal - t < coolNs

/-- `unlock()`. -/
def unlock (l : Lock) : Lock := if l.isLocked then { l with isLocked := false, requested := 0 } else l

/-- `locked()`: the answer and the lock afterwards (it unlocks as a side effect). -/
def lockedNow (l : Lock) (coolNs nowReal : Int) : Bool := lockHeld l coolNs nowReal
def lockAfterCheck (l : Lock) (coolNs nowReal : Int) : Lock :=
  if lockHeld l coolNs nowReal then l else unlock l

/-- `lock(nodes)`. -/
def lockWith (nowReal : Int) (nodes : Int) : Lock := ⟨true, nodes, some nowReal⟩

/-! ### Ordering (`sort.go`) -/

def insertBy (le : Node → Node → Bool) (x : Node) : List Node → List Node
  | [] => [x]
  | y :: ys => if le x y then x :: y :: ys else y :: insertBy le x ys

def insertionSort (le : Node → Node → Bool) : List Node → List Node
  | [] => []
  | x :: xs => insertBy le x (insertionSort le xs)

def sortedBy (le : Node → Node → Bool) : List Node → Bool
  | [] => true
  | [_] => true
  | x :: y :: rest => le x y && sortedBy le (y :: rest)

/-- The order in which the code visits `xs`. `sort.Sort` is not stable, so the visiting order among
    nodes with equal creation time is an artefact of the library: the harness reports the order it
    observed as `hint`; it is used only if it is a permutation of `xs` that is sorted w.r.t. `le`
    (checked here, on every call); otherwise a reference sort is used. -/
def orderBy (le : Node → Node → Bool) (hint : List Nat) (xs : List Node) : List Node :=
  let ys := hint.filterMap (fun i => xs[i]?)
  if ys.isPerm xs && sortedBy le ys then ys else insertionSort le xs

def oldestFirst (a b : Node) : Bool := a.created ≤ b.created
def newestFirst (a b : Node) : Bool := b.created ≤ a.created

/-! ### Scale down (`scale_down.go`) -/

/-- `safeFromDeletion`. -/
def safeFromDeletion (n : Node) : Bool :=
  match n.annotations.lookup noDeleteKey with
  | some v => v != ""
  | none => false

/-- The grace test of `TryRemoveTaintedNodes` for one candidate. -/
def graceExpired (cfg : GroupCfg) (pods : List Pod) (nowMock : Int) (n : Node) : Bool :=
  match taintStamp? n with
  | none => false
  | some v =>
    let age := goAgeNs nowMock v
    age > cfg.softNs && (nodeEmpty pods n || age > cfg.hardNs)

/-- Nodes `TryRemoveTaintedNodes` hands to `TryDeleteNodes`. -/
def reaperCands (dry : Bool) (cfg : GroupCfg) (pods : List Pod) (nowMock : Int) (tainted : List Node) : List Node :=
  if dry then [] else tainted.filter (fun n => !safeFromDeletion n && graceExpired cfg pods nowMock n)

/-- Nodes `TryRemoveForceTaintedNodes` hands to `TryDeleteNodes`. -/
def forceCands (dry : Bool) (pods : List Pod) (force : List Node) : List Node :=
  if dry then [] else force.filter (fun n => nodeEmpty pods n)

inductive ActErr where
  | none | notInGroup | other | fatal
deriving DecidableEq, Repr, Inhabited

structure DelOut where
  err : ActErr
  g : PGroup
deriving Repr, Inhabited

/-- `TryDeleteNodes`. -/
def tryDelete (o : Oracle) (k : Nat) (g : PGroup) (cands : List Node) : Eff DelOut :=
  if cands.isEmpty then ⟨⟨.none, g⟩, [], k⟩
  else
    let a := awsDeleteNodes o k g cands
    match a.val.err with
    | .none =>
      let d := deleteNodesK8s o a.k cands
      ⟨⟨if d.val then .none else .other, a.val.g⟩, a.j ++ d.j, d.k⟩
    | .notInGroup => ⟨⟨.notInGroup, a.val.g⟩, a.j, a.k⟩
    | _ => ⟨⟨.other, a.val.g⟩, a.j, a.k⟩

structure LoopOut where
  count : Nat
  tracker : List String
deriving Repr, Inhabited

/-- The loop of `taintOldestN` over the already ordered candidates. -/
def taintLoop (o : Oracle) (dry : Bool) (nowSec : Int) (effect : String) :
    Nat → List Node → Nat → List String → Eff LoopOut
  | k, [], _, tr => ⟨⟨0, tr⟩, [], k⟩
  | k, c :: cs, need, tr =>
    if need = 0 then ⟨⟨0, tr⟩, [], k⟩
    else if dry then
      let r := taintLoop o dry nowSec effect k cs (need - 1) (tr ++ [c.name])
      ⟨⟨r.val.count + 1, r.val.tracker⟩, r.j, r.k⟩
    else
      let a := addTaint o k nowSec effect c
      let r := taintLoop o dry nowSec effect a.k cs (if a.val then need - 1 else need) tr
      ⟨⟨r.val.count + (if a.val then 1 else 0), r.val.tracker⟩, a.j ++ r.j, r.k⟩

structure TaintOut where
  count : Int
  err : Bool
  tracker : List String
deriving Repr, Inhabited

/-- "Clamp the scale down so it doesn't drop under the min nodes". -/
def clampRemove (untaintedLen minEff nodesToRemove : Int) : Int :=
  if untaintedLen - nodesToRemove < minEff then untaintedLen - minEff else nodesToRemove

/-- `scaleDownTaint`. -/
def scaleDownTaint (o : Oracle) (k : Nat) (dry : Bool) (cfg : GroupCfg) (st : GState) (nowSec : Int)
    (hintOld : List Nat) (untainted : List Node) (nodesToRemove : Int) : Eff TaintOut :=
  let n : Int := clampRemove untainted.length st.minEff nodesToRemove
  if n < 0 then ⟨⟨0, true, st.taintTracker⟩, [], k⟩
  else
    let r := taintLoop o dry nowSec cfg.taintEffect k (orderBy oldestFirst hintOld untainted) n.toNat st.taintTracker
    ⟨⟨r.val.count, false, r.val.tracker⟩, r.j, r.k⟩

/-! ### Scale up (`scale_up.go`) -/

def removeFirst (name : String) : List String → List String
  | [] => []
  | x :: xs => if x = name then xs else x :: removeFirst name xs

/-- The loop of `untaintNewestN` over the already ordered candidates. -/
def untaintLoop (o : Oracle) (dry : Bool) : Nat → List Node → Nat → List String → Eff LoopOut
  | k, [], _, tr => ⟨⟨0, tr⟩, [], k⟩
  | k, c :: cs, need, tr =>
    if need = 0 then ⟨⟨0, tr⟩, [], k⟩
    else if dry then
      if tr.contains c.name then
        let r := untaintLoop o dry k cs (need - 1) (removeFirst c.name tr)
        ⟨⟨r.val.count + 1, r.val.tracker⟩, r.j, r.k⟩
      else untaintLoop o dry k cs need tr
    else if hasTaint escKey c then
      let a := deleteTaint o k c
      let r := untaintLoop o dry a.k cs (if a.val then need - 1 else need) tr
      ⟨⟨r.val.count + (if a.val then 1 else 0), r.val.tracker⟩, a.j ++ r.j, r.k⟩
    else untaintLoop o dry k cs need tr

/-- `calculateNodesToAdd` against `min(max_nodes, cloud maximum)`. -/
def nodesToAdd (want target maxEff asgMax : Int) : Int :=
  let bound := if maxEff < asgMax then maxEff else asgMax
  if target + want > bound then bound - target else want

structure UpOut where
  result : Int         -- value returned by ScaleUp
  err : ActErr
  st : GState
  g : PGroup
deriving Repr, Inhabited

/-- `scaleUpUntaint`. -/
def scaleUpUntaint (o : Oracle) (k : Nat) (dry : Bool) (st : GState) (hintNew : List Nat) (tainted : List Node)
    (want : Int) : Eff LoopOut :=
  if tainted.isEmpty then ⟨⟨0, st.taintTracker⟩, [], k⟩
  else untaintLoop o dry k (orderBy newestFirst hintNew tainted) want.toNat st.taintTracker

/-- `ScaleUp` (untaint, then `scaleUpCloudProviderNodeGroup`, then arm the lock). -/
def scaleUp (o : Oracle) (k : Nat) (dry : Bool) (cfg : GroupCfg) (st : GState) (g : PGroup)
    (nowReal : Int) (hintNew : List Nat) (tainted : List Node) (want : Int) : Eff UpOut :=
  let u := scaleUpUntaint o k dry st hintNew tainted want
  let st1 := { st with taintTracker := u.val.tracker }
  let rest := want - u.val.count
  if rest > 0 then
    let add := nodesToAdd rest g.asg.desired st.maxEff g.asg.max
    if add ≤ 0 then ⟨⟨0, .other, st1, g⟩, u.j, u.k⟩
    else if dry then
      ⟨⟨u.val.count + add, .none, { st1 with lock := lockWith nowReal add }, g⟩, u.j, u.k⟩
    else
      let i := increaseSize o u.k cfg.aws g add
      match i.val.err with
      | .none => ⟨⟨u.val.count + add, .none, { st1 with lock := lockWith nowReal add }, i.val.g⟩, u.j ++ i.j, i.k⟩
      | .fatal => ⟨⟨0, .fatal, st1, i.val.g⟩, u.j ++ i.j, i.k⟩
      | _ => ⟨⟨0, .other, st1, i.val.g⟩, u.j ++ i.j, i.k⟩
  else ⟨⟨u.val.count, .none, st1, g⟩, u.j, u.k⟩

/-! ### Decision (`scaleNodeGroup`) -/

/-- `isScaleOnStarve`. -/
def isScaleOnStarve (cfg : GroupCfg) (st : GState) (pu : PodUsage) (nc : NodeCap) (untainted : Nat) : Bool :=
  cfg.scaleOnStarve &&
  ((!(pu.largestPendingCPU.cpu == 0 && pu.largestPendingCPU.mem == 0) && pu.largestPendingCPU.cpu > nc.largestAvailCPU.cpu) ||
   (!(pu.largestPendingMem.cpu == 0 && pu.largestPendingMem.mem == 0) && pu.largestPendingMem.mem > nc.largestAvailMem.mem)) &&
  ((untainted : Int) < st.maxEff)

/-- `scaleOnMaxNodeAge`. -/
def scaleOnMaxNodeAge (cfg : GroupCfg) (st : GState) (nowReal : Int) (untainted tainted : List Node) : Bool :=
  if cfg.maxAgeNs ≤ 0 then false
  else if (untainted.length : Int) ≠ st.minEff ∨ untainted.length = 0 ∨ tainted.length > 0 then false
  else untainted.any (fun n => nowReal - n.created * 1000000000 > cfg.maxAgeNs)

structure Decision where
  delta : Int
  negErr : Bool      -- calcScaleUpDelta returned "negative scale up delta"
deriving Repr, Inhabited, DecidableEq

/-- The `switch` on `maxPercent`. -/
def bandDelta (rnd : Rat → Rat) (cfg : GroupCfg) (st : GState) (p : Pct) (n : Nat) (cpuReq memReq : Int) : Decision :=
  match p with
  | .err => ⟨0, false⟩
  | .sentinel =>
      let d := calcScaleUpDelta rnd n p cpuReq memReq st.cachedCPU st.cachedMem cfg.scaleUp
      ⟨d.delta, d.err⟩
  | .vals c m =>
      let mx := max c m
      if mx < rnd (cfg.lower : Rat) then ⟨-cfg.fast, false⟩
      else if mx < rnd (cfg.upper : Rat) then ⟨-cfg.slow, false⟩
      else if mx > rnd (cfg.scaleUp : Rat) then
        let d := calcScaleUpDelta rnd n p cpuReq memReq st.cachedCPU st.cachedMem cfg.scaleUp
        ⟨d.delta, d.err⟩
      else ⟨0, false⟩

/-- `calculateNewNodeMetrics`: one DescribeInstances per node registered after the last scale out
    (these reads are keyed by instance id and do not consume a call index: Go iterates a map). -/
def newNodeMetrics (o : Oracle) (k : Nat) (st : GState) (nodes : List Node) : Journal :=
  if st.scaleDelta > 0 then
    (nodes.filter (fun n =>
        (match st.lastScaleOut with
         | none => n.created > -unixToInternal        -- zero `lastScaleOut` is year 1
         | some t => n.created * 1000000000 - t > 0) && providerIdWellFormed n.providerID)).map
      (fun n =>
        let c := Call.describeInstances (instanceIdOfProviderId n.providerID)
        ⟨c, o k c != .fail⟩)
  else []

/-- The two "set scale to a minimum of 1" triggers applied on top of the band decision. -/
def applyTriggers (cfg : GroupCfg) (st : GState) (pu : PodUsage) (nc : NodeCap) (nowReal : Int)
    (untainted tainted : List Node) (d : Int) : Int :=
  let d1 := if isScaleOnStarve cfg st pu nc untainted.length then max d 1 else d
  if scaleOnMaxNodeAge cfg st nowReal untainted tainted then max d1 1 else d1

inductive ScanErr where
  | none
  | belowMin | aboveMax      -- node count outside [min,max]
  | pctErr                   -- division by zero in percent calculation
  | negDelta                 -- negative scale up delta
  | action                   -- error of the below-minimum ScaleUp (returned, not fatal)
  | notInGroup               -- makes RunOnce return the error: the controller exits
  | fatalExit                -- log.Fatalf inside the provider
deriving DecidableEq, Repr, Inhabited

structure ScanOut where
  delta : Int
  err : ScanErr
  st : GState
  g : PGroup
  branch : String            -- which path was taken (coverage only)
deriving Repr, Inhabited

def actToScan : ActErr → ScanErr
  | .none => .none
  | .notInGroup => .notInGroup
  | .other => .action
  | .fatal => .fatalExit

structure Hints where
  old : List Nat
  new : List Nat
deriving Repr, Inhabited

/-- "store a cached version of node capacity": from the first listed node that is not cordoned. -/
def withCache (st0 : GState) (nodes : List Node) : GState :=
  match nodes.find? (fun n => !n.unschedulable) with
  | none => st0
  | some n => { st0 with cachedCPU := n.allocCPU, cachedMem := n.allocMem * 1000 }

/-- The acting half of `scaleNodeGroup`: force reaper, then scale down / scale up / reap, for the
    decided `delta`. `mj` is what `calculateNewNodeMetrics` journalled before. -/
def scanAct (o : Oracle) (k : Nat) (dry : Bool) (cfg : GroupCfg) (st : GState) (g : PGroup) (pods : List Pod)
    (h : Hints) (nowMock nowReal : Int) (untainted tainted force : List Node) (mj : Journal) (delta : Int) : Eff ScanOut :=
  -- force reaper: a not-in-group error ends the scan (and the controller); any other error is only logged
  let f := tryDelete o k g (forceCands dry pods force)
  if f.val.err = .notInGroup then
    ⟨⟨0, .notInGroup, st, f.val.g, "force-notingroup"⟩, mj ++ f.j, f.k⟩
  else if delta < 0 then
    let r := tryDelete o f.k f.val.g (reaperCands dry cfg pods nowMock tainted)
    if r.val.err = .notInGroup then
      ⟨⟨0, .notInGroup, st, r.val.g, "down-notingroup"⟩, mj ++ f.j ++ r.j, r.k⟩
    else
      let t := scaleDownTaint o r.k dry cfg st (nowReal / 1000000000) h.old untainted (-delta)
      ⟨⟨delta, .none, { st with taintTracker := t.val.tracker }, r.val.g, "down"⟩, mj ++ f.j ++ r.j ++ t.j, t.k⟩
  else if delta > 0 then
    let u := scaleUp o f.k dry cfg st f.val.g nowReal h.new tainted delta
    match u.val.err with
    | .fatal => ⟨⟨0, .fatalExit, { u.val.st with lastScaleOut := some nowReal }, u.val.g, "up-fatal"⟩, mj ++ f.j ++ u.j, u.k⟩
    | .notInGroup => ⟨⟨0, .notInGroup, { u.val.st with lastScaleOut := some nowReal }, u.val.g, "up-notingroup"⟩, mj ++ f.j ++ u.j, u.k⟩
    | _ => ⟨⟨delta, .none, { u.val.st with lastScaleOut := some nowReal }, u.val.g, "up"⟩, mj ++ f.j ++ u.j, u.k⟩
  else
    let r := tryDelete o f.k f.val.g (reaperCands dry cfg pods nowMock tainted)
    if r.val.err = .notInGroup then
      ⟨⟨0, .notInGroup, st, r.val.g, "reap-notingroup"⟩, mj ++ f.j ++ r.j, r.k⟩
    else ⟨⟨delta, .none, st, r.val.g, "reap"⟩, mj ++ f.j ++ r.j, r.k⟩

/-- The deciding half of `scaleNodeGroup`, once the group is known to be unlocked: new-node
    metrics, band decision, the two triggers, then `scanAct`. -/
def scanDecide (rnd : Rat → Rat) (o : Oracle) (k : Nat) (dry : Bool) (cfg : GroupCfg) (st : GState) (g : PGroup)
    (pods : List Pod) (nodes : List Node) (h : Hints) (nowMock nowReal : Int) (untainted tainted force : List Node)
    (pu : PodUsage) (nc : NodeCap) (p : Pct) : Eff ScanOut :=
  let mj := newNodeMetrics o k st nodes
  let d := bandDelta rnd cfg st p untainted.length pu.total.cpu (pu.total.mem * 1000)
  if d.negErr then ⟨⟨d.delta, .negDelta, st, g, "neg-delta"⟩, mj, k⟩
  else scanAct o k dry cfg st g pods h nowMock nowReal untainted tainted force mj
        (applyTriggers cfg st pu nc nowReal untainted tainted d.delta)

/-- `scaleNodeGroup`. `nowMock` is the stephanos clock (ns), `nowReal` the real clock (ns). -/
def scanGroup (rnd : Rat → Rat) (o : Oracle) (k : Nat) (globalDry : Bool) (cfg : GroupCfg)
    (st0 : GState) (g : PGroup) (view : View) (h : Hints) (nowMock nowReal : Int) : Eff ScanOut :=
  let dry := globalDry || cfg.dryMode
  let pods := view.pods
  let nodes := view.nodes
  let st := withCache st0 nodes
  let untainted := nodesOf dry st .untainted nodes
  let tainted := nodesOf dry st .tainted nodes
  let force := nodesOf dry st .force nodes
  if nodes.length = 0 ∧ pods.length = 0 then ⟨⟨0, .none, st, g, "empty"⟩, [], k⟩
  else if (nodes.length : Int) < st.minEff then ⟨⟨0, .belowMin, st, g, "below-min-count"⟩, [], k⟩
  else if (nodes.length : Int) > st.maxEff then ⟨⟨0, .aboveMax, st, g, "above-max-count"⟩, [], k⟩
  else
    let pu := podsUsage pods
    let nc := nodesCapacity untainted pods
    if (untainted.length : Int) < st.minEff then
      if lockedNow st.lock cfg.coolNs nowReal then
        ⟨⟨st.lock.requested, .none, st, g, "min-locked"⟩, [], k⟩
      else
        let u := scaleUp o k dry cfg { st with lock := lockAfterCheck st.lock cfg.coolNs nowReal } g nowReal h.new tainted
                  (st.minEff - untainted.length)
        ⟨⟨u.val.result, actToScan u.val.err, u.val.st, u.val.g, "min-scaleup"⟩, u.j, u.k⟩
    else
      let p := calcPercent rnd pu.total.cpu (pu.total.mem * 1000) nc.total.cpu (nc.total.mem * 1000) untainted.length
      if p = .err then ⟨⟨0, .pctErr, st, g, "pct-err"⟩, [], k⟩
      else if lockedNow st.lock cfg.coolNs nowReal then
        ⟨⟨st.lock.requested, .none, st, g, "locked"⟩, [], k⟩
      else
        scanDecide rnd o k dry cfg { st with lock := lockAfterCheck st.lock cfg.coolNs nowReal } g pods nodes h
          nowMock nowReal untainted tainted force pu nc p

end Esc
