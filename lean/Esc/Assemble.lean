/-
  Assembly of the program's configuration (`cmd/main.go`: `setupNodeGroups`, `setupCloudProvider`) — the glue between
  the decoded file and the controller/provider options.

  `setupNodeGroups` validates every entry and hands the decoded options on unchanged; `setupCloudProvider` makes one
  cloud configuration per entry, from that entry alone. Durations arrive as what `time.ParseDuration` makes of the option
  string (`timeoutNs`, 0 when it does not parse: parsing itself is library code, named in the trusted base); the default of
  one minute for an omitted fleet ready-timeout is part of the model (`FleetInstanceReadyTimeoutDuration`).
-/
namespace Esc

/-- What the assembly reads of one entry of the node-group file. -/
structure ACfg where
  name : String
  cloudGroup : String
  dry : Bool
  ltID : String
  ltVer : String
  timeoutStr : String
  timeoutNs : Int
  lifecycle : String
  overrides : List String
  tagging : Bool
deriving Repr, Inhabited, DecidableEq

/-- `cloudprovider.NodeGroupConfig` (with its `AWSNodeGroupConfig` flattened). -/
structure ACloud where
  name : String
  groupID : String
  ltID : String
  ltVer : String
  timeoutNs : Int
  lifecycle : String
  overrides : List String
  tagging : Bool
deriving Repr, Inhabited, DecidableEq

def oneMinuteNs : Int := 60000000000

/-- `AWSNodeGroupOptions.FleetInstanceReadyTimeoutDuration`, first call: one minute when the option is omitted, the
    parsed value otherwise (0 when it does not parse). -/
def readyTimeoutNs (c : ACfg) : Int := if c.timeoutStr = "" then oneMinuteNs else c.timeoutNs

/-- The body of the loop in `setupCloudProvider`. -/
def cloudOf (c : ACfg) : ACloud :=
  { name := c.name, groupID := c.cloudGroup, ltID := c.ltID, ltVer := c.ltVer, timeoutNs := readyTimeoutNs c,
    lifecycle := c.lifecycle, overrides := c.overrides, tagging := c.tagging }

structure Assembled where
  /-- `controller.Opts.DryMode` -/
  master : Bool
  /-- `controller.Opts.NodeGroups`: name and own dry-mode switch of each group, in file order -/
  groups : List (String × Bool)
  /-- `cloudprovider.BuildOpts.NodeGroupConfigs` -/
  cloud : List ACloud
deriving Repr, Inhabited, DecidableEq

def assemble (master : Bool) (cfgs : List ACfg) : Assembled :=
  { master := master, groups := cfgs.map (fun c => (c.name, c.dry)), cloud := cfgs.map cloudOf }

/-- The controller's dry-mode predicate for the i-th assembled group (`Controller.dryMode`: master flag or own switch). -/
def Assembled.dryOf (a : Assembled) (i : Nat) : Bool := a.master || ((a.groups[i]?).map (·.2)).getD false

end Esc
