/-
  Decidable property predicates.  Each `Cxx.holds` is a `Bool` function of what one group scan saw
  (configuration, pre-scan controller/provider state, view, clocks) and of a journal.  The same
  predicate is (a) what the property theorems state about the model's journal for every input, and
  (b) what the monitor evaluates on the journal observed from the real implementation.
-/
import Esc.Run
namespace Esc
namespace Spec

/-- Everything a group scan starts from. -/
structure Ctx where
  globalDry : Bool
  cfg : GroupCfg
  st : GState          -- after auto-discovery of min/max for this scan
  g : PGroup           -- provider's cached group after this scan's refresh
  view : View
  nowMock : Int
  nowReal : Int
deriving Repr, Inhabited

def Ctx.dry (c : Ctx) : Bool := c.globalDry || c.cfg.dryMode

/-- Is `e` a write (anything but GET / Describe*)? -/
def isWrite (e : Entry) : Bool :=
  match e.call with
  | .getNode _ | .describeAsgs _ | .describeStatus _ | .describeInstances _ | .build => false
  | _ => true

/-! ### C01 -/

/-- The property's removal condition, with the *true* age of the recorded taint time. -/
def eligible (c : Ctx) (n : Node) : Bool :=
  !n.unschedulable &&
  ((hasTaint forceKey n && nodeEmpty c.view.pods n) ||
   (match taintStamp? n with
    | none => false
    | some v =>
      let age := trueAgeNs c.nowMock v
      (age > c.cfg.softNs && nodeEmpty c.view.pods n) || age > c.cfg.hardNs))

/-- A removal call (terminate / delete) is backed by a node of the view satisfying `p`:
    for a delete, a node of that name; for a terminate, a node whose provider id is that of an
    instance of the cached cloud group with the terminated id. Other calls are vacuously backed. -/
def removalBackedBy (c : Ctx) (p : Node → Bool) (e : Entry) : Bool :=
  match e.call with
  | .deleteNode name => c.view.nodes.any (fun n => n.name == name && p n)
  | .terminateInAsg id _ =>
      c.view.nodes.any (fun n => p n && c.g.asg.instances.any (fun i => i.id == id && providerIdOf i == n.providerID))
  | _ => true

/-- A removal call is justified when some eligible node of the view backs it. -/
def C01.okEntry (c : Ctx) (e : Entry) : Bool := removalBackedBy c (eligible c) e

def C01.holds (c : Ctx) (j : Journal) : Bool := j.all (C01.okEntry c)

/-- Diagnostic for the monitor: the offending removal calls. -/
def describeRemoval (c : Ctx) (e : Entry) : String :=
  match e.call with
  | .deleteNode name => "delete " ++ name
  | .terminateInAsg id _ =>
      match c.view.nodes.find? (fun n => c.g.asg.instances.any (fun i => i.id == id && providerIdOf i == n.providerID)) with
      | some n => "terminate " ++ id ++ " node " ++ n.name
      | none => "terminate " ++ id ++ " node ?"
  | _ => "?"

def C01.bad (c : Ctx) (j : Journal) : List String := (j.filter (fun e => !C01.okEntry c e)).map (describeRemoval c)

/-! ### C03 -/

/-- An accepted UPDATE that puts the escalator taint on a node the view shows without it. -/
def isTaintAdd (view : View) (e : Entry) : Bool :=
  match e.call with
  | .updateNode obj =>
      e.ok && hasTaint escKey obj &&
      (match view.nodes.find? (fun n => n.name == obj.name) with
       | some n => !hasTaint escKey n
       | none => true)
  | _ => false

def isTaintRemove (view : View) (e : Entry) : Bool :=
  match e.call with
  | .updateNode obj =>
      !hasTaint escKey obj &&
      (match view.nodes.find? (fun n => n.name == obj.name) with
       | some n => hasTaint escKey n
       | none => false)
  | _ => false

def untaintedCount (c : Ctx) : Nat := (nodesOf c.dry c.st .untainted c.view.nodes).length

def C03.holds (c : Ctx) (j : Journal) : Bool :=
  let adds := (j.filter (isTaintAdd c.view)).length
  adds = 0 || ((untaintedCount c : Int) - adds ≥ c.st.minEff)

/-- C03 with a stale listing: a node the scan *sees* as untainted but whose fresh GET in this very scan shows it
    already tainted is not untainted afterwards either. Counting those together with the nodes the scan tainted,
    at least min_nodes of the untainted nodes seen must remain. `paired`: journal entries with their responses. -/
def C03.staleBad (c : Ctx) (paired : List (Entry × Resp)) : List String :=
  let unt := nodesOf c.dry c.st .untainted c.view.nodes
  let j := paired.map (·.1)
  let added := (j.filter (isTaintAdd c.view)).filterMap (fun e => match e.call with | .updateNode o => some o.name | _ => none)
  let already := paired.filterMap (fun (e, r) => match e.call, r with
    | .getNode _, .node n => if hasTaint escKey n && unt.any (fun u => u.name == n.name) then some n.name else none
    | _, _ => none)
  let gone := (added ++ already).eraseDups
  if c.dry || added.isEmpty || already.isEmpty then []
  else if (unt.length : Int) - gone.length ≥ c.st.minEff then []
  else ["of the " ++ toString unt.length ++ " untainted nodes seen, " ++ toString added ++ " were tainted and " ++ toString already.eraseDups ++
        " turned out to be tainted already: fewer than min_nodes=" ++ toString c.st.minEff ++ " remain"]

/-! ### C04 -/

def bound (c : Ctx) : Int := if c.st.maxEff < c.g.asg.max then c.st.maxEff else c.g.asg.max

/-- An accepted terminate-with-decrement lowers the cloud group's desired size by one. -/
def isOkDecTerminate (e : Entry) : Bool :=
  e.ok && (match e.call with | .terminateInAsg _ true => true | _ => false)

/-- Walk the journal keeping the cloud group's current desired size (`cur`): every resize request
    must land at or below `bnd`. -/
def C04.go (bnd : Int) : Int → Journal → Bool
  | _, [] => true
  | cur, e :: es =>
    (match e.call with
     | .setDesired _ v => decide (v ≤ bnd)
     | .createFleet r => decide (cur + r.total ≤ bnd)
     | _ => true) &&
    C04.go bnd (if isOkDecTerminate e then cur - 1 else cur) es

def C04.holds (c : Ctx) (j : Journal) : Bool := C04.go (bound c) c.g.asg.desired j

/-! ### C09 -/

def targetName (e : Entry) : Option String :=
  match e.call with
  | .getNode n => some n
  | .updateNode o => some o.name
  | .deleteNode n => some n
  | _ => none

/-- Every call aimed at a node is aimed at an uncordoned node of the view. -/
def C09.okEntry (c : Ctx) (e : Entry) : Bool :=
  (match targetName e with
   | some name => c.view.nodes.any (fun n => n.name == name && !n.unschedulable)
   | none => true) &&
  removalBackedBy c (fun n => !n.unschedulable) e

def C09.holds (c : Ctx) (j : Journal) : Bool := c.dry || j.all (C09.okEntry c)

/-! ### C10 -/

/-- Protected by the no-delete annotation (and not force-tainted). -/
def protectedNode (n : Node) : Bool := safeFromDeletion n && !hasTaint forceKey n

def C10.okEntry (c : Ctx) (e : Entry) : Bool := removalBackedBy c (fun n => !protectedNode n) e

def C10.holds (c : Ctx) (j : Journal) : Bool := j.all (C10.okEntry c)

/-! ### C11 -/

def C11.holds (c : Ctx) (j : Journal) : Bool :=
  !c.dry || j.all (fun e => !isWrite e)

end Spec
end Esc

namespace Esc
namespace Spec

/-! ### C19 — provider level -/

def termCall (g : PGroup) (n : Node) : Call := .terminateInAsg (instanceIdFor g n) true

/-- What one `DeleteNodes(nodes…)` request on the cached group `g` may do: `j` is its journal,
    `out` its result. -/
def C19.deleteHolds (g : PGroup) (nodes : List Node) (j : Journal) (out : DelErr) : Bool :=
  if g.asg.desired ≤ g.asg.min || g.asg.desired - nodes.length < g.asg.min then
    j.isEmpty && out == .refused
  else
    let m := j.length
    decide (m ≤ nodes.length) &&
    (j.map (·.call) == (nodes.take m).map (termCall g)) &&
    (nodes.take m).all (belongs g) &&
    j.dropLast.all (·.ok) &&
    (match out with
     | .none => m == nodes.length && j.all (·.ok)
     | .notInGroup => j.all (·.ok) && (match nodes[m]? with | some x => !belongs g x | none => false)
     | .failed => (match j.getLast? with | some e => !e.ok | none => false)
     | .refused => false)

def isTerminateEntry (e : Entry) : Bool := match e.call with | .terminateInAsg .. => true | _ => false
def isDeleteEntry (e : Entry) : Bool := match e.call with | .deleteNode _ => true | _ => false

/-- One `TryDeleteNodes(cands)` batch: cloud terminations first; Kubernetes deletions only after the
    cloud accepted the termination of the entire batch, in candidate order, stopping at the first
    failed delete. -/
def C19.batchHolds (g : PGroup) (cands : List Node) (j : Journal) : Bool :=
  let terms := j.takeWhile isTerminateEntry
  let dels := j.dropWhile isTerminateEntry
  dels.all isDeleteEntry &&
  (dels.isEmpty || (terms.length == cands.length && terms.all (·.ok) && !cands.isEmpty)) &&
  (dels.map (·.call) == (cands.take dels.length).map (fun n => Call.deleteNode n.name)) &&
  dels.dropLast.all (·.ok) &&
  (terms.map (·.call) == (cands.take terms.length).map (termCall g)) &&
  decide ((terms.length : Int) ≤ max 0 (g.asg.desired - g.asg.min))

end Spec
end Esc

namespace Esc
namespace Spec

/-! ### C17 / C18 — provider level -/

def attachIdsOf (e : Entry) : List String := match e.call with | .attach _ ids => ids | _ => []
def termIdsOf (e : Entry) : List String := match e.call with | .terminateInstances ids => ids | _ => []

/-- Instance ids the ASG accepted. -/
def attachedIds (j : Journal) : List String := (j.filter (·.ok)).flatMap attachIdsOf
/-- Instance ids submitted for termination (whether or not the call was accepted). -/
def terminatedIds (j : Journal) : List String := j.flatMap termIdsOf

/-- **C18**: after a fleet request returned `acquired`, every acquired instance is attached or
    submitted for termination, never both, never neither; termination calls carry at most
    `terminateBatchSize` ids; success means everything was attached and nothing terminated. -/
def C18.holds (acquired : List String) (j : Journal) (out : IncErr) : Bool :=
  (attachedIds j ++ terminatedIds j).isPerm acquired &&
  j.all (fun e => decide ((termIdsOf e).length ≤ Gen.terminateBatchSize)) &&
  (out != .none || (terminatedIds j).isEmpty)

/-- **C17 (attach partition)**: the AttachInstances calls carry consecutive batches of the acquired
    ids, in order, each id at most once, at most `batchSize` per call, only the last one shorter. -/
def isAttachEntry (e : Entry) : Bool := match e.call with | .attach .. => true | _ => false

def C17.attachHolds (gid : String) (acquired : List String) (j : Journal) : Bool :=
  let calls := j.filter isAttachEntry
  let idss := calls.map attachIdsOf
  calls.all (fun e => match e.call with | .attach g _ => g == gid | _ => false) &&
  idss.all (fun b => decide (b.length ≤ Gen.batchSize)) &&
  idss.dropLast.all (fun b => b.length == Gen.batchSize) &&
  (idss.flatten == acquired.take idss.flatten.length) &&
  calls.dropLast.all (·.ok)

/-- Overrides carry an instance type iff types are configured, and then one of the configured ones. -/
def C17.overridesOk (types : List String) (ovs : List Override) : Bool :=
  ovs.all (fun ov => if types.isEmpty then ov.instanceType.isNone
                      else match ov.instanceType with | some t => types.contains t | none => false)

/-- The fleet request `createFleetInput` must build for a scale-up by `d`. -/
def C17.fleetReqOk (cfg : AwsCfg) (d : Int) (r : FleetReq) : Bool :=
  r.total == d && r.minTarget == d && r.fleetType == "instant" &&
  r.templateID == cfg.launchTemplateID && r.templateVersion == cfg.launchTemplateVersion &&
  r.defaultType == (if cfg.lifecycle == "" then Gen.lifecycleOnDemand else cfg.lifecycle) &&
  r.onDemandOptions == (r.defaultType == Gen.lifecycleOnDemand) &&
  C17.overridesOk cfg.instanceTypeOverrides r.overrides &&
  r.tagged == cfg.resourceTagging

/-- One journal entry of a fleet-mode scale-up. -/
def C17.fleetEntryOk (cfg : AwsCfg) (gid : String) (d : Int) (e : Entry) : Bool :=
  match e.call with
  | .describeAsgs names => names == [gid]
  | .createFleet r => C17.fleetReqOk cfg d r
  | .describeStatus _ | .terminateInstances _ => true
  | .attach g _ => g == gid
  | _ => false

def isFleetReq (e : Entry) : Bool := match e.call with | .createFleet _ => true | _ => false

/-- **C17 (request)**: what `IncreaseSize(d)` on the cached group may do. -/
def C17.increaseHolds (cfg : AwsCfg) (g : PGroup) (d : Int) (j : Journal) (out : IncErr) : Bool :=
  if d ≤ 0 || g.asg.desired + d > g.asg.max then j.isEmpty && out == .rejected
  else if cfg.launchTemplateID == "" then
    (j.map (·.call) == [Call.setDesired g.id (g.asg.desired + d)]) &&
    ((out == .none) == j.all (·.ok)) && (out == .none || out == .failed)
  else
    -- fleet mode: never a SetDesiredCapacity; one describe first; at most one fleet request, for exactly d, all-or-nothing
    ((j.head?.map (·.call)) == some (Call.describeAsgs [g.id])) &&
    j.all (C17.fleetEntryOk cfg g.id d) &&
    decide ((j.filter isFleetReq).length ≤ 1) &&
    out != .rejected

end Spec
end Esc

namespace Esc
namespace Spec

/-! ### C19 — controller level (per group scan) -/

def isRemovalEntry (e : Entry) : Bool := isTerminateEntry e || isDeleteEntry e

/-- First batch of a removal journal, guided by the expected candidates `fc` of that batch: the leading
    terminates that follow `fc`'s expected calls (cut after the first failed one), then — only if the
    whole batch was accepted — the deletes that follow `fc`'s names. -/
def firstBatch (g : PGroup) (fc : List Node) (r : Journal) : Journal × Journal :=
  let rec matchTerms (cs : List Node) (es : List Entry) : List Entry :=
    match cs, es with
    | c :: cs', e :: es' =>
      if e.call == termCall g c then (if e.ok then e :: matchTerms cs' es' else [e]) else []
    | _, _ => []
  let rec matchDels (cs : List Node) (es : List Entry) : List Entry :=
    match cs, es with
    | c :: cs', e :: es' =>
      if e.call == Call.deleteNode c.name then (if e.ok then e :: matchDels cs' es' else [e]) else []
    | _, _ => []
  let t1 := matchTerms fc r
  let rest := r.drop t1.length
  let d1 := if t1.length == fc.length && t1.all (·.ok) then matchDels fc rest else []
  (t1 ++ d1, rest.drop d1.length)

def okDecs (j : Journal) : Nat := j.countP isOkDecTerminate

/-- Did this batch stop because the next candidate is not a member of the cloud group? -/
def stoppedAtNonMember (g : PGroup) (cands : List Node) (batch : Journal) (ran : Bool := false) : Bool :=
  let terms := batch.takeWhile isTerminateEntry
  -- evidence that the batch ran at all (a stop at position 0 leaves no trace in the journal): a terminate call,
  -- or — `ran` — something that only happens after the reaper (the taint-adds of the same ScaleDown)
  (!terms.isEmpty || ran) &&
  terms.all (·.ok) && (batch.dropWhile isTerminateEntry).isEmpty &&
  (match cands[terms.length]? with | some x => !belongs g x | none => false) &&
  decide (g.asg.desired > g.asg.min) && decide (g.asg.desired - cands.length ≥ g.asg.min)

/-- Failures of the C19 controller-level rules for one group scan; empty = holds.
    `fatalHere`: the run ended with the not-in-group error while processing this group. -/
def C19.scanBad (c : Ctx) (j : Journal) (fatalHere : Bool) : List String :=
  let r := j.filter isRemovalEntry
  let fc := forceCands c.dry c.view.pods (nodesOf c.dry c.st .force c.view.nodes)
  let rc := reaperCands c.dry c.cfg c.view.pods c.nowMock (nodesOf c.dry c.st .tainted c.view.nodes)
  let try2 (b1 b2 : Journal) : Bool :=
    let g2 : PGroup := { c.g with asg := { c.g.asg with desired := c.g.asg.desired - okDecs b1 } }
    C19.batchHolds c.g fc b1 && C19.batchHolds g2 rc b2
  let (p1, p2) := firstBatch c.g fc r
  let decr := r.all (fun e => match e.call with | .terminateInAsg _ d => d | _ => true)
  let (b1, b2) := if try2 [] r then (([] : Journal), r) else (p1, p2)
  let g2 : PGroup := { c.g with asg := { c.g.asg with desired := c.g.asg.desired - okDecs b1 } }
  (if try2 b1 b2 then [] else ["order"]) ++
  (if decr then [] else ["decrement"]) ++
  (if stoppedAtNonMember c.g fc b1 && !fatalHere then ["notingroup-force"] else []) ++
  (if stoppedAtNonMember g2 rc b2 (j.any (isTaintAdd c.view)) && !fatalHere then ["notingroup-reap"] else [])

/-- The only documented way a scan stops the controller is a removal candidate that is not a member of its cloud group.
    `true` when a scan that ended so has no such candidate (every force / grace candidate of this view is a member). -/
def notInGroupUnfounded (c : Ctx) : Bool :=
  let fc := forceCands c.dry c.view.pods (nodesOf c.dry c.st .force c.view.nodes)
  let rc := reaperCands c.dry c.cfg c.view.pods c.nowMock (nodesOf c.dry c.st .tainted c.view.nodes)
  (fc ++ rc).all (fun x => belongs c.g x)

end Spec
end Esc

namespace Esc
namespace Spec

/-! ### C15 -/

/-- An UPDATE is precise w.r.t. the object `u` the preceding GET returned: every field other than the
    taint list is that of `u`, and the taint list is — up to order, which the property does not fix —
    that of `u` plus exactly the escalator taint stamped `nowSec` (or `nowSec + 1`: the write may
    straddle a second) on an object that had none, or that of `u` minus exactly one of its escalator
    taints. -/
def C15.preciseUpdate (nowSec : Int) (effect : String) (u obj : Node) : Bool :=
  ({ obj with taints := u.taints } == u) &&
  ((!hasTaint escKey u &&
    (obj.taints.isPerm (u.taints ++ [newEscTaint nowSec effect]) ||
     obj.taints.isPerm (u.taints ++ [newEscTaint (nowSec + 1) effect]))) ||
   (hasTaint escKey u && u.taints.any (fun t => t.key == escKey && obj.taints.isPerm (u.taints.erase t))))

/-- Order of the taints inside UPDATE objects is not part of any property: comparisons of journals
    go through this normal form. -/
def sortTaints (ts : List Taint) : List Taint :=
  ts.mergeSort (fun a b => decide ((a.key ++ "\x00" ++ a.value ++ "\x00" ++ a.effect) ≤ (b.key ++ "\x00" ++ b.value ++ "\x00" ++ b.effect)))

def canonTaints (j : Journal) : Journal :=
  j.map (fun e => match e.call with
    | .updateNode obj => { e with call := .updateNode { obj with taints := sortTaints obj.taints } }
    | _ => e)

/-- Walk a journal paired with the recorded responses: every UPDATE must directly follow a successful
    GET of the same node and be precise w.r.t. the object that GET returned. Returns offending names. -/
def C15.bad (nowSec : Int) (effect : String) : Option Node → List (Entry × Resp) → List String
  | _, [] => []
  | last, (e, r) :: rest =>
    match e.call with
    | .getNode _ => C15.bad nowSec effect (match r with | .node n => some n | _ => none) rest
    | .updateNode obj =>
      (match last with
       | some u => if u.name == obj.name && C15.preciseUpdate nowSec effect u obj then [] else [obj.name]
       | none => [obj.name]) ++ C15.bad nowSec effect none rest
    | .describeInstances _ => C15.bad nowSec effect last rest
    | _ => C15.bad nowSec effect none rest

end Spec
end Esc

namespace Esc
namespace Spec

/-! ### C08 -/

/-- Names GET was called for, in order. -/
def getNames (j : Journal) : List String := j.filterMap (fun e => match e.call with | .getNode n => some n | _ => none)

/-- Names of nodes whose UPDATE was accepted, in order. -/
def okUpdateNames (j : Journal) : List String :=
  j.filterMap (fun e => match e.call with | .updateNode o => if e.ok then some o.name else none | _ => none)

/-- Names of the nodes this journal put the escalator taint on (accepted UPDATEs that add it). -/
def taintedNames (view : View) (j : Journal) : List String :=
  (j.filter (isTaintAdd view)).filterMap (fun e => match e.call with | .updateNode o => some o.name | _ => none)

/-- **C08**: no untainted node that was not even attempted is strictly older than a node that was
    tainted. -/
def C08.holds (c : Ctx) (j : Journal) : Bool :=
  let unt := nodesOf c.dry c.st .untainted c.view.nodes
  let attempted := getNames j
  let tainted := taintedNames c.view j
  unt.all (fun x => attempted.contains x.name ||
    unt.all (fun y => !tainted.contains y.name || !decide (x.created < y.created)))

/-- The exemption of the property is for nodes "whose taint write was attempted and failed". A node that was fetched
    successfully, whose fetched copy carries no escalator taint, and for which no UPDATE was issued at all has had no
    write attempted and nothing fail: it must not be older than a node tainted in the same scan. -/
def C08.skippedBad (c : Ctx) (paired : List (Entry × Resp)) : List String :=
  let unt := nodesOf c.dry c.st .untainted c.view.nodes
  let j := paired.map (·.1)
  let tainted := taintedNames c.view j
  let updated := j.filterMap (fun e => match e.call with | .updateNode o => some o.name | _ => none)
  let fetchedClean := paired.filterMap (fun (e, r) => match e.call, r with
    | .getNode _, .node n => if e.ok && !hasTaint escKey n then some n.name else none
    | _, _ => none)
  if c.dry then [] else
  (unt.filter (fun x => fetchedClean.contains x.name && !updated.contains x.name &&
      unt.any (fun y => tainted.contains y.name && decide (x.created < y.created)))).map (fun x =>
    "node " ++ x.name ++ " was fetched, carries no escalator taint, no write was attempted for it, and it stays untainted although strictly older than a node tainted in this scan " ++ toString tainted)

end Spec
end Esc

namespace Esc
namespace Spec

/-! ### C12 -/

/-- Every call made while processing a group is aimed at one of its own nodes (as listed for it in
    this scan), at an instance of its own cloud group, or at that cloud group. -/
def C12.okEntry (c : Ctx) (e : Entry) : Bool :=
  match e.call with
  | .getNode n | .deleteNode n => c.view.nodes.any (fun x => x.name == n)
  | .updateNode o => c.view.nodes.any (fun x => x.name == o.name)
  | .terminateInAsg id _ => c.g.asg.instances.any (fun i => i.id == id)
  | .setDesired gid _ | .attach gid _ | .createTags gid => gid == c.g.id
  | .describeAsgs names => names == [c.g.id]
  | .describeInstances id => c.view.nodes.any (fun x => instanceIdOfProviderId x.providerID == id)
  | .createFleet _ | .describeStatus _ | .terminateInstances _ => true
  | .build => false

def C12.holds (c : Ctx) (j : Journal) : Bool := j.all (C12.okEntry c)

end Spec
end Esc

namespace Esc
namespace Spec

/-! ### C07 -/

def isResizeRequest (e : Entry) : Bool := match e.call with | .setDesired .. | .createFleet _ => true | _ => false

/-- Newest first: no tainted node left un-attempted is strictly newer than an attempted tainted one. -/
def C07.orderHolds (c : Ctx) (j : Journal) : Bool :=
  let tainted := nodesOf c.dry c.st .tainted c.view.nodes
  let attempted := getNames j
  tainted.all (fun x => attempted.contains x.name ||
    tainted.all (fun y => !attempted.contains y.name || !decide (y.created < x.created)))

/-- No cloud increase while a tainted node was not even attempted. -/
def C07.reuseHolds (c : Ctx) (j : Journal) : Bool :=
  let tainted := nodesOf c.dry c.st .tainted c.view.nodes
  !(j.any isResizeRequest) || tainted.all (fun x => (getNames j).contains x.name)

/-- C10, "can be tainted ... like any other node": when a scan taints, a protected untainted node is taken in its turn
    (oldest first) like an unprotected one: it is not passed over (no GET for it) while a strictly younger node is
    tainted. -/
def C10.taintBad (c : Ctx) (j : Journal) : List String :=
  let unt := nodesOf c.dry c.st .untainted c.view.nodes
  let attempted := getNames j
  let tainted := taintedNames c.view j
  if c.dry then [] else
  (unt.filter (fun x => protectedNode x && !attempted.contains x.name &&
      unt.any (fun y => tainted.contains y.name && decide (x.created < y.created)))).map (fun x =>
    "protected untainted node " ++ x.name ++ " was passed over by the taint loop although strictly older than the nodes it tainted " ++ toString tainted)

/-- C10, "can be ... untainted like any other node": a tainted node protected by the no-delete annotation is handed
    back before the cloud is asked for more, and in its turn (newest first), exactly like an unprotected one. -/
def C10.untaintBad (c : Ctx) (j : Journal) : List String :=
  let tainted := nodesOf c.dry c.st .tainted c.view.nodes
  let attempted := getNames j
  if c.dry then [] else
  (tainted.filter (fun x => protectedNode x && !attempted.contains x.name &&
      (j.any isResizeRequest || tainted.any (fun y => attempted.contains y.name && decide (y.created < x.created))))).map (fun x =>
    "protected tainted node " ++ x.name ++ " was passed over when capacity was needed (fetched: " ++ toString attempted ++
    (if j.any isResizeRequest then ", and the cloud was asked for more" else "") ++ ")")

/-- Amounts: walking the journal with the cloud group's current desired size and the number of
    accepted untaints so far, every increase asks for at least 1 and at most `want − untaints`, on top
    of the current desired size. -/
def C07.amountGo (view : View) (want : Int) : Int → Nat → Journal → Bool
  | _, _, [] => true
  | cur, u, e :: es =>
    (match e.call with
     | .setDesired _ v => decide (1 ≤ v - cur) && decide (v - cur ≤ want - u)
     | .createFleet r => decide (1 ≤ r.total) && decide (r.total ≤ want - u)
     | _ => true) &&
    C07.amountGo view want (if isOkDecTerminate e then cur - 1 else cur) (if isTaintRemove view e && e.ok then u + 1 else u) es

def C07.amountHolds (c : Ctx) (want : Int) (j : Journal) : Bool := C07.amountGo c.view want c.g.asg.desired 0 j

/-- Accepted `SetDesiredCapacity` requests that *lower* the desired size the cloud holds at that moment (its own
    description at scan start, minus the terminations-with-decrement it accepted since): `(current, requested)`.
    Escalator never shrinks a group this way — it names the instances it removes — because a lowered desired size makes
    the cloud terminate instances of its own choosing. -/
def loweringRequests (c : Ctx) (j : Journal) : List (Int × Int) :=
  let rec go (cur : Int) : Journal → List (Int × Int)
    | [] => []
    | e :: es =>
      (match e.call with
       | .setDesired _ v => if e.ok && v < cur then [(cur, v)] else []
       | _ => []) ++ go (if isOkDecTerminate e then cur - 1 else (match e.call with | .setDesired _ v => if e.ok then v else cur | _ => cur)) es
  go c.g.asg.desired j

/-- The other direction: a scan that decided it needs `want ≥ 1` more nodes (group unlocked, node count within bounds)
    brings exactly that many into service unless the bound or a refused/failed cloud request stops it: after `u`
    accepted untaints it must ask the cloud for `min(want − u, bound − current desired)` when that is positive. -/
def C07.shortfall (c : Ctx) (want : Int) (j : Journal) (stillTainted : List String := []) (dupTainted : List String := []) : List String :=
  let n : Int := c.view.nodes.length
  if c.dry || want < 1 || lockHeld c.st.lock c.cfg.coolNs c.nowReal || n < c.st.minEff || n > c.st.maxEff then []
  else
    -- nodes the code may count as untainted: tainted in the view, fetched successfully, and no UPDATE of theirs failed
    -- (a node found already untainted needs no UPDATE; one with two escalator taints keeps one after the UPDATE)
    let taintedNames := (nodesOf c.dry c.st .tainted c.view.nodes).map (·.name)
    let fetched := (j.filterMap (fun e => match e.call with | .getNode x => if e.ok && taintedNames.contains x then some x else none | _ => none)).eraseDups
    let failedUpd := j.filterMap (fun e => match e.call with | .updateNode o => if e.ok then none else some o.name | _ => none)
    -- ... and a node whose fetched copy still carried the taint counts only if an UPDATE of it was accepted
    -- … and only if what was written no longer carries it (a node fetched with two escalator taints keeps one: `dupTainted`)
    let okUpd := j.filterMap (fun e => match e.call with
      | .updateNode o => if e.ok && (!hasTaint escKey o || dupTainted.contains o.name) then some o.name else none
      | _ => none)
    let u : Int := (fetched.filter (fun x => !failedUpd.contains x && (!stillTainted.contains x || okUpd.contains x))).length
    let cur : Int := c.g.asg.desired - okDecs j
    let bnd : Int := if c.st.maxEff < c.g.asg.max then c.st.maxEff else c.g.asg.max
    let expect : Int := min (want - u) (bnd - cur)
    let asked : List Int := j.filterMap (fun e => match e.call with
      | .setDesired _ v => some (v - cur)
      | .createFleet r => some r.total
      | _ => none)
    -- launch-template mode reads the group's subnets (DescribeAutoScalingGroups) before it can build the fleet request:
    -- if that read is refused, the scan did try to ask and could not
    let prepFailed := j.any (fun e => !e.ok && (match e.call with | .describeAsgs _ => true | _ => false))
    if expect ≤ 0 || prepFailed then []
    else match asked with
      | [] => ["needed " ++ toString want ++ ", untainted " ++ toString u ++ ", but asked the cloud for nothing (room for " ++ toString (bnd - cur) ++ ")"]
      | a :: _ => if a < expect then ["needed " ++ toString want ++ ", untainted " ++ toString u ++ ", asked the cloud for only " ++ toString a] else []

end Spec
end Esc

namespace Esc
namespace Spec

/-! ### C06 — band oracle on exact rationals -/

/-- Exact utilisation `max(100·Rcpu/Ccpu, 100·Rmem/Cmem)` of the view (none if a capacity is zero). -/
def exactUtil (c : Ctx) : Option Rat :=
  let unt := nodesOf c.dry c.st .untainted c.view.nodes
  let pu := podsUsage c.view.pods
  let nc := nodesCapacity unt c.view.pods
  if nc.total.cpu ≤ 0 ∨ nc.total.mem ≤ 0 then none
  else some (max ((100 * pu.total.cpu : Int) / (nc.total.cpu : Rat)) ((100 * pu.total.mem : Int) / (nc.total.mem : Rat)))

/-- Is `u` clearly (by a relative margin of 2⁻⁴⁰) below / above the integer threshold `t`? -/
def clearlyBelow (u : Rat) (t : Int) : Bool := u * (1 + 1 / (2 ^ 40 : Nat)) < (t : Rat)
def clearlyAbove (u : Rat) (t : Int) : Bool := (t : Rat) * (1 + 1 / (2 ^ 40 : Nat)) < u

/-- Failures of the band rules for one observed group scan (empty = fine). Only judged when the group
    is outside dry mode, unlocked, within its node-count bounds, at or above its minimum of untainted
    nodes, and neither trigger is configured. -/
def C06.bad (c : Ctx) (j : Journal) : List String :=
  let unt := nodesOf c.dry c.st .untainted c.view.nodes
  let n : Int := c.view.nodes.length
  if c.dry || lockHeld c.st.lock c.cfg.coolNs c.nowReal || n < c.st.minEff || n > c.st.maxEff ||
     (unt.length : Int) < c.st.minEff || c.cfg.scaleOnStarve || c.cfg.maxAgeNs > 0 then []
  else
    match exactUtil c with
    | none => []
    | some u =>
      let adds := (j.filter (isTaintAdd c.view)).length
      let untaints := (j.filter (fun e => isTaintRemove c.view e && e.ok)).length
      let resizes := (j.filter isResizeRequest).length
      let failedTaintWrites := (j.filter (fun e => !e.ok && (match e.call with | .getNode _ | .updateNode _ => true | _ => false))).length
      let gets := (getNames j).length
      let room : Int := (unt.length : Int) - c.st.minEff
      let expect (rate : Int) : List String :=
        let want : Int := max 0 (min rate room)
        (if untaints != 0 || resizes != 0 then ["scale-up-actions-in-taint-band"] else []) ++
        (if (adds : Int) > want then ["tainted-too-many"] else []) ++
        -- with no failed write and a fresh cache (one UPDATE per GET) the count is exact
        (if failedTaintWrites == 0 && gets == adds && (adds : Int) != want && rate ≥ 0 then ["tainted-too-few"] else [])
      if clearlyBelow u c.cfg.lower then expect c.cfg.fast
      else if clearlyAbove u c.cfg.lower && clearlyBelow u c.cfg.upper then expect c.cfg.slow
      else if clearlyAbove u c.cfg.upper && clearlyBelow u c.cfg.scaleUp then
        (if adds != 0 || untaints != 0 || resizes != 0 then ["action-in-idle-band"] else [])
      else if clearlyAbove u c.cfg.scaleUp then
        (if adds != 0 then ["taint-above-scale-up-threshold"] else [])
      else []

/-- "Exactly min(rate, untainted − min_nodes)" when writes fail or the cache is stale: the taint loop goes on to the
    next-oldest node after a node it could not taint, so a scan that ends with fewer than the required number of nodes
    tainted (counting nodes found tainted already when fetched) must have tried *every* untainted node it saw. -/
def C06.tooFewBad (c : Ctx) (paired : List (Entry × Resp)) : List String :=
  let unt := nodesOf c.dry c.st .untainted c.view.nodes
  let n : Int := c.view.nodes.length
  let j := paired.map (·.1)
  if c.dry || lockHeld c.st.lock c.cfg.coolNs c.nowReal || n < c.st.minEff || n > c.st.maxEff ||
     (unt.length : Int) < c.st.minEff || c.cfg.scaleOnStarve || c.cfg.maxAgeNs > 0 then []
  else
    match exactUtil c with
    | none => []
    | some u =>
      let rate? : Option Int :=
        if clearlyBelow u c.cfg.lower then some c.cfg.fast
        else if clearlyAbove u c.cfg.lower && clearlyBelow u c.cfg.upper then some c.cfg.slow
        else none
      match rate? with
      | none => []
      | some rate =>
        let want : Int := max 0 (min rate ((unt.length : Int) - c.st.minEff))
        let adds : Int := (j.filter (isTaintAdd c.view)).length
        let already : Int := (paired.filter (fun (e, r) => match e.call, r with
          | .getNode _, .node nd => e.ok && hasTaint escKey nd && unt.any (fun x => x.name == nd.name)
          | _, _ => false)).length
        let attempted := getNames j
        let untried := unt.filter (fun x => !attempted.contains x.name)
        if adds + already < want && !untried.isEmpty then
          ["tainted " ++ toString adds ++ " (+" ++ toString already ++ " found tainted already) of the " ++ toString want ++
           " nodes the band requires, and never tried " ++ toString (untried.map (·.name))]
        else []

/-- "Above the scale-up threshold it only adds capacity": no removal call for an ordinarily tainted node of this view
    (the force-removal reaper runs in every scan and is not meant). -/
def C06.upRemovalBad (c : Ctx) (j : Journal) : List String :=
  let unt := nodesOf c.dry c.st .untainted c.view.nodes
  let tainted := nodesOf c.dry c.st .tainted c.view.nodes
  let n : Int := c.view.nodes.length
  if c.dry || lockHeld c.st.lock c.cfg.coolNs c.nowReal || n < c.st.minEff || n > c.st.maxEff ||
     (unt.length : Int) < c.st.minEff then []
  else
    match exactUtil c with
    | none => []
    | some u =>
      if clearlyAbove u c.cfg.scaleUp then
        let gone := j.filterMap (fun e => match e.call with
          | .deleteNode nm => if tainted.any (fun x => x.name == nm) then some nm else none
          | .terminateInAsg id _ => (tainted.find? (fun x => instanceIdOfProviderId x.providerID == id)).map (·.name)
          | _ => none)
        if gone.isEmpty then [] else ["removal of tainted nodes " ++ toString gone.eraseDups ++ " in a scan above the scale-up threshold"]
      else []

/-- C10, "does not hold back the removal of other eligible nodes": in a scan whose reaper runs (unlocked, within bounds,
    at or above the minimum, utilisation clearly not above the scale-up threshold, decision ≤ 0), with a protected tainted
    node in view, no force candidates, every grace candidate a member, room above the cloud minimum for all of them and
    no refused cloud call, every grace candidate's instance must have been sent for termination. -/
def C10.holdbackBad (c : Ctx) (obsDelta : Int) (j : Journal) : List String :=
  let unt := nodesOf c.dry c.st .untainted c.view.nodes
  let tainted := nodesOf c.dry c.st .tainted c.view.nodes
  let n : Int := c.view.nodes.length
  let fc := forceCands c.dry c.view.pods (nodesOf c.dry c.st .force c.view.nodes)
  let rc := reaperCands c.dry c.cfg c.view.pods c.nowMock tainted
  if c.dry || lockHeld c.st.lock c.cfg.coolNs c.nowReal || n < c.st.minEff || n > c.st.maxEff ||
     (unt.length : Int) < c.st.minEff || obsDelta > 0 || !fc.isEmpty || rc.isEmpty ||
     !tainted.any protectedNode || !rc.all (fun x => belongs c.g x) ||
     c.g.asg.desired - rc.length < c.g.asg.min ||
     j.any (fun e => !e.ok && (match e.call with | .terminateInAsg .. => true | _ => false)) then []
  else
    match exactUtil c with
    | none => []
    | some u =>
      if !clearlyBelow u c.cfg.scaleUp then [] else
      let sent := j.filterMap (fun e => match e.call with | .terminateInAsg id _ => some id | _ => none)
      let left := rc.filter (fun x => !sent.contains (instanceIdFor c.g x))
      if left.isEmpty then [] else
        ["nodes " ++ toString (left.map (·.name)) ++ " are past their grace period and removable, but were not sent for termination in a scan that has the protected node(s) " ++
         toString ((tainted.filter protectedNode).map (·.name)) ++ " in view"]

/-- scale_on_starve as documented ("a pod that cannot currently be scheduled due to no node having
    capacity to run it"): some pending pod asks, in CPU or in memory, for more than nothing and for
    more than any untainted node has left. -/
def starvedPod (pods : List Pod) (unt : List Node) (p : Pod) : Bool :=
  let r := podRequest p
  (r.cpu > 0 && unt.all (fun n => r.cpu > (nodeAvail pods n).cpu)) ||
  (r.mem > 0 && unt.all (fun n => r.mem > (nodeAvail pods n).mem))

def starved (pods : List Pod) (unt : List Node) : Bool :=
  (pods.filter (fun p => p.phase == "Pending")).any (starvedPod pods unt)

/-- The decision itself (the delta the scan settles on), in every mode including dry mode, against the
    exact utilisation over the untainted uncordoned nodes: −fast / −slow / 0 / positive by band. Judged when
    the group is unlocked, within its node-count bounds, at or above its minimum and neither documented trigger can fire. -/
def decisionBad (c : Ctx) (obsDelta : Int) : List String :=
  let unt := nodesOf c.dry c.st .untainted c.view.nodes
  let tainted := nodesOf c.dry c.st .tainted c.view.nodes
  let n : Int := c.view.nodes.length
  -- the two documented triggers may raise the decision to 1: the band rule is judged only where neither can fire. The starve
  -- trigger fires exactly under the documented condition (`C06_starve_iff`); the age trigger reads the real clock a little after
  -- the harness did, so a node within two seconds of max_node_age counts as "may fire"
  let starveMay := c.cfg.scaleOnStarve && decide ((unt.length : Int) < c.st.maxEff) && starved c.view.pods unt
  let ageMay := decide (c.cfg.maxAgeNs > 0) && decide ((unt.length : Int) = c.st.minEff) && unt.length != 0 && tainted.length == 0 &&
    unt.any (fun nd => c.nowReal - nd.created * 1000000000 > c.cfg.maxAgeNs - 2000000000)
  if lockHeld c.st.lock c.cfg.coolNs c.nowReal || n < c.st.minEff || n > c.st.maxEff ||
     (unt.length : Int) < c.st.minEff || starveMay || ageMay then []
  else
    match exactUtil c with
    | none => []
    | some u =>
      let want (d : Int) (band : String) : List String :=
        if obsDelta == d then [] else ["decision-" ++ toString obsDelta ++ "-in-" ++ band ++ "-band-wants-" ++ toString d]
      if clearlyBelow u c.cfg.lower then want (-c.cfg.fast) "fast-taint"
      else if clearlyAbove u c.cfg.lower && clearlyBelow u c.cfg.upper then want (-c.cfg.slow) "slow-taint"
      else if clearlyAbove u c.cfg.upper && clearlyBelow u c.cfg.scaleUp then want 0 "idle"
      else if clearlyAbove u c.cfg.scaleUp then (if obsDelta ≥ 1 then [] else ["decision-" ++ toString obsDelta ++ "-above-scale-up-threshold"])
      else []

/-- The max_node_age exception as documented ("when at the minimum node group size, Escalator will
    trigger a scale up by a minimum of 1 if there are any nodes exceeding this max node age"; the code adds:
    and nothing is tainted yet): under that condition the scan must not taint and must decide ≥ 1.
    A node counts as exceeding the age only when it does so by more than a second (the code reads the
    real clock a little later than the harness). -/
def C06.badMaxAge (c : Ctx) (obsDelta : Int) (j : Journal) : List String :=
  let unt := nodesOf c.dry c.st .untainted c.view.nodes
  let tainted := nodesOf c.dry c.st .tainted c.view.nodes
  let n : Int := c.view.nodes.length
  if c.dry || lockHeld c.st.lock c.cfg.coolNs c.nowReal || n < c.st.minEff || n > c.st.maxEff ||
     c.cfg.maxAgeNs ≤ 0 || (unt.length : Int) != c.st.minEff || unt.length == 0 || tainted.length > 0 ||
     (exactUtil c).isNone ||
     !unt.any (fun nd => c.nowReal - nd.created * 1000000000 > c.cfg.maxAgeNs + 1000000000) then []
  else
    let adds := (j.filter (isTaintAdd c.view)).length
    (if adds != 0 then ["taint-while-rotation-is-due"] else []) ++
    (if obsDelta < 1 then ["old-node-at-minimum-but-decision-" ++ toString obsDelta] else [])

/-- Scale-up size at scan level (equal-size untainted nodes, utilisation clearly above the threshold,
    same judging conditions as the bands): the decision must lie in [need, need+1] with
    `need = max_r ⌈n·(100·R_r/C_r − T)/T⌉` on exact rationals — whatever triggers fired (they only raise a
    decision that is below 1, and `need ≥ 1` here). -/
def C05.badScaleUp (c : Ctx) (obsDelta : Int) : List String :=
  let unt := nodesOf c.dry c.st .untainted c.view.nodes
  let n : Int := c.view.nodes.length
  if c.dry || lockHeld c.st.lock c.cfg.coolNs c.nowReal || n < c.st.minEff || n > c.st.maxEff ||
     (unt.length : Int) < c.st.minEff || unt.length == 0 || c.cfg.scaleUp ≤ 0 then []
  else
    match unt with
    | [] => []
    | u0 :: rest =>
      if !rest.all (fun x => x.allocCPU == u0.allocCPU && x.allocMem == u0.allocMem) then [] else
      match exactUtil c with
      | none => []
      | some u =>
        if !clearlyAbove u c.cfg.scaleUp then [] else
        let pu := podsUsage c.view.pods
        let k : Int := unt.length
        let T : Int := c.cfg.scaleUp
        let needOf (r cap : Int) : Int := ((k : Rat) * ((((100 * r : Int) : Rat) / (cap : Rat) - (T : Rat)) / (T : Rat))).ceil
        let need : Int := max (needOf pu.total.cpu (k * u0.allocCPU)) (needOf pu.total.mem (k * u0.allocMem))
        if obsDelta < need then ["scale-up-short:need-" ++ toString need ++ "-decided-" ++ toString obsDelta]
        else if obsDelta > need + 1 then ["scale-up-over:need-" ++ toString need ++ "-decided-" ++ toString obsDelta]
        else []

/-! ### C05 — scale-up from zero, against the node size last observed (tracked by the driver, not by the model state) -/

/-- `seen`: the size (milli-CPU, bytes) of the group's nodes as last observed in this controller lifetime
    (`none`: never observed). With no untainted node and some request, the decision must be exactly 1 when
    no node was ever observed, and otherwise within [need, need+1] for
    `need = max(⌈100·Rcpu/(c·T)⌉, ⌈100·Rmem/(m·T)⌉)`. Judged under the same conditions as the bands. -/
def C05.badFromZero (c : Ctx) (seen : Option (Int × Int)) (obsDelta : Int) : List String :=
  let unt := nodesOf c.dry c.st .untainted c.view.nodes
  let n : Int := c.view.nodes.length
  let pu := podsUsage c.view.pods
  if c.dry || lockHeld c.st.lock c.cfg.coolNs c.nowReal || n < c.st.minEff || n > c.st.maxEff ||
     unt.length != 0 || c.st.minEff > 0 || (pu.total.cpu ≤ 0 && pu.total.mem ≤ 0) || pu.total.cpu < 0 || pu.total.mem < 0 ||
     c.cfg.scaleUp ≤ 0 || c.cfg.maxAgeNs > 0 then []
  else
    match seen with
    | none => if obsDelta == 1 then [] else ["from-zero-never-observed-decision-" ++ toString obsDelta]
    | some (cpu, mem) =>
      if cpu ≤ 0 || mem ≤ 0 then [] else
      let need : Int := max (((100 * pu.total.cpu : Int) / ((cpu * c.cfg.scaleUp : Int) : Rat)).ceil)
                            (((100 * pu.total.mem : Int) / ((mem * c.cfg.scaleUp : Int) : Rat)).ceil)
      -- the starve trigger may raise a smaller decision to 1
      let need := max need 1
      if obsDelta < need then ["from-zero-short:need-" ++ toString need ++ "-decided-" ++ toString obsDelta]
      else if obsDelta > need + 1 then ["from-zero-over:need-" ++ toString need ++ "-decided-" ++ toString obsDelta]
      else []

/-- The scale_on_starve exception: with the option on, a starved pod and room below max_nodes, the scan
    must not taint and its decision must be a scale-up of at least one node. Judged under the same
    conditions as the bands (not dry, unlocked, node count within bounds, at least min untainted). -/
def C06.badStarve (c : Ctx) (obsDelta : Int) (j : Journal) : List String :=
  let unt := nodesOf c.dry c.st .untainted c.view.nodes
  let n : Int := c.view.nodes.length
  if c.dry || lockHeld c.st.lock c.cfg.coolNs c.nowReal || n < c.st.minEff || n > c.st.maxEff ||
     (unt.length : Int) < c.st.minEff || !c.cfg.scaleOnStarve || !((unt.length : Int) < c.st.maxEff) ||
     (exactUtil c).isNone || !starved c.view.pods unt then []
  else
    let adds := (j.filter (isTaintAdd c.view)).length
    (if adds != 0 then ["taint-while-a-pod-is-starved"] else []) ++
    (if obsDelta < 1 then ["starved-pod-but-decision-" ++ toString obsDelta] else [])

/-- Number of taints with the escalator key. -/
def escCount (n : Node) : Nat := (n.taints.filter (fun t => t.key == escKey)).length

/-- **C15, the whole scan.** "A node that already carries the escalator taint is never re-stamped": an UPDATE that *adds* an
    escalator taint (its object carries more of them than the copy fetched just before) must name a node that carries none in
    this scan's view. Judged on (entry, response) pairs like `C15.bad`. Removing and adding in two steps inside one scan — each
    step precise on its own — is what this catches. -/
def C15.restampBad (view : View) : Option Node → List (Entry × Resp) → List String
  | _, [] => []
  | last, (e, r) :: rest =>
    match e.call with
    | .getNode _ => C15.restampBad view (match r with | .node n => some n | _ => none) rest
    | .updateNode obj =>
      (match last with
       | some u =>
         if u.name == obj.name && decide (escCount obj > escCount u) && view.nodes.any (fun c => c.name == obj.name && hasTaint escKey c)
         then [obj.name] else []
       | none => []) ++ C15.restampBad view none rest
    | .describeInstances _ => C15.restampBad view last rest
    | _ => C15.restampBad view none rest

end Spec
end Esc
