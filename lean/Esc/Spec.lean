/-
  Decidable property predicates.  Each `Cxx.holds` is a `Bool` function of what one group scan saw
  (configuration, pre-scan controller/provider state, view, clocks) and of a journal.  The same
  predicate is (a) what the property theorems state about the model's journal for every input, and
  (b) what the monitor evaluates on the journal observed from the real implementation.
-/
import Esc.Run
namespace Esc
namespace Spec

/-- Everything a group scan starts from. -/
structure Ctx where
  globalDry : Bool
  cfg : GroupCfg
  st : GState          -- after auto-discovery of min/max for this scan
  g : PGroup           -- provider's cached group after this scan's refresh
  view : View
  nowMock : Int
  nowReal : Int
deriving Repr, Inhabited

def Ctx.dry (c : Ctx) : Bool := c.globalDry || c.cfg.dryMode

/-- Is `e` a write (anything but GET / Describe*)? -/
def isWrite (e : Entry) : Bool :=
  match e.call with
  | .getNode _ | .describeAsgs _ | .describeStatus _ | .describeInstances _ | .build => false
  | _ => true

/-! ### C01 -/

/-- The property's removal condition, with the *true* age of the recorded taint time. -/
def eligible (c : Ctx) (n : Node) : Bool :=
  !n.unschedulable &&
  ((hasTaint forceKey n && nodeEmpty c.view.pods n) ||
   (match taintStamp? n with
    | none => false
    | some v =>
      let age := trueAgeNs c.nowMock v
      (age > c.cfg.softNs && nodeEmpty c.view.pods n) || age > c.cfg.hardNs))

/-- A removal call (terminate / delete) is backed by a node of the view satisfying `p`:
    for a delete, a node of that name; for a terminate, a node whose provider id is that of an
    instance of the cached cloud group with the terminated id. Other calls are vacuously backed. -/
def removalBackedBy (c : Ctx) (p : Node → Bool) (e : Entry) : Bool :=
  match e.call with
  | .deleteNode name => c.view.nodes.any (fun n => n.name == name && p n)
  | .terminateInAsg id _ =>
      c.view.nodes.any (fun n => p n && c.g.asg.instances.any (fun i => i.id == id && providerIdOf i == n.providerID))
  | _ => true

/-- A removal call is justified when some eligible node of the view backs it. -/
def C01.okEntry (c : Ctx) (e : Entry) : Bool := removalBackedBy c (eligible c) e

def C01.holds (c : Ctx) (j : Journal) : Bool := j.all (C01.okEntry c)

/-- Diagnostic for the monitor: the offending removal calls. -/
def describeRemoval (c : Ctx) (e : Entry) : String :=
  match e.call with
  | .deleteNode name => "delete " ++ name
  | .terminateInAsg id _ =>
      match c.view.nodes.find? (fun n => c.g.asg.instances.any (fun i => i.id == id && providerIdOf i == n.providerID)) with
      | some n => "terminate " ++ id ++ " node " ++ n.name
      | none => "terminate " ++ id ++ " node ?"
  | _ => "?"

def C01.bad (c : Ctx) (j : Journal) : List String := (j.filter (fun e => !C01.okEntry c e)).map (describeRemoval c)

/-! ### C03 -/

/-- An accepted UPDATE that puts the escalator taint on a node the view shows without it. -/
def isTaintAdd (view : View) (e : Entry) : Bool :=
  match e.call with
  | .updateNode obj =>
      e.ok && hasTaint escKey obj &&
      (match view.nodes.find? (fun n => n.name == obj.name) with
       | some n => !hasTaint escKey n
       | none => true)
  | _ => false

def isTaintRemove (view : View) (e : Entry) : Bool :=
  match e.call with
  | .updateNode obj =>
      !hasTaint escKey obj &&
      (match view.nodes.find? (fun n => n.name == obj.name) with
       | some n => hasTaint escKey n
       | none => false)
  | _ => false

def untaintedCount (c : Ctx) : Nat := (nodesOf c.dry c.st .untainted c.view.nodes).length

def C03.holds (c : Ctx) (j : Journal) : Bool :=
  let adds := (j.filter (isTaintAdd c.view)).length
  adds = 0 || ((untaintedCount c : Int) - adds ≥ c.st.minEff)

/-! ### C04 -/

def bound (c : Ctx) : Int := if c.st.maxEff < c.g.asg.max then c.st.maxEff else c.g.asg.max

/-- An accepted terminate-with-decrement lowers the cloud group's desired size by one. -/
def isOkDecTerminate (e : Entry) : Bool :=
  e.ok && (match e.call with | .terminateInAsg _ true => true | _ => false)

/-- Walk the journal keeping the cloud group's current desired size (`cur`): every resize request
    must land at or below `bnd`. -/
def C04.go (bnd : Int) : Int → Journal → Bool
  | _, [] => true
  | cur, e :: es =>
    (match e.call with
     | .setDesired _ v => decide (v ≤ bnd)
     | .createFleet r => decide (cur + r.total ≤ bnd)
     | _ => true) &&
    C04.go bnd (if isOkDecTerminate e then cur - 1 else cur) es

def C04.holds (c : Ctx) (j : Journal) : Bool := C04.go (bound c) c.g.asg.desired j

/-! ### C09 -/

def targetName (e : Entry) : Option String :=
  match e.call with
  | .getNode n => some n
  | .updateNode o => some o.name
  | .deleteNode n => some n
  | _ => none

/-- Every call aimed at a node is aimed at an uncordoned node of the view. -/
def C09.okEntry (c : Ctx) (e : Entry) : Bool :=
  (match targetName e with
   | some name => c.view.nodes.any (fun n => n.name == name && !n.unschedulable)
   | none => true) &&
  removalBackedBy c (fun n => !n.unschedulable) e

def C09.holds (c : Ctx) (j : Journal) : Bool := c.dry || j.all (C09.okEntry c)

/-! ### C10 -/

/-- Protected by the no-delete annotation (and not force-tainted). -/
def protectedNode (n : Node) : Bool := safeFromDeletion n && !hasTaint forceKey n

def C10.okEntry (c : Ctx) (e : Entry) : Bool := removalBackedBy c (fun n => !protectedNode n) e

def C10.holds (c : Ctx) (j : Journal) : Bool := j.all (C10.okEntry c)

/-! ### C11 -/

def C11.holds (c : Ctx) (j : Journal) : Bool :=
  !c.dry || j.all (fun e => !isWrite e)

end Spec
end Esc
