/-
  Decidable property predicates.  Each `Cxx.holds` is a `Bool` function of what one group scan saw
  (configuration, pre-scan controller/provider state, view, clocks) and of a journal.  The same
  predicate is (a) what the property theorems state about the model's journal for every input, and
  (b) what the monitor evaluates on the journal observed from the real implementation.
-/
import Esc.Run
namespace Esc
namespace Spec

/-- Everything a group scan starts from. -/
structure Ctx where
  globalDry : Bool
  cfg : GroupCfg
  st : GState          -- after auto-discovery of min/max for this scan
  g : PGroup           -- provider's cached group after this scan's refresh
  view : View
  nowMock : Int
  nowReal : Int
deriving Repr, Inhabited

def Ctx.dry (c : Ctx) : Bool := c.globalDry || c.cfg.dryMode

/-- Is `e` a write (anything but GET / Describe*)? -/
def isWrite (e : Entry) : Bool :=
  match e.call with
  | .getNode _ | .describeAsgs _ | .describeStatus _ | .describeInstances _ | .build => false
  | _ => true

/-- Node names / instance ids a call is aimed at. -/
def removalTargetNode (c : Ctx) (e : Entry) : Option (Option Node) :=
  match e.call with
  | .deleteNode name => some (c.view.nodes.find? (fun n => n.name == name))
  | .terminateInAsg id _ =>
      some (c.view.nodes.find? (fun n => c.g.asg.instances.any (fun i => i.id == id && providerIdOf i == n.providerID)))
  | _ => none

/-! ### C01 -/

/-- The property's removal condition, with the *true* age of the recorded taint time. -/
def eligible (c : Ctx) (n : Node) : Bool :=
  !n.unschedulable &&
  ((hasTaint forceKey n && nodeEmpty c.view.pods n) ||
   (match taintStamp? n with
    | none => false
    | some v =>
      let age := trueAgeNs c.nowMock v
      (age > c.cfg.softNs && nodeEmpty c.view.pods n) || age > c.cfg.hardNs))

/-- A removal call is justified when some eligible node of the view backs it. -/
def C01.okEntry (c : Ctx) (e : Entry) : Bool :=
  match e.call with
  | .deleteNode name => c.view.nodes.any (fun n => n.name == name && eligible c n)
  | .terminateInAsg id _ =>
      c.view.nodes.any (fun n => eligible c n && c.g.asg.instances.any (fun i => i.id == id && providerIdOf i == n.providerID))
  | _ => true

def C01.holds (c : Ctx) (j : Journal) : Bool := j.all (C01.okEntry c)

/-- Diagnostic for the monitor: the offending removal calls. -/
def describeRemoval (c : Ctx) (e : Entry) : String :=
  match e.call, removalTargetNode c e with
  | .deleteNode name, _ => "delete " ++ name
  | .terminateInAsg id _, some (some n) => "terminate " ++ id ++ " node " ++ n.name
  | .terminateInAsg id _, _ => "terminate " ++ id ++ " node ?"
  | _, _ => "?"

def C01.bad (c : Ctx) (j : Journal) : List String := (j.filter (fun e => !C01.okEntry c e)).map (describeRemoval c)

/-! ### C03 -/

/-- An accepted UPDATE that puts the escalator taint on a node the view shows without it. -/
def isTaintAdd (view : View) (e : Entry) : Bool :=
  match e.call with
  | .updateNode obj =>
      e.ok && hasTaint escKey obj &&
      (match view.nodes.find? (fun n => n.name == obj.name) with
       | some n => !hasTaint escKey n
       | none => true)
  | _ => false

def isTaintRemove (view : View) (e : Entry) : Bool :=
  match e.call with
  | .updateNode obj =>
      !hasTaint escKey obj &&
      (match view.nodes.find? (fun n => n.name == obj.name) with
       | some n => hasTaint escKey n
       | none => false)
  | _ => false

def untaintedCount (c : Ctx) : Nat := (nodesOf c.dry c.st .untainted c.view.nodes).length

def C03.holds (c : Ctx) (j : Journal) : Bool :=
  let adds := (j.filter (isTaintAdd c.view)).length
  adds = 0 || ((untaintedCount c : Int) - adds ≥ c.st.minEff)

/-! ### C04 -/

def bound (c : Ctx) : Int := if c.st.maxEff < c.g.asg.max then c.st.maxEff else c.g.asg.max

def C04.holds (c : Ctx) (j : Journal) : Bool :=
  j.all (fun e =>
    match e.call with
    | .setDesired _ v => v ≤ bound c
    | .createFleet r => c.g.asg.desired + r.total ≤ bound c
    | _ => true)

/-! ### C09 -/

def targetName (e : Entry) : Option String :=
  match e.call with
  | .getNode n => some n
  | .updateNode o => some o.name
  | .deleteNode n => some n
  | _ => none

def C09.holds (c : Ctx) (j : Journal) : Bool :=
  c.dry ||
  j.all (fun e =>
    (match targetName e with
     | some name => !(c.view.nodes.any (fun n => n.name == name && n.unschedulable))
     | none => true) &&
    (match e.call with
     | .terminateInAsg id _ =>
        !(c.view.nodes.any (fun n => n.unschedulable && c.g.asg.instances.any (fun i => i.id == id && providerIdOf i == n.providerID)))
     | _ => true))

/-! ### C10 -/

def C10.holds (c : Ctx) (j : Journal) : Bool :=
  j.all (fun e =>
    match removalTargetNode c e with
    | some (some n) => !(safeFromDeletion n && !hasTaint forceKey n)
    | _ => true)

/-! ### C11 -/

def C11.holds (c : Ctx) (j : Journal) : Bool :=
  !c.dry || j.all (fun e => !isWrite e)

end Spec
end Esc
