import EscProofs.Lemmas.Journal
import EscProofs.Lemmas.Run
import EscProofs.P.C01
