package main

// Mirror of the Lean model's JSON encoding (lean/Esc/Json.lean).

import (
	"crypto/sha1"
	"encoding/hex"
	"encoding/json"
	"sort"

	v1 "k8s.io/api/core/v1"
)

type PTaint struct {
	Key    string `json:"key"`
	Value  string `json:"value"`
	Effect string `json:"effect"`
}

type KV [][2]string

type PNode struct {
	Name          string   `json:"name"`
	ProviderID    string   `json:"providerID"`
	Labels        KV       `json:"labels"`
	Annotations   KV       `json:"annotations"`
	Taints        []PTaint `json:"taints"`
	Unschedulable bool     `json:"unschedulable"`
	Created       int64    `json:"created"`
	AllocCPU      int64    `json:"allocCPU"`
	AllocMem      int64    `json:"allocMem"`
	Extra         string   `json:"extra"`
}

type PRes struct {
	CPU int64 `json:"cpu"`
	Mem int64 `json:"mem"`
}

type PMatchExpr struct {
	Key    string   `json:"key"`
	Op     string   `json:"op"`
	Values []string `json:"values"`
}

type PAffinity struct {
	HasNodeAffinity    bool            `json:"hasNodeAffinity"`
	Required           *[][]PMatchExpr `json:"required"`
	HasPodAffinity     bool            `json:"hasPodAffinity"`
	HasPodAntiAffinity bool            `json:"hasPodAntiAffinity"`
}

type PPod struct {
	Name           string     `json:"name"`
	NodeName       string     `json:"nodeName"`
	NodeSelector   KV         `json:"nodeSelector"`
	Affinity       *PAffinity `json:"affinity"`
	OwnerKinds     []string   `json:"ownerKinds"`
	Annotations    KV         `json:"annotations"`
	Containers     []PRes     `json:"containers"`
	InitContainers []PRes     `json:"initContainers"`
	Overhead       PRes       `json:"overhead"`
	Phase          string     `json:"phase"`
	Scheduled      *bool      `json:"scheduled"`
}

type PInst struct {
	ID string `json:"id"`
	AZ string `json:"az"`
}

type PAsg struct {
	Name      string  `json:"name"`
	Min       int64   `json:"min"`
	Max       int64   `json:"max"`
	Desired   int64   `json:"desired"`
	Instances []PInst `json:"instances"`
	VpcZones  string  `json:"vpcZones"`
	Tagged    bool    `json:"tagged"`
}

type PAwsCfg struct {
	LaunchTemplateID      string   `json:"launchTemplateID"`
	LaunchTemplateVersion string   `json:"launchTemplateVersion"`
	ReadyTicks            int      `json:"readyTicks"`
	Lifecycle             string   `json:"lifecycle"`
	InstanceTypeOverrides []string `json:"instanceTypeOverrides"`
	ResourceTagging       bool     `json:"resourceTagging"`
}

type PGroupCfg struct {
	Name          string  `json:"name"`
	LabelKey      string  `json:"labelKey"`
	LabelValue    string  `json:"labelValue"`
	CloudGroup    string  `json:"cloudGroup"`
	MinNodes      int64   `json:"minNodes"`
	MaxNodes      int64   `json:"maxNodes"`
	DryMode       bool    `json:"dryMode"`
	ScaleOnStarve bool    `json:"scaleOnStarve"`
	Upper         int64   `json:"upper"`
	Lower         int64   `json:"lower"`
	ScaleUp       int64   `json:"scaleUp"`
	Slow          int64   `json:"slow"`
	Fast          int64   `json:"fast"`
	SoftNs        int64   `json:"softNs"`
	HardNs        int64   `json:"hardNs"`
	CoolNs        int64   `json:"coolNs"`
	MaxAgeNs      int64   `json:"maxAgeNs"`
	TaintEffect   string  `json:"taintEffect"`
	Aws           PAwsCfg `json:"aws"`
}

type PCtl struct {
	Cfgs      []PGroupCfg `json:"cfgs"`
	GlobalDry bool        `json:"globalDry"`
}

type POverride struct {
	Subnet       string  `json:"subnet"`
	InstanceType *string `json:"instanceType"`
}

type PFleetReq struct {
	FleetType       string      `json:"fleetType"`
	Total           int64       `json:"total"`
	MinTarget       int64       `json:"minTarget"`
	DefaultType     string      `json:"defaultType"`
	OnDemandOptions bool        `json:"onDemandOptions"`
	TemplateID      string      `json:"templateID"`
	TemplateVersion string      `json:"templateVersion"`
	Overrides       []POverride `json:"overrides"`
	Tagged          bool        `json:"tagged"`
}

// Call / Resp are encoded the way Lean's derived instances encode inductives.
type PCall = interface{}
type PResp = interface{}

func ctor(name string, fields map[string]interface{}) interface{} {
	return map[string]interface{}{name: fields}
}

func cGetNode(name string) PCall    { return ctor("getNode", map[string]interface{}{"name": name}) }
func cUpdateNode(n PNode) PCall     { return ctor("updateNode", map[string]interface{}{"obj": n}) }
func cDeleteNode(name string) PCall { return ctor("deleteNode", map[string]interface{}{"name": name}) }
func cDescribeAsgs(names []string) PCall {
	s := append([]string{}, names...)
	sort.Strings(s)
	return ctor("describeAsgs", map[string]interface{}{"names": s})
}
func cSetDesired(g string, v int64) PCall {
	return ctor("setDesired", map[string]interface{}{"group": g, "value": v})
}
func cTerminateInAsg(id string, decr bool) PCall {
	return ctor("terminateInAsg", map[string]interface{}{"id": id, "decrement": decr})
}
func cCreateFleet(r PFleetReq) PCall { return ctor("createFleet", map[string]interface{}{"req": r}) }
func cDescribeStatus(ids []string) PCall {
	return ctor("describeStatus", map[string]interface{}{"ids": nn(ids)})
}
func cAttach(g string, ids []string) PCall {
	return ctor("attach", map[string]interface{}{"group": g, "ids": nn(ids)})
}
func cTerminateInstances(ids []string) PCall {
	return ctor("terminateInstances", map[string]interface{}{"ids": nn(ids)})
}
func cDescribeInstances(id string) PCall {
	return ctor("describeInstances", map[string]interface{}{"id": id})
}
func cCreateTags(g string) PCall { return ctor("createTags", map[string]interface{}{"group": g}) }

func rFail() PResp         { return "fail" }
func rOk() PResp           { return "ok" }
func rNode(n PNode) PResp  { return ctor("node", map[string]interface{}{"n": n}) }
func rAsgs(l []PAsg) PResp { return ctor("asgs", map[string]interface{}{"l": l}) }
func rFleet(ids [][]string, errs []string) PResp {
	if ids == nil {
		ids = [][]string{}
	}
	return ctor("fleet", map[string]interface{}{"ids": ids, "errs": nn(errs)})
}
func rStatus(pages [][]bool) PResp {
	if pages == nil {
		pages = [][]bool{}
	}
	return ctor("status", map[string]interface{}{"pages": pages})
}
func rInstance(res, inst int) PResp {
	return ctor("instance", map[string]interface{}{"reservations": res, "instances": inst})
}

type PEntry struct {
	Call PCall `json:"call"`
	Ok   bool  `json:"ok"`
}

// what a group's own listers return right after the scan (names), as the controller would see them
type PObsList struct {
	Name  string   `json:"name"`
	Pods  []string `json:"pods"`
	Nodes []string `json:"nodes"`
}

type PHints struct {
	Old []int `json:"old"`
	New []int `json:"new"`
}

type PObsRec struct {
	Name  string   `json:"name"`
	J     []PEntry `json:"j"`
	Delta int64    `json:"delta"`
	Err   bool     `json:"err"`
}

type PObsState struct {
	Name              string   `json:"name"`
	IsLocked          bool     `json:"isLocked"`
	Requested         int64    `json:"requested"`
	LockTime          *int64   `json:"lockTime"`
	ScaleDelta        int64    `json:"scaleDelta"`
	LastScaleOut      *int64   `json:"lastScaleOut"`
	CachedCPU         int64    `json:"cachedCPU"`
	CachedMem         int64    `json:"cachedMem"`
	TaintTracker      []string `json:"taintTracker"`
	ForceTaintTracker []string `json:"forceTaintTracker"`
	MinEff            int64    `json:"minEff"`
	MaxEff            int64    `json:"maxEff"`
}

type PObsScan struct {
	Outcome string      `json:"outcome"`
	Pre     []PEntry    `json:"pre"`
	Recs    []PObsRec   `json:"recs"`
	States  []PObsState `json:"states"`
}

func nn(s []string) []string {
	if s == nil {
		return []string{}
	}
	return s
}

func kvOf(m map[string]string) KV {
	out := KV{}
	keys := make([]string, 0, len(m))
	for k := range m {
		keys = append(keys, k)
	}
	sort.Strings(keys)
	for _, k := range keys {
		out = append(out, [2]string{k, m[k]})
	}
	return out
}

// digest of everything on the node except its taints
func extraOf(n *v1.Node) string {
	c := n.DeepCopy()
	c.Spec.Taints = nil
	b, _ := json.Marshal(c)
	h := sha1.Sum(b)
	return hex.EncodeToString(h[:6])
}

func protoNode(n *v1.Node) PNode {
	p := PNode{
		Name:          n.Name,
		ProviderID:    n.Spec.ProviderID,
		Labels:        kvOf(n.Labels),
		Annotations:   kvOf(n.Annotations),
		Taints:        []PTaint{},
		Unschedulable: n.Spec.Unschedulable,
		Created:       n.CreationTimestamp.Unix(),
		AllocCPU:      n.Status.Allocatable.Cpu().MilliValue(),
		AllocMem:      n.Status.Allocatable.Memory().Value(),
		Extra:         extraOf(n),
	}
	for _, t := range n.Spec.Taints {
		p.Taints = append(p.Taints, PTaint{t.Key, t.Value, string(t.Effect)})
	}
	return p
}

func protoRes(rl v1.ResourceList) PRes {
	return PRes{CPU: rl.Cpu().MilliValue(), Mem: rl.Memory().Value()}
}

func protoPod(p *v1.Pod) PPod {
	out := PPod{
		Name:           p.Namespace + "/" + p.Name,
		NodeName:       p.Spec.NodeName,
		NodeSelector:   kvOf(p.Spec.NodeSelector),
		OwnerKinds:     []string{},
		Annotations:    kvOf(p.Annotations),
		Containers:     []PRes{},
		InitContainers: []PRes{},
		Phase:          string(p.Status.Phase),
	}
	for _, o := range p.OwnerReferences {
		out.OwnerKinds = append(out.OwnerKinds, o.Kind)
	}
	for _, c := range p.Spec.Containers {
		out.Containers = append(out.Containers, protoRes(c.Resources.Requests))
	}
	for _, c := range p.Spec.InitContainers {
		out.InitContainers = append(out.InitContainers, protoRes(c.Resources.Requests))
	}
	if p.Spec.Overhead != nil {
		out.Overhead = protoRes(p.Spec.Overhead)
	}
	for _, c := range p.Status.Conditions {
		if c.Type == v1.PodScheduled {
			b := c.Status == v1.ConditionTrue
			out.Scheduled = &b
			break
		}
	}
	if a := p.Spec.Affinity; a != nil {
		pa := &PAffinity{HasNodeAffinity: a.NodeAffinity != nil, HasPodAffinity: a.PodAffinity != nil, HasPodAntiAffinity: a.PodAntiAffinity != nil}
		if a.NodeAffinity != nil && a.NodeAffinity.RequiredDuringSchedulingIgnoredDuringExecution != nil {
			terms := [][]PMatchExpr{}
			for _, t := range a.NodeAffinity.RequiredDuringSchedulingIgnoredDuringExecution.NodeSelectorTerms {
				es := []PMatchExpr{}
				for _, e := range t.MatchExpressions {
					es = append(es, PMatchExpr{e.Key, string(e.Operator), nn(e.Values)})
				}
				terms = append(terms, es)
			}
			pa.Required = &terms
		}
		out.Affinity = pa
	}
	return out
}
