package main

// assemble: the program's own assembly of its configuration (cmd/main.go: setupNodeGroups, setupCloudProvider), run in
// the built program (build tag verif: cmd/verif_hooks.go dumps what the two functions produced and exits before any
// client is built) on generated files of 1-4 valid node groups. What comes out must be, entry by entry, what the file
// says: the options of each group unchanged, dry mode of a group = its own switch (the master flag is kept apart), and
// the cloud configuration of group i made from entry i alone.

import (
	"context"
	"encoding/json"
	"fmt"
	"io"
	"os"
	"os/exec"
	"time"

	"github.com/atlassian/escalator/pkg/controller"
	"sigs.k8s.io/yaml"
)

type PACfg struct {
	Name       string   `json:"name"`
	CloudGroup string   `json:"cloudGroup"`
	Dry        bool     `json:"dry"`
	LtID       string   `json:"ltID"`
	LtVer      string   `json:"ltVer"`
	TimeoutStr string   `json:"timeoutStr"`
	TimeoutNs  int64    `json:"timeoutNs"` // time.ParseDuration of the string (0 when it does not parse or is empty)
	Lifecycle  string   `json:"lifecycle"`
	Overrides  []string `json:"overrides"`
	Tagging    bool     `json:"tagging"`
}

type PACloud struct {
	Name      string   `json:"name"`
	GroupID   string   `json:"groupID"`
	LtID      string   `json:"ltID"`
	LtVer     string   `json:"ltVer"`
	TimeoutNs int64    `json:"timeoutNs"`
	Lifecycle string   `json:"lifecycle"`
	Overrides []string `json:"overrides"`
	Tagging   bool     `json:"tagging"`
}

type assembledDump struct {
	MasterDryMode bool                          `json:"master_dry_mode"`
	NodeGroups    []controller.NodeGroupOptions `json:"node_groups"`
	ProviderID    string                        `json:"provider_id"`
	Cloud         []struct {
		Name      string
		GroupID   string
		AWSConfig struct {
			LaunchTemplateID          string
			LaunchTemplateVersion     string
			FleetInstanceReadyTimeout int64
			Lifecycle                 string
			InstanceTypeOverrides     []string
			ResourceTagging           bool
		}
	} `json:"cloud"`
	BuilderType string `json:"builder_type"`
}

func strsOrEmpty(x []string) []string {
	if x == nil {
		return []string{}
	}
	return x
}

func runAssemble(r *Rng, n int, bin string, w io.Writer, stats map[string]int) {
	dir, err := os.MkdirTemp("", "assemble")
	if err != nil {
		panic(err)
	}
	defer os.RemoveAll(dir)
	for i := 0; i < n; i++ {
		k := r.pickI(1, 2, 2, 3, 3, 4)
		master := r.chance(15)
		var groups []controller.NodeGroupOptions
		for g := 0; g < k; g++ {
			o := baseOpts()
			o.Name = fmt.Sprintf("g%d", g)
			o.LabelValue = fmt.Sprintf("v%d", g)
			o.CloudProviderGroupName = fmt.Sprintf("asg%d", g)
			if g > 0 && r.chance(10) {
				o.CloudProviderGroupName = groups[r.intn(len(groups))].Name // a cloud group named like another node group
			}
			if g > 0 && r.chance(8) {
				o.Name = groups[r.intn(len(groups))].Name // duplicate names pass validation
			}
			if r.chance(12) {
				// names that a careless normalisation would merge or rewrite (`default` is the one name with a meaning)
				o.Name = r.pick("default", "Default", "DEFAULT", "default ", "G0", "g0 ", " g1", "g1.", "asg0")
			}
			o.DryMode = r.chance(35)
			o.ScaleOnStarve = r.chance(20)
			if r.chance(15) {
				o.MinNodes, o.MaxNodes = 0, 0
			}
			if r.chance(30) {
				o.MaxNodeAge = r.pick("12h", "48h", "0")
			}
			if r.chance(30) {
				o.TaintEffect = "NoExecute"
			}
			if r.chance(55) {
				o.AWS.LaunchTemplateID = fmt.Sprintf("lt-%d", r.intn(3))
				o.AWS.LaunchTemplateVersion = r.pick("", "1", "$Latest")
				o.AWS.FleetInstanceReadyTimeout = r.pick("", "", "90s", "2m", "1500ms", "abc", "0")
				if r.chance(50) {
					o.AWS.InstanceTypeOverrides = [][]string{{"m5.large"}, {"c5.xlarge", "c5a.xlarge"}, {fmt.Sprintf("t%d.micro", g)}}[r.intn(3)]
				}
				o.AWS.ResourceTagging = r.chance(30)
			}
			if r.chance(40) {
				o.AWS.Lifecycle = r.pick("on-demand", "spot")
			}
			groups = append(groups, o)
		}
		if r.chance(40) {
			for a, b := 0, len(groups)-1; a < b; a, b = a+1, b-1 {
				groups[a], groups[b] = groups[b], groups[a]
			}
		}
		b, err := json.Marshal(map[string]interface{}{"node_groups": groups})
		if err != nil {
			panic(err)
		}
		form := "json"
		if r.chance(50) {
			if y, err := yaml.JSONToYAML(b); err == nil {
				b, form = y, "yaml"
			}
		}
		file := fmt.Sprintf("%s/ng%d.%s", dir, i, form)
		dump := fmt.Sprintf("%s/out%d.json", dir, i)
		if err := os.WriteFile(file, b, 0o644); err != nil {
			panic(err)
		}
		args := []string{"--nodegroups", file, "--kubeconfig", kubeconfigMarker}
		if master {
			args = append(args, "--drymode")
		}
		ctx, cancel := context.WithTimeout(context.Background(), 30*time.Second)
		cmd := exec.CommandContext(ctx, bin, args...)
		cmd.Env = append(os.Environ(), "ESCALATOR_VERIF_ASSEMBLE="+dump)
		outb, runErr := cmd.CombinedOutput()
		cancel()
		cfgs := []PACfg{}
		for _, o := range groups {
			cfgs = append(cfgs, PACfg{Name: o.Name, CloudGroup: o.CloudProviderGroupName, Dry: o.DryMode, LtID: o.AWS.LaunchTemplateID, LtVer: o.AWS.LaunchTemplateVersion,
				TimeoutStr: o.AWS.FleetInstanceReadyTimeout, TimeoutNs: durNs(o.AWS.FleetInstanceReadyTimeout), Lifecycle: o.AWS.Lifecycle,
				Overrides: strsOrEmpty(o.AWS.InstanceTypeOverrides), Tagging: o.AWS.ResourceTagging})
		}
		obs := map[string]interface{}{"ok": false}
		var d assembledDump
		if raw, err := os.ReadFile(dump); err == nil && runErr == nil && json.Unmarshal(raw, &d) == nil {
			obs["ok"] = true
			obs["master"] = d.MasterDryMode
			obs["provider"] = d.ProviderID
			obs["builder"] = d.BuilderType
			names, dries, changed := []string{}, []bool{}, []int{}
			for gi, g := range d.NodeGroups {
				names = append(names, g.Name)
				dries = append(dries, g.DryMode)
				if gi < len(groups) {
					x, _ := json.Marshal(g)
					y, _ := json.Marshal(groups[gi])
					if string(x) != string(y) {
						changed = append(changed, gi)
					}
				}
			}
			obs["names"], obs["dries"], obs["optsChanged"] = names, dries, changed
			cl := []PACloud{}
			for _, c := range d.Cloud {
				cl = append(cl, PACloud{Name: c.Name, GroupID: c.GroupID, LtID: c.AWSConfig.LaunchTemplateID, LtVer: c.AWSConfig.LaunchTemplateVersion,
					TimeoutNs: c.AWSConfig.FleetInstanceReadyTimeout, Lifecycle: c.AWSConfig.Lifecycle,
					Overrides: strsOrEmpty(c.AWSConfig.InstanceTypeOverrides), Tagging: c.AWSConfig.ResourceTagging})
			}
			obs["cloud"] = cl
			stats["assemble:dumped"]++
		} else {
			tail := string(outb)
			if len(tail) > 300 {
				tail = tail[len(tail)-300:]
			}
			obs["output"] = tail
			stats["assemble:no-dump"]++
		}
		if master {
			stats["assemble:master-dry"]++
		}
		stats["assemble:groups-"+fmt.Sprint(k)]++
		emitLine(w, map[string]interface{}{"op": "assemble", "master": master, "form": form, "cfgs": cfgs, "obs": obs})
	}
}
