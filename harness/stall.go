package main

// A watchdog for the few streams that wait on real timers (the fleet readiness poll ticks once a second inside the
// implementation; the number of polls that fit into the configured timeout is part of what is compared). It measures how late
// the process itself is woken from short sleeps. When the machine stalls — other checks, a sweep, a build running next to this
// one — a tick of the implementation's ticker can be late by more than the half second of margin the timeouts leave, and the
// poll count is then not the implementation's doing. An operation during which the watchdog saw such a stall is marked
// "stalled" and not compared (nor is the rest of its sequence). The watchdog does not look at the implementation at all.

import (
	"sync/atomic"
	"time"
)

var stallMaxNs atomic.Int64

func init() {
	go func() {
		for {
			t0 := time.Now()
			time.Sleep(20 * time.Millisecond)
			late := int64(time.Since(t0)) - int64(20*time.Millisecond)
			for {
				cur := stallMaxNs.Load()
				if late <= cur || stallMaxNs.CompareAndSwap(cur, late) {
					break
				}
			}
		}
	}()
}

func stallReset() { stallMaxNs.Store(0) }

// stalled: was the process woken more than 200 ms late at some point since the last reset?
func stalled() bool { return stallMaxNs.Load() > int64(200*time.Millisecond) }
