package main

// `hist` stream: the real Controller.RunOnce over the simulated cluster and cloud, driven through
// random and templated histories. Emits one JSON case per init / shift / scan.

import (
	"encoding/json"
	"fmt"
	"io"
	apiequality "k8s.io/apimachinery/pkg/api/equality"
	"sort"
	"strconv"
	"strings"
	"time"

	"github.com/atlassian/escalator/pkg/cloudprovider"
	"github.com/atlassian/escalator/pkg/cloudprovider/aws"
	"github.com/atlassian/escalator/pkg/controller"
	log "github.com/sirupsen/logrus"
	"github.com/stephanos/clock"
	v1 "k8s.io/api/core/v1"
)

type fatalExit struct{ code int }

type Hist struct {
	r                *Rng
	rec              *Recorder
	k8s              *K8sSim
	aws              *AwsSim
	podL             *podListerSim
	nodeL            *nodeListerSim
	nextRefreshFault bool          // set by an event: the refresh of the next scan fails
	nextFaultAt      int           // set by an event: this call of the next scan fails
	goneNames        []string      // names of nodes that left the cluster (may be handed out again)
	scanInterval     time.Duration // controller option: period of RunForever\'s ticker
	scripted         bool          // a corpus scenario: no random extras beyond what the script says
	big              bool          // this history's first group is large (hundreds of nodes)
	mock             clock.Mock
	api              []*WNode // API truth, in creation order
	listed           []*WNode // what the node lister returns (may be stale), in lister order
	pods             []*WPod  // API truth
	listedP          []*WPod
	cfgs             []controller.NodeGroupOptions
	pcfgs            []PGroupCfg
	globalDry        bool
	ctl              *controller.Controller
	enc              *json.Encoder
	nodeSeq          int
	podSeq           int
	instSeq          int
	lines            int
	stats            map[string]int
	desc             string
	tw               *Twin
	twinT            int
	realCtor         bool  // build the controller through the real NewController (slower: informer caches must sync)
	buildErr         error // set by the provider builder when it fails (the only legitimate generic error RunOnce may return)
}

type simBuilder struct{ h *Hist }

func (b simBuilder) Build() (cloudprovider.CloudProvider, error) {
	var configs []cloudprovider.NodeGroupConfig
	for _, n := range b.h.cfgs {
		n := n
		configs = append(configs, cloudprovider.NodeGroupConfig{
			Name:    n.Name,
			GroupID: n.CloudProviderGroupName,
			AWSConfig: cloudprovider.AWSNodeGroupConfig{
				LaunchTemplateID:          n.AWS.LaunchTemplateID,
				LaunchTemplateVersion:     n.AWS.LaunchTemplateVersion,
				FleetInstanceReadyTimeout: n.AWS.FleetInstanceReadyTimeoutDuration(),
				Lifecycle:                 n.AWS.Lifecycle,
				InstanceTypeOverrides:     n.AWS.InstanceTypeOverrides,
				ResourceTagging:           n.AWS.ResourceTagging,
			},
		})
	}
	p, err := aws.VerifNewCloudProvider(b.h.aws, b.h.aws.ec2, configs...)
	if err != nil {
		b.h.buildErr = err
		return nil, err
	}
	return p, nil
}

func newHist(r *Rng, out io.Writer) *Hist {
	rec := &Recorder{}
	rec.reset()
	h := &Hist{r: r, rec: rec, enc: json.NewEncoder(out), stats: map[string]int{}}
	h.k8s = newK8sSim(rec)
	h.aws = newAwsSim(rec)
	h.podL = &podListerSim{rec: rec}
	h.nodeL = &nodeListerSim{rec: rec}
	h.mock = clock.NewMock()
	clock.Work = h.mock
	return h
}

// run executes f, converting panics and log.Fatal into an outcome string.
func protect(f func() error) (outcome string) {
	defer func() {
		if p := recover(); p != nil {
			if _, ok := p.(fatalExit); ok {
				outcome = "fatal:fleet-strikes"
				return
			}
			outcome = "panic:" + strings.SplitN(fmt.Sprint(p), "\n", 2)[0]
		}
	}()
	err := f()
	if err == nil {
		return "ok"
	}
	if _, ok := err.(*cloudprovider.NodeNotInNodeGroup); ok {
		return "fatal:not-in-group"
	}
	if strings.Contains(err.Error(), "could not find node group") {
		return "fatal:group-missing"
	}
	return "fatal:rebuild-failed"
}

func durNs(s string) int64 {
	d, err := time.ParseDuration(s)
	if err != nil {
		return 0
	}
	return int64(d)
}

func protoCfg(n controller.NodeGroupOptions) PGroupCfg {
	ticks := 0
	if n.AWS.LaunchTemplateID != "" {
		// what the documentation says the option means, not what the accessor returns: a missing value is one minute
		d := time.Minute
		if n.AWS.FleetInstanceReadyTimeout != "" {
			if p, err := time.ParseDuration(n.AWS.FleetInstanceReadyTimeout); err == nil {
				d = p
			} else {
				d = 0
			}
		}
		ticks = int(d / time.Second)
	}
	return PGroupCfg{
		Name: n.Name, LabelKey: n.LabelKey, LabelValue: n.LabelValue, CloudGroup: n.CloudProviderGroupName,
		MinNodes: int64(n.MinNodes), MaxNodes: int64(n.MaxNodes), DryMode: n.DryMode, ScaleOnStarve: n.ScaleOnStarve,
		Upper: int64(n.TaintUpperCapacityThresholdPercent), Lower: int64(n.TaintLowerCapacityThresholdPercent),
		ScaleUp: int64(n.ScaleUpThresholdPercent), Slow: int64(n.SlowNodeRemovalRate), Fast: int64(n.FastNodeRemovalRate),
		SoftNs: durNs(n.SoftDeleteGracePeriod), HardNs: durNs(n.HardDeleteGracePeriod), CoolNs: durNs(n.ScaleUpCoolDownPeriod),
		MaxAgeNs: durNs(n.MaxNodeAge), TaintEffect: string(n.TaintEffect),
		Aws: PAwsCfg{LaunchTemplateID: n.AWS.LaunchTemplateID, LaunchTemplateVersion: n.AWS.LaunchTemplateVersion, ReadyTicks: ticks,
			Lifecycle: n.AWS.Lifecycle, InstanceTypeOverrides: nn(n.AWS.InstanceTypeOverrides), ResourceTagging: n.AWS.ResourceTagging},
	}
}

func (h *Hist) emit(v interface{}) {
	if err := h.enc.Encode(v); err != nil {
		panic(err)
	}
	h.lines++
}

// initController (re)creates the controller: also used for restarts.
func (h *Hist) initController() bool {
	h.rec.reset()
	var ctl *controller.Controller
	outcome := protect(func() error {
		var err error
		opts := controller.Opts{
			K8SClient:            h.k8s,
			NodeGroups:           h.cfgs,
			CloudProviderBuilder: simBuilder{h},
			DryMode:              h.globalDry,
			ScanInterval:         h.scanInterval, // used by RunForever's ticker only; a scan itself must not care
		}
		if h.realCtor {
			ctl, err = controller.VerifNewControllerReal(opts, h.podL, h.nodeL)
		} else {
			ctl, err = controller.VerifNewController(opts, h.podL, h.nodeL)
		}
		return err
	})
	ok := outcome == "ok"
	h.emit(map[string]interface{}{
		"op": "init", "ctl": PCtl{Cfgs: h.pcfgs, GlobalDry: h.globalDry}, "resps": nnResps(h.rec.Resps),
		"obs": map[string]interface{}{"ok": ok, "j": nnEntries(h.rec.Entries)}, "desc": h.desc,
	})
	if ok {
		h.ctl = ctl
		h.initTwin()
	}
	return ok
}

func nnResps(r []PResp) []PResp {
	if r == nil {
		return []PResp{}
	}
	return r
}
func nnEntries(e []PEntry) []PEntry {
	if e == nil {
		return []PEntry{}
	}
	return e
}

// age: the world grows older by secs seconds (creation and taint times are kept relative to "now").
func (h *Hist) age(secs int64) {
	for _, set := range [][]*WNode{h.api, h.listed} {
		for _, n := range set {
			n.CreatedAgo += secs
			for i := range n.Taints {
				if n.Taints[i].Rel {
					n.Taints[i].Ago += secs
				}
			}
		}
	}
}

func (h *Hist) shift(d time.Duration) {
	h.age(int64(d / time.Second))
	h.ctl.VerifShiftClock(d)
	if h.tw != nil {
		h.tw.ctl.VerifShiftClock(d)
	}
	h.emit(map[string]interface{}{"op": "shift", "d": int64(d)})
}

// classification as filterNodes does it (needed only to ask the real sort for its visiting order)
func (h *Hist) classify(cfg controller.NodeGroupOptions, nodes []*v1.Node) (untainted, tainted []*v1.Node) {
	st, _ := h.ctl.VerifGroupState(cfg.Name)
	dry := h.globalDry || cfg.DryMode
	in := func(l []string, s string) bool {
		for _, x := range l {
			if x == s {
				return true
			}
		}
		return false
	}
	for _, n := range nodes {
		if n.Labels[cfg.LabelKey] != cfg.LabelValue {
			continue
		}
		var f, t bool
		if dry {
			f, t = in(st.ForceTaintTracker, n.Name), in(st.TaintTracker, n.Name)
		} else {
			if n.Spec.Unschedulable {
				continue
			}
			for _, tt := range n.Spec.Taints {
				if tt.Key == forceKey {
					f = true
				}
				if tt.Key == escKey {
					t = true
				}
			}
		}
		if f {
			continue
		} else if t {
			tainted = append(tainted, n)
		} else {
			untainted = append(untainted, n)
		}
	}
	return
}

var errStraddle = fmt.Errorf("scan straddled a second boundary")
var errStalled = fmt.Errorf("the machine stalled during a scan that waited on the fleet readiness ticker")

// scan runs one RunOnce and emits the case. Returns the outcome.
func (h *Hist) scan(faults map[int]bool, failDesc map[string]bool) (string, error) {
	// stay clear of the lock boundary: the real lock reads the real clock a few microseconds after us
	for tries := 0; tries < 50; tries++ {
		now := time.Now()
		near := false
		for _, c := range h.cfgs {
			st, _ := h.ctl.VerifGroupState(c.Name)
			if st.LockTimeSet {
				rem := int64(c.ScaleUpCoolDownPeriodDuration()) - (now.UnixNano() - st.LockTimeNs)
				if rem > 0 && rem <= int64(3*time.Millisecond) {
					near = true
				}
			}
		}
		if now.Nanosecond() > 990_000_000 {
			near = true
		}
		if !near {
			break
		}
		time.Sleep(4 * time.Millisecond)
	}
	if faults[0] {
		// a failing refresh costs 5 s of real sleep per retry (up to two): a lock that expires during those seconds would be
		// seen as held by the model (which evaluates the scan at its nominal start) and as released by the code — keep such
		// scans free of the refresh failure
		now := time.Now()
		for _, c := range h.cfgs {
			st, _ := h.ctl.VerifGroupState(c.Name)
			if st.LockTimeSet {
				rem := int64(c.ScaleUpCoolDownPeriodDuration()) - (now.UnixNano() - st.LockTimeNs)
				if rem > 0 && rem <= int64(12*time.Second) {
					delete(faults, 0)
				}
			}
		}
	}
	frozen := time.Now()
	sec := frozen.Unix()
	h.mock.FreezeAt(time.Unix(sec, 0))

	// materialise API store and lister snapshots
	h.k8s.store = map[string]*v1.Node{}
	for _, n := range h.api {
		h.k8s.store[n.Name] = n.materialise(sec)
	}
	h.nodeL.nodes = nil
	for _, n := range h.listed {
		h.nodeL.nodes = append(h.nodeL.nodes, n.materialise(sec))
	}
	h.podL.pods = nil
	for _, p := range h.listedP {
		h.podL.pods = append(h.podL.pods, p.materialise())
	}
	h.k8s.pods = nil
	for _, p := range h.pods {
		h.k8s.pods = append(h.k8s.pods, p.materialise())
	}
	// visiting order among nodes of equal age: first what the repository's own sorters produce on these lists (hooks);
	// after the scan the prefix the code was actually seen to visit (its GET calls) is put in front, so that a different
	// but equally valid tie-break of the code does not count as a disagreement. The model validates every hint
	// (permutation, sorted by age) and falls back to its reference order otherwise.
	hints := [][2]interface{}{}
	hintLists := [][2][]*v1.Node{}
	for _, c := range h.cfgs {
		u, t := h.classify(c, h.nodeL.nodes)
		hints = append(hints, [2]interface{}{c.Name, PHints{Old: nnInts(controller.VerifSortOldest(u)), New: nnInts(controller.VerifSortNewest(t))}})
		hintLists = append(hintLists, [2][]*v1.Node{u, t})
	}
	pnodes := []PNode{}
	for _, n := range h.nodeL.nodes {
		pnodes = append(pnodes, protoNode(n))
	}
	ppods := []PPod{}
	for _, p := range h.podL.pods {
		ppods = append(ppods, protoPod(p))
	}

	conflict := len(faults) > 0 && h.r.chance(35)
	var pre []preLock
	twinMode := ""
	if h.tw != nil {
		for _, c := range h.cfgs {
			st, _ := h.ctl.VerifGroupState(c.Name)
			pre = append(pre, preLock{st.LockTimeSet, st.LockTimeNs, int64(c.ScaleUpCoolDownPeriodDuration())})
		}
		twinMode = h.twinPrepare(sec)
	}
	h.rec.reset()
	for k, v := range faults {
		h.rec.FailAt[k] = v
	}
	for k, v := range failDesc {
		h.rec.FailDesc[k] = v
	}
	h.rec.Conflict = conflict
	// a refused GET may instead be a real 404: the node object vanished between the listing and the GET
	h.rec.Vanish = !h.scripted && !conflict && h.tw == nil && len(faults) > 0 && h.r.chance(30)
	// listing failures: the informer-backed lister of one group fails once (pods or nodes)
	h.podL.failGroup, h.podL.failed = map[int]bool{}, map[int]bool{}
	h.nodeL.failGroup, h.nodeL.failed = map[int]bool{}, map[int]bool{}
	listFailGroup := -1
	if !h.scripted && h.tw == nil && h.r.chance(6) {
		listFailGroup = h.r.intn(len(h.cfgs))
		if h.r.chance(50) {
			h.podL.failGroup[listFailGroup] = true
		} else {
			h.nodeL.failGroup[listFailGroup] = true
		}
	}
	h.rec.AwsCode = h.r.pick("", "Throttling", "Throttling", "RequestLimitExceeded", "ExpiredToken", "ValidationError", "ThrottlingException")
	// informer caches hand out shared objects: the controller must treat them as read-only
	snapNodes := make([]*v1.Node, len(h.nodeL.nodes))
	for i, n := range h.nodeL.nodes {
		snapNodes[i] = n.DeepCopy()
	}
	snapPods := make([]*v1.Pod, len(h.podL.pods))
	for i, p := range h.podL.pods {
		snapPods[i] = p.DeepCopy()
	}
	// instances terminated in earlier scans leave the cloud group's listing one by one
	if !h.scripted {
		h.aws.linger = true
		for _, g := range h.aws.asgs {
			var still []SimInst
			for _, in := range g.Leaving {
				if h.r.chance(50) {
					still = append(still, in)
				}
			}
			g.Leaving = still
		}
	}
	// what the cloud really holds when the scan starts ("the group's current desired size", its bounds and members)
	cloud := []PAsg{}
	{
		names := []string{}
		for n, g := range h.aws.asgs {
			if !g.Gone {
				names = append(names, n)
			}
		}
		sort.Strings(names)
		for _, n := range names {
			cloud = append(cloud, h.aws.protoAsg(h.aws.asgs[n]))
		}
	}
	h.buildErr = nil
	var runErr error
	stallReset()
	outcome := protect(func() error { runErr = h.ctl.RunOnce(); return runErr })
	if stalled() {
		// the machine stalled while the scan ran; if the scan waited on the fleet readiness ticker (it polled instance statuses),
		// the number of polls that fit into the timeout is not the implementation's doing: play another history
		for _, e := range h.rec.Entries {
			if m, ok := e.Call.(map[string]interface{}); ok {
				if _, polled := m["describeStatus"]; polled {
					return outcome, errStalled
				}
			}
		}
	}
	if outcome == "fatal:rebuild-failed" || outcome == "fatal:group-missing" {
		// a generic error from RunOnce is classified by what the harness knows about the world, not by its text
		missing := false
		for _, c := range h.cfgs {
			if g, ok := h.aws.asgs[c.CloudProviderGroupName]; !ok || g.Gone {
				missing = true
			}
		}
		switch {
		case h.buildErr != nil:
			outcome = "fatal:rebuild-failed"
		case missing:
			outcome = "fatal:group-missing"
		default:
			outcome = "fatal:unexpected"
		}
	}
	if outcome == "fatal:unexpected" {
		// RunOnce returned an error that is neither not-in-group, nor a missing cloud group, nor a failed provider rebuild
		msg := runErr.Error()
		if len(msg) > 80 {
			msg = msg[:80]
		}
		outcome = "fatal:unexpected:" + msg
	}
	if time.Now().Unix() != sec {
		// the scan straddled a second boundary (slow scans: fleet waits, rebuild sleeps). That only matters
		// if it stamped a taint with a later second than the one the model is told about.
		secStr := fmt.Sprint(sec)
		for _, obj := range h.k8s.store {
			for _, t := range obj.Spec.Taints {
				if t.Key == escKey && t.Value != secStr {
					if v, err := strconv.ParseInt(t.Value, 10, 64); err == nil && v > sec && v <= sec+30 {
						return outcome, errStraddle
					}
				}
			}
		}
		// … a stamp the API server refused is still part of the recorded UPDATE the model is compared with
		for _, e := range h.rec.Entries {
			if m, ok := e.Call.(map[string]interface{}); ok {
				if u, ok := m["updateNode"].(map[string]interface{}); ok {
					if obj, ok := u["obj"].(PNode); ok {
						for _, t := range obj.Taints {
							if t.Key == escKey && t.Value != secStr {
								if v, err := strconv.ParseInt(t.Value, 10, 64); err == nil && v > sec && v <= sec+30 {
									return outcome, errStraddle
								}
							}
						}
					}
				}
			}
		}
	}
	h.ctl.VerifQuantise(frozen, frozen)
	mutated := []string{}
	for i, n := range h.nodeL.nodes {
		if !apiequality.Semantic.DeepEqual(n, snapNodes[i]) {
			what := "node/" + snapNodes[i].Name
			if !apiequality.Semantic.DeepEqual(n.Spec.Taints, snapNodes[i].Spec.Taints) {
				what += ":taints" // the next scan will classify this node by taints the API server never accepted (or already removed)
			}
			mutated = append(mutated, what)
		}
	}
	for i, p := range h.podL.pods {
		if !apiequality.Semantic.DeepEqual(p, snapPods[i]) {
			mutated = append(mutated, "pod/"+snapPods[i].Name)
		}
	}
	// what each group's own listers (the objects the controller uses) return now
	lists := []PObsList{}
	if outcome == "ok" && h.ctl.Client != nil {
		h.podL.quiet = true
		h.nodeL.quiet = true
		for _, c := range h.cfgs {
			l, ok := h.ctl.Client.Listers[c.Name]
			if !ok || l == nil {
				continue
			}
			ol := PObsList{Name: c.Name, Pods: []string{}, Nodes: []string{}}
			func() {
				defer func() { recover() }()
				ps, _ := l.Pods.List()
				for _, p := range ps {
					ol.Pods = append(ol.Pods, p.Namespace+"/"+p.Name)
				}
				ns, _ := l.Nodes.List()
				for _, n := range ns {
					ol.Nodes = append(ol.Nodes, n.Name)
				}
			}()
			sort.Strings(ol.Pods)
			sort.Strings(ol.Nodes)
			lists = append(lists, ol)
		}
		h.podL.quiet = false
		h.nodeL.quiet = false
	}
	var twin interface{}
	if h.tw != nil {
		t := h.tw.t
		if d := h.twinRun(sec, frozen, faults, failDesc, outcome, pre, twinMode, conflict); len(d) > 0 {
			twin = map[string]interface{}{"t": h.cfgs[t].Name, "mode": twinMode, "diffs": d}
		}
	}

	// absorb the API store
	var kept []*WNode
	for _, n := range h.api {
		if obj, ok := h.k8s.store[n.Name]; ok {
			n.absorb(obj, sec)
			kept = append(kept, n)
		} else if !h.scripted && len(h.goneNames) < 8 {
			h.goneNames = append(h.goneNames, n.Name)
		}
	}
	h.api = kept

	// split the journal
	obs := PObsScan{Outcome: outcome, Pre: []PEntry{}, Recs: []PObsRec{}, States: []PObsState{}}
	marks := h.rec.Marks
	end := len(h.rec.Entries)
	if len(marks) > 0 {
		obs.Pre = nnEntries(h.rec.Entries[:marks[0]])
	} else {
		obs.Pre = nnEntries(h.rec.Entries)
	}
	for i, m := range marks {
		e := end
		if i+1 < len(marks) {
			e = marks[i+1]
		}
		name := "?"
		if i < len(h.cfgs) {
			name = h.cfgs[i].Name
		}
		st, _ := h.ctl.VerifGroupState(name)
		obs.Recs = append(obs.Recs, PObsRec{Name: name, J: nnEntries(h.rec.Entries[m:e]), Delta: int64(st.ScaleDelta)})
	}
	for i := range obs.Recs {
		if i >= len(hints) {
			break
		}
		seen := []string{}
		for _, e := range obs.Recs[i].J {
			if m, ok := e.Call.(map[string]interface{}); ok {
				if g, ok := m["getNode"].(map[string]interface{}); ok {
					seen = append(seen, fmt.Sprint(g["name"]))
				}
			}
		}
		ph := hints[i][1].(PHints)
		reorder := func(base []int, nodes []*v1.Node) []int {
			out, used := []int{}, map[int]bool{}
			for _, nm := range seen {
				for idx, n := range nodes {
					if n.Name == nm && !used[idx] {
						out = append(out, idx)
						used[idx] = true
					}
				}
			}
			for _, idx := range base {
				if !used[idx] {
					out = append(out, idx)
				}
			}
			return out
		}
		ph.Old = nnInts(reorder(ph.Old, hintLists[i][0]))
		ph.New = nnInts(reorder(ph.New, hintLists[i][1]))
		hints[i][1] = ph
	}
	for _, c := range h.cfgs {
		st, _ := h.ctl.VerifGroupState(c.Name)
		ps := PObsState{Name: c.Name, IsLocked: st.IsLocked, Requested: int64(st.Requested), ScaleDelta: int64(st.ScaleDelta),
			CachedCPU: st.CachedCPUMilli, CachedMem: st.CachedMemMilli, TaintTracker: nn(st.TaintTracker), ForceTaintTracker: nn(st.ForceTaintTracker),
			MinEff: int64(st.MinNodes), MaxEff: int64(st.MaxNodes)}
		if st.LockTimeSet {
			v := st.LockTimeNs
			ps.LockTime = &v
		}
		if st.LastScaleOutSet {
			v := st.LastScaleOutNs
			ps.LastScaleOut = &v
		}
		obs.States = append(obs.States, ps)
	}
	desc := h.rec.Desc
	if desc == nil {
		desc = [][2]interface{}{}
	}
	line := map[string]interface{}{
		"op": "scan", "nowMock": sec * 1_000_000_000, "nowReal": frozen.UnixNano(), "pods": ppods, "nodes": pnodes,
		"hints": hints, "resps": nnResps(h.rec.Resps), "desc": desc, "obs": obs,
	}
	if twin != nil {
		line["twin"] = twin
	}
	line["lists"] = lists
	line["mutated"] = mutated
	line["cloud"] = cloud
	listfail := []string{}
	if listFailGroup >= 0 && (h.podL.failed[listFailGroup] || h.nodeL.failed[listFailGroup]) {
		listfail = append(listfail, h.cfgs[listFailGroup].Name)
	}
	line["listfail"] = listfail
	h.emit(line)
	return outcome, nil
}

func nnInts(x []int) []int {
	if x == nil {
		return []int{}
	}
	return x
}

func (h *Hist) syncListers() {
	h.listed = nil
	for _, n := range h.api {
		h.listed = append(h.listed, n.clone())
	}
	// lister order is arbitrary
	p := h.r.perm(len(h.listed))
	out := make([]*WNode, len(h.listed))
	for i, j := range p {
		out[i] = h.listed[j]
	}
	h.listed = out
	h.listedP = nil
	for _, j := range h.r.perm(len(h.pods)) {
		h.listedP = append(h.listedP, h.pods[j])
	}
}

func setupLogging() {
	log.SetOutput(io.Discard)
	log.SetLevel(log.PanicLevel)
	log.StandardLogger().ExitFunc = func(code int) { panic(fatalExit{code}) }
}

func sortedKeys(m map[string]int) []string {
	k := make([]string, 0, len(m))
	for s := range m {
		k = append(k, s)
	}
	sort.Strings(k)
	return k
}
