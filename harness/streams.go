package main

// Direct-call streams: arith, taintops, filters, resources, awsops.

import (
	"bytes"
	"encoding/json"
	"fmt"
	"io"
	"math"
	"os"
	"strconv"
	"strings"
	"time"

	"github.com/atlassian/escalator/pkg/cloudprovider"
	"github.com/atlassian/escalator/pkg/cloudprovider/aws"
	"github.com/atlassian/escalator/pkg/controller"
	"github.com/atlassian/escalator/pkg/k8s"
	v1 "k8s.io/api/core/v1"
	metav1 "k8s.io/apimachinery/pkg/apis/meta/v1"
)

func emitLine(w io.Writer, v interface{}) {
	b, err := json.Marshal(v)
	if err != nil {
		panic(err)
	}
	w.Write(b)
	w.Write([]byte("\n"))
}

// ---------------------------------------------------------------------------------------------
// arith: calcPercentUsage + calcScaleUpDelta through the hooks, compared bit for bit.

func fbits(f float64) string { return strconv.FormatUint(math.Float64bits(f), 10) }

func arithCase(w io.Writer, cpuReq, memReq, cpuCap, memCap, n, cachedCPU, cachedMem int64, T int) {
	obs := map[string]interface{}{}
	var c, m float64
	var err error
	func() {
		defer func() {
			if p := recover(); p != nil {
				obs["panic"] = fmt.Sprint(p)
			}
		}()
		c, m, err = controller.VerifCalcPercentUsage(cpuReq, memReq, cpuCap, memCap, n)
		switch {
		case err != nil:
			obs["pct"] = "err"
		case c == math.MaxFloat64 || m == math.MaxFloat64:
			obs["pct"] = "sentinel"
		default:
			obs["pct"] = "vals"
			obs["cpuBits"] = fbits(c)
			obs["memBits"] = fbits(m)
		}
		if err == nil {
			d, derr := controller.VerifCalcScaleUpDelta(int(n), c, m, cpuReq, memReq, cachedCPU, cachedMem, T)
			obs["delta"] = d
			obs["derr"] = derr != nil
		}
	}()
	emitLine(w, map[string]interface{}{"op": "arith", "cpuReq": cpuReq, "memReq": memReq, "cpuCap": cpuCap, "memCap": memCap, "n": n,
		"cachedCPU": cachedCPU, "cachedMem": cachedMem, "T": T, "obs": obs})
}

// runArithFile replays stored inputs (corpus of past findings) through the real functions.
func runArithFile(path string, w io.Writer, stats map[string]int) {
	b, err := os.ReadFile(path)
	if err != nil {
		return
	}
	for _, line := range strings.Split(string(b), "\n") {
		line = strings.TrimSpace(line)
		if line == "" || strings.HasPrefix(line, "#") {
			continue
		}
		var c struct {
			CPUReq, MemReq, CPUCap, MemCap, N, CachedCPU, CachedMem int64
			T                                                       int
		}
		if err := json.Unmarshal([]byte(line), &c); err != nil {
			panic(err)
		}
		arithCase(w, c.CPUReq, c.MemReq, c.CPUCap, c.MemCap, c.N, c.CachedCPU, c.CachedMem, c.T)
		stats["arith:corpus"]++
	}
}

func runArith(r *Rng, n int, w io.Writer, stats map[string]int) {
	sizes := []int64{1000, 2000, 3900, 4000, 8000, 16000, 64000, 96000}
	mems := []int64{4 * GiB, 8 * GiB, 15 * GiB, 16 * GiB, 61 * GiB, 256 * GiB, 1000 * 1000 * 1000, 3840 * 1024 * 1024}
	for i := 0; i < n; i++ {
		T := r.pickI(1, 10, 30, 50, 70, 70, 80, 90, 100, 150, r.rng(1, 120))
		nodes := int64(r.pickI(0, 1, 1, 2, 3, 5, 8, 13, 40, 200, r.rng(1, 60)))
		cpu := sizes[r.intn(len(sizes))]
		mem := mems[r.intn(len(mems))] * 1000 // milli-bytes
		cpuCap, memCap := nodes*cpu, nodes*mem
		var cpuReq, memReq int64
		switch r.intn(6) {
		case 0: // around k * s*T/100 for CPU: the exact boundary of needing k nodes
			k := int64(r.rng(0, 3*int(nodes)+3))
			cpuReq = k*cpu*int64(T)/100 + int64(r.rng(-2, 2))
			memReq = int64(r.intn(100)) * memCap / 100
		case 1: // same for memory (whole bytes)
			k := int64(r.rng(0, 3*int(nodes)+3))
			memReq = (k*(mem/1000)*int64(T)/100 + int64(r.rng(-2, 2))) * 1000
			cpuReq = int64(r.intn(100)) * cpuCap / 100
		case 2: // thresholds of the bands
			cpuReq = cpuCap*int64(r.rng(0, 120))/100 + int64(r.rng(-1, 1))
			memReq = memCap * int64(r.rng(0, 120)) / 100
		case 3:
			cpuReq = int64(r.u64() % uint64(cpuCap*3+1))
			memReq = int64(r.u64()%uint64(memCap/1000*3+1)) * 1000
		case 4: // zeros
			cpuReq = int64(r.pickI(0, 0, 1))
			memReq = int64(r.pickI(0, 0, 1000))
		default:
			cpuReq = int64(r.u64() % (1 << 40))
			memReq = int64(r.u64()%(1<<50)) * 1000
		}
		if cpuReq < 0 {
			cpuReq = 0
		}
		if memReq < 0 {
			memReq = 0
		}
		cachedCPU, cachedMem := cpu, mem
		if r.chance(15) {
			cachedCPU, cachedMem = 0, 0
		}
		if r.chance(3) {
			cpuCap = 0 // capacity zero with nodes present: the error branch
		}
		arithCase(w, cpuReq, memReq, cpuCap, memCap, nodes, cachedCPU, cachedMem, T)
		stats["arith"]++
	}
}

// ---------------------------------------------------------------------------------------------
// taintops: AddToBeRemovedTaint / DeleteToBeRemovedTaint / GetToBeRemovedTime on generated nodes.

func genOddNode(r *Rng, name string) *WNode {
	n := &WNode{Name: name, ProviderID: providerID("az-a", "i-"+name), Labels: map[string]string{"grp": "v0"}, Annotations: map[string]string{},
		CreatedAgo: int64(r.intn(10000)), AllocCPU: 4000, AllocMem: 16 * GiB, Extra: "10.1.0.0/24"}
	if r.chance(30) {
		n.Annotations["a"] = r.pick("1", "", "x")
	}
	n.Unschedulable = r.chance(12)
	if r.chance(6) {
		n.ProviderID = r.pick("", "garbage")
	}
	if r.chance(20) {
		n.Labels["zone"] = "z"
	}
	nt := r.pickI(0, 0, 1, 2, 3, 5)
	for i := 0; i < nt; i++ {
		switch r.intn(5) {
		case 0:
			t := WTaint{Key: escKey, Effect: r.pick("NoSchedule", "NoExecute", "PreferNoSchedule", "")}
			if r.chance(60) {
				t.Rel, t.Ago = true, int64(r.pickI(0, 1, 60, 3600, -50))
			} else {
				t.Raw = r.pick("", "abc", "12x", "+5", "-3", " 7", "7 ", "99999999999999999999", "9223372036854775807", "-9223372036854775808",
					"-9223372036854775809", "9223372036854775808", "1_000", "0", "00012", "+", "-", "+-1", "1.5", "0x10", "1e3", "٣", "１２")
			}
			n.Taints = append(n.Taints, t)
		case 1:
			n.Taints = append(n.Taints, WTaint{Key: forceKey, Effect: "NoSchedule", Raw: "f"})
		default:
			n.Taints = append(n.Taints, WTaint{Key: r.pick("foreign/a", "foreign/b", "node.kubernetes.io/unreachable", escKey+"-nodegroup", escKey+"x", "atlassian.com/escalato", forceKey+"d"), Effect: r.pick("NoSchedule", "NoExecute"), Raw: r.pick("", "1", "v")})
		}
	}
	return n
}

func runTaintOps(r *Rng, n int, w io.Writer, stats map[string]int) {
	rec := &Recorder{}
	rec.reset()
	ks := newK8sSim(rec)
	for i := 0; i < n; i++ {
		wn := genOddNode(r, fmt.Sprintf("t%d", i))
		// wait for a quiet spot in the second so that time.Now().Unix() is stable
		for time.Now().Nanosecond() > 900_000_000 {
			time.Sleep(20 * time.Millisecond)
		}
		sec := time.Now().Unix()
		viewObj := wn.materialise(sec)
		// the API copy may differ from the view (stale cache): taints changed meanwhile
		api := wn.clone()
		if r.chance(35) {
			switch r.intn(5) {
			case 0:
				api.Taints = append(api.Taints, WTaint{Key: escKey, Effect: "NoSchedule", Rel: true, Ago: 5})
			case 1:
				var keep []WTaint
				for _, t := range api.Taints {
					if t.Key != escKey {
						keep = append(keep, t)
					}
				}
				api.Taints = keep
			case 2:
				api.Labels["late"] = "label"
			case 3:
				api.Unschedulable = !api.Unschedulable // cordoned (or uncordoned) since the cache saw it
			default:
				api.Annotations[noDeleteKey] = r.pick("true", "keep") // put under protection since the cache saw it
			}
		}
		ks.store = map[string]*v1.Node{}
		if !r.chance(5) {
			ks.store[api.Name] = api.materialise(sec)
		}
		rec.reset()
		if r.chance(20) {
			rec.FailAt[r.intn(2)] = true
			rec.Conflict = r.chance(50) // the failing UPDATE is a 409: the taints were rewritten behind our back
		}
		kind := r.pick("add", "add", "delete", "delete", "time")
		effect := r.pick("", "", "NoSchedule", "NoExecute", "PreferNoSchedule")
		obs := map[string]interface{}{}
		func() {
			defer func() {
				if p := recover(); p != nil {
					obs["panic"] = fmt.Sprint(p)
				}
			}()
			switch kind {
			case "add":
				_, err := k8s.AddToBeRemovedTaint(viewObj, ks, v1.TaintEffect(effect))
				obs["ok"] = err == nil
			case "delete":
				_, err := k8s.DeleteToBeRemovedTaint(viewObj, ks)
				obs["ok"] = err == nil
			case "time":
				t, err := k8s.GetToBeRemovedTime(viewObj)
				switch {
				case err != nil:
					obs["time"] = "err"
				case t == nil:
					obs["time"] = "none"
				default:
					obs["time"] = strconv.FormatInt(t.Unix(), 10)
					// age as the reaper computes it, against a fixed "now"
					obs["ageNs"] = strconv.FormatInt(int64(time.Unix(sec, 0).Sub(*t)), 10)
				}
			}
		}()
		if time.Now().Unix() != sec {
			i--
			continue
		}
		obs["j"] = nnEntries(rec.Entries)
		emitLine(w, map[string]interface{}{"op": "taintop", "kind": kind, "effect": effect, "nowSec": sec, "node": protoNode(viewObj),
			"resps": nnResps(rec.Resps), "obs": obs})
		stats["taintop:"+kind]++
	}
}

// ---------------------------------------------------------------------------------------------
// filters: exhaustive small-scope enumeration of pod shapes and node label maps.

func runFilters(w io.Writer, stats map[string]int) {
	key, val := "grp", "v"
	selectors := []map[string]string{nil, {}, {"other": "v"}, {key: "w"}, {key: val}, {key: val, "other": "x"}, {key: ""}}
	ops := []v1.NodeSelectorOperator{v1.NodeSelectorOpIn, v1.NodeSelectorOpNotIn, v1.NodeSelectorOpExists, v1.NodeSelectorOpDoesNotExist, v1.NodeSelectorOpGt}
	// expressions
	var exprs []v1.NodeSelectorRequirement
	for _, k := range []string{key, "other"} {
		for _, op := range ops {
			for _, vals := range [][]string{nil, {val}, {"w"}, {"w", val}} {
				exprs = append(exprs, v1.NodeSelectorRequirement{Key: k, Operator: op, Values: vals})
			}
		}
	}
	// terms: 0..2 expressions; required: nil, 0..2 terms
	var terms []v1.NodeSelectorTerm
	terms = append(terms, v1.NodeSelectorTerm{})
	for i := range exprs {
		terms = append(terms, v1.NodeSelectorTerm{MatchExpressions: []v1.NodeSelectorRequirement{exprs[i]}})
	}
	for i := 0; i < len(exprs); i += 3 {
		for j := 1; j < len(exprs); j += 7 {
			terms = append(terms, v1.NodeSelectorTerm{MatchExpressions: []v1.NodeSelectorRequirement{exprs[i], exprs[j]}})
		}
	}
	var affs []*v1.Affinity
	affs = append(affs, nil, &v1.Affinity{}, &v1.Affinity{NodeAffinity: &v1.NodeAffinity{}},
		&v1.Affinity{PodAffinity: &v1.PodAffinity{}}, &v1.Affinity{PodAntiAffinity: &v1.PodAntiAffinity{}},
		&v1.Affinity{NodeAffinity: &v1.NodeAffinity{RequiredDuringSchedulingIgnoredDuringExecution: &v1.NodeSelector{}}})
	for i := range terms {
		affs = append(affs, &v1.Affinity{NodeAffinity: &v1.NodeAffinity{RequiredDuringSchedulingIgnoredDuringExecution: &v1.NodeSelector{NodeSelectorTerms: []v1.NodeSelectorTerm{terms[i]}}}})
	}
	for i := 0; i < len(terms); i += 2 {
		for j := 1; j < len(terms); j += 9 {
			affs = append(affs, &v1.Affinity{NodeAffinity: &v1.NodeAffinity{RequiredDuringSchedulingIgnoredDuringExecution: &v1.NodeSelector{NodeSelectorTerms: []v1.NodeSelectorTerm{terms[i], terms[j]}}},
				PodAntiAffinity: &v1.PodAntiAffinity{}})
		}
	}
	owners := [][]string{nil, {"ReplicaSet"}, {"DaemonSet"}, {"ReplicaSet", "DaemonSet"}, {"Job"}}
	annos := []map[string]string{nil, {"kubernetes.io/config.source": "file"}, {"kubernetes.io/config.source": "api"}, {"x": "file"}}
	// every ordered pair of expressions on the group's own key, once inside one term and once as two alternative terms
	// (In next to NotIn on the same value, the same expression twice, ...): with a reduced set of owners and annotations
	var pairAffs []*v1.Affinity
	for i := range exprs {
		for j := range exprs {
			if exprs[i].Key != key || exprs[j].Key != key {
				continue
			}
			pairAffs = append(pairAffs,
				&v1.Affinity{NodeAffinity: &v1.NodeAffinity{RequiredDuringSchedulingIgnoredDuringExecution: &v1.NodeSelector{NodeSelectorTerms: []v1.NodeSelectorTerm{
					{MatchExpressions: []v1.NodeSelectorRequirement{exprs[i], exprs[j]}}}}}},
				&v1.Affinity{NodeAffinity: &v1.NodeAffinity{RequiredDuringSchedulingIgnoredDuringExecution: &v1.NodeSelector{NodeSelectorTerms: []v1.NodeSelectorTerm{
					{MatchExpressions: []v1.NodeSelectorRequirement{exprs[i]}}, {MatchExpressions: []v1.NodeSelectorRequirement{exprs[j]}}}}}})
		}
	}
	// ... and every expression on the key next to a term without expressions (empty, or match fields only), in both orders
	for i := range exprs {
		if exprs[i].Key != key {
			continue
		}
		for _, blank := range []v1.NodeSelectorTerm{{}, {MatchFields: []v1.NodeSelectorRequirement{{Key: "metadata.name", Operator: v1.NodeSelectorOpIn, Values: []string{"x"}}}}} {
			one := v1.NodeSelectorTerm{MatchExpressions: []v1.NodeSelectorRequirement{exprs[i]}}
			pairAffs = append(pairAffs,
				&v1.Affinity{NodeAffinity: &v1.NodeAffinity{RequiredDuringSchedulingIgnoredDuringExecution: &v1.NodeSelector{NodeSelectorTerms: []v1.NodeSelectorTerm{one, blank}}}},
				&v1.Affinity{NodeAffinity: &v1.NodeAffinity{RequiredDuringSchedulingIgnoredDuringExecution: &v1.NodeSelector{NodeSelectorTerms: []v1.NodeSelectorTerm{blank, one}}}},
				&v1.Affinity{NodeAffinity: &v1.NodeAffinity{RequiredDuringSchedulingIgnoredDuringExecution: &v1.NodeSelector{NodeSelectorTerms: []v1.NodeSelectorTerm{blank, one, blank}}}})
		}
	}
	affFilter := controller.NewPodAffinityFilterFunc(key, val)
	defFilter := controller.NewPodDefaultFilterFunc()
	for _, sel := range selectors {
		for _, aff := range pairAffs {
			for _, own := range [][]string{nil, {"DaemonSet"}} {
				for _, an := range []map[string]string{nil, {"kubernetes.io/config.source": "file"}} {
					p := &WPod{Name: "p", NS: "ns", NodeSelector: sel, Affinity: aff, OwnerKinds: own, Annotations: an, Phase: "Running"}
					pod := p.materialise()
					obs := map[string]interface{}{}
					func() {
						defer func() {
							if pn := recover(); pn != nil {
								obs["panic"] = fmt.Sprint(pn)
							}
						}()
						obs["affinity"] = affFilter(pod)
						obs["default"] = defFilter(pod)
					}()
					emitLine(w, map[string]interface{}{"op": "filter", "key": key, "value": val, "pod": protoPod(pod), "obs": obs})
					stats["filter:pod-pairs"]++
				}
			}
		}
	}
	for _, sel := range selectors {
		for _, aff := range affs {
			for _, own := range owners {
				for _, an := range annos {
					p := &WPod{Name: "p", NS: "ns", NodeSelector: sel, Affinity: aff, OwnerKinds: own, Annotations: an, Phase: "Running"}
					pod := p.materialise()
					obs := map[string]interface{}{}
					func() {
						defer func() {
							if pn := recover(); pn != nil {
								obs["panic"] = fmt.Sprint(pn)
							}
						}()
						obs["affinity"] = affFilter(pod)
						obs["default"] = defFilter(pod)
					}()
					emitLine(w, map[string]interface{}{"op": "filter", "key": key, "value": val, "pod": protoPod(pod), "obs": obs})
					stats["filter:pod"]++
				}
			}
		}
	}
	nodeFilter := controller.NewNodeLabelFilterFunc(key, val)
	for _, lm := range []map[string]string{nil, {}, {key: val}, {key: "w"}, {"other": val}, {key: val, "other": "w"}, {key: ""}, {key: "w", "other": val}, {"grp2": val}} {
		n := &v1.Node{ObjectMeta: metav1.ObjectMeta{Name: "n", Labels: lm}}
		emitLine(w, map[string]interface{}{"op": "nodefilter", "key": key, "value": val, "node": protoNode(n), "obs": map[string]interface{}{"match": nodeFilter(n)}})
		stats["filter:node"]++
	}
}

// ---------------------------------------------------------------------------------------------
// resources: request/capacity calculators on generated pods and nodes, in several orders.

func runResources(r *Rng, n int, w io.Writer, stats map[string]int) {
	for i := 0; i < n; i++ {
		quantityForms = i%2 == 1
		h := &Hist{r: r, stats: stats}
		np, nn := r.rng(0, 7), r.rng(0, 6)
		switch {
		case i%400 == 199: // a long-lived, busy cluster: thousands of pods, hundreds of nodes
			np, nn = r.pickI(501, 1000, 4001, 4100, 9000), r.pickI(6, 120, 600)
		case i%50 == 25:
			np, nn = r.rng(30, 300), r.rng(10, 60)
		}
		var pods []*v1.Pod
		var nodes []*v1.Node
		for k := 0; k < nn; k++ {
			wn := &WNode{Name: fmt.Sprintf("n%d", k), Labels: map[string]string{}, Annotations: map[string]string{}, AllocCPU: int64(r.pickI(0, 500, 1000, 4000, 3900)), AllocMem: int64(r.pickI(0, 1, 4, 16)) * GiB, NoAlloc: r.chance(10)}
			nodes = append(nodes, wn.materialise(1000))
		}
		for k := 0; k < np; k++ {
			h.podSeq++
			p := &WPod{Name: fmt.Sprintf("p%d", k), NS: "ns", Phase: r.pick("Running", "Running", "Pending", "Succeeded", "Failed"), Annotations: map[string]string{}}
			nc := r.rng(0, 3)
			for c := 0; c < nc; c++ {
				p.Containers = append(p.Containers, [2]int64{int64(r.pickI(0, 0, 100, 250, 1000, 1500)), int64(r.pickI(0, 0, 1<<20, 1<<30, 3<<29))})
			}
			ni := r.pickI(0, 0, 1, 2)
			for c := 0; c < ni; c++ {
				p.Init = append(p.Init, [2]int64{int64(r.pickI(0, 100, 2000, 5000)), int64(r.pickI(0, 1<<20, 1<<31))})
			}
			if r.chance(25) {
				p.Overhead = &[2]int64{int64(r.pickI(0, 50, 100)), int64(r.pickI(0, 1<<20))}
			}
			if r.chance(70) && nn > 0 {
				p.NodeName = fmt.Sprintf("n%d", r.intn(nn+1))
			}
			switch r.intn(3) {
			case 0:
				t := true
				p.Scheduled = &t
			case 1:
				f := false
				p.Scheduled = &f
			}
			pods = append(pods, p.materialise())
		}
		var first map[string]interface{}
		for perm := 0; perm < 2; perm++ {
			pp := make([]*v1.Pod, len(pods))
			for a, b := range r.perm(len(pods)) {
				pp[a] = pods[b]
			}
			np2 := make([]*v1.Node, len(nodes))
			for a, b := range r.perm(len(nodes)) {
				np2[a] = nodes[b]
			}
			obs := map[string]interface{}{}
			func() {
				defer func() {
					if pn := recover(); pn != nil {
						obs["panic"] = fmt.Sprint(pn)
					}
				}()
				pu, _ := k8s.CalculatePodsRequestedUsage(pp)
				nc, _ := k8s.CalculateNodesCapacity(np2, pp)
				obs["podTotal"] = PRes{pu.Total.MilliCPU, pu.Total.Memory}
				obs["lpMem"] = PRes{pu.LargestPendingMemory.MilliCPU, pu.LargestPendingMemory.Memory}
				obs["lpCPU"] = PRes{pu.LargestPendingCPU.MilliCPU, pu.LargestPendingCPU.Memory}
				obs["capTotal"] = PRes{nc.Total.MilliCPU, nc.Total.Memory}
				obs["laMem"] = PRes{nc.LargestAvailableMemory.MilliCPU, nc.LargestAvailableMemory.Memory}
				obs["laCPU"] = PRes{nc.LargestAvailableCPU.MilliCPU, nc.LargestAvailableCPU.Memory}
				info := k8s.CreateNodeNameToInfoMap(pp, np2)
				em := [][2]interface{}{}
				for _, nd := range np2 {
					cnt, ok := k8s.NodePodsRemaining(nd, info)
					em = append(em, [2]interface{}{nd.Name, []interface{}{cnt, []interface{}{ok, k8s.NodeEmpty(nd, info)}}})
				}
				obs["remaining"] = em
			}()
			if perm == 0 {
				first = obs
			} else {
				eq := true
				for _, k := range []string{"podTotal", "capTotal"} {
					eq = eq && fmt.Sprint(first[k]) == fmt.Sprint(obs[k])
				}
				// the starve-test inputs: leading component of each largest-* record
				lead := func(o map[string]interface{}) string {
					a, _ := o["lpCPU"].(PRes)
					b, _ := o["lpMem"].(PRes)
					c, _ := o["laCPU"].(PRes)
					d, _ := o["laMem"].(PRes)
					return fmt.Sprint(a.CPU, b.Mem, c.CPU, d.Mem)
				}
				eq = eq && lead(first) == lead(obs)
				obs["permEqual"] = eq
			}
			ppods := []PPod{}
			for _, p := range pp {
				ppods = append(ppods, protoPod(p))
			}
			pnodes := []PNode{}
			for _, nd := range np2 {
				pnodes = append(pnodes, protoNode(nd))
			}
			emitLine(w, map[string]interface{}{"op": "resources", "pods": ppods, "nodes": pnodes, "obs": obs, "group": i})
			stats["resources"]++
		}
	}
	quantityForms = false
}

// ---------------------------------------------------------------------------------------------
// awsops: NodeGroup.IncreaseSize / DeleteNodes on the real provider over the simulated AWS.

type awsOpGen struct {
	r   *Rng
	rec *Recorder
	sim *AwsSim
}

func runAwsOps(root *Rng, n int, fleet bool, w io.Writer, stats map[string]int) {
	// cases are independent; fleet cases each cost seconds of real ticker time, so run them concurrently
	lines := make([][]byte, n)
	kinds := make([]string, n)
	sem := make(chan struct{}, 16)
	done := make(chan struct{}, n)
	for i := 0; i < n; i++ {
		r := root.fork()
		i := i
		sem <- struct{}{}
		go func() {
			defer func() { <-sem; done <- struct{}{} }()
			var buf bytes.Buffer
			kinds[i] = awsOpCase(r, fleet, &buf)
			lines[i] = buf.Bytes()
		}()
		if !fleet {
			<-done // sequential (cheap) unless fleet
			done <- struct{}{}
		}
	}
	for i := 0; i < n; i++ {
		<-done
	}
	for i := 0; i < n; i++ {
		w.Write(lines[i])
		stats["awsop:"+kinds[i]]++
	}
}

// deleteLine calls the real DeleteNodes and emits the observation (used for follow-up operations of a sequence).
func deleteLine(w io.Writer, ng cloudprovider.NodeGroup, rec *Recorder, pcfg PAwsCfg, pg map[string]interface{}, nodes []*v1.Node, seq int) {
	pnodes := []PNode{}
	for _, nd := range nodes {
		pnodes = append(pnodes, protoNode(nd))
	}
	var derr error
	o := map[string]interface{}{}
	outcome := protect(func() error { derr = ng.DeleteNodes(nodes...); return nil })
	switch {
	case outcome != "ok":
		o["outcome"] = outcome
	case derr == nil:
		o["outcome"] = "none"
	default:
		if _, ok := derr.(*cloudprovider.NodeNotInNodeGroup); ok {
			o["outcome"] = "notInGroup"
		} else {
			o["outcome"] = "error"
		}
	}
	o["targetAfter"] = ng.TargetSize()
	o["j"] = nnEntries(rec.Entries)
	emitLine(w, map[string]interface{}{"op": "awsop", "kind": "delete", "cfg": pcfg, "g": pg, "nodes": pnodes, "seq": seq,
		"resps": nnResps(rec.Resps), "obs": o})
}

func awsOpCase(r *Rng, fleet bool, w io.Writer) string {
	{
		rec := &Recorder{}
		rec.reset()
		rec.AwsCode = r.pick("", "", "Throttling", "RequestLimitExceeded", "ExpiredToken", "ValidationError")
		sim := newAwsSim(rec)
		min := int64(r.rng(0, 4))
		nInst := r.rng(0, 8)
		g := &SimASG{Name: "asg0", Min: min, Max: min + int64(r.rng(1, 12)), VpcZones: r.pick("subnet-a", "subnet-a,subnet-b", "subnet-a,subnet-b,subnet-c", ""), Tagged: r.chance(30)}
		for k := 0; k < nInst; k++ {
			g.Instances = append(g.Instances, SimInst{fmt.Sprintf("i-%03d", k), r.pick("az-a", "az-b")})
		}
		g.Desired = int64(nInst) + int64(r.pickI(0, 0, 0, 1, -1))
		if g.Desired < g.Min {
			g.Desired = g.Min
		}
		if g.Desired > g.Max {
			g.Max = g.Desired
		}
		sim.asgs[g.Name] = g
		cfg := cloudprovider.NodeGroupConfig{Name: "g0", GroupID: "asg0"}
		cfg.AWSConfig.Lifecycle = r.pick("", "", "on-demand", "spot") // read by the fleet path only; must not matter anywhere else
		kind := r.pick("increase", "delete", "delete")
		// fleet mode: now and then several scale-ups in a row on the same node group, most of them failing (the provider
		// counts consecutive failures and gives up at the third)
		fleetSeq := fleet && r.chance(30)
		if fleet {
			kind = "increase"
			cfg.AWSConfig.LaunchTemplateID = "lt-1"
			cfg.AWSConfig.LaunchTemplateVersion = r.pick("1", "$Latest")
			cfg.AWSConfig.Lifecycle = r.pick("", "on-demand", "spot")
			if r.chance(50) {
				cfg.AWSConfig.InstanceTypeOverrides = []string{"m5.large", "c5.large"}[:r.rng(1, 2)]
			}
			cfg.AWSConfig.ResourceTagging = r.chance(30)
			cfg.AWSConfig.FleetInstanceReadyTimeout = time.Duration(r.pickI(1500, 2500, 3500)) * time.Millisecond
		}
		prov, err := aws.VerifNewCloudProvider(sim, sim.ec2, cfg)
		if err != nil {
			panic(err)
		}
		ng, _ := prov.GetNodeGroup("asg0")
		pg := map[string]interface{}{"id": "asg0", "asg": sim.protoAsg(g), "tries": 0}
		pcfg := PAwsCfg{LaunchTemplateID: cfg.AWSConfig.LaunchTemplateID, LaunchTemplateVersion: cfg.AWSConfig.LaunchTemplateVersion,
			ReadyTicks: int(cfg.AWSConfig.FleetInstanceReadyTimeout / time.Second), Lifecycle: cfg.AWSConfig.Lifecycle,
			InstanceTypeOverrides: nn(cfg.AWSConfig.InstanceTypeOverrides), ResourceTagging: cfg.AWSConfig.ResourceTagging}
		// the real world may have moved on since the refresh
		if r.chance(20) && kind == "delete" && g.Desired > g.Min {
			g.Desired--
		}
		rec.reset()
		nf := r.pickI(0, 0, 0, 1, 1, 2)
		for f := 0; f < nf; f++ {
			rec.FailAt[r.intn(8)] = true
		}
		obs := map[string]interface{}{}
		line := map[string]interface{}{"op": "awsop", "kind": kind, "cfg": pcfg, "g": pg}
		switch kind {
		case "increase":
			var delta int64
			headroom := g.Max - g.Desired
			switch r.intn(6) {
			case 0:
				delta = int64(r.pickI(0, -1, -5))
			case 1:
				delta = headroom + int64(r.pickI(1, 2))
			case 2:
				delta = headroom
			default:
				if headroom > 0 {
					delta = int64(r.rng(1, int(headroom)))
				} else {
					delta = 1
				}
			}
			if fleet {
				// sizes around the batch boundaries
				delta = int64(r.pickI(1, 2, 19, 20, 21, 39, 40, 41, 59, 60, 61, 100))
				// now and then a fleet large enough that its orphans need several TerminateInstances batches
				big := r.chance(8)
				if big {
					delta = int64(r.pickI(1001, 1021, 1999, 2000, 2001, 2500))
				}
				g.Max = g.Desired + delta + int64(r.pickI(0, 0, 5, -1))
				if fleetSeq {
					g.Max = g.Desired + delta + int64(r.pickI(3, 25, 45, 300)) // room for the follow-up requests
				}
				rec.reset()
				prov.Refresh()
				pg["asg"] = sim.protoAsg(g)
				rec.reset()
				for f := 0; f < nf; f++ {
					rec.FailAt[r.intn(int(delta)/20+6)] = true
				}
				sim.ec2.fleetSplit = r.pickI(1, 1, 2, 3)
				sim.ec2.fleetMode = r.pick("ok", "ok", "ok", "ok", "some+err", "none+err", "none", "short+err", "short+err")
				sim.ec2.statusOmit = r.pickI(0, 0, 0, 1, 3)
				sim.ec2.notReady = map[int]bool{}
				switch r.intn(5) {
				case 0:
					sim.ec2.notReady[0] = true
				case 1:
					for t := 0; t < 5; t++ {
						sim.ec2.notReady[t] = true
					}
				}
				if !big && r.chance(40) {
					// aim at one particular AttachInstances call: the first, the last (the remainder batch) or any
					nb := (int(delta) + 19) / 20
					status := 1
					if sim.ec2.notReady[0] && !sim.ec2.notReady[1] {
						status = 2
					}
					k := r.pickI(0, nb-1, nb-1, r.intn(nb))
					rec.FailAt = map[int]bool{1 + status + k: true}
					if r.chance(30) {
						rec.FailAt[1+status+k+1] = true // and the clean-up call that follows
					}
				}
				if big {
					// ready at the first poll (calls: 0 CreateFleet, 1 DescribeInstanceStatus, 2.. AttachInstances); the k-th attach
					// call fails, so all later batches are orphaned; one of the terminate batches that follow may fail too
					sim.ec2.fleetMode = "ok"
					sim.ec2.notReady = map[int]bool{}
					k := r.rng(0, 3)
					rec.FailAt = map[int]bool{2 + k: true}
					switch r.intn(4) {
					case 0:
						rec.FailAt[3+k] = true
					case 1:
						rec.FailAt[4+k] = true
					case 2:
						rec.FailAt[3+k], rec.FailAt[4+k] = true, true
					}
				}
			}
			line["delta"] = delta
			stallReset()
			outcome := protect(func() error { return ng.IncreaseSize(delta) })
			obs["outcome"] = outcome
			if fleet && stalled() {
				line["stalled"] = true

			}
		case "delete":
			var nodes []*v1.Node
			var pnodes []PNode
			cnt := r.rng(0, 4)
			for k := 0; k < cnt; k++ {
				var pid string
				switch r.intn(6) {
				case 0:
					pid = providerID("az-z", fmt.Sprintf("i-x%02d", k)) // foreign
				case 1:
					pid = r.pick("", "garbage", "aws:///az-a")
				default:
					if len(g.Instances) > 0 {
						in := g.Instances[r.intn(len(g.Instances))]
						pid = providerID(in.AZ, in.ID)
					} else {
						pid = providerID("az-a", "i-none")
					}
				}
				nd := &v1.Node{ObjectMeta: metav1.ObjectMeta{Name: fmt.Sprintf("d%d", k)}, Spec: v1.NodeSpec{ProviderID: pid}}
				nodes = append(nodes, nd)
				pnodes = append(pnodes, protoNode(nd))
			}
			if pnodes == nil {
				pnodes = []PNode{}
			}
			line["nodes"] = pnodes
			var derr error
			outcome := protect(func() error { derr = ng.DeleteNodes(nodes...); return nil })
			switch {
			case outcome != "ok":
				obs["outcome"] = outcome
			case derr == nil:
				obs["outcome"] = "none"
			default:
				if _, ok := derr.(*cloudprovider.NodeNotInNodeGroup); ok {
					obs["outcome"] = "notInGroup"
				} else {
					obs["outcome"] = "error"
				}
			}
			obs["targetAfter"] = ng.TargetSize()
		}
		obs["j"] = nnEntries(rec.Entries)
		line["resps"] = nnResps(rec.Resps)
		line["obs"] = obs
		line["seq"] = 0
		emitLine(w, line)
		if fleetSeq {
			toBound := false
			for seq := 1; seq <= 4; seq++ {
				if o, _ := obs["outcome"].(string); o == "fatal:fleet-strikes" {
					break
				}
				rec.reset()
				if !toBound && r.chance(35) && len(g.Instances) > 0 {
					// a removal first — AWS may reject the termination — and then a request that goes right up to the cloud maximum
					if r.chance(50) {
						rec.FailAt[r.intn(2)] = true
					}
					// one node, or a batch of two or three (every accepted termination lowers the desired size by exactly one)
					var batch []*v1.Node
					for _, ix := range r.perm(len(g.Instances)) {
						if len(batch) >= r.pickI(1, 1, 2, 3) {
							break
						}
						in := g.Instances[ix]
						batch = append(batch, &v1.Node{ObjectMeta: metav1.ObjectMeta{Name: fmt.Sprintf("fs%d-%d", seq, len(batch))}, Spec: v1.NodeSpec{ProviderID: providerID(in.AZ, in.ID)}})
					}
					deleteLine(w, ng, rec, pcfg, pg, batch, seq)
					toBound = true
					continue
				}
				sim.ec2.fleetMode = "ok"
				sim.ec2.fleetSplit = r.pickI(1, 2)
				sim.ec2.notReady = map[int]bool{}
				d2 := int64(r.pickI(1, 2, 21, 41))
				if toBound {
					// what the controller's clamp would ask for: everything up to the maximum, as the provider reports it
					if room := ng.MaxSize() - ng.TargetSize(); room > 0 {
						d2 = room
					}
					toBound = false
				}
				if r.chance(80) {
					rec.FailAt[2+r.intn(2)] = true // an AttachInstances call fails (calls: 0 CreateFleet, 1 status, 2.. attach)
					if d2 <= 20 {
						rec.FailAt[2] = true
					}
				}
				if r.chance(20) {
					rec.FailAt[3+r.intn(2)] = true // and perhaps the clean-up as well
				}
				stallReset()
				outcome := protect(func() error { return ng.IncreaseSize(d2) })
				obs = map[string]interface{}{"outcome": outcome, "j": nnEntries(rec.Entries)}
				l2 := map[string]interface{}{"op": "awsop", "kind": "increase", "cfg": pcfg, "g": pg, "delta": d2, "seq": seq,
					"resps": nnResps(rec.Resps), "obs": obs}
				if fleet && stalled() {
					l2["stalled"] = true

				}
				emitLine(w, l2)
			}
		}
		// follow-up operations on the SAME provider object, without a refresh in between: the provider's cached
		// group must keep describing what AWS last told it plus what AWS accepted since (the model carries the
		// cached group across the sequence). Increases and deletions, faults at any call of the follow-up.
		if !fleet && r.chance(45) {
			for seq := 1; seq <= r.pickI(1, 2, 3); seq++ {
				rec.reset()
				for f := r.pickI(0, 0, 1, 1, 2); f > 0; f-- {
					rec.FailAt[r.intn(4)] = true
				}
				if r.chance(50) {
					delta := int64(r.rng(1, 3))
					outcome := protect(func() error { return ng.IncreaseSize(delta) })
					emitLine(w, map[string]interface{}{"op": "awsop", "kind": "increase", "cfg": pcfg, "g": pg, "delta": delta, "seq": seq,
						"resps": nnResps(rec.Resps), "obs": map[string]interface{}{"outcome": outcome, "j": nnEntries(rec.Entries)}})
					continue
				}
				var nodes []*v1.Node
				pnodes := []PNode{}
				for k, cnt := 0, r.rng(1, 3); k < cnt && len(g.Instances) > 0; k++ {
					in := g.Instances[r.intn(len(g.Instances))]
					pid := providerID(in.AZ, in.ID)
					if r.chance(8) {
						pid = providerID("az-z", fmt.Sprintf("i-y%02d", k)) // foreign
					}
					nd := &v1.Node{ObjectMeta: metav1.ObjectMeta{Name: fmt.Sprintf("s%dd%d", seq, k)}, Spec: v1.NodeSpec{ProviderID: pid}}
					nodes = append(nodes, nd)
					pnodes = append(pnodes, protoNode(nd))
				}
				var derr error
				o := map[string]interface{}{}
				outcome := protect(func() error { derr = ng.DeleteNodes(nodes...); return nil })
				switch {
				case outcome != "ok":
					o["outcome"] = outcome
				case derr == nil:
					o["outcome"] = "none"
				default:
					if _, ok := derr.(*cloudprovider.NodeNotInNodeGroup); ok {
						o["outcome"] = "notInGroup"
					} else {
						o["outcome"] = "error"
					}
				}
				o["targetAfter"] = ng.TargetSize()
				o["j"] = nnEntries(rec.Entries)
				emitLine(w, map[string]interface{}{"op": "awsop", "kind": "delete", "cfg": pcfg, "g": pg, "nodes": pnodes, "seq": seq,
					"resps": nnResps(rec.Resps), "obs": o})
			}
		}
		return kind
	}
}
