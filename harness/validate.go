package main

// validate / decode streams (C16): the real ValidateNodeGroup on a grid of configurations, and the
// real UnmarshalNodeGroupOptions on YAML and JSON renderings of every option key.

import (
	"context"
	"encoding/json"
	"fmt"
	"io"
	"os"
	"os/exec"
	"reflect"
	"strings"
	"time"

	"github.com/atlassian/escalator/pkg/controller"
	v1 "k8s.io/api/core/v1"
)

type PRawCfg struct {
	Name             string `json:"name"`
	LabelKey         string `json:"labelKey"`
	LabelValue       string `json:"labelValue"`
	CloudGroup       string `json:"cloudGroup"`
	MinNodes         int64  `json:"minNodes"`
	MaxNodes         int64  `json:"maxNodes"`
	Upper            int64  `json:"upper"`
	Lower            int64  `json:"lower"`
	ScaleUp          int64  `json:"scaleUp"`
	Slow             int64  `json:"slow"`
	Fast             int64  `json:"fast"`
	SoftStr          string `json:"softStr"`
	HardStr          string `json:"hardStr"`
	CoolStr          string `json:"coolStr"`
	SoftNs           int64  `json:"softNs"`
	HardNs           int64  `json:"hardNs"`
	CoolNs           int64  `json:"coolNs"`
	MaxAgeNs         int64  `json:"maxAgeNs"`
	TaintEffect      string `json:"taintEffect"`
	Lifecycle        string `json:"lifecycle"`
	MaxNodeAge       string `json:"maxNodeAge"`
	MaxNodeAgeParses bool   `json:"maxNodeAgeParses"`
}

func rawOf(o controller.NodeGroupOptions) PRawCfg {
	_, perr := time.ParseDuration(o.MaxNodeAge)
	return PRawCfg{
		Name: o.Name, LabelKey: o.LabelKey, LabelValue: o.LabelValue, CloudGroup: o.CloudProviderGroupName,
		MinNodes: int64(o.MinNodes), MaxNodes: int64(o.MaxNodes),
		Upper: int64(o.TaintUpperCapacityThresholdPercent), Lower: int64(o.TaintLowerCapacityThresholdPercent), ScaleUp: int64(o.ScaleUpThresholdPercent),
		Slow: int64(o.SlowNodeRemovalRate), Fast: int64(o.FastNodeRemovalRate),
		SoftStr: o.SoftDeleteGracePeriod, HardStr: o.HardDeleteGracePeriod, CoolStr: o.ScaleUpCoolDownPeriod,
		// durations as the option strings say (0 when a string does not parse, which is what the accessors document);
		// what the accessors themselves return is observed next to it (accessorNs) and must be the same
		SoftNs: durNs(o.SoftDeleteGracePeriod), HardNs: durNs(o.HardDeleteGracePeriod),
		CoolNs: durNs(o.ScaleUpCoolDownPeriod), MaxAgeNs: durNs(o.MaxNodeAge),
		TaintEffect: string(o.TaintEffect), Lifecycle: o.AWS.Lifecycle, MaxNodeAge: o.MaxNodeAge,
		MaxNodeAgeParses: o.MaxNodeAge == "" || perr == nil,
	}
}

func validateCase(w io.Writer, o controller.NodeGroupOptions, stats map[string]int) {
	raw := rawOf(o)
	obs := map[string]interface{}{}
	func() {
		defer func() {
			if p := recover(); p != nil {
				obs["panic"] = fmt.Sprint(p)
			}
		}()
		c := o // the accessors cache into the struct: work on a copy
		obs["accessorNs"] = []int64{int64(c.SoftDeleteGracePeriodDuration()), int64(c.HardDeleteGracePeriodDuration()),
			int64(c.ScaleUpCoolDownPeriodDuration()), int64(c.MaxNodeAgeDuration())}
		errs := controller.ValidateNodeGroup(o)
		obs["problems"] = len(errs)
		msgs := []string{}
		for _, e := range errs {
			msgs = append(msgs, e.Error())
		}
		obs["messages"] = msgs
	}()
	emitLine(w, map[string]interface{}{"op": "validate", "cfg": raw, "obs": obs})
	if n, _ := obs["problems"].(int); n == 0 {
		stats["validate:accepted"]++
	} else {
		stats["validate:rejected"]++
	}
}

func baseOpts() controller.NodeGroupOptions {
	return controller.NodeGroupOptions{
		Name: "g", LabelKey: "k", LabelValue: "v", CloudProviderGroupName: "asg",
		MinNodes: 1, MaxNodes: 10, TaintLowerCapacityThresholdPercent: 20, TaintUpperCapacityThresholdPercent: 40, ScaleUpThresholdPercent: 70,
		SlowNodeRemovalRate: 1, FastNodeRemovalRate: 2, SoftDeleteGracePeriod: "1m", HardDeleteGracePeriod: "10m", ScaleUpCoolDownPeriod: "2m",
	}
}

func runValidate(r *Rng, n int, w io.Writer, stats map[string]int) {
	durs := []string{"", "0", "1m", "-1m", "1", "abc", "1h", "10m", "-10m", "2562047h", "1m30s", "0s", "1ns", "-1ns", "-500ms", "1500ms", "-0.25s"}
	ints := []int{-2, -1, 0, 1, 2, 40, 70}
	// (a) one-at-a-time and pairwise perturbations of a valid base: bounded-exhaustive
	b := baseOpts()
	validateCase(w, b, stats)
	for _, lo := range ints {
		for _, up := range ints {
			for _, su := range ints {
				o := b
				o.TaintLowerCapacityThresholdPercent, o.TaintUpperCapacityThresholdPercent, o.ScaleUpThresholdPercent = lo, up, su
				validateCase(w, o, stats)
			}
		}
	}
	for _, s := range []int{-3, -2, -1, 0, 1, 2, 3} {
		for _, f := range []int{-3, -2, -1, 0, 1, 2, 3} {
			o := b
			o.SlowNodeRemovalRate, o.FastNodeRemovalRate = s, f
			validateCase(w, o, stats)
		}
	}
	for _, mn := range []int{-2, -1, 0, 1, 2, 3} {
		for _, mx := range []int{-2, -1, 0, 1, 2, 3} {
			o := b
			o.MinNodes, o.MaxNodes = mn, mx
			validateCase(w, o, stats)
		}
	}
	for _, so := range durs {
		for _, ha := range durs {
			o := b
			o.SoftDeleteGracePeriod, o.HardDeleteGracePeriod = so, ha
			validateCase(w, o, stats)
		}
	}
	for _, c := range durs {
		for _, ma := range durs {
			o := b
			o.ScaleUpCoolDownPeriod, o.MaxNodeAge = c, ma
			validateCase(w, o, stats)
		}
	}
	for _, e := range []string{"", "NoSchedule", "NoExecute", "PreferNoSchedule", "noschedule", "NOEXECUTE", "NoSchedule ", "Bogus", " "} {
		for _, l := range []string{"", "on-demand", "spot", "Spot", "SPOT", "On-Demand", "on-demand ", "ondemand", "on_demand", " "} {
			o := b
			o.TaintEffect = v1.TaintEffect(e)
			o.AWS.Lifecycle = l
			validateCase(w, o, stats)
		}
	}
	for _, f := range []func(o *controller.NodeGroupOptions){
		func(o *controller.NodeGroupOptions) { o.Name = "" }, func(o *controller.NodeGroupOptions) { o.LabelKey = "" },
		func(o *controller.NodeGroupOptions) { o.LabelValue = "" }, func(o *controller.NodeGroupOptions) { o.CloudProviderGroupName = "" },
	} {
		o := b
		f(&o)
		validateCase(w, o, stats)
	}
	// (b) random combinations
	for i := 0; i < n; i++ {
		o := b
		pi := func() int { return ints[r.intn(len(ints))] }
		pd := func() string { return durs[r.intn(len(durs))] }
		if r.chance(40) {
			o.TaintLowerCapacityThresholdPercent, o.TaintUpperCapacityThresholdPercent, o.ScaleUpThresholdPercent = pi(), pi(), pi()
		}
		if r.chance(40) {
			o.SlowNodeRemovalRate, o.FastNodeRemovalRate = r.rng(-3, 3), r.rng(-3, 3)
		}
		if r.chance(40) {
			o.MinNodes, o.MaxNodes = r.rng(-2, 3), r.rng(-2, 3)
		}
		if r.chance(40) {
			o.SoftDeleteGracePeriod, o.HardDeleteGracePeriod = pd(), pd()
		}
		if r.chance(30) {
			o.ScaleUpCoolDownPeriod = pd()
		}
		if r.chance(30) {
			o.MaxNodeAge = pd()
		}
		if r.chance(20) {
			o.TaintEffect = v1.TaintEffect(r.pick("", "NoSchedule", "NoExecute", "PreferNoSchedule", "Bogus"))
		}
		if r.chance(20) {
			o.AWS.Lifecycle = r.pick("", "on-demand", "spot", "bogus")
		}
		if r.chance(10) {
			o.Name = ""
		}
		validateCase(w, o, stats)
	}
}

// decode: every option key, written as YAML and as JSON, through the real decoder.
func runDecode(w io.Writer, stats map[string]int) {
	type kv struct {
		key, yamlVal, jsonVal string
		aws                   bool
	}
	keys := []kv{
		{"name", "\"nm\"", "\"nm\"", false}, {"label_key", "lk", "\"lk\"", false}, {"label_value", "lv", "\"lv\"", false},
		{"cloud_provider_group_name", "cg", "\"cg\"", false}, {"min_nodes", "3", "3", false}, {"max_nodes", "7", "7", false},
		{"dry_mode", "true", "true", false}, {"scale_on_starve", "true", "true", false},
		{"taint_upper_capacity_threshold_percent", "41", "41", false}, {"taint_lower_capacity_threshold_percent", "11", "11", false},
		{"scale_up_threshold_percent", "71", "71", false}, {"slow_node_removal_rate", "2", "2", false}, {"fast_node_removal_rate", "5", "5", false},
		{"soft_delete_grace_period", "1m", "\"1m\"", false}, {"hard_delete_grace_period", "10m", "\"10m\"", false},
		{"scale_up_cool_down_period", "2m", "\"2m\"", false}, {"scale_up_cool_down_timeout", "10m", "\"10m\"", false},
		{"taint_effect", "NoExecute", "\"NoExecute\"", false}, {"max_node_age", "24h", "\"24h\"", false},
		{"fleet_instance_ready_timeout", "1m", "\"1m\"", true}, {"launch_template_id", "lt-1", "\"lt-1\"", true},
		{"launch_template_version", "\"1\"", "\"1\"", true}, {"lifecycle", "spot", "\"spot\"", true},
		{"instance_type_overrides", "[\"t2.large\", \"t3.large\"]", "[\"t2.large\", \"t3.large\"]", true}, {"resource_tagging", "true", "true", true},
	}
	zero := controller.NodeGroupOptions{}
	for _, k := range keys {
		var y, j string
		if k.aws {
			y = fmt.Sprintf("node_groups:\n  - aws:\n      %s: %s\n", k.key, k.yamlVal)
			j = fmt.Sprintf("{\"node_groups\":[{\"aws\":{%q: %s}}]}", k.key, k.jsonVal)
		} else {
			y = fmt.Sprintf("node_groups:\n  - %s: %s\n", k.key, k.yamlVal)
			j = fmt.Sprintf("{\"node_groups\":[{%q: %s}]}", k.key, k.jsonVal)
		}
		oy, ey := controller.UnmarshalNodeGroupOptions(strings.NewReader(y))
		oj, ej := controller.UnmarshalNodeGroupOptions(strings.NewReader(j))
		obs := map[string]interface{}{"yamlErr": ey != nil, "jsonErr": ej != nil}
		same := ey == nil && ej == nil && len(oy) == 1 && len(oj) == 1 && reflect.DeepEqual(oy[0], oj[0])
		obs["same"] = same
		honoured := same && !reflect.DeepEqual(oy[0], zero)
		obs["honoured"] = honoured
		// which field did it land in?
		field := ""
		if honoured {
			vy := reflect.ValueOf(oy[0])
			vz := reflect.ValueOf(zero)
			for i := 0; i < vy.NumField(); i++ {
				if !vy.Type().Field(i).IsExported() {
					continue
				}
				if !reflect.DeepEqual(vy.Field(i).Interface(), vz.Field(i).Interface()) {
					field = vy.Type().Field(i).Name
					if field == "AWS" {
						va, za := vy.Field(i), vz.Field(i)
						for q := 0; q < va.NumField(); q++ {
							if va.Type().Field(q).IsExported() && !reflect.DeepEqual(va.Field(q).Interface(), za.Field(q).Interface()) {
								field = "AWS." + va.Type().Field(q).Name
							}
						}
					}
				}
			}
		}
		obs["field"] = field
		emitLine(w, map[string]interface{}{"op": "decode", "key": k.key, "aws": k.aws, "obs": obs})
		stats["decode"]++
	}
	// what a group decodes to must not depend on the groups written next to it: every key, set in one group of a file
	// whose other group sets almost nothing, in both orders, as YAML and as JSON
	alone := func(doc string) (controller.NodeGroupOptions, bool) {
		o, err := controller.UnmarshalNodeGroupOptions(strings.NewReader(doc))
		if err != nil || len(o) != 1 {
			return controller.NodeGroupOptions{}, false
		}
		return o[0], true
	}
	for _, k := range keys {
		for _, form := range []string{"yaml", "json"} {
			var rich, poor string // the two entries, in the form's syntax
			if form == "yaml" {
				if k.aws {
					rich = fmt.Sprintf("  - name: rich\n    aws:\n      %s: %s\n", k.key, k.yamlVal)
				} else if k.key == "name" {
					rich = fmt.Sprintf("  - name: %s\n", k.yamlVal)
				} else {
					rich = fmt.Sprintf("  - name: rich\n    %s: %s\n", k.key, k.yamlVal)
				}
				poor = "  - label_key: only\n    aws:\n      instance_type_overrides: [\"m5.xlarge\"]\n"
			} else {
				if k.aws {
					rich = fmt.Sprintf("{\"name\":\"rich\",\"aws\":{%q: %s}}", k.key, k.jsonVal)
				} else if k.key == "name" {
					rich = fmt.Sprintf("{\"name\": %s}", k.jsonVal)
				} else {
					rich = fmt.Sprintf("{\"name\":\"rich\",%q: %s}", k.key, k.jsonVal)
				}
				poor = "{\"label_key\":\"only\",\"aws\":{\"instance_type_overrides\":[\"m5.xlarge\"]}}"
			}
			wrap := func(entries ...string) string {
				if form == "yaml" {
					return "node_groups:\n" + strings.Join(entries, "")
				}
				return "{\"node_groups\":[" + strings.Join(entries, ",") + "]}"
			}
			r1, ok1 := alone(wrap(rich))
			p1, ok2 := alone(wrap(poor))
			independent := ok1 && ok2
			why := ""
			for _, order := range [][]string{{rich, poor}, {poor, rich}} {
				both, err := controller.UnmarshalNodeGroupOptions(strings.NewReader(wrap(order...)))
				if err != nil || len(both) != 2 {
					independent, why = false, "two-entry file does not decode to two groups"
					continue
				}
				a, b := both[0], both[1]
				if order[0] == poor {
					a, b = b, a
				}
				if !reflect.DeepEqual(a, r1) {
					independent, why = false, "the entry that sets the key decodes differently next to another entry"
				}
				if !reflect.DeepEqual(b, p1) {
					independent, why = false, "the entry that does not set the key decodes differently next to one that does"
				}
			}
			emitLine(w, map[string]interface{}{"op": "decode2", "key": k.key, "form": form, "obs": map[string]interface{}{"independent": independent, "why": why}})
			stats["decode2"]++
		}
	}
}

// ---------------------------------------------------------------------------------------------
// startup: the real binary (cmd/main.go) started on generated configuration files. It either refuses the file in
// setupNodeGroups or goes on to build the Kubernetes client, which fails on a kubeconfig path that does not exist —
// the marker in the output tells how far it got.

const kubeconfigMarker = "/nonexistent-verif-kubeconfig"

func runStartup(r *Rng, n int, bin string, w io.Writer, stats map[string]int) {
	dir, err := os.MkdirTemp("", "startup")
	if err != nil {
		panic(err)
	}
	defer os.RemoveAll(dir)
	spoil := []func(o *controller.NodeGroupOptions){
		func(o *controller.NodeGroupOptions) { o.MinNodes, o.MaxNodes = 5, 2 },
		func(o *controller.NodeGroupOptions) {
			o.TaintLowerCapacityThresholdPercent = o.TaintUpperCapacityThresholdPercent
		},
		func(o *controller.NodeGroupOptions) { o.SlowNodeRemovalRate, o.FastNodeRemovalRate = 3, 1 },
		func(o *controller.NodeGroupOptions) { o.SoftDeleteGracePeriod, o.HardDeleteGracePeriod = "10m", "1m" },
		func(o *controller.NodeGroupOptions) { o.ScaleUpCoolDownPeriod = "0" },
		func(o *controller.NodeGroupOptions) { o.TaintEffect = "Bogus" },
		func(o *controller.NodeGroupOptions) { o.AWS.Lifecycle = "bogus" },
		func(o *controller.NodeGroupOptions) { o.MaxNodeAge = "abc" },
		func(o *controller.NodeGroupOptions) { o.LabelKey = "" },
		func(o *controller.NodeGroupOptions) { o.ScaleUpThresholdPercent = 30 },
	}
	for i := 0; i < n; i++ {
		k := r.pickI(1, 1, 2, 2, 3, 4)
		var groups []controller.NodeGroupOptions
		for g := 0; g < k; g++ {
			o := baseOpts()
			o.Name = fmt.Sprintf("g%d", g)
			o.LabelValue = fmt.Sprintf("v%d", g)
			o.CloudProviderGroupName = fmt.Sprintf("asg%d", g)
			if r.chance(15) {
				o.MinNodes, o.MaxNodes = 0, 0
			}
			if r.chance(30) {
				spoil[r.intn(len(spoil))](&o)
			}
			if g > 0 && r.chance(35) {
				o.Name = groups[r.intn(len(groups))].Name // a copied block that was not renamed
			}
			groups = append(groups, o)
		}
		if r.chance(50) { // order matters for anything keyed by name
			for a, b := 0, len(groups)-1; a < b; a, b = a+1, b-1 {
				groups[a], groups[b] = groups[b], groups[a]
			}
		}
		b, err := json.Marshal(map[string]interface{}{"node_groups": groups})
		if err != nil {
			panic(err)
		}
		file := fmt.Sprintf("%s/ng%d.json", dir, i)
		if err := os.WriteFile(file, b, 0o644); err != nil {
			panic(err)
		}
		ctx, cancel := context.WithTimeout(context.Background(), 30*time.Second)
		out, _ := exec.CommandContext(ctx, bin, "--nodegroups", file, "--kubeconfig", kubeconfigMarker).CombinedOutput()
		cancel()
		accepted := strings.Contains(string(out), kubeconfigMarker)
		raws := []PRawCfg{}
		for _, o := range groups {
			raws = append(raws, rawOf(o))
		}
		emitLine(w, map[string]interface{}{"op": "startup", "cfgs": raws, "obs": map[string]interface{}{"accepted": accepted}})
		if accepted {
			stats["startup:accepted"]++
		} else {
			stats["startup:refused"]++
		}
	}
}
