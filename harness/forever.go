package main

// forever: the real Controller.RunForever (the loop around RunOnce that the history streams do not drive) over a quiet
// world — one empty node group, so that every scan is one refresh of the cloud provider and nothing else — with the cloud
// failing for a stretch of consecutive calls. One failed call is a refresh that fails and a rebuild that works (a transient
// failure: the loop must go on scanning); two in a row make the rebuild fail too, RunOnce returns the error and RunForever must
// hand it to its caller (the recorded finding T5 — the process exits) instead of going on with a provider it does not have.
// Observed: whether RunForever returned, panicked, or was still scanning when the case was stopped, and the number of scans.

import (
	"fmt"
	"io"
	"strings"
	"time"

	"github.com/atlassian/escalator/pkg/controller"
	"github.com/stephanos/clock"
)

func runForever(w io.Writer, stats map[string]int) {
	// kind "faults": the cloud fails for failCount calls from call failFrom on; kind "foreign": no fault, but a node that is due
	// for removal is not a member of the cloud group — RunOnce returns the not-in-group error and RunForever must return it
	type fcase struct {
		failFrom, failCount int
		foreign             bool
	}
	cases := []fcase{{1, 1, false}, {1, 2, false}, {0, 2, false}, {2, 2, false}, {0, 0, true}}
	results := make([]map[string]interface{}, len(cases))
	done := make(chan int, len(cases))
	// set-up is sequential (newHist installs its own mock clock in the package-level clock of the scale-down code): all cases
	// are built first, then ONE clock frozen at the current second is installed for all of them, then the loops run side by side
	hs := make([]*Hist, len(cases))
	sec := time.Now().Unix()
	for ci, fc := range cases {
		h := newHist(newRng(uint64(77+ci)), io.Discard)
		o := baseOpts()
		o.Name, o.LabelKey, o.LabelValue, o.CloudProviderGroupName = "g0", "grp", "v0", "asg0"
		o.MinNodes, o.MaxNodes = 0, 5
		h.cfgs = []controller.NodeGroupOptions{o}
		h.pcfgs = []PGroupCfg{protoCfg(o)}
		h.aws.asgs["asg0"] = &SimASG{Name: "asg0", Min: 0, Max: 5, VpcZones: "subnet-a"}
		h.scanInterval = 20 * time.Millisecond
		if fc.foreign {
			h.addNode(0, 4000, 16*GiB, 5000, true) // a member, so that the cloud group is above its minimum
			f := h.addNode(0, 4000, 16*GiB, 5000, false)
			f.Taints = append(f.Taints, WTaint{Key: escKey, Effect: "NoSchedule", Rel: true, Ago: 3600}) // long past both grace periods
			h.aws.asgs["asg0"].Desired = 1
		}
		h.syncOrdered()
		for _, n := range h.api {
			h.k8s.store[n.Name] = n.materialise(sec)
		}
		h.nodeL.nodes = nil
		for _, n := range h.listed {
			h.nodeL.nodes = append(h.nodeL.nodes, n.materialise(sec))
		}
		obs := map[string]interface{}{"outcome": "init-failed", "scans": 0}
		results[ci] = map[string]interface{}{"op": "forever", "failFrom": fc.failFrom, "failCount": fc.failCount, "foreign": fc.foreign, "obs": obs}
		if h.initController() {
			hs[ci] = h
		}
	}
	shared := clock.NewMock()
	shared.FreezeAt(time.Unix(sec, 0))
	clock.Work = shared
	for ci, fc := range cases {
		if hs[ci] == nil {
			done <- ci
			continue
		}
		go func(ci int, fc fcase, h *Hist) {
			defer func() { done <- ci }()
			obs := results[ci]["obs"].(map[string]interface{})
			h.rec.reset()
			for i := 0; i < fc.failCount; i++ {
				h.rec.FailAt[fc.failFrom+i] = true
			}
			ret := make(chan string, 1)
			go func() {
				defer func() {
					if p := recover(); p != nil {
						ret <- "panic:" + strings.SplitN(fmt.Sprint(p), "\n", 2)[0]
					}
				}()
				err := h.ctl.RunForever(true)
				ret <- "returned:" + fmt.Sprint(err)
			}()
			// a failed refresh costs RunOnce 5 s of sleep; give the loop time for that and for a few scans afterwards
			select {
			case r := <-ret:
				obs["outcome"] = r
			case <-time.After(12 * time.Second):
				obs["outcome"] = "running"
			}
			obs["scans"] = h.rec.n
		}(ci, fc, hs[ci])
	}
	for range cases {
		<-done
	}
	for _, r := range results {
		emitLine(w, r)
		stats["forever:"+strings.SplitN(r["obs"].(map[string]interface{})["outcome"].(string), ":", 2)[0]]++
	}
}
