package main

// `scenario` stream: scripted histories (JSON files under /verif/corpus). Used for the minimal
// witnesses of known findings, for regression witnesses of repaired defects, and for templates
// that need a specific multi-step sequence.

import (
	"encoding/json"
	"fmt"
	"io"
	"os"
	"path/filepath"
	"sort"
	"time"

	"github.com/atlassian/escalator/pkg/controller"
	v1 "k8s.io/api/core/v1"
)

type ScGroup struct {
	Name       string   `json:"name"`
	Min        int      `json:"min"`
	Max        int      `json:"max"`
	Dry        bool     `json:"dry"`
	Starve     bool     `json:"starve"`
	Lower      int      `json:"lower"`
	Upper      int      `json:"upper"`
	ScaleUp    int      `json:"scaleUp"`
	Slow       int      `json:"slow"`
	Fast       int      `json:"fast"`
	Soft       string   `json:"soft"`
	Hard       string   `json:"hard"`
	Cool       string   `json:"cool"`
	MaxAge     string   `json:"maxAge"`
	Effect     string   `json:"effect"`
	Template   string   `json:"template"` // launch template id: fleet mode
	ReadyTO    string   `json:"readyTimeout"`
	Lifecycle  string   `json:"lifecycle"`
	Types      []string `json:"types"`
	Tagging    bool     `json:"tagging"`
	AsgMin     int64    `json:"asgMin"`
	AsgMax     int64    `json:"asgMax"`
	AsgDesired *int64   `json:"asgDesired"`
}

type ScTaint struct {
	Key    string `json:"key"`
	Effect string `json:"effect"`
	Ago    *int64 `json:"ago"`
	Raw    string `json:"raw"`
}

type ScNode struct {
	Name        string            `json:"name"`
	Group       int               `json:"group"`
	Foreign     bool              `json:"foreign"`    // instance not in the group's ASG
	InGroupAsg  *int              `json:"inGroupAsg"` // instance registered in another group's ASG
	ProviderID  *string           `json:"providerID"`
	CreatedAgo  int64             `json:"createdAgo"`
	CPU         int64             `json:"cpu"`
	Mem         int64             `json:"mem"`
	Cordoned    bool              `json:"cordoned"`
	Taints      []ScTaint         `json:"taints"`
	Annotations map[string]string `json:"annotations"`
}

type ScPod struct {
	Name      string `json:"name"`
	Group     int    `json:"group"`
	Node      string `json:"node"`
	CPU       int64  `json:"cpu"`
	Mem       int64  `json:"mem"`
	Phase     string `json:"phase"`
	DaemonSet bool   `json:"daemonSet"`
}

type ScStep struct {
	Op       string   `json:"op"`
	Node     string   `json:"node"`
	NodeSpec *ScNode  `json:"nodeSpec"`
	PodSpec  *ScPod   `json:"podSpec"`
	Taint    *ScTaint `json:"taint"`
	Key      string   `json:"key"`
	Value    string   `json:"value"`
	D        string   `json:"d"`
	Group    int      `json:"group"`
	Min      *int64   `json:"min"`
	Max      *int64   `json:"max"`
	Desired  *int64   `json:"desired"`
	N        int      `json:"n"`
	Faults   []int    `json:"faults"`
	FailDesc []string `json:"failDesc"`
	Stale    bool     `json:"stale"`
	On       bool     `json:"on"`
	NotReady []int    `json:"notReady"`
	Fleet    string   `json:"fleet"`
}

type Scenario struct {
	Name      string    `json:"name"`
	Why       string    `json:"why"`
	GlobalDry bool      `json:"globalDry"`
	Groups    []ScGroup `json:"groups"`
	Nodes     []ScNode  `json:"nodes"`
	Pods      []ScPod   `json:"pods"`
	Steps     []ScStep  `json:"steps"`
}

func (h *Hist) scTaint(t ScTaint) WTaint {
	w := WTaint{Key: t.Key, Effect: t.Effect, Raw: t.Raw}
	if w.Effect == "" {
		w.Effect = "NoSchedule"
	}
	if t.Ago != nil {
		w.Rel, w.Ago = true, *t.Ago
	}
	return w
}

func (h *Hist) scAddNode(sn ScNode) {
	cpu, mem := sn.CPU, sn.Mem
	if cpu == 0 {
		cpu = 4000
	}
	if mem == 0 {
		mem = 16 * GiB
	}
	n := h.addNode(sn.Group, cpu, mem, sn.CreatedAgo, !sn.Foreign && sn.InGroupAsg == nil)
	if sn.Name != "" {
		n.Name = sn.Name
	}
	if sn.InGroupAsg != nil {
		g := h.aws.asgs[h.cfgs[*sn.InGroupAsg].CloudProviderGroupName]
		g.Instances = append(g.Instances, SimInst{instIDOfProviderID(n.ProviderID), "az-a"})
		n.ProviderID = providerID("az-a", instIDOfProviderID(n.ProviderID))
	}
	if sn.ProviderID != nil {
		n.ProviderID = *sn.ProviderID
	}
	n.Unschedulable = sn.Cordoned
	for _, t := range sn.Taints {
		n.Taints = append(n.Taints, h.scTaint(t))
	}
	for k, v := range sn.Annotations {
		n.Annotations[k] = v
	}
}

func (h *Hist) scAddPod(sp ScPod) {
	o := h.cfgs[sp.Group]
	h.podSeq++
	p := &WPod{Name: sp.Name, NS: "ns", Phase: sp.Phase, NodeName: sp.Node, Annotations: map[string]string{},
		Containers: [][2]int64{{sp.CPU, sp.Mem}}}
	if p.Name == "" {
		p.Name = fmt.Sprintf("p%d", h.podSeq)
	}
	if p.Phase == "" {
		p.Phase = "Running"
		if sp.Node == "" {
			p.Phase = "Pending"
		}
	}
	if o.Name != "default" {
		p.NodeSelector = map[string]string{"grp": o.LabelValue}
	}
	if sp.Node != "" {
		t := true
		p.Scheduled = &t
	}
	if sp.DaemonSet {
		p.OwnerKinds = []string{"DaemonSet"}
	}
	h.pods = append(h.pods, p)
}

func (h *Hist) findNode(name string) *WNode {
	for _, n := range h.api {
		if n.Name == name {
			return n
		}
	}
	return nil
}

func (h *Hist) runScenario(sc *Scenario) (bool, string) {
	h.globalDry = sc.GlobalDry
	for i, g := range sc.Groups {
		name := g.Name
		if name == "" {
			name = fmt.Sprintf("g%d", i)
		}
		def := func(s, d string) string {
			if s == "" {
				return d
			}
			return s
		}
		o := controller.NodeGroupOptions{
			Name: name, LabelKey: "grp", LabelValue: fmt.Sprintf("v%d", i), CloudProviderGroupName: fmt.Sprintf("asg%d", i),
			MinNodes: g.Min, MaxNodes: g.Max, DryMode: g.Dry, ScaleOnStarve: g.Starve,
			TaintLowerCapacityThresholdPercent: g.Lower, TaintUpperCapacityThresholdPercent: g.Upper, ScaleUpThresholdPercent: g.ScaleUp,
			SlowNodeRemovalRate: g.Slow, FastNodeRemovalRate: g.Fast,
			SoftDeleteGracePeriod: def(g.Soft, "1m"), HardDeleteGracePeriod: def(g.Hard, "10m"), ScaleUpCoolDownPeriod: def(g.Cool, "2m"),
			MaxNodeAge: g.MaxAge, TaintEffect: v1.TaintEffect(g.Effect),
		}
		if o.TaintLowerCapacityThresholdPercent == 0 {
			o.TaintLowerCapacityThresholdPercent, o.TaintUpperCapacityThresholdPercent, o.ScaleUpThresholdPercent = 20, 40, 70
		}
		o.AWS.LaunchTemplateID = g.Template
		if g.Template != "" {
			o.AWS.LaunchTemplateVersion = "1"
		}
		o.AWS.FleetInstanceReadyTimeout = g.ReadyTO
		o.AWS.Lifecycle = g.Lifecycle
		o.AWS.InstanceTypeOverrides = g.Types
		o.AWS.ResourceTagging = g.Tagging
		h.cfgs = append(h.cfgs, o)
		h.pcfgs = append(h.pcfgs, protoCfg(o))
		h.aws.asgs[o.CloudProviderGroupName] = &SimASG{Name: o.CloudProviderGroupName, Min: g.AsgMin, Max: g.AsgMax, VpcZones: "subnet-a,subnet-b"}
	}
	for _, n := range sc.Nodes {
		h.scAddNode(n)
	}
	for i, g := range sc.Groups {
		a := h.aws.asgs[h.cfgs[i].CloudProviderGroupName]
		a.Desired = int64(len(a.Instances))
		if g.AsgDesired != nil {
			a.Desired = *g.AsgDesired
		}
	}
	for _, p := range sc.Pods {
		h.scAddPod(p)
	}
	h.desc = "scenario:" + sc.Name
	h.syncOrdered()
	if !h.initController() {
		return true, "init-failed"
	}
	for _, st := range sc.Steps {
		switch st.Op {
		case "scan":
			if !st.Stale {
				h.syncOrdered()
			}
			faults := map[int]bool{}
			for _, f := range st.Faults {
				faults[f] = true
			}
			fd := map[string]bool{}
			for _, f := range st.FailDesc {
				fd[f] = true
			}
			h.aws.ec2.notReady = map[int]bool{}
			for _, t := range st.NotReady {
				h.aws.ec2.notReady[t] = true
			}
			if st.Fleet != "" {
				h.aws.ec2.fleetMode = st.Fleet
			}
			outcome, err := h.scan(faults, fd)
			if err != nil {
				return false, err.Error()
			}
			h.stats["outcome:"+outcome]++
			if outcome != "ok" && !h.initController() {
				return true, "reinit-failed"
			}
		case "shift":
			d, err := time.ParseDuration(st.D)
			if err != nil {
				panic(err)
			}
			h.shift(d)
		case "taint":
			h.findNode(st.Node).Taints = append(h.findNode(st.Node).Taints, h.scTaint(*st.Taint))
		case "untaint":
			n := h.findNode(st.Node)
			var keep []WTaint
			for _, t := range n.Taints {
				if t.Key != st.Key {
					keep = append(keep, t)
				}
			}
			n.Taints = keep
		case "cordon":
			h.findNode(st.Node).Unschedulable = st.On
		case "annotate":
			if st.On {
				h.findNode(st.Node).Annotations[st.Key] = st.Value
			} else {
				delete(h.findNode(st.Node).Annotations, st.Key)
			}
		case "addnode":
			h.scAddNode(*st.NodeSpec)
		case "addpod":
			h.scAddPod(*st.PodSpec)
		case "delpods":
			var keep []*WPod
			for _, p := range h.pods {
				if !(p.NodeName == st.Node || (st.Node == "" && p.NodeSelector["grp"] == h.cfgs[st.Group].LabelValue)) {
					keep = append(keep, p)
				}
			}
			h.pods = keep
		case "asg":
			a := h.aws.asgs[h.cfgs[st.Group].CloudProviderGroupName]
			if st.Min != nil {
				a.Min = *st.Min
			}
			if st.Max != nil {
				a.Max = *st.Max
			}
			if st.Desired != nil {
				a.Desired = *st.Desired
			}
		case "deliver":
			a := h.aws.asgs[h.cfgs[st.Group].CloudProviderGroupName]
			cpu, mem := h.groupNodeSize(st.Group)
			for i := 0; (st.N == 0 || i < st.N) && int64(len(a.Instances)) < a.Desired; i++ {
				h.addNode(st.Group, cpu, mem, 0, true)
			}
		case "restart":
			if !h.initController() {
				return true, "restart-failed"
			}
		default:
			panic("unknown scenario op " + st.Op)
		}
	}
	return true, ""
}

// syncOrdered: lister snapshots in API order (scenarios are deterministic)
func (h *Hist) syncOrdered() {
	h.listed = nil
	for _, n := range h.api {
		h.listed = append(h.listed, n.clone())
	}
	h.listedP = append([]*WPod{}, h.pods...)
}

func runScenarios(dir string, w io.Writer, stats map[string]int) {
	files, _ := filepath.Glob(filepath.Join(dir, "*.json"))
	sort.Strings(files)
	for i, f := range files {
		b, err := os.ReadFile(f)
		if err != nil {
			panic(err)
		}
		var sc Scenario
		if err := json.Unmarshal(b, &sc); err != nil {
			panic(fmt.Sprintf("%s: %v", f, err))
		}
		if sc.Name == "" {
			sc.Name = filepath.Base(f)
		}
		for attempt := 0; attempt < 5; attempt++ {
			fmt.Fprintf(w, "{\"op\":\"begin\",\"hist\":%d,\"scenario\":%q,\"attempt\":%d}\n", i, sc.Name, attempt)
			h := newHist(newRng(1), w)
			h.scripted = true
			ok, why := h.runScenario(&sc)
			for k, v := range h.stats {
				stats[k] += v
			}
			if ok {
				stats["scenarios"]++
				break
			}
			fmt.Fprintf(w, "{\"op\":\"abandon\",\"why\":%q}\n", why)
			stats["abandoned"]++
		}
	}
}
