package main

// Metamorphic twin for C12 (node groups are isolated): in multi-group histories a second controller is kept in
// lockstep with the first. Before every scan its world is a copy of the first one's, except that the pods (and
// sometimes the nodes) of ONE group t are changed. Whatever happens inside t, the calls made while processing
// every other group, and the controller state of every other group, must be identical in both runs.

import (
	"encoding/json"
	"fmt"
	"sort"
	"time"

	"github.com/atlassian/escalator/pkg/controller"
	v1 "k8s.io/api/core/v1"
)

type Twin struct {
	rec   *Recorder
	k8s   *K8sSim
	aws   *AwsSim
	podL  *podListerSim
	nodeL *nodeListerSim
	ctl   *controller.Controller
	t     int
}

var twinOn = false

func (a *AwsSim) copyFrom(o *AwsSim) {
	a.asgs = map[string]*SimASG{}
	for k, g := range o.asgs {
		c := *g
		c.Instances = append([]SimInst{}, g.Instances...)
		c.Leaving = append([]SimInst{}, g.Leaving...)
		a.asgs[k] = &c
	}
	a.linger = o.linger
	e, oe := a.ec2, o.ec2
	e.nextID, e.fleetSplit, e.fleetMode, e.tick, e.launch = oe.nextID, oe.fleetSplit, oe.fleetMode, oe.tick, oe.launch
	e.notReady = map[int]bool{}
	for k, v := range oe.notReady {
		e.notReady[k] = v
	}
	e.pending = map[string]bool{}
	for k, v := range oe.pending {
		e.pending[k] = v
	}
}

// initTwin builds the twin controller over a copy of the current cloud state. Called after a successful initController.
func (h *Hist) initTwin() {
	h.tw = nil
	if !twinOn || len(h.cfgs) < 2 {
		return
	}
	rec := &Recorder{}
	rec.reset()
	tw := &Twin{rec: rec, k8s: newK8sSim(rec), aws: newAwsSim(rec), podL: &podListerSim{rec: rec}, nodeL: &nodeListerSim{}, t: h.twinT}
	tw.aws.copyFrom(h.aws)
	shell := &Hist{cfgs: h.cfgs, aws: tw.aws}
	var ctl *controller.Controller
	outcome := protect(func() error {
		var err error
		ctl, err = controller.VerifNewController(controller.Opts{K8SClient: tw.k8s, NodeGroups: h.cfgs, CloudProviderBuilder: simBuilder{shell}, DryMode: h.globalDry, ScanInterval: h.scanInterval}, tw.podL, tw.nodeL)
		return err
	})
	if outcome != "ok" {
		return
	}
	tw.ctl = ctl
	h.tw = tw
}

// podInGroup: the world's notion of "pod selects group c" (the documented rule; DaemonSet pods select nothing).
func podInGroup(p *v1.Pod, c controller.NodeGroupOptions) bool {
	for _, o := range p.OwnerReferences {
		if o.Kind == "DaemonSet" {
			return false
		}
	}
	if c.Name == "default" {
		return len(p.Spec.NodeSelector) == 0 && p.Spec.Affinity == nil
	}
	if p.Spec.NodeSelector[c.LabelKey] == c.LabelValue {
		return true
	}
	if a := p.Spec.Affinity; a != nil && a.NodeAffinity != nil && a.NodeAffinity.RequiredDuringSchedulingIgnoredDuringExecution != nil {
		for _, t := range a.NodeAffinity.RequiredDuringSchedulingIgnoredDuringExecution.NodeSelectorTerms {
			for _, e := range t.MatchExpressions {
				if e.Key == c.LabelKey && e.Operator == v1.NodeSelectorOpIn {
					for _, v := range e.Values {
						if v == c.LabelValue {
							return true
						}
					}
				}
			}
		}
	}
	return false
}

type twinDiff struct {
	Group string      `json:"group"`
	What  string      `json:"what"`
	A     interface{} `json:"a"`
	B     interface{} `json:"b"`
}

type preLock struct {
	set  bool
	ns   int64
	cool int64
}

// twinPrepare copies the pre-scan world into the twin, with group t perturbed. Call before the main scan runs.
func (h *Hist) twinPrepare(sec int64) string {
	tw := h.tw
	tc := h.cfgs[tw.t]
	tw.aws.copyFrom(h.aws)
	tw.k8s.store = map[string]*v1.Node{}
	for _, n := range h.api {
		tw.k8s.store[n.Name] = n.materialise(sec)
	}
	mode := h.r.pick("drop", "double", "huge-pending", "halve", "rename")
	nodeMode := h.r.pick("", "", "", "bigger", "cordon")
	tw.nodeL.nodes = nil
	for _, n := range h.listed {
		obj := n.materialise(sec)
		if obj.Labels[tc.LabelKey] == tc.LabelValue {
			switch nodeMode {
			case "bigger":
				obj.Status.Allocatable = resList(n.AllocCPU*2, n.AllocMem*2)
			case "cordon":
				obj.Spec.Unschedulable = true
			}
		}
		tw.nodeL.nodes = append(tw.nodeL.nodes, obj)
	}
	tw.podL.pods = nil
	k := 0
	for _, p := range h.listedP {
		obj := p.materialise()
		mine := podInGroup(obj, tc)
		for i, c := range h.cfgs {
			if i != tw.t && podInGroup(obj, c) {
				mine = false // selects another group as well: leave it alone
			}
		}
		if !mine {
			tw.podL.pods = append(tw.podL.pods, obj)
			continue
		}
		k++
		switch mode {
		case "drop":
			continue
		case "double", "halve":
			q := *p
			q.Containers = nil
			for _, c := range p.Containers {
				if mode == "double" {
					q.Containers = append(q.Containers, [2]int64{c[0]*2 + 1, c[1]*2 + 1})
				} else {
					q.Containers = append(q.Containers, [2]int64{c[0] / 2, c[1] / 2})
				}
			}
			obj = q.materialise()
		case "rename":
			obj.Name = fmt.Sprintf("tw-%d", k)
		}
		tw.podL.pods = append(tw.podL.pods, obj)
	}
	if mode == "huge-pending" {
		q := WPod{Name: "tw-huge", NS: "ns", Phase: "Pending", Annotations: map[string]string{}, Containers: [][2]int64{{640000, 1 << 40}}}
		if tc.Name != "default" {
			q.NodeSelector = map[string]string{tc.LabelKey: tc.LabelValue}
		}
		tw.podL.pods = append(tw.podL.pods, q.materialise())
	}
	return mode + "/" + nodeMode
}

// twinRun runs the twin scan and compares every group other than t. Returns nil if no comparison was possible.
func (h *Hist) twinRun(sec int64, frozen time.Time, faults map[int]bool, failDesc map[string]bool, outcomeA string, pre []preLock, mode string, conflict bool) []twinDiff {
	tw := h.tw
	if outcomeA != "ok" {
		h.tw = nil
		return nil
	}
	if tw.t != len(h.cfgs)-1 && len(faults) > 0 {
		// injected failures are addressed by call index: with t in front of other groups the indices would shift
		h.tw = nil
		return nil
	}
	tw.rec.reset()
	for k, v := range faults {
		tw.rec.FailAt[k] = v
	}
	for k, v := range failDesc {
		tw.rec.FailDesc[k] = v
	}
	tw.rec.Conflict = conflict
	outcomeB := protect(func() error { return tw.ctl.RunOnce() })
	end := time.Now()
	tw.ctl.VerifQuantise(frozen, frozen)
	// timing: the twin ran later than the original; if a second boundary or a lock expiry fell in between, the two
	// runs legitimately differ. Stop twinning this history (the states may have diverged).
	if end.Unix() != sec {
		h.tw = nil
		return nil
	}
	for _, p := range pre {
		if p.set {
			rem := p.cool - (frozen.UnixNano() - p.ns)
			if rem > 0 && rem <= end.UnixNano()-frozen.UnixNano()+int64(5*time.Millisecond) {
				h.tw = nil
				return nil
			}
		}
	}
	if outcomeB != "ok" {
		// a fatal outcome inside t ends the run (documented); nothing to compare, and the twin would need a restart
		h.tw = nil
		return nil
	}
	diffs := []twinDiff{}
	segs := func(rec *Recorder) [][]PEntry {
		out := [][]PEntry{}
		for i, m := range rec.Marks {
			e := len(rec.Entries)
			if i+1 < len(rec.Marks) {
				e = rec.Marks[i+1]
			}
			seg := append([]PEntry{}, rec.Entries[m:e]...)
			// DescribeInstances calls come out of a map iteration: their relative order is arbitrary
			descID := func(e PEntry) (string, bool) {
				if m, ok := e.Call.(map[string]interface{}); ok {
					if f, ok := m["describeInstances"].(map[string]interface{}); ok {
						return fmt.Sprint(f["id"]), true
					}
				}
				return "", false
			}
			for i := 0; i < len(seg); {
				j := i
				for j < len(seg) {
					if _, ok := descID(seg[j]); !ok {
						break
					}
					j++
				}
				if j > i {
					run := seg[i:j]
					sort.SliceStable(run, func(a, b int) bool { x, _ := descID(run[a]); y, _ := descID(run[b]); return x < y })
					i = j
				} else {
					i++
				}
			}
			out = append(out, nnEntries(seg))
		}
		return out
	}
	sa, sb := segs(h.rec), segs(tw.rec)
	js := func(v interface{}) string { b, _ := json.Marshal(v); return string(b) }
	for i, c := range h.cfgs {
		if i == tw.t {
			continue
		}
		var a, b interface{} = "not-processed", "not-processed"
		if i < len(sa) {
			a = sa[i]
		}
		if i < len(sb) {
			b = sb[i]
		}
		if js(a) != js(b) {
			diffs = append(diffs, twinDiff{c.Name, "calls", a, b})
		}
		stA, _ := h.ctl.VerifGroupState(c.Name)
		stB, _ := tw.ctl.VerifGroupState(c.Name)
		if js(stA) != js(stB) {
			diffs = append(diffs, twinDiff{c.Name, "state", stA, stB})
		}
	}
	h.stats["twin:compared"]++
	h.stats["twin:mode:"+mode]++
	if len(diffs) > 0 {
		h.stats["twin:differs"]++
		h.tw = nil // the states have diverged
	}
	return diffs
}
