package main

import (
	"bufio"
	"flag"
	"fmt"
	"os"
)

func main() {
	setupLogging()
	if len(os.Args) < 2 {
		fmt.Fprintln(os.Stderr, "usage: harness <stream> [flags]")
		os.Exit(2)
	}
	stream := os.Args[1]
	fs := flag.NewFlagSet(stream, flag.ExitOnError)
	seed := fs.Uint64("seed", 1, "PRNG seed")
	n := fs.Int("n", 100, "number of cases / histories")
	scans := fs.Int("scans", 8, "scans per history (hist)")
	out := fs.String("out", "-", "case file")
	slow := fs.Bool("slow", false, "allow cases that cost seconds of real time (refresh failures, fleet waits)")
	dir := fs.String("dir", "/verif/corpus", "scenario: directory of scenario files")
	only := fs.Int("only", -1, "hist: generate only the history with this index")
	foc := fs.String("focus", "", "hist: bias of the generator (dry, multi, cooldown, bands, ...)")
	bin := fs.String("bin", "", "startup: path of the built escalator binary")
	realc := fs.Bool("realctor", false, "hist: build every controller through the real NewController (about half a second each: its informers must sync)")
	fs.Parse(os.Args[2:])
	slowOK = *slow
	realCtorAlways = *realc
	focus = *foc
	if focus == "fleetfail" {
		// several launch-template groups under pressure whose fleet requests mostly fail at once (no waiting): the failure
		// counts of the groups must stay apart
		fleetFail, focus = true, "fleet"
	}
	twinOn = stream == "hist" && focus == "multi"
	w := bufio.NewWriterSize(os.Stdout, 1<<20)
	if *out != "-" {
		f, err := os.Create(*out)
		if err != nil {
			panic(err)
		}
		defer f.Close()
		w = bufio.NewWriterSize(f, 1<<20)
	}
	defer w.Flush()
	switch stream {
	case "hist":
		stats := map[string]int{}
		root := newRng(*seed)
		for i := 0; i < *n; i++ {
			hr := root.fork()
			if *only >= 0 && i != *only {
				continue
			}
			maxAttempts := 5
			if slowOK {
				maxAttempts = 2 // an abandoned slow history (a taint stamped after a 5 s rebuild sleep) has cost real time already
			}
			for attempt := 0; attempt < maxAttempts; attempt++ {
				fmt.Fprintf(w, "{\"op\":\"begin\",\"hist\":%d,\"seed\":%d,\"attempt\":%d}\n", i, *seed, attempt)
				// a retry plays another history: what made the first one unusable may be systematic, not a fluke of timing
				h := newHist(newRng(hr.s+uint64(attempt)*0x9e3779b97f4a7c15), w)
				ok, why := h.runHistory(*scans)
				for k, v := range h.stats {
					stats[k] += v
				}
				if ok {
					break
				}
				// emit a marker so that the driver discards the abandoned history
				fmt.Fprintf(w, "{\"op\":\"abandon\",\"why\":%q}\n", why)
				stats["abandoned"]++
			}
		}
		for _, k := range sortedKeys(stats) {
			fmt.Fprintf(os.Stderr, "%s=%d\n", k, stats[k])
		}
	case "arith", "taintops", "filters", "resources", "awsops", "fleetops", "validate", "decode", "startup", "assemble", "forever":
		stats := map[string]int{}
		r := newRng(*seed)
		switch stream {
		case "arith":
			runArithFile(*dir+"/arith.jsonl", w, stats)
			runArith(r, *n, w, stats)
		case "taintops":
			runTaintOps(r, *n, w, stats)
		case "filters":
			runFilters(w, stats)
		case "resources":
			runResources(r, *n, w, stats)
		case "awsops":
			runAwsOps(r, *n, false, w, stats)
		case "fleetops":
			runAwsOps(r, *n, true, w, stats)
		case "validate":
			runValidate(r, *n, w, stats)
		case "decode":
			runDecode(w, stats)
		case "startup":
			runStartup(r, *n, *bin, w, stats)
		case "assemble":
			runAssemble(r, *n, *bin, w, stats)
		case "forever":
			runForever(w, stats)
		}
		for _, k := range sortedKeys(stats) {
			fmt.Fprintf(os.Stderr, "%s=%d\n", k, stats[k])
		}
	case "scenario":
		stats := map[string]int{}
		runScenarios(*dir, w, stats)
		for _, k := range sortedKeys(stats) {
			fmt.Fprintf(os.Stderr, "%s=%d\n", k, stats[k])
		}
	default:
		fmt.Fprintln(os.Stderr, "unknown stream", stream)
		os.Exit(2)
	}
}
