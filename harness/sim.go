package main

// Simulated Kubernetes node API and AWS Auto Scaling / EC2 services. Every call is journalled with
// its arguments and its fate; failures are injected by call index (ordered calls) or by instance id
// (DescribeInstances, which the controller issues in Go map order).

import (
	"context"
	"errors"
	"fmt"
	"net/http"
	"net/http/httptest"
	"sort"
	"strings"
	"sync"
	"time"

	awsapi "github.com/aws/aws-sdk-go/aws"
	"github.com/aws/aws-sdk-go/aws/awserr"
	"github.com/aws/aws-sdk-go/aws/request"
	"github.com/aws/aws-sdk-go/service/autoscaling"
	"github.com/aws/aws-sdk-go/service/autoscaling/autoscalingiface"
	"github.com/aws/aws-sdk-go/service/ec2"
	"github.com/aws/aws-sdk-go/service/ec2/ec2iface"
	v1 "k8s.io/api/core/v1"
	apierrors "k8s.io/apimachinery/pkg/api/errors"
	metav1 "k8s.io/apimachinery/pkg/apis/meta/v1"
	"k8s.io/apimachinery/pkg/fields"
	"k8s.io/apimachinery/pkg/labels"
	"k8s.io/apimachinery/pkg/runtime/schema"
	"k8s.io/client-go/kubernetes/fake"
	k8sscheme "k8s.io/client-go/kubernetes/scheme"
	corev1 "k8s.io/client-go/kubernetes/typed/core/v1"
	v1lister "k8s.io/client-go/listers/core/v1"
	"k8s.io/client-go/rest"
)

// Recorder collects the journal of the current operation.
type Recorder struct {
	Entries  []PEntry
	Resps    []PResp          // response to each ordered call, in order
	Desc     [][2]interface{} // (instance id, response) for DescribeInstances
	Marks    []int            // journal positions at which a group scan started (pods List call)
	FailAt   map[int]bool     // ordered call indices that fail
	FailDesc map[string]bool  // instance ids whose DescribeInstances fails
	DescOdd  map[string]int   // instance ids whose DescribeInstances is malformed (reservation count)
	Conflict bool             // injected UPDATE failures are 409 Conflicts: a concurrent writer changed the node's taints meanwhile
	AwsCode  string           // error code of failing AWS calls ("" = an untyped error)
	Vanish   bool             // injected GET failures are real: the node object is gone (404 NotFound), from then on
	n        int              // ordered calls so far
}

func (r *Recorder) reset() {
	r.Entries = nil
	r.Resps = nil
	r.Desc = nil
	r.Marks = nil
	r.n = 0
	r.FailAt = map[int]bool{}
	r.FailDesc = map[string]bool{}
	r.DescOdd = map[string]int{}
	r.Conflict = false
	r.Vanish = false
}

// awsErr is what a failing AWS call returns: an SDK error with a service code (throttling, expired credentials,
// validation) or an untyped error.
func (r *Recorder) awsErr() error {
	if r.AwsCode == "" {
		return errInjected
	}
	return awserr.New(r.AwsCode, "injected failure", nil)
}

// ordered registers an ordered call and says whether it must fail.
func (r *Recorder) ordered() (idx int, fail bool) {
	idx = r.n
	r.n++
	return idx, r.FailAt[idx]
}

func (r *Recorder) record(c PCall, ok bool, resp PResp) {
	r.Entries = append(r.Entries, PEntry{c, ok})
	r.Resps = append(r.Resps, resp)
}

var errInjected = errors.New("injected failure")

// ---------------------------------------------------------------------------------------------
// Kubernetes

type K8sSim struct {
	*fake.Clientset
	rec   *Recorder
	store map[string]*v1.Node
	pods  []*v1.Pod // what the API server knows about pods (the truth, not the listers' snapshot)
}

func newK8sSim(rec *Recorder) *K8sSim {
	return &K8sSim{Clientset: fake.NewSimpleClientset(), rec: rec, store: map[string]*v1.Node{}}
}

func (k *K8sSim) CoreV1() corev1.CoreV1Interface { return &coreSim{k.Clientset.CoreV1(), k} }

type coreSim struct {
	corev1.CoreV1Interface
	k *K8sSim
}

func (c *coreSim) Nodes() corev1.NodeInterface { return &nodeSim{c.CoreV1Interface.Nodes(), c.k} }

type nodeSim struct {
	corev1.NodeInterface
	k *K8sSim
}

var nodeGR = schema.GroupResource{Resource: "nodes"}

func (n *nodeSim) Get(ctx context.Context, name string, opts metav1.GetOptions) (*v1.Node, error) {
	_, fail := n.k.rec.ordered()
	obj, ok := n.k.store[name]
	if fail || !ok {
		n.k.rec.record(cGetNode(name), false, rFail())
		if fail && !n.k.rec.Vanish {
			return nil, errInjected
		}
		delete(n.k.store, name) // deleted by somebody else since the cache was filled
		return nil, apierrors.NewNotFound(nodeGR, name)
	}
	cp := obj.DeepCopy()
	if l := len(cp.Spec.Taints); l > 0 {
		// a decoded object's slices usually have spare capacity (the decoder grows them by doubling)
		grown := make([]v1.Taint, l, l+l%3)
		copy(grown, cp.Spec.Taints)
		cp.Spec.Taints = grown
	}
	n.k.rec.record(cGetNode(name), true, rNode(protoNode(cp)))
	return cp, nil
}

func (n *nodeSim) Update(ctx context.Context, node *v1.Node, opts metav1.UpdateOptions) (*v1.Node, error) {
	_, fail := n.k.rec.ordered()
	cur, ok := n.k.store[node.Name]
	if fail || !ok {
		n.k.rec.record(cUpdateNode(protoNode(node)), false, rFail())
		if fail && ok && n.k.rec.Conflict {
			// optimistic-concurrency conflict: somebody else (say the node lifecycle controller) rewrote the taints
			// between our GET and our UPDATE — drop the first foreign taint, or add one in front
			mod := cur.DeepCopy()
			dropped := false
			for i, t := range mod.Spec.Taints {
				if t.Key != escKey && t.Key != forceKey {
					mod.Spec.Taints = append(mod.Spec.Taints[:i:i], mod.Spec.Taints[i+1:]...)
					dropped = true
					break
				}
			}
			if !dropped {
				mod.Spec.Taints = append([]v1.Taint{{Key: "node.kubernetes.io/not-ready", Effect: v1.TaintEffectNoExecute}}, mod.Spec.Taints...)
			}
			n.k.store[node.Name] = mod
			return nil, apierrors.NewConflict(nodeGR, node.Name, errInjected)
		}
		if fail {
			return nil, errInjected
		}
		return nil, apierrors.NewNotFound(nodeGR, node.Name)
	}
	n.k.rec.record(cUpdateNode(protoNode(node)), true, rOk())
	n.k.store[node.Name] = node.DeepCopy()
	return node.DeepCopy(), nil
}

func (n *nodeSim) Delete(ctx context.Context, name string, opts metav1.DeleteOptions) error {
	_, fail := n.k.rec.ordered()
	_, ok := n.k.store[name]
	if fail || !ok {
		n.k.rec.record(cDeleteNode(name), false, rFail())
		if fail {
			return errInjected
		}
		return apierrors.NewNotFound(nodeGR, name)
	}
	n.k.rec.record(cDeleteNode(name), true, rOk())
	delete(n.k.store, name)
	return nil
}

// Reads the controller does not make today, answered from the same truth (not journalled: a read changes nothing). A fake
// API that knows no pods and lists no nodes would hide what code that starts asking the API server directly does with
// the answers.

func (n *nodeSim) List(ctx context.Context, opts metav1.ListOptions) (*v1.NodeList, error) {
	names := []string{}
	for k := range n.k.store {
		names = append(names, k)
	}
	sort.Strings(names)
	sel, err := labels.Parse(opts.LabelSelector)
	if err != nil {
		return nil, err
	}
	out := &v1.NodeList{}
	for _, k := range names {
		if sel.Matches(labels.Set(n.k.store[k].Labels)) {
			out.Items = append(out.Items, *n.k.store[k].DeepCopy())
		}
	}
	return out, nil
}

func (c *coreSim) Pods(ns string) corev1.PodInterface {
	return &podSim{c.CoreV1Interface.Pods(ns), c.k, ns}
}

type podSim struct {
	corev1.PodInterface
	k  *K8sSim
	ns string
}

func (p *podSim) List(ctx context.Context, opts metav1.ListOptions) (*v1.PodList, error) {
	sel, err := labels.Parse(opts.LabelSelector)
	if err != nil {
		return nil, err
	}
	fsel, err := fields.ParseSelector(opts.FieldSelector)
	if err != nil {
		return nil, err
	}
	out := &v1.PodList{}
	for _, pod := range p.k.pods {
		if p.ns != "" && pod.Namespace != p.ns {
			continue
		}
		fs := fields.Set{"metadata.name": pod.Name, "metadata.namespace": pod.Namespace, "spec.nodeName": pod.Spec.NodeName,
			"status.phase": string(pod.Status.Phase), "spec.schedulerName": pod.Spec.SchedulerName, "spec.restartPolicy": string(pod.Spec.RestartPolicy)}
		if sel.Matches(labels.Set(pod.Labels)) && fsel.Matches(fs) {
			out.Items = append(out.Items, *pod.DeepCopy())
		}
	}
	return out, nil
}

func (p *podSim) Get(ctx context.Context, name string, opts metav1.GetOptions) (*v1.Pod, error) {
	for _, pod := range p.k.pods {
		if pod.Name == name && (p.ns == "" || pod.Namespace == p.ns) {
			return pod.DeepCopy(), nil
		}
	}
	return nil, apierrors.NewNotFound(schema.GroupResource{Resource: "pods"}, name)
}

// Listers: return the snapshot the harness installed, in the installed order.

type podListerSim struct {
	rec   *Recorder
	pods  []*v1.Pod
	quiet bool // the harness itself is listing (observation after the scan): not the start of a group scan
	// listing failures, by position of the group in the scan: the first listing made for that group fails (a retry would succeed)
	failGroup map[int]bool
	failed    map[int]bool
}

var errListing = errors.New("injected listing failure")

func (l *podListerSim) List(sel labels.Selector) ([]*v1.Pod, error) {
	if !l.quiet {
		g := len(l.rec.Marks)
		if l.failGroup[g] && l.failed[g] {
			return l.pods, nil // a second listing for the same group: no new group scan starts here
		}
		l.rec.Marks = append(l.rec.Marks, len(l.rec.Entries))
		if l.failGroup[g] {
			l.failed[g] = true
			return nil, errListing
		}
	}
	return l.pods, nil
}
func (l *podListerSim) Pods(ns string) v1lister.PodNamespaceLister { return nil }

type nodeListerSim struct {
	nodes     []*v1.Node
	rec       *Recorder
	quiet     bool
	failGroup map[int]bool
	failed    map[int]bool
}

func (l *nodeListerSim) List(sel labels.Selector) ([]*v1.Node, error) {
	if l.rec != nil && !l.quiet {
		g := len(l.rec.Marks) - 1 // the group whose pods were listed last
		if l.failGroup[g] && !l.failed[g] {
			l.failed[g] = true
			return nil, errListing
		}
	}
	return l.nodes, nil
}
func (l *nodeListerSim) Get(name string) (*v1.Node, error) {
	for _, n := range l.nodes {
		if n.Name == name {
			return n, nil
		}
	}
	return nil, apierrors.NewNotFound(nodeGR, name)
}

// ---------------------------------------------------------------------------------------------
// AWS

type SimInst struct {
	ID string
	AZ string
}

type SimASG struct {
	Name      string
	Min       int64
	Max       int64
	Desired   int64
	Instances []SimInst
	VpcZones  string
	Tagged    bool
	Gone      bool // no longer returned by DescribeAutoScalingGroups
	// instances whose termination was accepted and that the group still lists, in state Terminating, for a while
	Leaving []SimInst
}

type AwsSim struct {
	failAttach bool // every AttachInstances call of this scan is refused (fleetfail histories)
	autoscalingiface.AutoScalingAPI
	rec    *Recorder
	asgs   map[string]*SimASG
	ec2    *Ec2Sim
	linger bool // terminated instances stay listed (Terminating) until the harness lets them go
}

type Ec2Sim struct {
	ec2iface.EC2API
	rec        *Recorder
	aws        *AwsSim
	nextID     int
	fleetSplit int          // into how many Instances entries CreateFleet splits the ids
	fleetMode  string       // "ok", "none+err", "none", "some+err"
	notReady   map[int]bool // readiness ticks (0-based) at which some instance is not running
	tick       int
	pending    map[string]bool // fleet instances acquired and not yet attached
	launch     time.Time
	statusOmit int // DescribeInstanceStatus leaves out this many of the newest instances
}

func newAwsSim(rec *Recorder) *AwsSim {
	a := &AwsSim{rec: rec, asgs: map[string]*SimASG{}}
	a.ec2 = &Ec2Sim{rec: rec, aws: a, fleetSplit: 1, fleetMode: "ok", notReady: map[int]bool{}, pending: map[string]bool{}, launch: time.Unix(1500000000, 0)}
	return a
}

func (a *AwsSim) protoAsg(g *SimASG) PAsg {
	p := PAsg{Name: g.Name, Min: g.Min, Max: g.Max, Desired: g.Desired, Instances: []PInst{}, VpcZones: g.VpcZones, Tagged: g.Tagged}
	for _, i := range g.Leaving {
		p.Instances = append(p.Instances, PInst{i.ID, i.AZ})
	}
	for _, i := range g.Instances {
		p.Instances = append(p.Instances, PInst{i.ID, i.AZ})
	}
	return p
}

func (a *AwsSim) DescribeAutoScalingGroups(in *autoscaling.DescribeAutoScalingGroupsInput) (*autoscaling.DescribeAutoScalingGroupsOutput, error) {
	_, fail := a.rec.ordered()
	names := []string{}
	for _, n := range in.AutoScalingGroupNames {
		names = append(names, awsapi.StringValue(n))
	}
	if fail {
		a.rec.record(cDescribeAsgs(names), false, rFail())
		return nil, a.rec.awsErr()
	}
	sorted := append([]string{}, names...)
	sort.Strings(sorted)
	out := &autoscaling.DescribeAutoScalingGroupsOutput{}
	pl := []PAsg{}
	for _, n := range sorted {
		g, ok := a.asgs[n]
		if !ok || g.Gone {
			continue
		}
		grp := &autoscaling.Group{
			AutoScalingGroupName: awsapi.String(g.Name),
			MinSize:              awsapi.Int64(g.Min),
			MaxSize:              awsapi.Int64(g.Max),
			DesiredCapacity:      awsapi.Int64(g.Desired),
			VPCZoneIdentifier:    awsapi.String(g.VpcZones),
		}
		for _, i := range g.Leaving {
			grp.Instances = append(grp.Instances, &autoscaling.Instance{InstanceId: awsapi.String(i.ID), AvailabilityZone: awsapi.String(i.AZ),
				LifecycleState: awsapi.String(autoscaling.LifecycleStateTerminating)})
		}
		for k, i := range g.Instances {
			inst := &autoscaling.Instance{InstanceId: awsapi.String(i.ID), AvailabilityZone: awsapi.String(i.AZ)}
			if a.linger || k%2 == 0 {
				inst.LifecycleState = awsapi.String(autoscaling.LifecycleStateInService)
			}
			grp.Instances = append(grp.Instances, inst)
		}
		if g.Tagged {
			grp.Tags = []*autoscaling.TagDescription{{Key: awsapi.String("k8s.io/atlassian-escalator/enabled"), Value: awsapi.String("true")}}
		}
		out.AutoScalingGroups = append(out.AutoScalingGroups, grp)
		pl = append(pl, a.protoAsg(g))
	}
	a.rec.record(cDescribeAsgs(names), true, rAsgs(pl))
	return out, nil
}

func (a *AwsSim) SetDesiredCapacity(in *autoscaling.SetDesiredCapacityInput) (*autoscaling.SetDesiredCapacityOutput, error) {
	_, fail := a.rec.ordered()
	name := awsapi.StringValue(in.AutoScalingGroupName)
	v := awsapi.Int64Value(in.DesiredCapacity)
	g, ok := a.asgs[name]
	if fail || !ok || g.Gone || v < g.Min || v > g.Max {
		a.rec.record(cSetDesired(name, v), false, rFail())
		return nil, a.rec.awsErr()
	}
	a.rec.record(cSetDesired(name, v), true, rOk())
	g.Desired = v
	return &autoscaling.SetDesiredCapacityOutput{}, nil
}

func (a *AwsSim) TerminateInstanceInAutoScalingGroup(in *autoscaling.TerminateInstanceInAutoScalingGroupInput) (*autoscaling.TerminateInstanceInAutoScalingGroupOutput, error) {
	_, fail := a.rec.ordered()
	id := awsapi.StringValue(in.InstanceId)
	decr := awsapi.BoolValue(in.ShouldDecrementDesiredCapacity)
	var grp *SimASG
	idx := -1
	for _, g := range a.asgs {
		for i, inst := range g.Instances {
			if inst.ID == id {
				grp, idx = g, i
			}
		}
	}
	if fail || grp == nil || (decr && grp.Desired-1 < grp.Min) {
		a.rec.record(cTerminateInAsg(id, decr), false, rFail())
		return nil, a.rec.awsErr()
	}
	a.rec.record(cTerminateInAsg(id, decr), true, rOk())
	if a.linger {
		grp.Leaving = append(grp.Leaving, grp.Instances[idx])
	}
	grp.Instances = append(grp.Instances[:idx:idx], grp.Instances[idx+1:]...)
	if decr {
		grp.Desired--
	}
	return &autoscaling.TerminateInstanceInAutoScalingGroupOutput{Activity: &autoscaling.Activity{Description: awsapi.String("Terminating " + id)}}, nil
}

func (a *AwsSim) AttachInstances(in *autoscaling.AttachInstancesInput) (*autoscaling.AttachInstancesOutput, error) {
	_, fail := a.rec.ordered()
	name := awsapi.StringValue(in.AutoScalingGroupName)
	ids := []string{}
	for _, p := range in.InstanceIds {
		ids = append(ids, awsapi.StringValue(p))
	}
	g, ok := a.asgs[name]
	bad := fail || a.failAttach || !ok || g.Gone || len(ids) > 20
	if !bad {
		for _, id := range ids {
			if !a.ec2.pending[id] {
				bad = true
			}
		}
		if g.Desired+int64(len(ids)) > g.Max {
			bad = true
		}
	}
	if bad {
		a.rec.record(cAttach(name, ids), false, rFail())
		return nil, a.rec.awsErr()
	}
	a.rec.record(cAttach(name, ids), true, rOk())
	for _, id := range ids {
		delete(a.ec2.pending, id)
		g.Instances = append(g.Instances, SimInst{id, "az-f"})
	}
	g.Desired += int64(len(ids))
	return &autoscaling.AttachInstancesOutput{}, nil
}

func (a *AwsSim) CreateOrUpdateTags(in *autoscaling.CreateOrUpdateTagsInput) (*autoscaling.CreateOrUpdateTagsOutput, error) {
	_, fail := a.rec.ordered()
	name := ""
	if len(in.Tags) > 0 {
		name = awsapi.StringValue(in.Tags[0].ResourceId)
	}
	if fail {
		a.rec.record(cCreateTags(name), false, rFail())
		return nil, a.rec.awsErr()
	}
	a.rec.record(cCreateTags(name), true, rOk())
	if g, ok := a.asgs[name]; ok {
		g.Tagged = true
	}
	return &autoscaling.CreateOrUpdateTagsOutput{}, nil
}

func protoFleetReq(in *ec2.CreateFleetInput) PFleetReq {
	r := PFleetReq{FleetType: awsapi.StringValue(in.Type), Overrides: []POverride{}}
	if t := in.TargetCapacitySpecification; t != nil {
		r.Total = awsapi.Int64Value(t.TotalTargetCapacity)
		r.DefaultType = awsapi.StringValue(t.DefaultTargetCapacityType)
	}
	r.MinTarget = -1
	if in.OnDemandOptions != nil {
		r.OnDemandOptions = true
		r.MinTarget = awsapi.Int64Value(in.OnDemandOptions.MinTargetCapacity)
	}
	if in.SpotOptions != nil {
		if in.OnDemandOptions != nil {
			r.MinTarget = -2 // both set: never produced by the model
		} else {
			r.MinTarget = awsapi.Int64Value(in.SpotOptions.MinTargetCapacity)
		}
	}
	if len(in.LaunchTemplateConfigs) == 1 {
		c := in.LaunchTemplateConfigs[0]
		if c.LaunchTemplateSpecification != nil {
			r.TemplateID = awsapi.StringValue(c.LaunchTemplateSpecification.LaunchTemplateId)
			r.TemplateVersion = awsapi.StringValue(c.LaunchTemplateSpecification.Version)
		}
		for _, o := range c.Overrides {
			po := POverride{Subnet: awsapi.StringValue(o.SubnetId)}
			if o.InstanceType != nil {
				s := *o.InstanceType
				po.InstanceType = &s
			}
			r.Overrides = append(r.Overrides, po)
		}
	} else {
		r.TemplateID = fmt.Sprintf("<%d configs>", len(in.LaunchTemplateConfigs))
	}
	r.Tagged = len(in.TagSpecifications) > 0
	return r
}

func (e *Ec2Sim) CreateFleet(in *ec2.CreateFleetInput) (*ec2.CreateFleetOutput, error) {
	_, fail := e.rec.ordered()
	req := protoFleetReq(in)
	if fail {
		e.rec.record(cCreateFleet(req), false, rFail())
		return nil, e.rec.awsErr()
	}
	out := &ec2.CreateFleetOutput{}
	var errs []string
	var idss [][]string
	mode := e.fleetMode
	if mode == "none+err" || mode == "some+err" || mode == "short+err" {
		errs = []string{"InsufficientInstanceCapacity"}
		out.Errors = []*ec2.CreateFleetError{{ErrorMessage: awsapi.String("InsufficientInstanceCapacity")}}
	}
	if mode == "ok" || mode == "some+err" || mode == "short+err" {
		total := int(req.Total)
		if mode == "short+err" && total >= 2 {
			total = total - 1 - int(e.nextID)%(total-1) // fewer than asked for, at least one
		}
		split := e.fleetSplit
		if split < 1 {
			split = 1
		}
		per := (total + split - 1) / split
		made := 0
		for s := 0; s < split; s++ {
			var ids []*string
			chunk := []string{}
			for i := 0; i < per && made < total; i++ {
				id := fmt.Sprintf("i-f%05d", e.nextID)
				e.nextID++
				made++
				e.pending[id] = true
				ids = append(ids, awsapi.String(id))
				chunk = append(chunk, id)
			}
			out.Instances = append(out.Instances, &ec2.CreateFleetInstance{InstanceIds: ids})
			idss = append(idss, chunk)
		}
	}
	e.tick = 0
	e.rec.record(cCreateFleet(req), true, rFleet(idss, errs))
	return out, nil
}

func (e *Ec2Sim) DescribeInstanceStatusPages(in *ec2.DescribeInstanceStatusInput, fn func(*ec2.DescribeInstanceStatusOutput, bool) bool) error {
	_, fail := e.rec.ordered()
	ids := []string{}
	for _, p := range in.InstanceIds {
		ids = append(ids, awsapi.StringValue(p))
	}
	tick := e.tick
	e.tick++
	if fail {
		e.rec.record(cDescribeStatus(ids), false, rFail())
		return e.rec.awsErr()
	}
	// eventual consistency: the newest instances may not be listed yet
	listed := ids
	if e.statusOmit > 0 && len(ids) > e.statusOmit {
		listed = ids[:len(ids)-e.statusOmit]
	}
	// pages of <= 100 statuses; at a not-ready tick the last listed instance is "pending"
	pages := [][]bool{}
	cur := []bool{}
	for i := range listed {
		running := !(e.notReady[tick] && i == len(listed)-1)
		cur = append(cur, running)
		if len(cur) == 100 {
			pages = append(pages, cur)
			cur = []bool{}
		}
	}
	if len(cur) > 0 || len(pages) == 0 {
		pages = append(pages, cur)
	}
	e.rec.record(cDescribeStatus(ids), true, rStatus(pages))
	at := 0
	for pi, pg := range pages {
		out := &ec2.DescribeInstanceStatusOutput{}
		for _, r := range pg {
			st := "running"
			if !r {
				st = "pending"
			}
			out.InstanceStatuses = append(out.InstanceStatuses, &ec2.InstanceStatus{InstanceId: awsapi.String(ids[at]), InstanceState: &ec2.InstanceState{Name: awsapi.String(st)}})
			at++
		}
		if !fn(out, pi == len(pages)-1) {
			break
		}
	}
	return nil
}

func (e *Ec2Sim) DescribeInstanceStatusPagesWithContext(ctx awsapi.Context, in *ec2.DescribeInstanceStatusInput, fn func(*ec2.DescribeInstanceStatusOutput, bool) bool, opts ...request.Option) error {
	return e.DescribeInstanceStatusPages(in, fn)
}

func (e *Ec2Sim) TerminateInstances(in *ec2.TerminateInstancesInput) (*ec2.TerminateInstancesOutput, error) {
	_, fail := e.rec.ordered()
	ids := []string{}
	for _, p := range in.InstanceIds {
		ids = append(ids, awsapi.StringValue(p))
	}
	if fail {
		e.rec.record(cTerminateInstances(ids), false, rFail())
		return nil, e.rec.awsErr()
	}
	e.rec.record(cTerminateInstances(ids), true, rOk())
	for _, id := range ids {
		delete(e.pending, id)
	}
	return &ec2.TerminateInstancesOutput{}, nil
}

func (e *Ec2Sim) DescribeInstances(in *ec2.DescribeInstancesInput) (*ec2.DescribeInstancesOutput, error) {
	id := ""
	if len(in.InstanceIds) > 0 {
		id = awsapi.StringValue(in.InstanceIds[0])
	}
	if e.rec.FailDesc[id] {
		e.rec.Entries = append(e.rec.Entries, PEntry{cDescribeInstances(id), false})
		e.rec.Desc = append(e.rec.Desc, [2]interface{}{id, rFail()})
		return nil, e.rec.awsErr()
	}
	nres := 1
	if v, ok := e.rec.DescOdd[id]; ok {
		nres = v
	}
	e.rec.Entries = append(e.rec.Entries, PEntry{cDescribeInstances(id), true})
	e.rec.Desc = append(e.rec.Desc, [2]interface{}{id, rInstance(nres, 1)})
	out := &ec2.DescribeInstancesOutput{}
	for i := 0; i < nres; i++ {
		out.Reservations = append(out.Reservations, &ec2.Reservation{Instances: []*ec2.Instance{{InstanceId: awsapi.String(id), LaunchTime: awsapi.Time(e.launch)}}})
	}
	return out, nil
}

func providerID(az, id string) string { return "aws:///" + az + "/" + id }

func instIDOfProviderID(pid string) string {
	parts := strings.Split(pid, "/")
	if len(parts) >= 5 {
		return parts[4]
	}
	return ""
}

// ---------------------------------------------------------------------------------------------
// A minimal API server for the informers that the real NewController starts (VerifNewControllerReal): empty pod and
// node lists, watches that stay silent. The controller's listers are replaced right after construction, so nothing
// ever reads these caches; they only have to sync.

var (
	emptyAPIOnce   sync.Once
	emptyAPIClient rest.Interface
)

func emptyAPI() rest.Interface {
	emptyAPIOnce.Do(func() {
		srv := httptest.NewServer(http.HandlerFunc(func(w http.ResponseWriter, r *http.Request) {
			if r.URL.Query().Get("watch") == "true" || r.URL.Query().Get("watch") == "1" {
				w.Header().Set("Content-Type", "application/json")
				w.WriteHeader(http.StatusOK)
				if f, ok := w.(http.Flusher); ok {
					f.Flush()
				}
				<-r.Context().Done()
				return
			}
			kind := "PodList"
			if strings.Contains(r.URL.Path, "nodes") {
				kind = "NodeList"
			}
			w.Header().Set("Content-Type", "application/json")
			fmt.Fprintf(w, `{"kind":%q,"apiVersion":"v1","metadata":{"resourceVersion":"1"},"items":[]}`, kind)
		}))
		cfg := &rest.Config{Host: srv.URL, APIPath: "/api"}
		cfg.GroupVersion = &v1.SchemeGroupVersion
		cfg.NegotiatedSerializer = k8sscheme.Codecs.WithoutConversion()
		c, err := rest.RESTClientFor(cfg)
		if err != nil {
			panic(err)
		}
		emptyAPIClient = c
	})
	return emptyAPIClient
}

func (c *coreSim) RESTClient() rest.Interface { return emptyAPI() }
