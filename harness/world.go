package main

// The harness-owned world: nodes and pods with times kept *relative to now* (so that advancing
// virtual time is just adding to the "ago" fields), plus materialisation into Kubernetes objects.

import (
	"fmt"
	"k8s.io/apimachinery/pkg/types"
	"strconv"
	"time"

	v1 "k8s.io/api/core/v1"
	"k8s.io/apimachinery/pkg/api/resource"
	metav1 "k8s.io/apimachinery/pkg/apis/meta/v1"
)

type WTaint struct {
	Key    string
	Effect string
	Rel    bool // value is "now - Ago" seconds
	Ago    int64
	Raw    string // literal value otherwise
}

type WNode struct {
	Name          string
	ProviderID    string
	Labels        map[string]string
	Annotations   map[string]string
	Taints        []WTaint
	Unschedulable bool
	Terminating   bool  // deletion requested (a finalizer is pending): still a node like any other
	CreatedAgo    int64 // seconds
	CreatedZero   bool
	AllocCPU      int64 // milli
	AllocMem      int64 // bytes
	NoAlloc       bool  // nil allocatable map
	Extra         string
	ZoneOffset    int // seconds east of UTC of the location the creation timestamp carries (0: the process default)
}

func (n *WNode) clone() *WNode {
	c := *n
	c.Labels = map[string]string{}
	for k, v := range n.Labels {
		c.Labels[k] = v
	}
	c.Annotations = map[string]string{}
	for k, v := range n.Annotations {
		c.Annotations[k] = v
	}
	c.Taints = append([]WTaint{}, n.Taints...)
	return &c
}

func (n *WNode) hasTaint(key string) bool {
	for _, t := range n.Taints {
		if t.Key == key {
			return true
		}
	}
	return false
}

type WPod struct {
	Name         string
	NS           string
	NodeName     string
	NodeSelector map[string]string
	Affinity     *v1.Affinity
	OwnerKinds   []string
	Annotations  map[string]string
	Containers   [][2]int64 // cpu milli, mem bytes
	Init         [][2]int64
	Overhead     *[2]int64
	Phase        string
	Scheduled    *bool
	Terminating  bool // deletion requested, still running out its grace period: counts like any other pod
}

// quantityForms: render the amounts through the string forms users write (same value, other syntax),
// and occasionally with sub-unit fractions (which the accessors round up).
var quantityForms = false

func cpuQuantity(cpu int64) resource.Quantity {
	if quantityForms {
		switch (cpu / 7) % 5 {
		case 0:
			return resource.MustParse(fmt.Sprintf("%dm", cpu))
		case 1:
			if cpu%1000 == 0 {
				return resource.MustParse(fmt.Sprintf("%d", cpu/1000))
			}
			return resource.MustParse(fmt.Sprintf("%d.%03d", cpu/1000, cpu%1000))
		case 2:
			return resource.MustParse(fmt.Sprintf("%de-3", cpu))
		case 3:
			// a sub-milli fraction: MilliValue rounds up
			return resource.MustParse(fmt.Sprintf("%d.%03d4", cpu/1000, cpu%1000))
		}
	}
	return *resource.NewMilliQuantity(cpu, resource.DecimalSI)
}

func memQuantity(mem int64) resource.Quantity {
	if quantityForms {
		switch (mem / 3) % 6 {
		case 0:
			if mem%(1<<30) == 0 {
				return resource.MustParse(fmt.Sprintf("%dGi", mem>>30))
			}
			if mem%(1<<20) == 0 {
				return resource.MustParse(fmt.Sprintf("%dMi", mem>>20))
			}
		case 1:
			if mem%1000 == 0 {
				return resource.MustParse(fmt.Sprintf("%dk", mem/1000))
			}
		case 2:
			return resource.MustParse(fmt.Sprintf("%d", mem))
		case 3:
			// half a byte more: Value() rounds up
			return resource.MustParse(fmt.Sprintf("%d.5", mem))
		case 4:
			if mem%(1<<29) == 0 && (mem>>29)%2 == 1 {
				return resource.MustParse(fmt.Sprintf("%d.5Gi", mem>>30))
			}
		}
	}
	return *resource.NewQuantity(mem, resource.BinarySI)
}

func resList(cpu, mem int64) v1.ResourceList {
	rl := v1.ResourceList{}
	if cpu != 0 {
		rl[v1.ResourceCPU] = cpuQuantity(cpu)
	}
	if mem != 0 {
		rl[v1.ResourceMemory] = memQuantity(mem)
	}
	return rl
}

func (p *WPod) materialise() *v1.Pod {
	pod := &v1.Pod{
		ObjectMeta: metav1.ObjectMeta{Name: p.Name, Namespace: p.NS, Annotations: p.Annotations},
		Spec:       v1.PodSpec{NodeName: p.NodeName, NodeSelector: p.NodeSelector, Affinity: p.Affinity},
		Status:     v1.PodStatus{Phase: v1.PodPhase(p.Phase)},
	}
	for _, k := range p.OwnerKinds {
		pod.OwnerReferences = append(pod.OwnerReferences, metav1.OwnerReference{Kind: k, Name: "o"})
	}
	for i, c := range p.Containers {
		pod.Spec.Containers = append(pod.Spec.Containers, v1.Container{Name: fmt.Sprint("c", i), Resources: v1.ResourceRequirements{Requests: resList(c[0], c[1])}})
	}
	for i, c := range p.Init {
		pod.Spec.InitContainers = append(pod.Spec.InitContainers, v1.Container{Name: fmt.Sprint("i", i), Resources: v1.ResourceRequirements{Requests: resList(c[0], c[1])}})
	}
	if p.Overhead != nil {
		pod.Spec.Overhead = resList(p.Overhead[0], p.Overhead[1])
	}
	if p.Terminating {
		ts := metav1.NewTime(time.Unix(1700000000, 0))
		gp := int64(30)
		pod.DeletionTimestamp, pod.DeletionGracePeriodSeconds = &ts, &gp
	}
	if p.Scheduled != nil {
		st := v1.ConditionFalse
		if *p.Scheduled {
			st = v1.ConditionTrue
		}
		pod.Status.Conditions = []v1.PodCondition{{Type: v1.PodReady, Status: v1.ConditionTrue}, {Type: v1.PodScheduled, Status: st}}
	}
	return pod
}

// materialise builds the Kubernetes object as of second nowSec.
func (n *WNode) materialise(nowSec int64) *v1.Node {
	node := &v1.Node{
		ObjectMeta: metav1.ObjectMeta{Name: n.Name, Labels: map[string]string{}, Annotations: map[string]string{}, ResourceVersion: "4711", UID: types.UID("uid-" + n.Name)},
		Spec:       v1.NodeSpec{ProviderID: n.ProviderID, Unschedulable: n.Unschedulable, PodCIDR: n.Extra},
	}
	for k, v := range n.Labels {
		node.Labels[k] = v
	}
	for k, v := range n.Annotations {
		node.Annotations[k] = v
	}
	if n.Terminating {
		ts := metav1.NewTime(time.Unix(1700000000, 0))
		node.DeletionTimestamp = &ts
		node.Finalizers = []string{"example.com/hold"}
	}
	if !n.CreatedZero {
		t := time.Unix(nowSec-n.CreatedAgo, 0)
		if n.ZoneOffset != 0 {
			// decoded while another zone offset was in force (daylight saving): the same instant, another wall-clock reading
			t = t.In(time.FixedZone("", n.ZoneOffset))
		}
		node.CreationTimestamp = metav1.NewTime(t)
	}
	for _, t := range n.Taints {
		val := t.Raw
		if t.Rel {
			val = strconv.FormatInt(nowSec-t.Ago, 10)
		}
		node.Spec.Taints = append(node.Spec.Taints, v1.Taint{Key: t.Key, Value: val, Effect: v1.TaintEffect(t.Effect)})
	}
	if !n.NoAlloc {
		node.Status.Allocatable = resList(n.AllocCPU, n.AllocMem)
	}
	return node
}

// absorb writes back what the API store holds for this node after a scan (only taints can change).
func (n *WNode) absorb(obj *v1.Node, nowSec int64) {
	n.Taints = nil
	for _, t := range obj.Spec.Taints {
		wt := WTaint{Key: t.Key, Effect: string(t.Effect), Raw: t.Value}
		if t.Key == escKey {
			if v, err := strconv.ParseInt(t.Value, 10, 64); err == nil {
				d := nowSec - v
				// keep "near now" stamps relative so that they age with virtual time
				if d > -1<<40 && d < 1<<40 {
					wt.Rel, wt.Ago, wt.Raw = true, d, ""
				}
			}
		}
		n.Taints = append(n.Taints, wt)
	}
}

const escKey = "atlassian.com/escalator"
const forceKey = "atlassian.com/escalator-force"
const noDeleteKey = "atlassian.com/no-delete"
