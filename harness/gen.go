package main

// Random configuration / world / event generation for the `hist` stream.

import (
	"fmt"
	"strings"
	"time"

	"github.com/atlassian/escalator/pkg/controller"
	v1 "k8s.io/api/core/v1"
)

const GiB = int64(1) << 30

func (h *Hist) genConfigs() {
	r := h.r
	ng := r.pickI(1, 1, 1, 2, 2, 3)
	if focus == "multi" {
		ng = r.pickI(2, 2, 3)
	}
	h.globalDry = r.chance(4)
	h.big = (r.chance(3) && focus != "fleet" && focus != "rotate" && focus != "restore" && !slowOK) || focus == "big"
	if focus == "dry" {
		h.globalDry = r.chance(25)
	}
	if focus == "rotate" || focus == "fleet" {
		h.globalDry = false
	}
	if focus == "churn" || focus == "down" {
		h.globalDry = false
	}
	if focus == "fleet" && r.chance(70) {
		ng = 1 // fleet scale-ups take seconds of real time: keep taint stamps of other groups out of the same scan
	}
	if fleetFail {
		ng = r.pickI(2, 2, 3)
	}
	useDefault := ng > 1 && r.chance(40)
	for i := 0; i < ng; i++ {
		name := fmt.Sprintf("g%d", i)
		if useDefault && i == ng-1 {
			name = "default"
		} else if i == 0 && ng > 1 && !useDefault && r.chance(6) {
			name = "asg1" // a group named like ANOTHER group's cloud group: the two kinds of name must never be mixed up
		} else if i == 1 && r.chance(10) {
			name = r.pick("G0", "g0 ", " g0", "Default", "g0.") // distinct names that a careless normalisation would merge
		}
		lower := r.rng(5, 40)
		upper := r.rng(lower+1, 75)
		up := r.rng(upper+1, 110)
		slow := r.rng(0, 3)
		if focus == "down" {
			slow = r.rng(1, 3)
		}
		fast := r.rng(slow, slow+4)
		if r.chance(10) {
			fast = 50
		}
		minN, maxN := r.rng(0, 3), 0
		if focus == "restore" {
			minN = r.rng(2, 5)
		}
		maxN = minN + r.rng(1, 9)
		if h.big && i == 0 {
			// a large group: hundreds of nodes, removal rates to match
			minN = r.pickI(0, 3, 20, 60)
			maxN = minN + r.rng(40, 260)
			if focus == "big" && r.chance(50) {
				maxN = minN + r.rng(180, 320) // room for a wave of well over a hundred removals in one scan
			}
			fast = r.pickI(5, 25, 60, 120)
			slow = r.rng(0, fast)
		}
		if r.chance(25) || focus == "autodisc" {
			minN, maxN = 0, 0 // auto-discover
		}
		soft := r.pickI(60, 120, 300)
		hard := soft + r.pickI(60, 300, 600)
		cool := r.pickI(60, 120, 300)
		o := controller.NodeGroupOptions{
			Name: name, LabelKey: "grp", LabelValue: fmt.Sprintf("v%d", i), CloudProviderGroupName: fmt.Sprintf("asg%d", i),
			MinNodes: minN, MaxNodes: maxN, DryMode: (r.chance(12) && focus != "churn" && focus != "down") || (focus == "dry" && r.chance(map[bool]int{true: 85, false: 60}[slowOK])), ScaleOnStarve: r.chance(30),
			TaintLowerCapacityThresholdPercent: lower, TaintUpperCapacityThresholdPercent: upper, ScaleUpThresholdPercent: up,
			SlowNodeRemovalRate: slow, FastNodeRemovalRate: fast,
			SoftDeleteGracePeriod: fmt.Sprintf("%ds", soft), HardDeleteGracePeriod: fmt.Sprintf("%ds", hard),
			ScaleUpCoolDownPeriod: fmt.Sprintf("%ds", cool),
			TaintEffect:           v1.TaintEffect(r.pick("", "", "NoSchedule", "NoExecute", "PreferNoSchedule")),
		}
		if r.chance(20) {
			o.MaxNodeAge = r.pick("1h", "30m", "0", "-1h")
		}
		if focus == "rotate" {
			// max_node_age rotation: the group sits at its minimum with old nodes, whatever the load
			o.MaxNodeAge = r.pick("1h", "30m", "2h")
			o.MinNodes, o.MaxNodes = r.rng(1, 4), 0
			o.MaxNodes = o.MinNodes + r.rng(3, 12)
			minN, maxN = o.MinNodes, o.MaxNodes
			o.DryMode = false
		}
		if r.chance(15) {
			o.AWS.ResourceTagging = true
		}
		o.AWS.Lifecycle = r.pick("", "", "on-demand", "spot") // read by the fleet path only; must not matter anywhere else
		if focus == "fleet" {
			// launch-template mode: scale-ups go through CreateFleet + readiness polling (1 s ticker) + AttachInstances
			o.AWS.LaunchTemplateID = "lt-1"
			o.AWS.LaunchTemplateVersion = r.pick("1", "$Latest")
			o.AWS.Lifecycle = r.pick("", "on-demand", "spot")
			o.AWS.FleetInstanceReadyTimeout = r.pick("2s", "3s", "") // omitted: the documented default of one minute
			if r.chance(40) {
				o.AWS.InstanceTypeOverrides = []string{"m5.large", "c5.large"}[:r.rng(1, 2)]
			}
			o.DryMode = false
		}
		if realCtorAlways && focus == "dry" && ng > 1 && !h.globalDry && r.chance(75) {
			// a dry group listed before a live one: whatever the constructor derives from one group must not reach the next
			o.DryMode = i < ng-1
		}
		h.cfgs = append(h.cfgs, o)
		h.pcfgs = append(h.pcfgs, protoCfg(o))

		// cloud group
		asgMin, asgMax := int64(minN), int64(maxN)
		if minN == 0 && maxN == 0 {
			asgMin, asgMax = int64(r.rng(0, 3)), 0
			asgMax = asgMin + int64(r.rng(1, 9))
			if h.big && i == 0 {
				asgMax = asgMin + int64(r.rng(40, 260))
			}
		} else {
			switch r.intn(4) {
			case 0:
				asgMax = int64(maxN) + int64(r.rng(1, 6)) // max_nodes strictly below the cloud maximum
			case 1:
				if maxN > 2 {
					asgMax = int64(maxN) - int64(r.rng(1, 2))
				}
			}
			if r.chance(30) && asgMin > 0 {
				asgMin--
			}
		}
		g := &SimASG{Name: o.CloudProviderGroupName, Min: asgMin, Max: asgMax, VpcZones: r.pick("subnet-a,subnet-b", fmt.Sprintf("subnet-%da,subnet-%db", i, i), fmt.Sprintf("subnet-%d", i)), Tagged: r.chance(30)}
		h.aws.asgs[g.Name] = g
		effMin, effMax := minN, maxN
		if minN == 0 && maxN == 0 {
			effMin, effMax = int(asgMin), int(asgMax)
		}
		nNodes := r.rng(effMin, effMax)
		if focus == "big" && h.big && i == 0 && effMax-effMin >= 180 && r.chance(70) {
			nNodes = r.rng(effMax-40, effMax) // a well-stocked large group
		}
		if focus == "rotate" && r.chance(85) {
			nNodes = effMin
		}
		if focus == "restore" && effMin > 0 {
			nNodes = effMin - r.pickI(0, 1, 1, 2) // at or just under the minimum: the restore branch again and again
			if nNodes < 0 {
				nNodes = 0
			}
		}
		switch r.intn(12) + map[bool]int{true: 100, false: 0}[focus == "rotate"] {
		case 0:
			nNodes = 0
		case 1:
			nNodes = effMax + 1
		case 2:
			if effMin > 0 {
				nNodes = effMin - 1
			}
		}
		cpu := int64(r.pickI(1000, 2000, 4000, 8000, 3900))
		mem := int64(r.pickI(4, 8, 16, 15)) * GiB
		for k := 0; k < nNodes; k++ {
			ago := int64(r.pickI(0, 10, 100, 100, 1000, 5000, 86400))
			if r.chance(6) {
				ago = int64(r.pickI(-3, -40, -500, -41)) // the API server's clock is ahead: created "in the future"
			}
			if focus == "ties" {
				ago = int64(r.pickI(100, 100, 100, 200, 200, 300))
			}
			if focus == "rotate" {
				ago = int64(r.pickI(100, 5000, 9000, 86400, 86400))
			}
			n := h.addNode(i, cpu, mem, ago, true)
			if focus == "ties" && r.chance(8) {
				n.CreatedZero = true
			}
		}
		g.Desired = int64(len(g.Instances))
		if g.Desired < g.Min {
			g.Desired = g.Min
		}
		if r.chance(20) && g.Desired < g.Max {
			g.Desired++ // an instance the cloud has not delivered yet
		}
	}
	h.desc = fmt.Sprintf("groups=%d", ng)
}

func (h *Hist) cfgIndexNodes(gi int) []*WNode {
	var out []*WNode
	for _, n := range h.api {
		if n.Labels["grp"] == h.cfgs[gi].LabelValue {
			out = append(out, n)
		}
	}
	return out
}

// addNode registers a node (and, if member, its instance in the ASG).
func (h *Hist) addNode(gi int, cpu, mem int64, ago int64, member bool) *WNode {
	o := h.cfgs[gi]
	h.nodeSeq++
	h.instSeq++
	id := fmt.Sprintf("i-%05d", h.instSeq)
	az := h.r.pick("az-a", "az-b")
	name := fmt.Sprintf("n%d", h.nodeSeq)
	if len(h.goneNames) > 0 && h.r.chance(50) {
		// the cloud hands the private address of a departed instance out again: a new node under an old name
		k := h.r.intn(len(h.goneNames))
		name = h.goneNames[k]
		h.goneNames = append(h.goneNames[:k:k], h.goneNames[k+1:]...)
	}
	n := &WNode{
		Name: name, ProviderID: providerID(az, id), ZoneOffset: h.r.pickI(0, 0, 0, 0, 0, 0, -4*3600, -5*3600, 3600),
		Labels: map[string]string{"grp": o.LabelValue, "other": "x"}, Annotations: map[string]string{},
		CreatedAgo: ago, AllocCPU: cpu, AllocMem: mem, Extra: fmt.Sprintf("10.0.%d.0/24", h.nodeSeq%200),
	}
	if member {
		g := h.aws.asgs[o.CloudProviderGroupName]
		g.Instances = append(g.Instances, SimInst{id, az})
	}
	h.api = append(h.api, n)
	return n
}

func (h *Hist) groupNodeSize(gi int) (int64, int64) {
	ns := h.cfgIndexNodes(gi)
	if len(ns) > 0 {
		return ns[0].AllocCPU, ns[0].AllocMem
	}
	return 4000, 16 * GiB
}

// setLoad rebuilds the pods of group gi so that requests sit at about pct% of untainted capacity.
func (h *Hist) setLoad(gi int, pct int, jitter int) {
	o := h.cfgs[gi]
	var keep []*WPod
	for _, p := range h.pods {
		if p.NodeSelector["grp"] != o.LabelValue && !(o.Name == "default" && len(p.NodeSelector) == 0) && !strings.HasPrefix(p.Name, "odd") {
			keep = append(keep, p)
		}
	}
	h.pods = keep
	var capCPU, capMem int64
	var unt []*WNode
	for _, n := range h.cfgIndexNodes(gi) {
		if !n.Unschedulable && !n.hasTaint(escKey) && !n.hasTaint(forceKey) {
			capCPU += n.AllocCPU
			capMem += n.AllocMem
			unt = append(unt, n)
		}
	}
	if capCPU == 0 {
		capCPU, capMem = h.groupNodeSize(gi)
	}
	wantCPU := capCPU*int64(pct)/100 + int64(jitter)
	wantMem := capMem * int64(h.r.rng(0, pct)) / 100
	if h.r.chance(30) { // memory-bound instead
		wantMem = capMem*int64(pct)/100 + int64(jitter)
		wantCPU = capCPU * int64(h.r.rng(0, pct)) / 100
	}
	if wantCPU < 0 {
		wantCPU = 0
	}
	if wantMem < 0 {
		wantMem = 0
	}
	npods := h.r.rng(1, 6)
	if h.big && h.r.chance(30) {
		npods = h.r.rng(60, 400)
	}
	if wantCPU == 0 && wantMem == 0 && h.r.chance(50) {
		npods = 0
	}
	for i := 0; i < npods; i++ {
		c, m := wantCPU/int64(npods), wantMem/int64(npods)
		if i == 0 {
			c += wantCPU % int64(npods)
			m += wantMem % int64(npods)
		}
		h.podSeq++
		name := fmt.Sprintf("p%d", h.podSeq)
		if h.r.chance(35) {
			// names from a small pool: a pod deleted from one group may come back, same namespace/name, selecting another
			cand := fmt.Sprintf("r%d", h.r.intn(6))
			used := false
			for _, q := range h.pods {
				used = used || q.Name == cand
			}
			if !used {
				name = cand
			}
		}
		p := &WPod{Name: name, NS: "ns", Phase: "Running", Annotations: map[string]string{}}
		if o.Name != "default" && h.r.chance(8) {
			// a static pod (kubelet manifest) that selects a labelled group: counts like any other pod of that group
			p.Annotations["kubernetes.io/config.source"] = "file"
		}
		if h.r.chance(4) {
			p.OwnerKinds = []string{h.r.pick("ReplicaSet", "Job", "Node", "StatefulSet")}
		}
		p.Terminating = h.r.chance(6)
		if o.Name != "default" {
			if h.r.chance(80) {
				p.NodeSelector = map[string]string{"grp": o.LabelValue}
			} else {
				other := "zz"
				if len(h.cfgs) > 1 && h.r.chance(40) {
					other = h.cfgs[h.r.intn(len(h.cfgs))].LabelValue // a pod that may run in two of the configured groups: it counts for both
				}
				in := func(vals ...string) v1.NodeSelectorRequirement {
					return v1.NodeSelectorRequirement{Key: "grp", Operator: v1.NodeSelectorOpIn, Values: vals}
				}
				var terms []v1.NodeSelectorTerm
				switch h.r.intn(4) {
				case 0: // two alternative terms, the other group named first
					terms = []v1.NodeSelectorTerm{{MatchExpressions: []v1.NodeSelectorRequirement{in(other)}}, {MatchExpressions: []v1.NodeSelectorRequirement{in(o.LabelValue)}}}
				case 1: // one term with two expressions on the key
					terms = []v1.NodeSelectorTerm{{MatchExpressions: []v1.NodeSelectorRequirement{in(other), in(o.LabelValue)}}}
				default:
					terms = []v1.NodeSelectorTerm{{MatchExpressions: []v1.NodeSelectorRequirement{in(other, o.LabelValue)}}}
				}
				if h.r.chance(25) {
					// an expression on the group's key with an operator the filter does not understand (only `In` selects),
					// in front of the one that selects: inside the same term, or as a term of its own
					odd := v1.NodeSelectorRequirement{Key: "grp", Operator: []v1.NodeSelectorOperator{v1.NodeSelectorOpNotIn, v1.NodeSelectorOpExists, v1.NodeSelectorOpDoesNotExist, v1.NodeSelectorOpGt}[h.r.intn(4)], Values: []string{"zz"}}
					if odd.Operator == v1.NodeSelectorOpExists || odd.Operator == v1.NodeSelectorOpDoesNotExist {
						odd.Values = nil
					}
					if h.r.chance(50) {
						terms[0].MatchExpressions = append([]v1.NodeSelectorRequirement{odd}, terms[0].MatchExpressions...)
					} else {
						terms = append([]v1.NodeSelectorTerm{{MatchExpressions: []v1.NodeSelectorRequirement{odd}}}, terms...)
					}
				}
				p.Affinity = &v1.Affinity{NodeAffinity: &v1.NodeAffinity{RequiredDuringSchedulingIgnoredDuringExecution: &v1.NodeSelector{NodeSelectorTerms: terms}}}
				p.NodeSelector = map[string]string{}
				// node-selector terms are alternatives: further terms that say nothing about the group (empty, fields only,
				// another key) change nothing, wherever they stand
				if h.r.chance(35) {
					terms := p.Affinity.NodeAffinity.RequiredDuringSchedulingIgnoredDuringExecution.NodeSelectorTerms
					extra := []v1.NodeSelectorTerm{{}, {MatchFields: []v1.NodeSelectorRequirement{{Key: "metadata.name", Operator: v1.NodeSelectorOpIn, Values: []string{"x"}}}},
						{MatchExpressions: []v1.NodeSelectorRequirement{{Key: "zone", Operator: v1.NodeSelectorOpExists}}}}[h.r.intn(3)]
					if h.r.chance(50) {
						terms = append(terms, extra)
					} else {
						terms = append([]v1.NodeSelectorTerm{extra}, terms...)
					}
					p.Affinity.NodeAffinity.RequiredDuringSchedulingIgnoredDuringExecution.NodeSelectorTerms = terms
				}
			}
		}
		// split the request over containers / init containers
		switch h.r.intn(4) {
		case 0:
			p.Containers = [][2]int64{{c / 2, m / 2}, {c - c/2, m - m/2}}
		case 1:
			p.Containers = [][2]int64{{c / 2, m}}
			p.Init = [][2]int64{{c, m / 2}, {c / 3, m / 3}}
		case 2:
			p.Containers = [][2]int64{{c - c/4, m - m/4}}
			p.Overhead = &[2]int64{c / 4, m / 4}
		default:
			p.Containers = [][2]int64{{c, m}}
		}
		t := true
		f := false
		switch h.r.intn(5) {
		case 0: // pending, unscheduled
			p.Phase = "Pending"
			if h.r.chance(50) {
				p.Scheduled = &f
			}
		default:
			if len(unt) > 0 || len(h.cfgIndexNodes(gi)) > 0 {
				all := h.cfgIndexNodes(gi)
				p.NodeName = all[h.r.intn(len(all))].Name
				p.Scheduled = &t
				if h.r.chance(15) {
					p.Phase = "Pending"
				}
			} else {
				p.Phase = "Pending"
			}
		}
		if h.r.chance(3) {
			p.NodeName = "ghost-node"
		}
		h.pods = append(h.pods, p)
	}
	// a pod of nobody's: partial affinity structures (no required node selector) — belongs to no labelled group, nor to default
	if h.r.chance(12) {
		h.podSeq++
		q := &WPod{Name: fmt.Sprintf("odd%d", h.podSeq), NS: "ns", Phase: h.r.pick("Running", "Pending"), Annotations: map[string]string{},
			Containers: [][2]int64{{int64(h.r.pickI(100, 2000)), int64(h.r.pickI(1, 8)) << 28}}, NodeSelector: map[string]string{}}
		switch h.r.intn(6) {
		case 4: // explicitly avoids this group: NotIn on the group's own key and value
			q.Affinity = &v1.Affinity{NodeAffinity: &v1.NodeAffinity{RequiredDuringSchedulingIgnoredDuringExecution: &v1.NodeSelector{
				NodeSelectorTerms: []v1.NodeSelectorTerm{{MatchExpressions: []v1.NodeSelectorRequirement{{Key: "grp", Operator: v1.NodeSelectorOpNotIn, Values: []string{o.LabelValue}}}}}}}}
		case 5: // selects the group's VALUE under another key
			q.Affinity = &v1.Affinity{NodeAffinity: &v1.NodeAffinity{RequiredDuringSchedulingIgnoredDuringExecution: &v1.NodeSelector{
				NodeSelectorTerms: []v1.NodeSelectorTerm{{MatchExpressions: []v1.NodeSelectorRequirement{{Key: "team", Operator: v1.NodeSelectorOpIn, Values: []string{o.LabelValue}}}}}}}}
		case 0:
			q.Affinity = &v1.Affinity{NodeAffinity: &v1.NodeAffinity{PreferredDuringSchedulingIgnoredDuringExecution: []v1.PreferredSchedulingTerm{{Weight: 1,
				Preference: v1.NodeSelectorTerm{MatchExpressions: []v1.NodeSelectorRequirement{{Key: "grp", Operator: v1.NodeSelectorOpIn, Values: []string{o.LabelValue}}}}}}}}
		case 1:
			q.Affinity = &v1.Affinity{NodeAffinity: &v1.NodeAffinity{}}
		case 2:
			q.Affinity = &v1.Affinity{NodeAffinity: &v1.NodeAffinity{RequiredDuringSchedulingIgnoredDuringExecution: &v1.NodeSelector{}}}
		default:
			q.Affinity = &v1.Affinity{PodAntiAffinity: &v1.PodAntiAffinity{}}
		}
		h.pods = append(h.pods, q)
	}
	// a daemonset pod on some node: never counts
	if h.r.chance(30) && len(h.cfgIndexNodes(gi)) > 0 {
		all := h.cfgIndexNodes(gi)
		h.podSeq++
		t := true
		h.pods = append(h.pods, &WPod{Name: fmt.Sprintf("ds%d", h.podSeq), NS: "kube-system", Phase: "Running", OwnerKinds: []string{"DaemonSet"},
			NodeName: all[h.r.intn(len(all))].Name, NodeSelector: map[string]string{"grp": o.LabelValue}, Containers: [][2]int64{{100, 1 << 20}}, Scheduled: &t, Annotations: map[string]string{}})
	}
}

func (h *Hist) pctChoice(gi int) (int, int) {
	o := h.cfgs[gi]
	lo, up, su := o.TaintLowerCapacityThresholdPercent, o.TaintUpperCapacityThresholdPercent, o.ScaleUpThresholdPercent
	if focus == "up" && h.r.chance(60) {
		return su + h.r.rng(1, 150), 0
	}
	if focus == "down" && h.r.chance(75) {
		return h.r.rng(0, up), 0
	}
	if focus == "bands" && h.r.chance(50) {
		return []int{lo, up, su}[h.r.intn(3)], h.r.rng(-2, 2)
	}
	switch h.r.intn(12) {
	case 0:
		return 0, 0
	case 1:
		return h.r.rng(0, lo), 0
	case 2:
		return lo, h.r.rng(-2, 2)
	case 3:
		return h.r.rng(lo, up), 0
	case 4:
		return up, h.r.rng(-2, 2)
	case 5:
		return h.r.rng(up, su), 0
	case 6:
		return su, h.r.rng(-2, 2)
	case 7, 8:
		return su + h.r.rng(1, 60), 0
	case 9:
		return su + h.r.rng(100, 400), 0
	default:
		return h.r.rng(0, su+30), h.r.rng(-5, 5)
	}
}

func (h *Hist) randomEvent() string {
	r := h.r
	gi := r.intn(len(h.cfgs))
	o := h.cfgs[gi]
	nodes := h.cfgIndexNodes(gi)
	pickNode := func() *WNode {
		if len(nodes) == 0 {
			return nil
		}
		return nodes[r.intn(len(nodes))]
	}
	soft := int64(o.SoftDeleteGracePeriodDuration() / time.Second)
	hard := int64(o.HardDeleteGracePeriodDuration() / time.Second)
	cool := o.ScaleUpCoolDownPeriodDuration()
	ev := r.intn(22)
	if r.chance(map[bool]int{true: 22, false: 3}[focus == "restore"]) && len(nodes) > 0 {
		// most of the group was tainted a moment ago (an operator's mistake, a burst of scale-downs): fewer than min_nodes stay
		// untainted although the group is well stocked — sometimes filled right up to max_nodes first
		st, _ := h.ctl.VerifGroupState(o.Name)
		if r.chance(40) {
			cpu, mem := h.groupNodeSize(gi)
			for k := len(nodes); k < st.MaxNodes && k < 14; k++ {
				h.addNode(gi, cpu, mem, int64(r.pickI(10, 1000, 5000)), true)
			}
			g := h.aws.asgs[o.CloudProviderGroupName]
			if int64(len(g.Instances)) > g.Desired {
				g.Desired = int64(len(g.Instances))
			}
			nodes = h.cfgIndexNodes(gi)
		}
		keep := r.rng(0, st.MinNodes)
		for _, n := range nodes {
			if n.hasTaint(escKey) || n.hasTaint(forceKey) || n.Unschedulable {
				continue
			}
			if keep > 0 {
				keep--
				continue
			}
			n.Taints = append(n.Taints, WTaint{Key: escKey, Effect: "NoSchedule", Rel: true, Ago: r.pickI64(0, 1, 5, soft/2)})
		}
		return "taint-most"
	}
	if h.big && r.chance(30) {
		// a large group is marked for removal wholesale: most of its nodes tainted long ago and empty, a few recent or busy
		gi, o = 0, h.cfgs[0]
		nodes = h.cfgIndexNodes(0)
		soft, hard = int64(o.SoftDeleteGracePeriodDuration()/time.Second), int64(o.HardDeleteGracePeriodDuration()/time.Second)
		frac := r.pickI(30, 60, 90, 97)
		if focus == "big" {
			frac = r.pickI(30, 60, 75, 75, 90, 97)
		}
		marked := map[string]bool{}
		for _, n := range nodes {
			if !r.chance(frac) || n.hasTaint(escKey) || n.hasTaint(forceKey) {
				continue
			}
			switch r.intn(10) {
			case 0:
				n.Taints = append(n.Taints, WTaint{Key: escKey, Effect: "NoSchedule", Rel: true, Ago: r.pickI64(0, 1, soft-1)})
			case 1:
				n.Taints = append(n.Taints, WTaint{Key: escKey, Effect: "NoSchedule", Raw: r.pick("abc", "", "12x")})
			case 2:
				n.Taints = append(n.Taints, WTaint{Key: forceKey, Effect: forceEffect(r), Raw: "x"})
				marked[n.Name] = true
			default:
				n.Taints = append(n.Taints, WTaint{Key: escKey, Effect: "NoSchedule", Rel: true, Ago: r.pickI64(soft+1, hard+1, 2*hard, soft+30)})
				marked[n.Name] = !r.chance(3)
			}
		}
		var keep []*WPod
		for _, p := range h.pods {
			if !marked[p.NodeName] {
				keep = append(keep, p)
			}
		}
		h.pods = keep
		return "mass-mark"
	}
	if h.big && r.chance(map[bool]int{true: 25, false: 12}[focus == "big"]) {
		// … and an operator cordons what is still marked
		for _, n := range h.cfgIndexNodes(0) {
			if (n.hasTaint(escKey) || n.hasTaint(forceKey)) && r.chance(50) {
				n.Unschedulable = true
			}
		}
		return "cordon-marked"
	}
	if focus == "up" && slowOK && r.chance(45) {
		// straight past the cool-down: the next scan may ask the cloud again, on whatever description of the group it holds
		h.shift(cool + time.Second)
		return "advance-past-cooldown"
	}
	if focus == "up" && slowOK && !(o.MinNodes == 0 && o.MaxNodes == 0) && r.chance(22) {
		// somebody lowers the cloud group's maximum under the configured max_nodes
		g := h.aws.asgs[o.CloudProviderGroupName]
		g.Max = int64(o.MaxNodes - r.rng(1, 3))
		if g.Max < g.Desired {
			g.Max = g.Desired
		}
		if g.Max < g.Min+1 {
			g.Max = g.Min + 1
		}
		h.nextRefreshFault = r.chance(70) // ... and the very next refresh fails: the provider must be rebuilt to learn about it
		return "asg-max-lowered"
	}
	if focus == "up" && r.chance(35) {
		ev = r.pickI(4, 4, 5, 16, 13, 14) // tainted nodes to reuse, force-tainted nodes to remove first, ties, deliveries, the cloud maximum moves
	}
	if focus == "annot" && r.chance(40) && len(nodes) > 0 {
		// several tainted nodes past their grace periods, most of them carrying the no-delete annotation
		k := r.rng(2, 5)
		for i := 0; i < k; i++ {
			n := pickNode()
			if !n.hasTaint(escKey) {
				n.Taints = append(n.Taints, WTaint{Key: escKey, Effect: "NoSchedule", Rel: true, Ago: []int64{soft + 1, hard + 1, 2 * hard}[r.intn(3)]})
			}
			if r.chance(70) {
				n.Annotations[noDeleteKey] = r.pick("true", "keep", "x", "", "false", "0", "f", "no", "FALSE")
			}
		}
		return "annot-burst"
	}
	if focus == "rotate" && r.chance(15) {
		// the group sits at its minimum, and on top of that holds a few nodes tainted long ago, some under the no-delete
		// annotation: the rotation waits for them, the reaper must still take the due ones
		cpu, mem := h.groupNodeSize(gi)
		st, _ := h.ctl.VerifGroupState(o.Name)
		k := r.rng(2, 3)
		for i := 0; i < k && len(h.cfgIndexNodes(gi)) < st.MaxNodes; i++ {
			n := h.addNode(gi, cpu, mem, int64(r.pickI(5000, 9000, 86400)), true)
			n.Taints = append(n.Taints, WTaint{Key: escKey, Effect: "NoSchedule", Rel: true, Ago: []int64{soft + 1, hard + 1, 2 * hard}[r.intn(3)]})
			if r.chance(50) {
				n.Annotations[noDeleteKey] = r.pick("true", "keep", "being debugged")
			}
		}
		g := h.aws.asgs[o.CloudProviderGroupName]
		if int64(len(g.Instances)) > g.Desired {
			g.Desired = int64(len(g.Instances))
		}
		return "tainted-extras"
	}
	if focus == "faults" && r.chance(30) {
		ev = r.pickI(15, 15, 4, 19, 13) // odd nodes, odd taint values, vanished objects, deliveries
	}
	if focus == "autodisc" && r.chance(45) {
		ev = r.pickI(14, 14, 14, 0, 21, 10, 13) // the cloud group's own minimum and maximum move; load changes; time
	}
	if focus == "down" && r.chance(60) {
		ev = r.pickI(10, 11, 12, 0, 1, 8, 13) // time passes between scale-down scans; a taint is lifted by hand now and then
	}
	if (focus == "up" || focus == "churn") && r.chance(12) && len(nodes) >= 3 {
		// an operator marks several nodes for forced removal at once and drains them: one removal request of several nodes
		k := r.rng(2, 4)
		marked := map[string]bool{}
		for i := 0; i < k; i++ {
			n := pickNode()
			if !n.hasTaint(forceKey) {
				n.Taints = append(n.Taints, WTaint{Key: forceKey, Effect: forceEffect(h.r), Raw: "x"})
			}
			marked[n.Name] = true
		}
		var keep []*WPod
		for _, p := range h.pods {
			if !marked[p.NodeName] {
				keep = append(keep, p)
			}
		}
		h.pods = keep
		if r.chance(40) {
			// … while another node of the group is under the no-delete annotation
			if n := pickNode(); n != nil && !marked[n.Name] {
				n.Annotations[noDeleteKey] = "true"
			}
		}
		if r.chance(50) {
			h.nextFaultAt = r.rng(1, k) // the cloud refuses one of the terminations of the batch
		}
		return "force-taint-burst"
	}
	if focus == "churn" && r.chance(20) {
		// the cloud group grows by an instance (somebody raised the desired size) whose node is already due for removal
		g := h.aws.asgs[o.CloudProviderGroupName]
		if int64(len(g.Instances)) < g.Max {
			cpu, mem := h.groupNodeSize(gi)
			n := h.addNode(gi, cpu, mem, int64(r.pickI(50, 500)), true)
			n.Taints = append(n.Taints, WTaint{Key: escKey, Effect: "NoSchedule", Rel: true, Ago: 2 * hard})
			if g.Desired < int64(len(g.Instances)) {
				g.Desired = int64(len(g.Instances))
			}
			return "deliver-due"
		}
	}
	if focus == "churn" && r.chance(75) {
		ev = r.pickI(4, 4, 5, 13, 13, 14, 14, 21, 0, 10, 18) // nodes come due for removal, instances arrive, the cloud group's minimum and desired size move
	}
	if focus == "restore" && r.chance(75) {
		ev = r.pickI(10, 11, 12, 10, 6, 6, 4, 14, 13, 0, 19) // time around the cool-down, cordons, tainted nodes to reuse, the minimum moves, few deliveries
	}
	if focus == "rotate" && r.chance(70) {
		ev = r.pickI(0, 1, 2, 3, 21, 10, 13) // mostly load changes across all bands, time, deliveries: keep the group at its minimum
	}
	if len(h.cfgs) > 1 && r.chance(2) {
		// a cloud group is deleted out of band (or comes back): DescribeAutoScalingGroups simply leaves it out
		g := h.aws.asgs[o.CloudProviderGroupName]
		g.Gone = !g.Gone
		return "asg-gone-or-back"
	}
	if r.chance(2) && len(h.api) > 0 {
		// every Node object of the cluster is gone (the instances are still in their cloud groups): all listings are empty
		h.api = nil
		return "cluster-empties"
	}
	if r.chance(3) && len(nodes) > 0 {
		// every node of the group is cordoned (maintenance): nothing of theirs may be counted
		for _, n := range nodes {
			n.Unschedulable = true
		}
		return "cordon-all"
	}
	if len(h.cfgs) > 1 && len(h.pods) > 0 && r.chance(map[bool]int{true: 12, false: 3}[focus == "multi"]) {
		// a pod is deleted and re-created under the same namespace/name within the scan interval, now selecting another
		// group (or none): the object behind the name changes shape, its identity as the listers see it does not
		p := h.pods[r.intn(len(h.pods))]
		if len(p.OwnerKinds) == 0 && !strings.HasPrefix(p.Name, "odd") {
			other := h.cfgs[r.intn(len(h.cfgs))]
			p.Affinity = nil
			if other.Name == "default" {
				p.NodeSelector = map[string]string{}
			} else if r.chance(70) {
				p.NodeSelector = map[string]string{"grp": other.LabelValue}
			} else {
				p.NodeSelector = map[string]string{}
				p.Affinity = &v1.Affinity{NodeAffinity: &v1.NodeAffinity{RequiredDuringSchedulingIgnoredDuringExecution: &v1.NodeSelector{
					NodeSelectorTerms: []v1.NodeSelectorTerm{{MatchExpressions: []v1.NodeSelectorRequirement{{Key: "grp", Operator: v1.NodeSelectorOpIn, Values: []string{other.LabelValue}}}}}}}}
			}
			return "pod-moves"
		}
	}
	if focus == "cooldown" && r.chance(45) {
		ev = r.pickI(10, 11, 12, 21, 4, 5, 6) // advances around the cool-down, load changes, taints and cordons inside the window
	}
	if focus == "dry" && slowOK && r.chance(75) {
		ev = r.pickI(21, 21, 10, 11, 12, 13) // a dry group that keeps wanting more, across cool-downs and provider rebuilds
	}
	if focus == "fleet" && r.chance(55) {
		ev = r.pickI(21, 21, 13, 10, 11, 5, 0) // mostly load (high), deliveries, time; some force taints
	}
	switch ev {
	case 0, 1, 2, 3:
		p, j := h.pctChoice(gi)
		h.setLoad(gi, p, j)
		return "load"
	case 4:
		if n := pickNode(); n != nil && !n.hasTaint(escKey) {
			t := WTaint{Key: escKey, Effect: r.pick("NoSchedule", "NoExecute", "PreferNoSchedule", "")}
			if r.chance(75) {
				t.Rel = true
				t.Ago = []int64{0, 1, soft - 1, soft, soft + 1, hard - 1, hard, hard + 1, 2 * hard, -100, soft / 2}[r.intn(11)]
				if focus == "churn" {
					t.Ago = []int64{hard + 1, 2 * hard, soft + 1}[r.intn(3)]
				} else if r.chance(12) {
					// centuries away in either direction: time.Time.Sub saturates at about 292.47 years (9223372036 s)
					t.Ago = []int64{-9223372035, -9223372036, -9223372037, -9223372038, -10000000000, -9467280000, 9223372036, 9223372037, 10000000000}[r.intn(9)]
				}
			} else {
				t.Raw = r.pick("", "abc", "12x", "+5", "-3", " 7", "99999999999999999999", "9223372036854775807", "-9223372036854775808", "1_000", "9223372036854775806", "0", "1.5", "0x10", "٣",
					"253402300799", "253402300800", "-62135596800", "-62135596801", "99999999999", "11000000000")
			}
			n.Taints = append(n.Taints, t)
			if r.chance(10) { // a second escalator taint: only the first is read
				n.Taints = append(n.Taints, WTaint{Key: escKey, Effect: "NoExecute", Rel: true, Ago: 2 * hard})
			}
			return "ext-taint"
		}
	case 5:
		if n := pickNode(); n != nil && !n.hasTaint(forceKey) {
			n.Taints = append(n.Taints, WTaint{Key: forceKey, Effect: forceEffect(h.r), Raw: "x"})
			return "force-taint"
		}
	case 6:
		if n := pickNode(); n != nil {
			n.Unschedulable = !n.Unschedulable
			return "cordon-toggle"
		}
	case 7:
		if n := pickNode(); n != nil {
			if _, ok := n.Annotations[noDeleteKey]; ok && r.chance(50) {
				delete(n.Annotations, noDeleteKey)
			} else {
				n.Annotations[noDeleteKey] = r.pick("true", "", "keep", "false", "0", "F", "1", "no")
			}
			return "annotate"
		}
	case 8:
		if n := pickNode(); n != nil && len(n.Taints) > 0 {
			i := r.intn(len(n.Taints))
			n.Taints = append(n.Taints[:i:i], n.Taints[i+1:]...)
			return "untaint-ext"
		}
	case 9:
		if n := pickNode(); n != nil {
			n.Taints = append(n.Taints, WTaint{Key: r.pick("foreign/a", "foreign/b", "foreign/a", escKey+"-nodegroup", escKey+"x", "atlassian.com/escalato", "Atlassian.com/escalator", forceKey+"d"), Effect: "NoSchedule", Raw: r.pick("1", "")})
			return "foreign-taint"
		}
	case 10, 11, 12:
		d := []time.Duration{time.Second, 30 * time.Second, time.Duration(soft) * time.Second, time.Duration(hard) * time.Second,
			cool - time.Second, cool, cool + time.Second, cool / 2, 2 * time.Duration(hard) * time.Second, time.Duration(soft+1) * time.Second,
			cool - 500*time.Millisecond, cool - 100*time.Millisecond, cool - 900*time.Millisecond}[r.intn(13)]
		h.shift(d)
		return "advance"
	case 13:
		// the cloud delivers what was asked for: instances appear and register as nodes
		g := h.aws.asgs[o.CloudProviderGroupName]
		cpu, mem := h.groupNodeSize(gi)
		n := 0
		for int64(len(g.Instances)) < g.Desired && n < 8 {
			h.addNode(gi, cpu, mem, 0, true)
			n++
		}
		if n > 0 {
			return "deliver"
		}
	case 14:
		g := h.aws.asgs[o.CloudProviderGroupName]
		which := r.intn(4)
		if focus == "autodisc" {
			which = r.pickI(0, 1, 1, 1, 2, 3)
		}
		if g.Max == 0 {
			// parked before: somebody opens the group again
			g.Max = int64(r.rng(1, 6))
			return "asg-unpark"
		}
		if r.chance(12) {
			// parked: the cloud group's minimum, maximum and desired size go to zero while its instances are still around
			g.Min, g.Max, g.Desired = 0, 0, 0
			return "asg-park"
		}
		if !(o.MinNodes == 0 && o.MaxNodes == 0) && r.chance(30) {
			// the cloud group's maximum moves across the configured max_nodes: below it now, above it later
			g.Max = int64(o.MaxNodes + r.rng(-3, 4))
			if g.Max < g.Desired {
				g.Max = g.Desired
			}
			if g.Max < g.Min+1 {
				g.Max = g.Min + 1
			}
			return "asg-max-swing"
		}
		switch which {
		case 0:
			g.Max += int64(r.rng(-2, 3))
			if g.Max < g.Min+1 {
				g.Max = g.Min + 1
			}
		case 1:
			g.Min += int64(r.rng(-1, 2))
			if g.Min < 0 {
				g.Min = 0
			}
			if g.Min >= g.Max {
				g.Min = g.Max - 1
			}
		case 2:
			if g.Desired < g.Max {
				g.Desired++
			}
		default:
			if g.Desired > g.Min && g.Desired > int64(len(g.Instances)) {
				g.Desired--
			}
		}
		return "asg-change"
	case 15:
		cpu, mem := h.groupNodeSize(gi)
		switch r.intn(5) {
		case 4: // detached by an operator: not in the ASG any more, cordoned, still carrying an (expired) escalator or force taint
			n := h.addNode(gi, cpu, mem, int64(r.pickI(100, 5000)), false)
			n.Unschedulable = true
			if r.chance(60) {
				n.Taints = append(n.Taints, WTaint{Key: escKey, Effect: "NoSchedule", Rel: true, Ago: 3 * hard})
			} else {
				n.Taints = append(n.Taints, WTaint{Key: forceKey, Effect: forceEffect(h.r), Raw: "x"})
			}
			return "detached-cordoned-node"
		case 0: // a node the ASG does not know
			h.addNode(gi, cpu, mem, int64(r.pickI(0, 50)), false)
			return "foreign-node"
		case 1: // odd provider ids
			n := h.addNode(gi, cpu, mem, int64(r.pickI(0, 0, 100, 5000, 90000)), false)
			n.ProviderID = r.pick("", "", "aws:///az-a", "garbage", "a/b/c/d", "aws:///az-a/i-x/extra", "aws:////i-0abc", "aws:///az-a/", "aws:////", "////", "aws:///i-0abc")
			if r.chance(35) {
				// … and a second one with the very same id (two kubelets without a cloud identity look alike)
				m := h.addNode(gi, cpu, mem, int64(r.pickI(0, 200, 7000, 100000)), false)
				m.ProviderID = n.ProviderID
			}
			return "odd-provider-id"
		case 2:
			n := h.addNode(gi, cpu, mem, 0, true)
			n.NoAlloc = true
			return "no-alloc-node"
		default:
			n := h.addNode(gi, int64(r.pickI(0, 500, 16000)), int64(r.pickI(0, 1, 64))*GiB, int64(r.pickI(0, 7, 100)), true)
			n.CreatedZero = r.chance(20)
			return "odd-size-node"
		}
	case 16:
		if focus == "multi" && len(h.cfgs) > 1 && r.chance(50) {
			// a node labelled for this group whose instance lives in another group's ASG
			other := (gi + 1) % len(h.cfgs)
			cpu, mem := h.groupNodeSize(gi)
			n := h.addNode(gi, cpu, mem, int64(r.pickI(0, 500)), false)
			og := h.aws.asgs[h.cfgs[other].CloudProviderGroupName]
			og.Instances = append(og.Instances, SimInst{instIDOfProviderID(n.ProviderID), "az-a"})
			n.ProviderID = providerID("az-a", instIDOfProviderID(n.ProviderID))
			if r.chance(60) {
				n.Taints = append(n.Taints, WTaint{Key: forceKey, Effect: forceEffect(h.r), Raw: "x"})
			} else {
				n.Taints = append(n.Taints, WTaint{Key: escKey, Effect: "NoSchedule", Rel: true, Ago: 3 * hard})
			}
			return "mislabelled-node"
		}
		if len(nodes) > 1 {
			// creation-time ties
			a, b := pickNode(), pickNode()
			b.CreatedAgo = a.CreatedAgo
			return "tie"
		}
	case 17:
		if h.initController() {
			return "restart"
		}
	case 18:
		// pods finish on one node (it becomes empty)
		if n := pickNode(); n != nil {
			var keep []*WPod
			for _, p := range h.pods {
				if p.NodeName != n.Name {
					keep = append(keep, p)
				}
			}
			h.pods = keep
			if r.chance(35) {
				// … all but one: what is left either still counts (a static pod of the group) or does not (a DaemonSet pod)
				h.podSeq++
				t := true
				q := &WPod{Name: fmt.Sprintf("left%d", h.podSeq), NS: "ns", Phase: "Running", NodeName: n.Name, Scheduled: &t, Annotations: map[string]string{},
					Containers: [][2]int64{{50, 1 << 20}}, NodeSelector: map[string]string{}}
				if o.Name != "default" {
					q.NodeSelector = map[string]string{"grp": o.LabelValue}
				}
				if r.chance(60) {
					q.Annotations["kubernetes.io/config.source"] = r.pick("file", "http")
				} else {
					q.OwnerKinds = []string{"DaemonSet"}
				}
				h.pods = append(h.pods, q)
				return "drain-but-one"
			}
			return "drain"
		}
	case 19:
		// node object vanishes from the API (deleted by someone else) while the lister still has it
		if len(h.api) > 0 && r.chance(30) {
			i := r.intn(len(h.api))
			h.api = append(h.api[:i:i], h.api[i+1:]...)
			return "api-delete"
		}
	case 20:
		if n := pickNode(); n != nil {
			if r.chance(35) {
				n.Terminating = !n.Terminating // somebody asked for the Node object's deletion; a finalizer holds it
				return "node-deletion-pending"
			}
			n.Labels["other"] = r.pick("x", "y")
			return "relabel"
		}
	default:
		p, j := h.pctChoice(gi)
		if (focus == "cooldown" || focus == "fleet" || (focus == "dry" && slowOK)) && r.chance(60) {
			p, j = o.ScaleUpThresholdPercent+r.rng(20, 200), 0
		}
		h.setLoad(gi, p, j)
		return "load"
	}
	return "noop"
}

// runHistory plays one random history of `scans` scans. Returns false if it had to be abandoned.
func (h *Hist) runHistory(scans int) (bool, string) {
	h.genConfigs()
	h.scanInterval = []time.Duration{0, time.Nanosecond, time.Millisecond, time.Minute}[h.r.intn(4)]
	h.realCtor = h.r.chance(4) || realCtorAlways
	h.twinT = h.r.intn(len(h.cfgs))
	if h.r.chance(50) {
		h.twinT = len(h.cfgs) - 1
	}
	for gi := range h.cfgs {
		p, j := h.pctChoice(gi)
		h.setLoad(gi, p, j)
	}
	h.syncListers()
	if !h.initController() {
		return true, "init-failed"
	}
	for s := 0; s < scans; s++ {
		ne := h.r.pickI(0, 1, 1, 2, 3)
		for e := 0; e < ne; e++ {
			h.stats["ev:"+h.randomEvent()]++
		}
		if fleetFail && h.r.chance(70) {
			for gi := range h.cfgs {
				if h.r.chance(80) {
					h.setLoad(gi, h.cfgs[gi].ScaleUpThresholdPercent+h.r.rng(20, 120), 0)
				}
			}
			h.stats["ev:all-groups-loaded"]++
		}
		if !h.r.chance(12) { // otherwise: the informer cache is stale for this scan
			h.syncListers()
		} else {
			h.stats["ev:stale-cache"]++
		}
		faults := map[int]bool{}
		failDesc := map[string]bool{}
		if focus == "down" && h.r.chance(45) {
			faults[h.r.rng(1, 6)] = true // a GET or an UPDATE of the taint loop is refused
		}
		if h.r.chance(25) || (focus == "faults" && h.r.chance(60)) {
			nf := h.r.pickI(1, 1, 2, 3)
			if focus == "faults" {
				nf = h.r.pickI(1, 2)
			}
			for i := 0; i < nf; i++ {
				faults[h.r.intn(14)] = true
			}
			if h.r.chance(30) {
				// two consecutive calls fail (the GET and the UPDATE of the same node, say)
				k := h.r.rng(1, 10)
				faults[k], faults[k+1] = true, true
			}
			if h.r.chance(10) {
				faults[0] = true // the refresh itself (costs 5 s of real sleep per retry)
			}
		}
		if focus == "up" && h.r.chance(12) {
			faults[h.r.pickI(3, 5)] = true // the cloud request that follows one or two untaints is refused
		}
		if h.nextFaultAt > 0 {
			faults[h.nextFaultAt] = true
			h.nextFaultAt = 0
		}
		if slowOK && h.nextRefreshFault {
			faults[0] = true
		}
		h.nextRefreshFault = false
		if slowOK && (focus == "cooldown" || focus == "up" || focus == "dry" || focus == "churn") && h.r.chance(35) {
			faults[0] = true // credentials refresh fails inside (or outside) a cool-down: the provider is rebuilt
		}
		if h.r.chance(10) {
			for _, n := range h.api {
				if h.r.chance(40) {
					failDesc[instIDOfProviderID(n.ProviderID)] = true
				}
			}
		}
		if faults[0] && !slowOK {
			delete(faults, 0)
		}
		if focus == "fleet" {
			h.aws.ec2.fleetSplit = h.r.pickI(1, 1, 2)
			h.aws.ec2.fleetMode = h.r.pick("ok", "ok", "ok", "ok", "some+err", "none+err", "none", "short+err")
			if fleetFail {
				// a failure that counts against the group is one after instances were acquired: the attach is refused (at once)
				h.aws.ec2.fleetMode = h.r.pick("ok", "ok", "ok", "ok", "none+err", "none", "short+err")
				h.aws.failAttach = h.r.chance(65)
			}
			h.aws.ec2.notReady = map[int]bool{}
			nr := h.r.intn(6)
			if fleetFail {
				nr = 2 + h.r.intn(20) // waiting for readiness costs seconds: rare here
			}
			switch nr {
			case 0:
				h.aws.ec2.notReady[0] = true
			case 1:
				for t := 0; t < 5; t++ {
					h.aws.ec2.notReady[t] = true
				}
			}
		}
		outcome, err := h.scan(faults, failDesc)
		if err != nil {
			return false, err.Error()
		}
		h.stats["outcome:"+outcome]++
		waveSize := 0
		for _, e := range h.rec.Entries {
			if m, ok := e.Call.(map[string]interface{}); ok {
				if _, t := m["terminateInAsg"]; t {
					waveSize++
				}
			}
		}
		// (a big wave — dozens of removals in one scan — draws the operator's attention more often than a single removal)
		if !h.scripted && outcome == "ok" && h.r.chance(map[bool]int{true: 60, false: 20}[waveSize >= 40]) {
			// an operator reacts to a wave of removals: what is still marked gets cordoned before the next scan
			removed := false
			for _, e := range h.rec.Entries {
				if m, ok := e.Call.(map[string]interface{}); ok {
					_, t := m["terminateInAsg"]
					_, d := m["deleteNode"]
					removed = removed || t || d
				}
			}
			if removed {
				for _, n := range h.api {
					if (n.hasTaint(escKey) || n.hasTaint(forceKey)) && h.r.chance(60) {
						n.Unschedulable = true
					}
				}
				h.stats["ev:cordon-after-removals"]++
			}
		}
		if !h.scripted && slowOK && outcome == "ok" && h.r.chance(map[bool]int{true: 75, false: 30}[len(faults) > 0]) {
			// a second of REAL time passes (everything else here moves the world into the past instead of the clock forward,
			// which a time kept in memory by the controller does not notice)
			time.Sleep(1050 * time.Millisecond)
			h.age(1)
			h.stats["ev:real-second"]++
		}
		if !h.scripted && outcome == "ok" && h.r.chance(30) {
			// time moves on between scans (the events above move it too, but rarely by little)
			h.shift([]time.Duration{time.Second, 2 * time.Second, 10 * time.Second, time.Minute, 5 * time.Minute}[h.r.intn(5)])
			h.stats["ev:tick"]++
		}
		if outcome != "ok" {
			// the process would have exited: what follows is a new lifetime
			if !h.initController() {
				return true, "reinit-failed"
			}
		}
	}
	return true, ""
}

var slowOK = false
var realCtorAlways = false
var focus = ""

// fleetFail: the "fleetfail" variant of the fleet focus (see main.go)
var fleetFail = false

// forceEffect: the force-removal taint is put on by operators: any effect, or none
func forceEffect(r *Rng) string {
	return r.pick("NoSchedule", "NoSchedule", "NoExecute", "PreferNoSchedule", "")
}
