package main

// splitmix64: every random choice of a run derives from one state seeded from VERIF_SEED.
type Rng struct{ s uint64 }

// newRng scrambles the seed into the initial state: with a state that is merely linear in the seed, the stream of
// seed k+1 is the stream of seed k shifted by one draw (consecutive VERIF_SEEDs would replay almost the same histories).
func newRng(seed uint64) *Rng {
	z := seed + 0x9E3779B97F4A7C15
	z = (z ^ (z >> 30)) * 0xBF58476D1CE4E5B9
	z = (z ^ (z >> 27)) * 0x94D049BB133111EB
	z = z ^ (z >> 31)
	z = (z ^ (z >> 33)) * 0xFF51AFD7ED558CCD
	return &Rng{s: z ^ (z >> 29) ^ 0x1234567}
}

func (r *Rng) u64() uint64 {
	r.s += 0x9E3779B97F4A7C15
	z := r.s
	z = (z ^ (z >> 30)) * 0xBF58476D1CE4E5B9
	z = (z ^ (z >> 27)) * 0x94D049BB133111EB
	return z ^ (z >> 31)
}

// intn returns a value in [0,n).
func (r *Rng) intn(n int) int {
	if n <= 0 {
		return 0
	}
	return int(r.u64() % uint64(n))
}

// rng returns a value in [lo,hi].
func (r *Rng) rng(lo, hi int) int { return lo + r.intn(hi-lo+1) }

func (r *Rng) chance(pct int) bool { return r.intn(100) < pct }

func (r *Rng) pick(xs ...string) string { return xs[r.intn(len(xs))] }

func (r *Rng) pickI(xs ...int) int { return xs[r.intn(len(xs))] }

func (r *Rng) pickI64(xs ...int64) int64 { return xs[r.intn(len(xs))] }

func (r *Rng) fork() *Rng { return newRng(r.u64()) }

func (r *Rng) perm(n int) []int {
	p := make([]int, n)
	for i := range p {
		p[i] = i
	}
	for i := n - 1; i > 0; i-- {
		j := r.intn(i + 1)
		p[i], p[j] = p[j], p[i]
	}
	return p
}
