module verifextract

go 1.23.0
