package main

import "go/ast"

// filled in by validate.go / keys.go
func genValidate(repo, out string, ng *ast.File) {}
func genKeys(repo, out string, ng *ast.File)     {}
