package main

// Translation of pkg/controller/util.go (calcPercentUsage, calcScaleUpDelta, allEqual) into Lean, over a rounding
// function `rnd : Rat → Rat` applied after every float64 operation and every int→float64 conversion (the same
// parameterisation as the hand-written model lean/Esc/Arith.lean, so that the two can be proved equal:
// EscProofs/P/GenArith.lean).
//
// Statements are translated in continuation-passing style (an `if` carries the rest of the function into both
// branches, an assignment becomes a `let`), so early returns and variables assigned in branches need no special care.
// Kinds of expressions: I (integer), Q (float64, as the rational it denotes), F (a float64 that may be the sentinel
// math.MaxFloat64: the two percentages), Z (integer-valued float: result of math.Ceil / math.Max), B (bool).
// Anything not understood becomes `Gen.arithUnknown k` (opaque), and numArithUnknown counts them.

import (
	"fmt"
	"go/ast"
	"go/token"
	"path/filepath"
	"strings"
)

type kind int

const (
	kI kind = iota
	kQ
	kF
	kZ
	kB
	kLit // integer literal: exact in either context
	kN   // a pointer / error value, represented by the Boolean "it is nil"
	kBad
)

type ar struct {
	atoms   map[string][2]string // normalised Go source -> (lean, kind letter)
	unknown int
	fn      string // function being translated (decides the shape of return values)
	// callAtoms: source text of a call on the right of a multi-valued assignment -> per left-hand side (lean, kind letter;
	// "" = the value is not needed, e.g. a string for a log line)
	callAtoms map[string][][2]string
	// loop-body mode: the body of `for _, x := range xs` translated to "is x appended to appendTo in this iteration"
	appendTo string
	inertOK  map[ast.Stmt]bool
	// classification mode: several lists are appended to; the result is the code of the list this iteration appends to (0: none)
	appendCodes map[string]int
	// membership loops `for _, x := range S { if a == x { v = true; break } }` : S -> (lean Bool, "does S contain a")
	containsAtoms map[string]string
	// existence loops `for _, x := range S { if <cond> { return true } }`: "S|cond" (x renamed to _x) -> lean Bool
	existsAtoms map[string]string
	// find-first loops `for i, x := range S { if cond(x) { …always returns… } }`: "S|cond" (x written _x) -> lean Bool "some element
	// satisfies cond"; the body then runs once, for the first such element
	findAtoms map[string]string
	// Lean lines emitted in front of the lets of a multi-valued call (callAtoms), e.g. to record what the call was given
	callPre map[string]string
	// expression statements with a meaning: source -> Lean lines (lets)
	stmtAtoms map[string]string
	// assignments with a meaning (an append of a literal to a field, say), keyed by the full statement text -> Lean lines
	assignAtoms map[string]string
	// receiver fields treated as variables of the translated function: source text ("l.isLocked") -> variable name
	fieldVars map[string]string
	// methods that may be spliced in where they are called as a statement (`l.unlock()`): call source -> body
	splice map[string][]ast.Stmt
	// what a function without result "returns" when it falls off its end (Lean text over the variables)
	endExpr string
}

func (a *ar) unk(what string) (string, kind) {
	a.unknown++
	return fmt.Sprintf("(Gen.anyUnknown %d /- %s -/)", a.unknown, strings.ReplaceAll(what, "-/", "- /")), kBad
}

func kindOf(s string) kind {
	switch s {
	case "I":
		return kI
	case "Q":
		return kQ
	case "F":
		return kF
	case "Z":
		return kZ
	case "B":
		return kB
	case "N":
		return kN
	}
	return kBad
}

type env map[string]kind

func (e env) copy() env {
	o := env{}
	for k, v := range e {
		o[k] = v
	}
	return o
}

// toQ: operand of a float operation as a rational
func (a *ar) toQ(s string, k kind) string {
	switch k {
	case kQ:
		return s
	case kF:
		return "(" + s + ").val"
	case kLit:
		return "(" + s + " : Rat)"
	case kZ:
		return "((" + s + " : Int) : Rat)"
	}
	u, _ := a.unk("float operand of kind " + fmt.Sprint(k) + ": " + s)
	return u
}

func (a *ar) toI(s string, k kind) string {
	if k == kLit {
		return "(" + s + " : Int)"
	}
	return s
}

func (a *ar) expr(e ast.Expr, en env) (string, kind) {
	src := srcOf(e)
	if at, ok := a.atoms[src]; ok {
		return at[0], kindOf(at[1])
	}
	if name, ok := a.fieldVars[src]; ok {
		if k, ok := en[name]; ok {
			return name, k
		}
	}
	switch v := e.(type) {
	case *ast.ParenExpr:
		s, k := a.expr(v.X, en)
		return "(" + s + ")", k
	case *ast.BasicLit:
		if v.Kind == token.INT {
			return v.Value, kLit
		}
	case *ast.Ident:
		if k, ok := en[v.Name]; ok {
			return v.Name, k
		}
		if v.Name == "true" || v.Name == "false" {
			return v.Name, kB
		}
	case *ast.UnaryExpr:
		if v.Op == token.NOT {
			s, k := a.expr(v.X, en)
			if k == kB {
				return "(!" + s + ")", kB
			}
		}
		if v.Op == token.SUB {
			s, k := a.expr(v.X, en)
			if k == kI || k == kLit {
				return "(-" + a.toI(s, k) + ")", kI
			}
		}
		if v.Op == token.AND {
			return a.expr(v.X, en) // &x: the value pointed to
		}
	case *ast.CallExpr:
		fn := srcOf(v.Fun)
		switch {
		case fn == "float64" && len(v.Args) == 1:
			s, k := a.expr(v.Args[0], en)
			switch k {
			case kI:
				return "rnd ((" + s + " : Int) : Rat)", kQ
			case kLit:
				return "rnd (" + s + " : Rat)", kQ
			case kQ:
				return s, kQ
			}
		case fn == "int" && len(v.Args) == 1:
			s, k := a.expr(v.Args[0], en)
			if k == kZ {
				return s, kI
			}
		case fn == "time.Unix" && len(v.Args) == 2 && srcOf(v.Args[1]) == "0":
			// a time is represented by its Unix second
			s, k := a.expr(v.Args[0], en)
			if k == kI {
				return s, kI
			}
		case fn == "int64" && len(v.Args) == 1:
			s, k := a.expr(v.Args[0], en)
			if k == kI || k == kLit {
				return a.toI(s, k), kI
			}
		case strings.HasSuffix(fn, ".calculateNodesToAdd") && len(v.Args) == 3:
			xs := []string{}
			ok := true
			for _, x := range v.Args {
				s, k := a.expr(x, en)
				if k != kI && k != kLit {
					ok = false
				}
				xs = append(xs, a.toI(s, k))
			}
			if ok {
				return "(Gen.calculateNodesToAdd " + strings.Join(xs, " ") + ")", kI
			}
		case fn == "math.Ceil" && len(v.Args) == 1:
			s, k := a.expr(v.Args[0], en)
			if k == kQ {
				return "(" + s + ").ceil", kZ
			}
		case fn == "math.Max" && len(v.Args) == 2:
			l, kl := a.expr(v.Args[0], en)
			r, kr := a.expr(v.Args[1], en)
			if kl == kZ && kr == kZ {
				return "(max " + l + " " + r + ")", kZ
			}
			if kl == kF && kr == kF {
				return "(Gen.F.max " + l + " " + r + ")", kF
			}
		case fn == "allEqual" && len(v.Args) >= 2:
			m, km := a.expr(v.Args[0], en)
			xs := []string{}
			ok := km == kI || km == kLit
			for _, x := range v.Args[1:] {
				s, k := a.expr(x, en)
				if k != kI && k != kLit {
					ok = false
				}
				xs = append(xs, a.toI(s, k))
			}
			if ok {
				return "(Gen.allEqual " + a.toI(m, km) + " [" + strings.Join(xs, ", ") + "])", kB
			}
		}
	case *ast.BinaryExpr:
		l, kl := a.expr(v.X, en)
		r, kr := "", kBad
		if id, ok := v.Y.(*ast.Ident); !ok || id.Name != "nil" {
			r, kr = a.expr(v.Y, en)
		}
		isFloat := func(k kind) bool { return k == kQ || k == kF }
		isInt := func(k kind) bool { return k == kI || k == kLit || k == kZ }
		switch v.Op {
		case token.LOR:
			if kl == kB && kr == kB {
				return "(" + l + " || " + r + ")", kB
			}
		case token.LAND:
			if kl == kB && kr == kB {
				return "(" + l + " && " + r + ")", kB
			}
		case token.EQL, token.NEQ:
			neg := ""
			if v.Op == token.NEQ {
				neg = "!"
			}
			// err != nil / err == nil, err a Boolean "an error was returned"
			if id, ok := v.Y.(*ast.Ident); ok && id.Name == "nil" && kl == kB {
				if v.Op == token.NEQ {
					return l, kB
				}
				return "(!" + l + ")", kB
			}
			if id, ok := v.Y.(*ast.Ident); ok && id.Name == "nil" && kl == kN {
				if v.Op == token.EQL {
					return l, kB
				}
				return "(!" + l + ")", kB
			}
			if kl == kF && kr == kF {
				return "(" + neg + "decide (" + l + " = " + r + "))", kB
			}
			if isInt(kl) && isInt(kr) && !(kl == kLit && kr == kLit) {
				return "(" + neg + "decide (" + a.toI(l, kl) + " = " + a.toI(r, kr) + "))", kB
			}
		case token.LSS, token.GTR, token.LEQ, token.GEQ:
			op := map[token.Token]string{token.LSS: "<", token.GTR: ">", token.LEQ: "≤", token.GEQ: "≥"}[v.Op]
			if kl == kF && kr == kQ && (v.Op == token.LSS || v.Op == token.GTR) {
				f := map[token.Token]string{token.LSS: "Gen.F.lt", token.GTR: "Gen.F.gt"}[v.Op]
				return "(" + f + " " + l + " (" + r + "))", kB
			}
			if isInt(kl) && isInt(kr) && !(kl == kLit && kr == kLit) {
				return "decide (" + a.toI(l, kl) + " " + op + " " + a.toI(r, kr) + ")", kB
			}
		case token.ADD, token.SUB, token.MUL, token.QUO:
			op := map[token.Token]string{token.ADD: "+", token.SUB: "-", token.MUL: "*", token.QUO: "/"}[v.Op]
			if (isFloat(kl) && (isFloat(kr) || kr == kLit)) || (isFloat(kr) && kl == kLit) {
				return "rnd (" + a.toQ(l, kl) + " " + op + " " + a.toQ(r, kr) + ")", kQ
			}
			if (kl == kI || kl == kLit) && (kr == kI || kr == kLit) && !(kl == kLit && kr == kLit) && v.Op != token.QUO {
				return "(" + a.toI(l, kl) + " " + op + " " + a.toI(r, kr) + ")", kI
			}
		}
	}
	return a.unk(src)
}

func isLogStmt(s ast.Stmt) bool {
	es, ok := s.(*ast.ExprStmt)
	if !ok {
		return false
	}
	// a log line — and nothing hidden in its arguments: every call inside it is one of the calls known to be free of effects
	return strings.HasPrefix(srcOf(es.X), "log.") && callsAllowed(es.X)
}

func leanType(k kind) string {
	switch k {
	case kI, kZ, kLit:
		return "Int"
	case kQ:
		return "Rat"
	case kF:
		return "Gen.F"
	case kB, kN:
		return "Bool"
	}
	return "Int"
}

// ret: the value of a return statement, by function
func (a *ar) ret(r *ast.ReturnStmt, en env) string {
	if len(r.Results) == 0 {
		// a bare return of a function without result: the state as it is now
		if a.endExpr != "" {
			return a.endExpr
		}
		u, _ := a.unk("bare return")
		return u
	}
	isNil := func(e ast.Expr) bool { id, ok := e.(*ast.Ident); return ok && id.Name == "nil" }
	asF := func(e ast.Expr) string {
		s, k := a.expr(e, en)
		switch k {
		case kF:
			return s
		case kQ:
			return "(Gen.F.fin " + s + ")"
		case kLit:
			return "(Gen.F.fin (" + s + " : Rat))"
		}
		u, _ := a.unk("returned float: " + srcOf(e))
		return u
	}
	switch a.fn {
	case "calcPercentUsage":
		if len(r.Results) == 3 {
			return fmt.Sprintf("(%s, %s, %v)", asF(r.Results[0]), asF(r.Results[1]), !isNil(r.Results[2]))
		}
	case "calcScaleUpDelta":
		if len(r.Results) == 2 {
			s, k := a.expr(r.Results[0], en)
			if k == kI || k == kLit || k == kZ {
				return fmt.Sprintf("(%s, %v)", a.toI(s, k), !isNil(r.Results[1]))
			}
		}
	}
	if a.fn == "taintOpFn" && len(r.Results) == 2 {
		e := "false"
		if !isNil(r.Results[1]) {
			e = "true"
		}
		return "(" + e + ", updateCalled_, appendedEffect_)"
	}
	if a.fn == "tryDeleteFn" && len(r.Results) == 2 {
		x, k := a.expr(r.Results[0], en)
		e := "false"
		if !isNil(r.Results[1]) {
			e = "true"
		}
		if k == kI || k == kLit {
			return "(" + a.toI(x, k) + ", " + e + ", cloudCalled_, k8sCalled_)"
		}
	}
	if a.fn == "scaleUpFn" && len(r.Results) == 2 {
		x, k := a.expr(r.Results[0], en)
		e := "false"
		if !isNil(r.Results[1]) {
			es, ek := a.expr(r.Results[1], en)
			if ek != kB {
				es, _ = a.unk("returned error: " + srcOf(r.Results[1]))
			}
			e = es
		}
		if k == kI || k == kLit {
			return "(" + a.toI(x, k) + ", " + e + ", askedCloud_, asked_, locked_, lockedWith_)"
		}
	}
	if a.fn == "boolFn" && len(r.Results) == 1 {
		x, k := a.expr(r.Results[0], en)
		if k == kB {
			return x
		}
	}
	if a.fn == "taintTime" && len(r.Results) == 2 {
		// (*time.Time, error) -> (the time is nil, an error is returned, the Unix second when there is a time)
		e := "false"
		if !isNil(r.Results[1]) {
			e = "true"
		}
		if isNil(r.Results[0]) {
			return "(true, " + e + ", (0 : Int))"
		}
		x, k := a.expr(r.Results[0], en)
		if k == kI {
			return "(false, " + e + ", " + x + ")"
		}
	}
	if a.fn == "lockedFn" && len(r.Results) == 1 {
		x, k := a.expr(r.Results[0], en)
		if k == kB {
			return "(" + x + ", isLocked, requested)"
		}
	}
	if a.fn == "awsGuard" && len(r.Results) == 1 {
		e := r.Results[0]
		if isNil(e) {
			return "((3 : Int), (0 : Int))"
		}
		if c, ok := e.(*ast.CallExpr); ok {
			fn := srcOf(c.Fun)
			switch {
			case strings.HasPrefix(fn, "fmt.Errorf") || strings.HasPrefix(fn, "errors.New"):
				return "((0 : Int), (0 : Int))"
			case strings.HasSuffix(fn, ".setASGDesiredSizeOneShot") && len(c.Args) == 1:
				x, k := a.expr(c.Args[0], en)
				if k == kI || k == kLit {
					return "((1 : Int), " + a.toI(x, k) + ")"
				}
			case strings.HasSuffix(fn, ".setASGDesiredSize") && len(c.Args) == 1:
				x, k := a.expr(c.Args[0], en)
				if k == kI || k == kLit {
					return "((2 : Int), " + a.toI(x, k) + ")"
				}
			}
		}
	}
	switch a.fn {
	case "calculateNodesToAdd", "clampPrefix":
		if len(r.Results) == 1 {
			s, k := a.expr(r.Results[0], en)
			if k == kI || k == kLit {
				return a.toI(s, k)
			}
		}
	case "bandSwitch", "taintClamp":
		if len(r.Results) == 2 {
			s, k := a.expr(r.Results[0], en)
			e := "false"
			if !isNil(r.Results[1]) {
				if a.fn == "taintClamp" {
					e = "true"
				} else {
					es, ek := a.expr(r.Results[1], en)
					if ek != kB {
						es, _ = a.unk("returned error: " + srcOf(r.Results[1]))
					}
					e = es
				}
			}
			if k == kI || k == kLit {
				return "(" + a.toI(s, k) + ", " + e + ")"
			}
		}
	}
	u, _ := a.unk("return: " + srcOf(r.Results[0]))
	return u
}

func (a *ar) block(ss []ast.Stmt, en env, ind string) string {
	if len(ss) == 0 {
		if a.appendTo != "" || a.appendCodes != nil {
			return ind + "appended_"
		}
		if a.endExpr != "" {
			return ind + a.endExpr
		}
		u, _ := a.unk("function falls off its end")
		return ind + u
	}
	s, rest := ss[0], ss[1:]
	if a.inertOK[s] {
		return a.block(rest, en, ind)
	}
	switch v := s.(type) {
	case *ast.BranchStmt:
		if (a.appendTo != "" || a.appendCodes != nil) && v.Tok == token.CONTINUE && v.Label == nil {
			return ind + "appended_"
		}
		if a.fn == "loopStep" && v.Tok == token.BREAK && v.Label == nil {
			return ind + "(true, count, attempted_)"
		}
	case *ast.ReturnStmt:
		return ind + a.ret(v, en)
	case *ast.DeclStmt:
		// `var x bool` starts as false (other declarations are assigned before they are read, or the read is reported)
		if gd, ok := v.Decl.(*ast.GenDecl); ok && gd.Tok == token.VAR {
			en2 := en.copy()
			out := ""
			for _, sp := range gd.Specs {
				if vs, ok := sp.(*ast.ValueSpec); ok && vs.Type != nil && srcOf(vs.Type) == "bool" && len(vs.Values) == 0 {
					for _, n := range vs.Names {
						out += fmt.Sprintf("%slet %s : Bool := false\n", ind, n.Name)
						en2[n.Name] = kB
					}
				}
			}
			return out + a.block(rest, en2, ind)
		}
		return a.block(rest, en, ind)
	case *ast.RangeStmt:
		// find-first loop
		if a.findAtoms != nil && v.Value != nil && len(v.Body.List) == 1 {
			if is, ok := v.Body.List[0].(*ast.IfStmt); ok && is.Init == nil && is.Else == nil {
				x := srcOf(v.Value)
				key := srcOf(v.X) + "|" + strings.ReplaceAll(srcOf(is.Cond), x+".", "_x.")
				if at, ok := a.findAtoms[key]; ok {
					return ind + "if " + at + " = true then\n" + a.block(is.Body.List, en.copy(), ind+"  ") + "\n" + ind + "else\n" + a.block(rest, en.copy(), ind+"  ")
				}
			}
		}
		// a loop read as an existence test as a whole (its full text is the key: nested iteration that can only `continue` or
		// `return true`)
		if at, ok := a.existsAtoms["loop|"+srcOfNode(v)]; ok {
			return ind + "if " + at + " = true then\n" + ind + "  true\n" + ind + "else\n" + a.block(rest, en, ind+"  ")
		}
		// existence loop: for _, x := range S { if cond(x) { return true } }  ->  if <exists> then true else <rest>
		if a.existsAtoms != nil && v.Value != nil && len(v.Body.List) == 1 {
			if is, ok := v.Body.List[0].(*ast.IfStmt); ok && is.Init == nil && is.Else == nil && len(is.Body.List) == 1 {
				if r, ok := is.Body.List[0].(*ast.ReturnStmt); ok && len(r.Results) == 1 && srcOf(r.Results[0]) == "true" {
					x := srcOf(v.Value)
					key := srcOf(v.X) + "|" + strings.ReplaceAll(srcOf(is.Cond), x+".", "_x.")
					if at, ok := a.existsAtoms[key]; ok {
						return ind + "if " + at + " = true then\n" + ind + "  true\n" + ind + "else\n" + a.block(rest, en, ind+"  ")
					}
				}
			}
		}
		// membership loop: for _, x := range S { if a == x { v = true; break } }
		if v.Value != nil && len(v.Body.List) == 1 {
			if is, ok := v.Body.List[0].(*ast.IfStmt); ok && is.Init == nil && is.Else == nil && len(is.Body.List) == 2 {
				x := srcOf(v.Value)
				cond := srcOf(is.Cond)
				// "S|cond" (the loop variable written _x): the loop sets the flag iff some element satisfies cond
				if at, ok := a.containsAtoms[srcOf(v.X)+"|"+strings.ReplaceAll(cond, x+".", "_x.")]; ok {
					as, ok1 := is.Body.List[0].(*ast.AssignStmt)
					br, ok2 := is.Body.List[1].(*ast.BranchStmt)
					if ok1 && ok2 && br.Tok == token.BREAK && len(as.Lhs) == 1 && len(as.Rhs) == 1 && srcOf(as.Rhs[0]) == "true" {
						name := srcOf(as.Lhs[0])
						if en[name] == kB {
							return fmt.Sprintf("%slet %s : Bool := (%s || %s)\n", ind, name, name, at) + a.block(rest, en, ind)
						}
					}
				}
			}
		}
		if at, ok := a.containsAtoms[srcOf(v.X)]; ok && v.Value != nil && len(v.Body.List) == 1 {
			if is, ok := v.Body.List[0].(*ast.IfStmt); ok && is.Init == nil && is.Else == nil && len(is.Body.List) == 2 {
				x := srcOf(v.Value)
				cond := srcOf(is.Cond)
				as, ok1 := is.Body.List[0].(*ast.AssignStmt)
				br, ok2 := is.Body.List[1].(*ast.BranchStmt)
				if ok1 && ok2 && br.Tok == token.BREAK && len(as.Lhs) == 1 && len(as.Rhs) == 1 && srcOf(as.Rhs[0]) == "true" &&
					(strings.HasSuffix(cond, " == "+x) || strings.HasPrefix(cond, x+" == ")) {
					name := srcOf(as.Lhs[0])
					if en[name] == kB {
						return fmt.Sprintf("%slet %s : Bool := (%s || %s)\n", ind, name, name, at) + a.block(rest, en, ind)
					}
				}
			}
		}
	case *ast.ExprStmt:
		if isLogStmt(s) {
			return a.block(rest, en, ind)
		}
		if lines, ok := a.stmtAtoms[srcOf(v.X)]; ok {
			out := ""
			for _, l := range strings.Split(lines, "\n") {
				out += ind + l + "\n"
			}
			return out + a.block(rest, en, ind)
		}
		if body, ok := a.splice[srcOf(v.X)]; ok {
			return a.block(append(append([]ast.Stmt{}, body...), rest...), en, ind)
		}
	case *ast.AssignStmt:
		if lines, ok := a.assignAtoms[srcOfNode(v)]; ok {
			out := ""
			for _, l := range strings.Split(lines, "\n") {
				if l == "" {
					continue
				}
				out += ind + l + "\n"
			}
			return out + a.block(rest, en, ind)
		}
		// xs = append(xs, x) in classification mode
		if a.appendCodes != nil && len(v.Lhs) == 1 && len(v.Rhs) == 1 {
			if code, ok := a.appendCodes[srcOf(v.Lhs[0])]; ok {
				if c, ok := v.Rhs[0].(*ast.CallExpr); ok && srcOf(c.Fun) == "append" && len(c.Args) == 2 && srcOf(c.Args[0]) == srcOf(v.Lhs[0]) {
					return fmt.Sprintf("%slet appended_ : Nat := %d\n", ind, code) + a.block(rest, en, ind)
				}
			}
		}
		// xs = append(xs, x) in loop-body mode
		if a.appendTo != "" && len(v.Lhs) == 1 && len(v.Rhs) == 1 && srcOf(v.Lhs[0]) == a.appendTo {
			if c, ok := v.Rhs[0].(*ast.CallExpr); ok && srcOf(c.Fun) == "append" && len(c.Args) == 2 && srcOf(c.Args[0]) == a.appendTo {
				return ind + "let appended_ : Bool := true\n" + a.block(rest, en, ind)
			}
		}
		if len(v.Rhs) == 1 {
			if at, ok := a.callAtoms[srcOf(v.Rhs[0])]; ok && len(at) == len(v.Lhs) {
				en2 := en.copy()
				out := ""
				if pre, ok := a.callPre[srcOf(v.Rhs[0])]; ok {
					for _, l := range strings.Split(pre, "\n") {
						out += ind + l + "\n"
					}
				}
				for i, l := range v.Lhs {
					if at[i][0] == "" {
						continue
					}
					k := kindOf(at[i][1])
					out += fmt.Sprintf("%slet %s : %s := %s\n", ind, srcOf(l), leanType(k), at[i][0])
					en2[srcOf(l)] = k
				}
				return out + a.block(rest, en2, ind)
			}
		}
		// nodesDelta, err = calcScaleUpDelta(untaintedNodes, cpuPercent, memPercent, …): the pair `up` handed in
		if len(v.Lhs) == 2 && len(v.Rhs) == 1 {
			if c, ok := v.Rhs[0].(*ast.CallExpr); ok && srcOf(c.Fun) == "calcScaleUpDelta" && len(c.Args) == 6 &&
				srcOf(c.Args[0]) == "untaintedNodes" && srcOf(c.Args[1]) == "cpuPercent" && srcOf(c.Args[2]) == "memPercent" &&
				strings.Contains(srcOf(c.Args[3]), "GetCPUQuantity") && strings.Contains(srcOf(c.Args[4]), "GetMemoryQuantity") && srcOf(c.Args[5]) == "nodeGroup" {
				d, e := srcOf(v.Lhs[0]), srcOf(v.Lhs[1])
				en2 := en.copy()
				en2[d], en2[e] = kI, kB
				return ind + "let " + d + " : Int := up.1\n" + ind + "let " + e + " : Bool := up.2\n" + a.block(rest, en2, ind)
			}
		}
		if len(v.Lhs) == 1 && len(v.Rhs) == 1 && (v.Tok == token.SUB_ASSIGN || v.Tok == token.ADD_ASSIGN) {
			name := ""
			if id, ok := v.Lhs[0].(*ast.Ident); ok {
				name = id.Name
			} else if n, ok := a.fieldVars[srcOf(v.Lhs[0])]; ok {
				name = n
			}
			r, kr := a.expr(v.Rhs[0], en)
			if name != "" && en[name] == kI && (kr == kI || kr == kLit) {
				op := map[token.Token]string{token.SUB_ASSIGN: "-", token.ADD_ASSIGN: "+"}[v.Tok]
				return fmt.Sprintf("%slet %s : Int := (%s %s %s)\n", ind, name, name, op, a.toI(r, kr)) + a.block(rest, en, ind)
			}
		}
		if len(v.Lhs) == len(v.Rhs) && (v.Tok == token.DEFINE || v.Tok == token.ASSIGN) {
			en2 := en.copy()
			out := ""
			// parallel assignment: evaluate every right-hand side in the old environment
			type one struct {
				name, val string
				k         kind
			}
			var lets []one
			ok := true
			for i := range v.Lhs {
				id, isId := v.Lhs[i].(*ast.Ident)
				if !isId {
					if name, isField := a.fieldVars[srcOf(v.Lhs[i])]; isField {
						id, isId = ast.NewIdent(name), true
					}
				}
				if !isId {
					ok = false
					break
				}
				val, k := a.expr(v.Rhs[i], en)
				if k == kLit {
					k = kI
					val = "(" + val + " : Int)"
				}
				lets = append(lets, one{id.Name, val, k})
			}
			if ok {
				if len(lets) > 1 {
					// fresh temporaries first, so that a swap-like assignment keeps its meaning
					for i, l := range lets {
						out += fmt.Sprintf("%slet tmp%d_ : %s := %s\n", ind, i, leanType(l.k), l.val)
					}
					for i, l := range lets {
						out += fmt.Sprintf("%slet %s : %s := tmp%d_\n", ind, l.name, leanType(l.k), i)
						en2[l.name] = l.k
					}
				} else {
					l := lets[0]
					out += fmt.Sprintf("%slet %s : %s := %s\n", ind, l.name, leanType(l.k), l.val)
					en2[l.name] = l.k
				}
				return out + a.block(rest, en2, ind)
			}
		}
	case *ast.SwitchStmt:
		if v.Tag == nil && v.Init == nil {
			// tagless switch = if / else-if chain in source order (a default clause, wherever it stands, comes last)
			var def []ast.Stmt
			hasDef := false
			type arm struct {
				cond string
				body []ast.Stmt
			}
			var arms []arm
			okSw := true
			for _, cc := range v.Body.List {
				cl := cc.(*ast.CaseClause)
				for _, st := range cl.Body {
					if br, ok := st.(*ast.BranchStmt); ok && br.Tok == token.FALLTHROUGH {
						okSw = false
					}
				}
				if cl.List == nil {
					def, hasDef = cl.Body, true
					continue
				}
				cs := []string{}
				for _, e := range cl.List {
					c, k := a.expr(e, en)
					if k != kB {
						c, _ = a.unk("case: " + srcOf(e))
					}
					cs = append(cs, c)
				}
				arms = append(arms, arm{"(" + strings.Join(cs, " || ") + ")", cl.Body})
			}
			if okSw {
				_ = hasDef
				out := ""
				cur := ind
				for _, m := range arms {
					out += cur + "if " + m.cond + " = true then\n" + a.block(append(append([]ast.Stmt{}, m.body...), rest...), en.copy(), cur+"  ") + "\n" + cur + "else\n"
					cur += "  "
				}
				return out + a.block(append(append([]ast.Stmt{}, def...), rest...), en.copy(), cur)
			}
		}
	case *ast.IfStmt:
		if v.Init != nil {
			if as, ok := v.Init.(*ast.AssignStmt); ok {
				cp := *v
				cp.Init = nil
				return a.block(append([]ast.Stmt{as, &cp}, rest...), en, ind)
			}
		}
		if v.Init == nil {
			c, k := a.expr(v.Cond, en)
			if k != kB {
				c, _ = a.unk("condition: " + srcOf(v.Cond))
			}
			thenS := append(append([]ast.Stmt{}, v.Body.List...), rest...)
			var elseS []ast.Stmt
			switch e := v.Else.(type) {
			case nil:
				elseS = rest
			case *ast.BlockStmt:
				elseS = append(append([]ast.Stmt{}, e.List...), rest...)
			case *ast.IfStmt:
				elseS = append([]ast.Stmt{e}, rest...)
			}
			return ind + "if " + c + " = true then\n" + a.block(thenS, en.copy(), ind+"  ") + "\n" + ind + "else\n" + a.block(elseS, en.copy(), ind+"  ")
		}
	}
	u, _ := a.unk("statement: " + srcOf0(s))
	return ind + u
}

func srcOf0(s ast.Stmt) string {
	var b strings.Builder
	fmt.Fprintf(&b, "%T", s)
	return b.String()
}

// allEqualOK: is allEqual(matchValue, values...) "every value equals matchValue"?
func allEqualOK(fd *ast.FuncDecl) bool {
	if fd == nil || fd.Body == nil || len(fd.Body.List) != 2 || fd.Type.Params == nil || len(fd.Type.Params.List) != 2 {
		return false
	}
	m := fd.Type.Params.List[0].Names[0].Name
	xs := fd.Type.Params.List[1].Names[0].Name
	rs, ok := fd.Body.List[0].(*ast.RangeStmt)
	if !ok || srcOf(rs.X) != xs || rs.Value == nil || len(rs.Body.List) != 1 {
		return false
	}
	v := srcOf(rs.Value)
	is, ok := rs.Body.List[0].(*ast.IfStmt)
	if !ok || is.Else != nil || len(is.Body.List) != 1 {
		return false
	}
	c := srcOf(is.Cond)
	if c != v+" != "+m && c != m+" != "+v {
		return false
	}
	if r, ok := is.Body.List[0].(*ast.ReturnStmt); !ok || len(r.Results) != 1 || srcOf(r.Results[0]) != "false" {
		return false
	}
	r, ok := fd.Body.List[1].(*ast.ReturnStmt)
	return ok && len(r.Results) == 1 && srcOf(r.Results[0]) == "true"
}

func genArith(repo, out string) {
	f := parse(filepath.Join(repo, "pkg/controller/util.go"))
	fns := map[string]*ast.FuncDecl{}
	for _, d := range f.Decls {
		if fd, ok := d.(*ast.FuncDecl); ok && fd.Recv == nil {
			fns[fd.Name.Name] = fd
		}
	}
	var b strings.Builder
	b.WriteString("/- GENERATED by /verif/extract from /repo/pkg/controller/util.go — do not edit. -/\nnamespace Esc.Gen\n\n")
	b.WriteString("/-- A construct of util.go the translator does not understand: opaque, so nothing can be proved from it. -/\nopaque arithUnknown : Nat → Int\n\n")
	b.WriteString("/-- The same, of whatever type the place it stands in needs (a condition, a value, a result). -/\nopaque anyUnknown {α : Type} [Inhabited α] : Nat → α\n\n")
	b.WriteString("/-- A float64 that is either an ordinary value (the rational it denotes) or the sentinel `math.MaxFloat64`. -/\ninductive F where\n  | fin (q : Rat)\n  | maxFloat\nderiving DecidableEq, Repr, Inhabited\n\n")
	b.WriteString("def F.val : F → Rat\n  | .fin q => q\n  | .maxFloat => 0\n\n")
	b.WriteString("/-- `math.Max`, `<` and `>` against an ordinary value, with `math.MaxFloat64` above every ordinary value. -/\n")
	b.WriteString("def F.max : F → F → F\n  | .fin a, .fin b => .fin (Max.max a b)\n  | _, _ => .maxFloat\n")
	b.WriteString("def F.lt : F → Rat → Bool\n  | .fin a, q => decide (a < q)\n  | .maxFloat, _ => false\n")
	b.WriteString("def F.gt : F → Rat → Bool\n  | .fin a, q => decide (a > q)\n  | .maxFloat, _ => true\n\n")
	b.WriteString("/-- `allEqual(matchValue, values...)`: the source was read as \"every value equals matchValue\" iff `allEqualRead`. -/\n")
	b.WriteString("def allEqual (m : Int) (xs : List Int) : Bool := xs.all (fun x => decide (x = m))\n")
	fmt.Fprintf(&b, "def allEqualRead : Bool := %v\n\n", allEqualOK(fns["allEqual"]))
	total := 0
	// calcPercentUsage
	{
		a := &ar{fn: "calcPercentUsage", atoms: map[string][2]string{
			"cpuRequest.MilliValue()": {"cpuReq", "I"}, "memRequest.MilliValue()": {"memReq", "I"},
			"cpuCapacity.MilliValue()": {"cpuCap", "I"}, "memCapacity.MilliValue()": {"memCap", "I"},
			"numberOfUntaintedNodes": {"n", "I"}, "math.MaxFloat64": {"Gen.F.maxFloat", "F"},
		}}
		body := "  " + "(Gen.F.fin 0, Gen.F.fin 0, true) -- function not found"
		if fd := fns["calcPercentUsage"]; fd != nil && fd.Body != nil {
			body = a.block(fd.Body.List, env{}, "  ")
		} else {
			a.unknown++
		}
		b.WriteString("/-- `calcPercentUsage` on milli values: (cpu %, mem %, an error is returned). -/\n")
		b.WriteString("def calcPercentUsage (rnd : Rat → Rat) (cpuReq memReq cpuCap memCap n : Int) : F × F × Bool :=\n" + body + "\n\n")
		total += a.unknown
	}
	// calcScaleUpDelta
	{
		a := &ar{fn: "calcScaleUpDelta", atoms: map[string][2]string{
			"len(allNodes)": {"n", "I"}, "nodeGroup.Opts.ScaleUpThresholdPercent": {"T", "I"},
			"cpuRequest.MilliValue()": {"cpuReq", "I"}, "memRequest.MilliValue()": {"memReq", "I"},
			"nodeGroup.cpuCapacity.MilliValue()": {"cachedCPU", "I"}, "nodeGroup.memCapacity.MilliValue()": {"cachedMem", "I"},
			"nodeGroup.cpuCapacity.IsZero()": {"decide (cachedCPU = 0)", "B"}, "nodeGroup.memCapacity.IsZero()": {"decide (cachedMem = 0)", "B"},
			"math.MaxFloat64": {"Gen.F.maxFloat", "F"},
		}}
		body := "  (0, true) -- function not found"
		if fd := fns["calcScaleUpDelta"]; fd != nil && fd.Body != nil {
			body = a.block(fd.Body.List, env{"cpuPercent": kF, "memPercent": kF}, "  ")
		} else {
			a.unknown++
		}
		b.WriteString("/-- `calcScaleUpDelta`: (delta, the \"negative scale up delta\" error is returned). `Quantity.IsZero` is read as\n    \"milli value = 0\" (the same thing for the non-negative quantities of the domain). -/\n")
		b.WriteString("def calcScaleUpDelta (rnd : Rat → Rat) (n : Int) (cpuPercent memPercent : F) (cpuReq memReq cachedCPU cachedMem T : Int) : Int × Bool :=\n" + body + "\n\n")
		total += a.unknown
	}
	fmt.Fprintf(&b, "def numArithUnknown : Nat := %d\n\nend Esc.Gen\n", total)
	writeIfChanged(filepath.Join(out, "Arith.lean"), b.String())
}
