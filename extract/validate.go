package main

// Translation of ValidateNodeGroup (and the small helpers it calls) into Lean.
//
// Supported expression subset: field selectors on the receiver/parameter, integer and string
// literals, len(x), comparison and boolean operators, parentheses, calls of the four duration
// accessors, of autoDiscoverMinMaxNodeOptions, validTaintEffect, validAWSLifecycle and
// validMaxNodeAgeDuration, map index k8s.TaintEffectTypes[x], the constants aws.LifecycleOnDemand /
// aws.LifecycleSpot. Anything else becomes `Gen.unknown n`, about which nothing can be proved.

import (
	"fmt"
	"go/ast"
	"go/token"
	"path/filepath"
	"strings"
)

var fieldMap = map[string]string{
	"Name": "name", "LabelKey": "labelKey", "LabelValue": "labelValue", "CloudProviderGroupName": "cloudGroup",
	"MinNodes": "minNodes", "MaxNodes": "maxNodes",
	"TaintUpperCapacityThresholdPercent": "upper", "TaintLowerCapacityThresholdPercent": "lower", "ScaleUpThresholdPercent": "scaleUp",
	"SlowNodeRemovalRate": "slow", "FastNodeRemovalRate": "fast",
	"SoftDeleteGracePeriod": "softStr", "HardDeleteGracePeriod": "hardStr", "ScaleUpCoolDownPeriod": "coolStr",
	"TaintEffect": "taintEffect", "MaxNodeAge": "maxNodeAge",
}

var stringFields = map[string]bool{"name": true, "labelKey": true, "labelValue": true, "cloudGroup": true, "softStr": true, "hardStr": true,
	"coolStr": true, "taintEffect": true, "maxNodeAge": true, "lifecycle": true}

var accessorMap = map[string]string{
	"SoftDeleteGracePeriodDuration": "softNs", "HardDeleteGracePeriodDuration": "hardNs",
	"ScaleUpCoolDownPeriodDuration": "coolNs", "MaxNodeAgeDuration": "maxAgeNs",
}

type xl struct {
	locals  map[string]string // simple local definitions `x := <expr>` inlined (Lean text)
	recv    string // name of the struct-typed variable in scope ("nodegroup", "n")
	param   string // name of a plain parameter in scope and its Lean name
	paramTo string
	unknown int
}

func (x *xl) unk() string {
	x.unknown++
	return fmt.Sprintf("(Gen.unknown %d)", x.unknown)
}

// expr translates a Go boolean/integer/string expression. Returns Lean text.
func (x *xl) expr(e ast.Expr) string {
	switch v := e.(type) {
	case *ast.ParenExpr:
		return "(" + x.expr(v.X) + ")"
	case *ast.BasicLit:
		if v.Kind == token.INT {
			return "(" + v.Value + " : Int)"
		}
		if v.Kind == token.STRING {
			return leanStr(v.Value)
		}
	case *ast.Ident:
		if v.Name == x.param {
			return x.paramTo
		}
		if v.Name == "true" || v.Name == "false" {
			return v.Name
		}
		if l, ok := x.locals[v.Name]; ok {
			return l
		}
	case *ast.UnaryExpr:
		if v.Op == token.NOT {
			return "(!" + x.expr(v.X) + ")"
		}
	case *ast.BinaryExpr:
		l, r := x.expr(v.X), x.expr(v.Y)
		switch v.Op {
		case token.LAND:
			return "(" + l + " && " + r + ")"
		case token.LOR:
			return "(" + l + " || " + r + ")"
		case token.LSS:
			return "decide (" + l + " < " + r + ")"
		case token.LEQ:
			return "decide (" + l + " ≤ " + r + ")"
		case token.GTR:
			return "decide (" + l + " > " + r + ")"
		case token.GEQ:
			return "decide (" + l + " ≥ " + r + ")"
		case token.EQL:
			return "(" + l + " == " + r + ")"
		case token.NEQ:
			return "(" + l + " != " + r + ")"
		}
	case *ast.SelectorExpr:
		// nodegroup.Field, nodegroup.AWS.Lifecycle, aws.LifecycleOnDemand
		if id, ok := v.X.(*ast.Ident); ok {
			if id.Name == x.recv {
				if f, ok := fieldMap[v.Sel.Name]; ok {
					return "c." + f
				}
			}
			if id.Name == "aws" && v.Sel.Name == "LifecycleOnDemand" {
				return "Gen.lifecycleOnDemand"
			}
			if id.Name == "aws" && v.Sel.Name == "LifecycleSpot" {
				return "Gen.lifecycleSpot"
			}
		}
		if inner, ok := v.X.(*ast.SelectorExpr); ok {
			if id, ok := inner.X.(*ast.Ident); ok && id.Name == x.recv && inner.Sel.Name == "AWS" && v.Sel.Name == "Lifecycle" {
				return "c.lifecycle"
			}
		}
	case *ast.IndexExpr:
		// k8s.TaintEffectTypes[x]
		if s, ok := v.X.(*ast.SelectorExpr); ok && s.Sel.Name == "TaintEffectTypes" {
			return "(Gen.taintEffects.contains " + x.expr(v.Index) + ")"
		}
	case *ast.CallExpr:
		switch f := v.Fun.(type) {
		case *ast.Ident:
			if f.Name == "len" && len(v.Args) == 1 {
				return "((" + x.expr(v.Args[0]) + ").length : Int)"
			}
			if (f.Name == "validTaintEffect" || f.Name == "validAWSLifecycle") && len(v.Args) == 1 {
				return "(Gen." + f.Name + " " + x.expr(v.Args[0]) + ")"
			}
			if f.Name == "validMaxNodeAgeDuration" && len(v.Args) == 1 {
				// time.ParseDuration is outside the translator: the verdict is a field of the input
				return "c.maxNodeAgeParses"
			}
		case *ast.SelectorExpr:
			if id, ok := f.X.(*ast.Ident); ok && id.Name == x.recv {
				if a, ok := accessorMap[f.Sel.Name]; ok {
					return "c." + a
				}
				if f.Sel.Name == "autoDiscoverMinMaxNodeOptions" {
					return "(Gen.autoDiscover c)"
				}
			}
		}
	}
	return x.unk()
}

func findFunc(f *ast.File, name string) *ast.FuncDecl {
	for _, d := range f.Decls {
		if fd, ok := d.(*ast.FuncDecl); ok && fd.Name.Name == name {
			return fd
		}
	}
	return nil
}

// singleReturn extracts `return <expr>` from a one-statement function body.
func singleReturn(fd *ast.FuncDecl) ast.Expr {
	if fd == nil || fd.Body == nil || len(fd.Body.List) != 1 {
		return nil
	}
	rs, ok := fd.Body.List[0].(*ast.ReturnStmt)
	if !ok || len(rs.Results) != 1 {
		return nil
	}
	return rs.Results[0]
}

func genValidate(repo, out string, ng *ast.File) {
	var b strings.Builder
	b.WriteString("/- GENERATED by /verif/extract from /repo/pkg/controller/node_group.go — do not edit. -/\nimport Esc.Gen.Consts\nnamespace Esc.Gen\n\n")
	b.WriteString("/-- A construct the translator does not understand: opaque, so nothing can be proved from it. -/\nopaque unknown : Nat → Bool\n\n")
	b.WriteString(`/-- The options ValidateNodeGroup reads. Durations are what the accessors return (0 on a parse
    error); ` + "`maxNodeAgeParses`" + ` is whether time.ParseDuration accepts max_node_age (or it is empty). -/
structure RawCfg where
  name : String
  labelKey : String
  labelValue : String
  cloudGroup : String
  minNodes : Int
  maxNodes : Int
  upper : Int
  lower : Int
  scaleUp : Int
  slow : Int
  fast : Int
  softStr : String
  hardStr : String
  coolStr : String
  softNs : Int
  hardNs : Int
  coolNs : Int
  maxAgeNs : Int
  taintEffect : String
  lifecycle : String
  maxNodeAge : String
  maxNodeAgeParses : Bool
deriving Repr, Inhabited

`)
	// helpers
	x := &xl{}
	if fd := findFunc(ng, "autoDiscoverMinMaxNodeOptions"); fd != nil && fd.Recv != nil && len(fd.Recv.List) == 1 {
		x.recv = fd.Recv.List[0].Names[0].Name
		if r := singleReturn(fd); r != nil {
			fmt.Fprintf(&b, "def autoDiscover (c : RawCfg) : Bool := %s\n\n", x.expr(r))
		} else {
			fmt.Fprintf(&b, "def autoDiscover (c : RawCfg) : Bool := %s\n\n", x.unk())
		}
	} else {
		fmt.Fprintf(&b, "def autoDiscover (c : RawCfg) : Bool := %s\n\n", x.unk())
	}
	for _, h := range []string{"validTaintEffect", "validAWSLifecycle"} {
		fd := findFunc(ng, h)
		hx := &xl{unknown: x.unknown}
		body := ""
		if fd != nil && len(fd.Type.Params.List) == 1 && len(fd.Type.Params.List[0].Names) == 1 {
			hx.param = fd.Type.Params.List[0].Names[0].Name
			hx.paramTo = "s"
			if r := singleReturn(fd); r != nil {
				body = hx.expr(r)
			}
		}
		if body == "" {
			body = hx.unk()
		}
		x.unknown = hx.unknown
		fmt.Fprintf(&b, "def %s (s : String) : Bool := %s\n\n", h, body)
	}
	// the checks
	fd := findFunc(ng, "ValidateNodeGroup")
	var checks []string
	var msgs []string
	if fd == nil || len(fd.Type.Params.List) != 1 {
		fail("ValidateNodeGroup not found")
	}
	x.recv = fd.Type.Params.List[0].Names[0].Name
	// collect every checkThat(cond, msg, ...) call inside a node, in source order: as a statement of its own, or as an
	// element of a slice literal / an argument of append (table-driven forms of the same function)
	collect := func(n ast.Node, guard string) {
		ast.Inspect(n, func(nd ast.Node) bool {
			if _, isFunc := nd.(*ast.FuncLit); isFunc {
				return false // the body of the checkThat closure itself
			}
			call, ok := nd.(*ast.CallExpr)
			if !ok {
				return true
			}
			if id, ok := call.Fun.(*ast.Ident); ok && id.Name == "checkThat" && len(call.Args) >= 2 {
				c := x.expr(call.Args[0])
				if guard != "" {
					c = "((!" + guard + ") || " + c + ")"
				}
				checks = append(checks, c)
				msg := "?"
				if bl, ok := call.Args[1].(*ast.BasicLit); ok {
					msg = bl.Value
				}
				msgs = append(msgs, msg)
				return false
			}
			return true
		})
	}
	var walk func(stmts []ast.Stmt, guard string)
	walk = func(stmts []ast.Stmt, guard string) {
		for _, st := range stmts {
			switch s := st.(type) {
			case *ast.ExprStmt:
				collect(s, guard)
			case *ast.DeclStmt:
				collect(s, guard)
			case *ast.AssignStmt:
				collect(s, guard)
				// x := <expr> (single, simple): inline
				if s.Tok == token.DEFINE && len(s.Lhs) == 1 && len(s.Rhs) == 1 {
					if id, ok := s.Lhs[0].(*ast.Ident); ok {
						if _, isFunc := s.Rhs[0].(*ast.FuncLit); !isFunc {
							if x.locals == nil {
								x.locals = map[string]string{}
							}
							x.locals[id.Name] = x.expr(s.Rhs[0])
						}
					}
				}
			case *ast.IfStmt:
				g := x.expr(s.Cond)
				if guard != "" {
					g = "(" + guard + " && " + g + ")"
				}
				walk(s.Body.List, g)
				if s.Else != nil {
					// not used by the source today: fail closed
					checks = append(checks, x.unk())
					msgs = append(msgs, "\"else branch\"")
				}
			}
		}
	}
	walk(fd.Body.List, "")
	b.WriteString("/-- One Boolean per `checkThat(...)`, in source order (a guarded check passes when its guard is off). -/\ndef checks (c : RawCfg) : List Bool :=\n  [")
	for i, c := range checks {
		sep := ","
		if i == len(checks)-1 {
			sep = ""
		}
		if i > 0 {
			b.WriteString("\n   ")
		}
		fmt.Fprintf(&b, "%s%s  -- %s", c, sep, strings.ReplaceAll(msgs[i], "\n", " "))
	}
	// the trailing comment must not swallow the bracket
	b.WriteString("\n  ]\n\n")
	b.WriteString("/-- `len(ValidateNodeGroup(c)) == 0`. -/\ndef validate (c : RawCfg) : Bool := (checks c).all id\n\n")
	// only the opaque placeholders that made it into a definition count (a local that is never used in a check does not)
	used := strings.Count(b.String(), "(Gen.unknown ")
	fmt.Fprintf(&b, "def numChecks : Nat := %d\ndef numUnknown : Nat := %d\n\nend Esc.Gen\n", len(checks), used)
	writeIfChanged(filepath.Join(out, "Validate.lean"), b.String())
}
