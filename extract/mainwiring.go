package main

// Facts about cmd/main.go's func main: how the fields of the `controller.Opts{...}` literal handed to NewController are
// wired to the command-line flags and to the results of the set-up functions. The inline part of main cannot be run
// without a cluster and a cloud; these facts are what ties it to the model (Esc.assemble is what setupNodeGroups /
// setupCloudProvider produce — checked by running them — and the literal hands exactly those on).
//
// Normal form of a value:  *flagVar -> "flag:<name>", flagVar -> "flagptr:<name>", a local assigned once from a call
// f(args) -> "f(<normalised args>)", a local assigned more than once -> "reassigned:<name>", anything else -> "src:<text>".

import (
	"bytes"
	"fmt"
	"go/ast"
	"go/printer"
	"go/token"
	"path/filepath"
	"sort"
	"strconv"
	"strings"
)

func srcOfNode(n ast.Node) string {
	var b bytes.Buffer
	printer.Fprint(&b, fset, n)
	return strings.Join(strings.Fields(b.String()), " ")
}

func srcOf(e ast.Expr) string {
	var b bytes.Buffer
	printer.Fprint(&b, fset, e)
	return strings.Join(strings.Fields(b.String()), " ")
}

// flagVars: package-level `x = kingpin.Flag("name", ...).….T()` -> x -> name
func flagVars(f *ast.File) map[string]string {
	out := map[string]string{}
	for _, d := range f.Decls {
		gd, ok := d.(*ast.GenDecl)
		if !ok || gd.Tok != token.VAR {
			continue
		}
		for _, s := range gd.Specs {
			vs := s.(*ast.ValueSpec)
			for i, n := range vs.Names {
				if i >= len(vs.Values) {
					continue
				}
				ast.Inspect(vs.Values[i], func(x ast.Node) bool {
					c, ok := x.(*ast.CallExpr)
					if !ok {
						return true
					}
					if se, ok := c.Fun.(*ast.SelectorExpr); ok && se.Sel.Name == "Flag" && len(c.Args) > 0 {
						if id, ok := se.X.(*ast.Ident); ok && id.Name == "kingpin" {
							if bl, ok := c.Args[0].(*ast.BasicLit); ok && bl.Kind == token.STRING {
								name, _ := strconv.Unquote(bl.Value)
								out[n.Name] = name
							}
						}
					}
					return true
				})
			}
		}
	}
	return out
}

type wiring struct {
	flags   map[string]string
	defs    map[string]ast.Expr // local -> defining call
	assigns map[string]int      // local -> number of assignments
}

func (w *wiring) norm(e ast.Expr, depth int) string {
	if depth > 6 {
		return "src:" + srcOf(e)
	}
	switch v := e.(type) {
	case *ast.ParenExpr:
		return w.norm(v.X, depth)
	case *ast.StarExpr:
		if id, ok := v.X.(*ast.Ident); ok {
			if n, ok := w.flags[id.Name]; ok {
				return "flag:" + n
			}
		}
	case *ast.Ident:
		if n, ok := w.flags[v.Name]; ok {
			return "flagptr:" + n
		}
		if w.assigns[v.Name] > 1 {
			return "reassigned:" + v.Name
		}
		if d, ok := w.defs[v.Name]; ok {
			return w.norm(d, depth+1)
		}
	case *ast.CompositeLit:
		if se, ok := v.Type.(*ast.SelectorExpr); ok && se.Sel.Name == "Opts" {
			return "controller.Opts{…}"
		}
	case *ast.CallExpr:
		if id, ok := v.Fun.(*ast.Ident); ok {
			args := make([]string, len(v.Args))
			for i, a := range v.Args {
				args[i] = w.norm(a, depth+1)
			}
			return id.Name + "(" + strings.Join(args, ",") + ")"
		}
	}
	return "src:" + srcOf(e)
}

func genMain(repo, out string) {
	f := parse(filepath.Join(repo, "cmd/main.go"))
	w := &wiring{flags: flagVars(f), defs: map[string]ast.Expr{}, assigns: map[string]int{}}
	var mainFn *ast.FuncDecl
	for _, d := range f.Decls {
		if fd, ok := d.(*ast.FuncDecl); ok && fd.Name.Name == "main" && fd.Recv == nil {
			mainFn = fd
		}
	}
	pairs := [][2]string{}
	found := false
	if mainFn != nil && mainFn.Body != nil {
		ast.Inspect(mainFn.Body, func(x ast.Node) bool {
			as, ok := x.(*ast.AssignStmt)
			if !ok {
				return true
			}
			for i, l := range as.Lhs {
				id, ok := l.(*ast.Ident)
				if !ok || id.Name == "_" || id.Name == "err" {
					continue
				}
				w.assigns[id.Name]++
				if len(as.Rhs) == 1 {
					if i == 0 {
						w.defs[id.Name] = as.Rhs[0]
					}
				} else if i < len(as.Rhs) {
					w.defs[id.Name] = as.Rhs[i]
				}
			}
			return true
		})
		ast.Inspect(mainFn.Body, func(x ast.Node) bool {
			cl, ok := x.(*ast.CompositeLit)
			if !ok || found {
				return true
			}
			se, ok := cl.Type.(*ast.SelectorExpr)
			if !ok || se.Sel.Name != "Opts" {
				return true
			}
			if id, ok := se.X.(*ast.Ident); !ok || id.Name != "controller" {
				return true
			}
			found = true
			for _, e := range cl.Elts {
				kv, ok := e.(*ast.KeyValueExpr)
				if !ok {
					found = false // positional literal: not read
					return false
				}
				k, ok := kv.Key.(*ast.Ident)
				if !ok {
					continue
				}
				pairs = append(pairs, [2]string{k.Name, w.norm(kv.Value, 0)})
			}
			return false
		})
	}
	ctorArg := ""
	if mainFn != nil && mainFn.Body != nil {
		ast.Inspect(mainFn.Body, func(x ast.Node) bool {
			c, ok := x.(*ast.CallExpr)
			if !ok {
				return true
			}
			if se, ok := c.Fun.(*ast.SelectorExpr); ok && se.Sel.Name == "NewController" && len(c.Args) > 0 {
				ctorArg = w.norm(c.Args[0], 0)
			}
			return true
		})
	}
	sort.Slice(pairs, func(i, j int) bool { return pairs[i][0] < pairs[j][0] })
	var b strings.Builder
	b.WriteString("/- GENERATED by /verif/extract from /repo/cmd/main.go — do not edit. -/\nnamespace Esc.Gen\n\n")
	b.WriteString("/-- Was the `controller.Opts{…}` literal of `func main` found and read (keyed fields)? -/\n")
	fmt.Fprintf(&b, "def mainOptsFound : Bool := %v\n\n", found)
	fmt.Fprintf(&b, "/-- Normal form of the first argument of `controller.NewController` in `func main`. -/\ndef mainCtorArg : String := %s\n\n", strconv.Quote(ctorArg))
	b.WriteString("/-- Field ↦ normal form of the value it is given (see extract/mainwiring.go), sorted by field. -/\n")
	b.WriteString("def mainOpts : List (String × String) :=\n  [")
	for i, p := range pairs {
		if i > 0 {
			b.WriteString(",\n   ")
		}
		fmt.Fprintf(&b, "(%s, %s)", strconv.Quote(p[0]), strconv.Quote(p[1]))
	}
	b.WriteString("]\n\nend Esc.Gen\n")
	writeIfChanged(filepath.Join(out, "Main.lean"), b.String())
}

// genForever: facts about Controller.RunForever (pkg/controller/controller.go), the loop around RunOnce that the harness
// does not drive: how many call sites of c.RunOnce() it has and how many of them hand a non-nil error straight back to the
// caller (`err := c.RunOnce(); if err != nil { return err }`). The model's notion of a controller lifetime — a fatal scan
// ends it — rests on every call site doing so.
func genForever(repo, out string) {
	f := parse(filepath.Join(repo, "pkg/controller/controller.go"))
	var fn *ast.FuncDecl
	for _, d := range f.Decls {
		if fd, ok := d.(*ast.FuncDecl); ok && fd.Name.Name == "RunForever" && fd.Recv != nil {
			fn = fd
		}
	}
	sites, returned := 0, 0
	if fn != nil && fn.Body != nil {
		recv := ""
		if len(fn.Recv.List) > 0 && len(fn.Recv.List[0].Names) > 0 {
			recv = fn.Recv.List[0].Names[0].Name
		}
		isRunOnce := func(e ast.Expr) bool {
			c, ok := e.(*ast.CallExpr)
			return ok && srcOf(c.Fun) == recv+".RunOnce" && len(c.Args) == 0
		}
		ast.Inspect(fn.Body, func(x ast.Node) bool {
			if c, ok := x.(*ast.CallExpr); ok && isRunOnce(c) {
				sites++
			}
			var list []ast.Stmt
			switch b := x.(type) {
			case *ast.BlockStmt:
				list = b.List
			case *ast.CaseClause:
				list = b.Body
			case *ast.CommClause:
				list = b.Body
			}
			for i, s := range list {
				as, ok := s.(*ast.AssignStmt)
				if !ok || len(as.Lhs) != 1 || len(as.Rhs) != 1 || !isRunOnce(as.Rhs[0]) || i+1 >= len(list) {
					continue
				}
				ev := srcOf(as.Lhs[0])
				is, ok := list[i+1].(*ast.IfStmt)
				if !ok || is.Init != nil || srcOf(is.Cond) != ev+" != nil" || len(is.Body.List) == 0 {
					continue
				}
				if r, ok := is.Body.List[len(is.Body.List)-1].(*ast.ReturnStmt); ok && len(r.Results) == 1 && srcOf(r.Results[0]) == ev {
					returned++
				}
			}
			return true
		})
	}
	var b strings.Builder
	b.WriteString("/- GENERATED by /verif/extract from /repo/pkg/controller/controller.go (RunForever) — do not edit. -/\nnamespace Esc.Gen\n\n")
	fmt.Fprintf(&b, "/-- Call sites of `c.RunOnce()` in `RunForever`. -/\ndef runOnceCallSites : Nat := %d\n\n", sites)
	fmt.Fprintf(&b, "/-- Those of the form `err := c.RunOnce(); if err != nil { …; return err }`. -/\ndef runOnceErrorsReturned : Nat := %d\n\nend Esc.Gen\n", returned)
	writeIfChanged(filepath.Join(out, "Forever.lean"), b.String())
}
